import Agd.Tie.TrC07
import Agd.Lemmas.Pools
import Agd.Lemmas.PoolCtx
import Agd.Model.PoolRelease
import Agd.Tie.C07
/-!
# C07 — concurrent clients never see each other's answers, policies or identities

Property theorems only, about the ownership model `Agd/Model/Pools.lean` of the message cloner
(`Cloner.Clone` / `Dispose`, the per-type clone/put pairs, the pooled constructors, and Go's `append` on the
slices of a message whose backing arrays — spare capacity included — are objects of their own).  Helper
lemmas live in `Agd/Lemmas/Pools.lean`.

The second part (namespace `Agd.PoolCtx`, at the end) is about the other pooled objects of a request: the request
contexts `agd.RequestInfo`, `mainmw.filteringContext`, `filter.Request`, `filter.Response` and
`ecscache.cacheRequest` (model `Agd/Model/PoolCtx.lean`, lemmas `Agd/Lemmas/PoolCtx.lean`).
-/
namespace Agd.Pools

/-- A message that was not made by the cloner is well formed: every object lies inside the extent,
objects do not overlap in the cells they use, and what `Dispose` would give to the pools for two of its
objects does not overlap. -/
def SpecsOk (span : Nat) (ps : List Spec) : Prop :=
  (∀ p ∈ ps, p.off + p.cap ≤ span ∧ p.vals.length ≤ p.cap) ∧
  (∀ base, (ps.map (specObj base)).Pairwise UseDisj) ∧
  (∀ base, (ps.map (specObj base)).Pairwise DonDisj)

/-- The handle an operation writes to / creates / releases. -/
def target : Op → Nat
  | .new d _ _ => d
  | .clone _ b => b
  | .dispose h => h
  | .make d _ _ _ => d
  | .poke h _ _ _ => h
  | .grow h _ _ _ => h
  | .ins d _ _ _ _ => d

/-- Side conditions of one operation: new handles are unused, foreign messages are well formed, an in-place
`append` does not write into a cell that a sibling object of the same message uses (`GrowOk`). -/
def OpOk (s : St) : Op → Prop
  | .new d span ps => s.live d = none ∧ SpecsOk span ps
  | .clone a b => s.live b = none ∧ a ≠ b
  | .dispose _ => True
  | .make _ _ _ _ => True
  | .poke _ _ _ _ => True
  | .grow h i _ _ => GrowOk s h i
  | .ins _ _ _ _ _ => True

/-- The ownership discipline over a history (handles model "disposed at most once, never used after"). -/
def Disc (s : St) : List Op → Prop
  | [] => True
  | op :: r => OpOk s op ∧ Disc (step s op) r

/-- What a holder of handle `h` can observe. -/
def view (s : St) (h : Nat) : Option (List (Nat × List Nat)) := (s.live h).map (contentM s.heap)

/-! ## Checking `SpecsOk` on a concrete layout -/

/-- The cells in use of two described objects do not overlap (offsets only). -/
def SpecUse (p q : Spec) : Prop :=
  p.vals.length = 0 ∨ q.vals.length = 0 ∨ p.off + p.vals.length ≤ q.off ∨ q.off + q.vals.length ≤ p.off

/-- Number of cells `Dispose` gives to the pools for a described object (0: nothing). -/
def donSize (p : Spec) : Nat :=
  if pooled p.kind then (if p.kind = kBuf then (if p.cap = bufSize then bufSize else 0) else p.cap) else 0

def SpecDon (p q : Spec) : Prop :=
  donSize p = 0 ∨ donSize q = 0 ∨ p.off + donSize p ≤ q.off ∨ q.off + donSize q ≤ p.off

instance : DecidableRel SpecUse := fun p q => by unfold SpecUse; infer_instance
instance : DecidableRel SpecDon := fun p q => by unfold SpecDon; infer_instance

theorem donate_specObj (base : Nat) (p : Spec) (e : Ent) (h : donate (specObj base p) = some e) :
    e.start = base + p.off ∧ e.size = donSize p := by
  replace h : (if pooled p.kind then
      (if p.kind = kBuf then (if p.cap = bufSize then some (⟨kBuf, base + p.off, bufSize⟩ : Ent) else none)
       else some ⟨p.kind, base + p.off, p.cap⟩) else none) = some e := h
  unfold donSize
  by_cases c1 : pooled p.kind = true
  · rw [if_pos c1] at h ⊢
    by_cases c2 : p.kind = kBuf
    · rw [if_pos c2] at h ⊢
      by_cases c3 : p.cap = bufSize
      · rw [if_pos c3] at h ⊢
        cases h; simp
      · rw [if_neg c3] at h; cases h
    · rw [if_neg c2] at h ⊢
      cases h; simp
  · rw [if_neg c1] at h; cases h

/-- `SpecsOk` reduced to a check that does not mention the allocation base. -/
theorem specsOk_of (span : Nat) (ps : List Spec)
    (h1 : ∀ p ∈ ps, p.off + p.cap ≤ span ∧ p.vals.length ≤ p.cap)
    (h2 : ps.Pairwise SpecUse) (h3 : ps.Pairwise SpecDon) : SpecsOk span ps := by
  refine ⟨h1, ?_, ?_⟩
  · intro base
    rw [List.pairwise_map]
    apply h2.imp
    intro p q hpq
    unfold SpecUse at hpq
    simp only [UseDisj, specObj]
    omega
  · intro base
    rw [List.pairwise_map]
    apply h3.imp
    intro p q hpq ea eb ha hb
    have a1 := donate_specObj base p ea ha
    have a2 := donate_specObj base q eb hb
    unfold SpecDon at hpq
    unfold EntDisj
    omega

/-! ## Concrete layouts -/

/-- The message `miekg/dns` unpacks from an HTTPS record with five IPv4 hints: one 20-byte array, hint i uses
bytes [4i,4i+4) and reaches to the end of the array. -/
def miekgFiveHints : List Spec :=
  [⟨1, 0, 20, [1,1,1,1]⟩, ⟨1, 4, 16, [2,2,2,2]⟩, ⟨1, 8, 12, [3,3,3,3]⟩, ⟨1, 12, 8, [4,4,4,4]⟩, ⟨1, 16, 4, [5,5,5,5]⟩]
/-- An unrelated message with two IPv6 hints (16 bytes each, each in its own array). -/
def twoV6Hints : List Spec := [⟨1, 0, 16, List.replicate 16 7⟩, ⟨1, 16, 16, List.replicate 16 9⟩]


theorem specsOk_miekg : SpecsOk 20 miekgFiveHints := specsOk_of _ _ (by decide) (by decide) (by decide)
theorem specsOk_twoV6 : SpecsOk 32 twoV6Hints := specsOk_of _ _ (by decide) (by decide) (by decide)

/-! ## The invariant -/

theorem inv_init : Inv St.init := by
  refine ⟨?_, ?_, ?_, ?_, ?_, ?_, ?_⟩ <;> simp [St.init]

theorem inv_step (s : St) (op : Op) (hi : Inv s) (hok : OpOk s op) : Inv (step s op) := by
  cases op with
  | new d span ps =>
    obtain ⟨_, h1, h2, h3⟩ := hok
    apply hi.setMsg _ _ d _ (Nat.le_add_right _ _) _ (h2 s.next) (h3 s.next)
    intro o ho
    obtain ⟨p, hp, rfl⟩ := List.mem_map.mp ho
    have := h1 p hp
    simp only [specObj]
    omega
  | clone a b =>
    show Inv (clone s a b).1
    cases hq : s.live a with
    | none => simpa [clone, hq] using hi
    | some m => exact (clone_spec s a b m hi hq hok.2).1
  | dispose h => exact dispose_inv s h hi
  | make d u k vs => exact (mkAppend_spec s d u k vs hi).1
  | poke h i j v => exact (poke_spec s h i j v hi).1
  | grow h i v c => exact (grow_spec s h i v c hi hok).1
  | ins d pos u k vs => exact (ins_spec s d pos u k vs hi).1

/-- pool_inv: over every disciplined history the ownership invariant holds. -/
theorem pool_inv (s : St) (ops : List Op) (hi : Inv s) (hd : Disc s ops) : Inv (run s ops) := by
  induction ops generalizing s with
  | nil => exact hi
  | cons op r ih => exact ih (step s op) (inv_step s op hi hd.1) hd.2

/-! ### Concrete disciplined histories (non-vacuity witnesses) -/

/-- An upstream answer is cloned and released, a second answer is cloned (recycling the first one's
buffers), an OPT is constructed, a clone is modified. -/
def demoOps : List Op :=
  [.new 0 20 miekgFiveHints, .clone 0 1, .dispose 0, .new 2 32 twoV6Hints, .clone 2 3,
   .make 3 true kOpt [0, 77], .poke 1 0 0 42]

theorem demo_disc : Disc St.init demoOps := by
  simp only [demoOps, Disc, OpOk]
  exact ⟨⟨by decide, specsOk_miekg⟩, ⟨by decide, by decide⟩, trivial, ⟨by decide, specsOk_twoV6⟩,
    ⟨by decide, by decide⟩, trivial, trivial, trivial⟩

/-- Non-vacuity of `pool_inv`: a history with recycling. -/
example : Inv (run St.init demoOps) := pool_inv _ _ inv_init demo_disc
/-- The second clone (handle 3) sits in the recycled buffer at cell 4. -/
example : (run St.init demoOps).next = 150 ∧
    ((run St.init demoOps).live 3).map (fun m => m.map (fun o => o.start)) = some [4, 132, 148] := by decide

/-- A state with one live clone (handle 1) and a non-empty pool. -/
def demoSt : St := run St.init [.new 0 20 miekgFiveHints, .clone 0 1, .dispose 0]

theorem demo_inv : Inv demoSt :=
  pool_inv _ _ inv_init (by
    simp only [Disc, OpOk]
    exact ⟨⟨by decide, specsOk_miekg⟩, ⟨by decide, by decide⟩, trivial, trivial⟩)

example : demoSt.pool = [⟨1, 4, 16⟩] ∧ (demoSt.live 1).isSome = true := by decide

/-- What happens next to `demoSt`: handle 1 is not targeted. -/
def demoOps2 : List Op :=
  [.new 2 32 twoV6Hints, .clone 2 3, .make 3 true kOpt [0, 77], .dispose 2, .poke 3 0 0 1]

theorem demo_disc2 : Disc demoSt demoOps2 := by
  simp only [demoOps2, Disc, OpOk]
  exact ⟨⟨by decide, specsOk_twoV6⟩, ⟨by decide, by decide⟩, trivial, trivial, trivial, trivial⟩

/-! ## Clone, frame, isolation -/

theorem view_eq (s s' : St) (h : Nat) (hl : s'.live h = s.live h)
    (hc : ∀ m, s.live h = some m → ∀ o ∈ m, content s'.heap o = content s.heap o) :
    view s' h = view s h := by
  unfold view
  rw [hl]
  cases hq : s.live h with
  | none => rfl
  | some m =>
    show some (contentM s'.heap m) = some (contentM s.heap m)
    rw [contentM_congr _ _ _ (hc m hq)]

/-- clone_equal: the clone has the content of the original. -/
theorem clone_equal (s : St) (src dst : Nat) (m : List Obj) (hi : Inv s)
    (hs : s.live src = some m) (hd : s.live dst = none) :
    view (clone s src dst).1 dst = some (contentM s.heap m) := by
  have hne : src ≠ dst := by
    intro h; subst h; rw [hs] at hd; cases hd
  obtain ⟨_, _, ⟨cl, a1, c1⟩, _⟩ := clone_spec s src dst m hi hs hne
  unfold view
  rw [a1]
  show some (contentM (clone s src dst).1.heap cl) = _
  rw [c1]

/-- Non-vacuity of `clone_equal`: cloning the live clone of `demoSt` (the pool holds a buffer). -/
example : view (clone demoSt 1 2).1 2 = some (contentM demoSt.heap ((demoSt.live 1).getD [])) :=
  clone_equal demoSt 1 2 _ demo_inv (by decide) (by decide)

/-- step_frame: one operation leaves every live message other than its target as it was. -/
theorem step_frame (s : St) (op : Op) (hi : Inv s) (hok : OpOk s op) (h : Nat) (hne : h ≠ target op) :
    view (step s op) h = view s h := by
  cases op with
  | new d span ps =>
    apply view_eq
    · exact setLive_other _ _ _ _ hne
    · intro m hm o ho
      have := hi.liveBelow h m hm o ho
      show readN (writeSpecs s.heap s.next ps) o.start o.len = readN s.heap o.start o.len
      apply readN_congr
      intro i hi'
      apply writeSpecs_below
      omega
  | clone a b =>
    show view (clone s a b).1 h = view s h
    cases hq : s.live a with
    | none => simp [clone, hq]
    | some m =>
      obtain ⟨_, l1, _, f1⟩ := clone_spec s a b m hi hq hok.2
      exact view_eq _ _ h (l1 h hne) (fun mm hm => f1 h mm hne hm)
  | dispose t =>
    show view (disposeWith donate s t) h = view s h
    unfold disposeWith
    cases hq : s.live t with
    | none => rfl
    | some m =>
      apply view_eq
      · exact setLive_other _ _ _ _ hne
      · intro _ _ _ _; rfl
  | make d u k vs =>
    obtain ⟨_, l1, _, _, f1⟩ := mkAppend_spec s d u k vs hi
    replace hne : h ≠ d := hne
    apply view_eq
    · show (appendLive (mkObj s u k vs).1 d (mkObj s u k vs).2.1).live h = s.live h
      rw [appendLive_other _ _ _ _ hne, l1]
    · intro m hm o ho
      exact f1 h m hm o ho
  | poke t i j v =>
    obtain ⟨_, l1, f1⟩ := poke_spec s t i j v hi
    apply view_eq
    · show (poke s t i j v).live h = s.live h
      rw [l1]
    · intro m hm o ho
      exact f1 h m hne hm o ho
  | grow t i v c =>
    obtain ⟨_, l1, f1⟩ := grow_spec s t i v c hi hok
    apply view_eq
    · exact l1 h hne
    · intro m hm o ho
      exact f1 h m hne hm o ho
  | ins d pos u k vs =>
    obtain ⟨_, l1, _, _, f1⟩ := ins_spec s d pos u k vs hi
    replace hne : h ≠ d := hne
    apply view_eq
    · show (insertLive (mkObj s u k vs).1 d pos (mkObj s u k vs).2.1).live h = s.live h
      rw [insertLive_other _ _ _ _ _ hne, l1]
    · intro m hm o ho
      exact f1 h m hm o ho

/-- Non-vacuity of `step_frame`: constructing into a new message recycles the pooled buffer; message 1
stays as it was (and is not empty). -/
example : view (step demoSt (.make 5 true kBuf [8, 8])) 1 = view demoSt 1 :=
  step_frame demoSt (.make 5 true kBuf [8, 8]) demo_inv trivial 1 (by decide)
example : view demoSt 1 = some [(1, [1,1,1,1]), (1, [2,2,2,2]), (1, [3,3,3,3]), (1, [4,4,4,4]), (1, [5,5,5,5])] ∧
    (step demoSt (.make 5 true kBuf [8, 8])).pool = [] := by decide

/-- isolation: over every disciplined history, a live message that no operation targets is never altered
(recycling never overwrites a message in use; releasing one message never alters another). -/
theorem isolation (s : St) (ops : List Op) (hi : Inv s) (hd : Disc s ops) (h : Nat)
    (hne : ∀ op ∈ ops, target op ≠ h) : view (run s ops) h = view s h := by
  induction ops generalizing s with
  | nil => rfl
  | cons op r ih =>
    show view (run (step s op) r) h = view s h
    rw [ih (step s op) (inv_step s op hi hd.1) hd.2 (fun o ho => hne o (List.mem_cons_of_mem _ ho))]
    exact step_frame s op hi hd.1 h (Ne.symm (hne op List.mem_cons_self))

/-- Non-vacuity of `isolation`: message 1 of `demoSt` over a history that recycles, constructs, releases
and modifies other messages. -/
example : view (run demoSt demoOps2) 1 = view demoSt 1 :=
  isolation demoSt demoOps2 demo_inv demo_disc2 1 (by decide)

/-! ### Slices with spare capacity: `append` in place, `append` with relocation, insertion -/

/-- A foreign message whose first object is an empty array with room for two values and whose second object
is a full array. -/
def spareMsg : List Spec := [⟨33, 0, 2, []⟩, ⟨7, 2, 1, [5]⟩]

theorem specsOk_spare : SpecsOk 3 spareMsg := specsOk_of _ _ (by decide) (by decide) (by decide)

/-- What happens next to `demoSt` (handle 1 is not targeted): a message with spare capacity enters as
handle 4; two appends go into the spare cells, the third moves the array; the full array is moved by its
first append; an address buffer is inserted between the two (it recycles the pooled buffer at cell 4) and
is appended to in place; the message is cloned and released. -/
def demoOps3 : List Op :=
  [.new 4 3 spareMsg, .grow 4 0 7 0, .grow 4 0 8 0, .grow 4 0 9 4, .grow 4 1 6 0,
   .ins 4 1 true kBuf [6, 6], .grow 4 1 3 0, .clone 4 5, .dispose 4]

theorem demo_disc3 : Disc demoSt demoOps3 := by
  simp only [demoOps3, Disc, OpOk]
  exact ⟨⟨by decide, specsOk_spare⟩, by decide, by decide, by decide, by decide, trivial, by decide,
    ⟨by decide, by decide⟩, trivial, trivial⟩

/-- Non-vacuity of `pool_inv` with `grow` and `ins`. -/
example : Inv (run demoSt demoOps3) := pool_inv _ _ demo_inv demo_disc3

/-- The history does what its description says: in place twice (cells 100, 101), then relocated; the inserted
buffer is the recycled one (start 4, capacity 16) and grew in place; the clone holds all of it. -/
example :
    ((run demoSt (demoOps3.take 3)).live 4) = some [⟨33, 100, 2, 2⟩, ⟨7, 102, 1, 1⟩] ∧
    ((run demoSt (demoOps3.take 7)).live 4) = some [⟨33, 103, 3, 4⟩, ⟨1, 4, 3, 16⟩, ⟨7, 107, 2, 2⟩] ∧
    view (run demoSt demoOps3) 5 = some [(33, [7, 8, 9]), (1, [6, 6, 3]), (7, [5, 6])] ∧
    view (run demoSt demoOps3) 4 = none := by decide

/-- Non-vacuity of `isolation` for `grow` / `ins`: message 1 of `demoSt`, whose released original's buffer
is recycled and appended to by another message, stays as it was. -/
example : view (run demoSt demoOps3) 1 = view demoSt 1 :=
  isolation demoSt demoOps3 demo_inv demo_disc3 1 (by decide)

/-- grow_isolated: appending to a slice of one message — into its spare capacity or with relocation — never
alters another live message. -/
theorem grow_isolated (s : St) (h i v c : Nat) (hi : Inv s) (hok : GrowOk s h i) (h2 : Nat) (hne : h2 ≠ h) :
    view (grow s h i v c) h2 = view s h2 :=
  step_frame s (.grow h i v c) hi hok h2 hne

/-- Non-vacuity of `grow_isolated`, in place: the first buffer of message 1 (4 of 16 cells in use) is
appended to while message 4 is live. -/
example :
    let s := run demoSt (demoOps3.take 3)
    view (grow s 1 0 9 0) 4 = view s 4 ∧ view s 4 = some [(33, [7, 8]), (7, [5])] ∧
    view (grow s 1 0 9 0) 1 ≠ view s 1 ∧ (grow s 1 0 9 0).next = s.next := by
  refine ⟨grow_isolated _ 1 0 9 0 (pool_inv _ _ demo_inv ?_) (by decide) 4 (by decide), by decide, by decide,
    by decide⟩
  simp only [demoOps3, List.take, Disc, OpOk]
  exact ⟨⟨by decide, specsOk_spare⟩, by decide, by decide, trivial⟩

/-- Non-vacuity of `grow_isolated`, with relocation: the full array of message 4 moves. -/
example :
    let s := run demoSt (demoOps3.take 3)
    view (grow s 4 0 9 4) 1 = view s 1 ∧ (grow s 4 0 9 4).next = s.next + 4 := by
  refine ⟨grow_isolated _ 4 0 9 4 (pool_inv _ _ demo_inv ?_) (by decide) 1 (by decide), by decide⟩
  simp only [demoOps3, List.take, Disc, OpOk]
  exact ⟨⟨by decide, specsOk_spare⟩, by decide, by decide, trivial⟩

/-- The side condition `GrowOk` is not trivially true: in the message `miekg/dns` unpacks, the first hint's
spare capacity *is* the second hint, so an in-place append to the first overwrites the second — inside one
message, and excluded by `GrowOk`. -/
example :
    let s := newMsg St.init 0 20 miekgFiveHints
    ¬ GrowOk s 0 0 ∧ GrowOk s 0 4 ∧
    view (grow s 0 0 9 0) 0 ≠ (view s 0).map (fun l => growView l 0 9) := by decide

/-- make_content: a constructed object has exactly the requested fields, whatever the pools held. -/
theorem make_content (s : St) (d : Nat) (u : Bool) (k : Nat) (vs : List Nat) (hi : Inv s) :
    ∃ pre o, (make s d u k vs).1.live d = some (pre ++ [o]) ∧ o.kind = k ∧
      content (make s d u k vs).1.heap o = vs ∧ pre = (s.live d).getD [] := by
  obtain ⟨_, l1, k1, c1, _⟩ := mkAppend_spec s d u k vs hi
  refine ⟨(s.live d).getD [], (mkObj s u k vs).2.1, ?_, k1, c1, rfl⟩
  show (appendLive (mkObj s u k vs).1 d (mkObj s u k vs).2.1).live d = _
  rw [appendLive_same, l1]

/-- Non-vacuity of `make_content`: the constructed object lands in the recycled buffer of `demoSt`. -/
example : ∃ pre o, (make demoSt 1 true kBuf [8, 8]).1.live 1 = some (pre ++ [o]) ∧ o.kind = kBuf ∧
    content (make demoSt 1 true kBuf [8, 8]).1.heap o = [8, 8] ∧ pre = (demoSt.live 1).getD [] :=
  make_content demoSt 1 true kBuf [8, 8] demo_inv
example : (make demoSt 1 true kBuf [8, 8]).2 = true := by decide

/-- no_alias (clone_disjoint): no two distinct live objects share a cell in use after any disciplined
history. -/
theorem no_alias (s : St) (ops : List Op) (hi : Inv s) (hd : Disc s ops) (n : Nat) :
    anyAlias (run s ops) n = false :=
  anyAlias_false _ (pool_inv s ops hi hd) n


/-- no_cap_alias: no two live messages share reachable storage, spare capacity included, after any
disciplined history — so no `append` by the holder of one message can write into another. -/
theorem no_cap_alias (s : St) (ops : List Op) (hi : Inv s) (hd : Disc s ops) (n : Nat) :
    anyCapAlias (run s ops) n = false :=
  anyCapAlias_false _ (pool_inv s ops hi hd) n

/-- Non-vacuity of `no_cap_alias`: histories with recycling, in-place appends, relocation and insertion. -/
example : anyCapAlias (run St.init demoOps) 10 = false := no_cap_alias _ _ inv_init demo_disc 10
example : anyCapAlias (run demoSt demoOps3) 10 = false := no_cap_alias _ _ demo_inv demo_disc3 10
example : anyCapAlias (run demoSt (demoOps3.take 8)) 10 = false ∧
    ((run demoSt (demoOps3.take 8)).live 4).isSome = true ∧
    ((run demoSt (demoOps3.take 8)).live 5).isSome = true := by decide

/-- The check is not trivially false, and what it excludes is real: a state in which two live messages share
one empty array that has spare capacity (length 0, capacity 1 — no cell *in use* is shared, `anyAlias` does
not see it).  Both holders append; the second append overwrites what the first holder appended.  This is
exactly what the invariant (`Inv.liveSep`, on capacities) excludes. -/
example :
    let a : Obj := ⟨33, 0, 0, 1⟩
    let s0 : St := { St.init with next := 1, live := setLive (setLive St.init.live 1 (some [a])) 2 (some [a]) }
    anyCapAlias s0 3 = true ∧ anyAlias s0 3 = false ∧
    view (grow s0 1 0 7 1) 1 = some [(33, [7])] ∧
    view (grow (grow s0 1 0 7 1) 2 0 9 1) 1 ≠ view (grow s0 1 0 7 1) 1 := by decide

/-- Non-vacuity of `no_alias`. -/
example : anyAlias (run St.init demoOps) 10 = false := no_alias _ _ inv_init demo_disc 10
/-- The check is not trivially false: with the old donation rule two live objects do share cells. -/
example : anyAlias (clone (newMsg (disposeWith donateOld (newMsg St.init 0 20 miekgFiveHints) 0) 1 32
    twoV6Hints) 1 2).1 10 = true := by decide

/-! ## Determinacy of the target's view

Together with `step_frame`: what a holder sees after an operation depends only on what the holders of the
target and of the source saw before it, not on the pools, the allocation point or other messages. -/

/-- The handle an operation reads from. -/
def source : Op → Option Nat
  | .clone a _ => some a
  | _ => none

theorem view_new (s : St) (d span : Nat) (ps : List Spec) (hok : SpecsOk span ps) :
    view (newMsg s d span ps) d = some (ps.map (fun p => (p.kind, p.vals))) := by
  unfold view newMsg
  simp only [setLive_same, Option.map_some]
  rw [writeSpecs_content s.next ps s.heap (hok.2.1 s.next)]

theorem view_clone (s : St) (a b : Nat) (hi : Inv s) (hok : OpOk s (.clone a b)) :
    view (clone s a b).1 b = view s a := by
  cases hq : s.live a with
  | none =>
    have hb : s.live b = none := hok.1
    simp [clone, hq, view, hb]
  | some m =>
    rw [clone_equal s a b m hi hq hok.1]
    simp [view, hq]

theorem view_dispose (s : St) (h : Nat) : view (dispose s h) h = none := by
  unfold dispose disposeWith view
  cases hq : s.live h with
  | none => simp [hq]
  | some m => simp

theorem view_make (s : St) (d : Nat) (u : Bool) (k : Nat) (vs : List Nat) (hi : Inv s) :
    view (make s d u k vs).1 d = some ((view s d).getD [] ++ [(k, vs)]) := by
  obtain ⟨_, l1, k1, c1, f1⟩ := mkAppend_spec s d u k vs hi
  unfold view
  show Option.map _ ((appendLive (mkObj s u k vs).1 d (mkObj s u k vs).2.1).live d) = _
  rw [appendLive_same, l1]
  show some (contentM (mkObj s u k vs).1.heap ((s.live d).getD [] ++ [(mkObj s u k vs).2.1])) = _
  cases hq : s.live d with
  | none => simp [contentM, k1, c1]
  | some m =>
    have := contentM_congr _ _ m (f1 d m hq)
    simp only [contentM, List.map_append, List.map_cons, List.map_nil, Option.getD_some, Option.map_some,
      k1, c1] at this ⊢
    rw [this]

theorem view_poke (s : St) (h i j v : Nat) (hi : Inv s) :
    view (poke s h i j v) h = (view s h).map (fun l => pokeView l i j v) := by
  have hl := (poke_spec s h i j v hi).2.1
  unfold view
  rw [hl]
  cases hq : s.live h with
  | none => rfl
  | some m =>
    show some (contentM (poke s h i j v).heap m) = some (pokeView (contentM s.heap m) i j v)
    rw [poke_content s h i j v m hi hq]

/-- What the holder of `h` sees after `append` to its object `i`: one more value at the end of that object,
whether the array had room or was relocated. -/
theorem view_grow (s : St) (h i v c : Nat) (hi : Inv s) (hok : GrowOk s h i) :
    view (grow s h i v c) h = (view s h).map (fun l => growView l i v) := by
  cases hq : s.live h with
  | none =>
    rw [grow_none s h i v c hq]
    simp [view, hq]
  | some m =>
    obtain ⟨m', a1, c1⟩ := grow_content s h i v c m hi hok hq
    unfold view
    rw [a1, hq]
    show some (contentM (grow s h i v c).heap m') = some (growView (contentM s.heap m) i v)
    rw [c1]

/-- What the holder of `d` sees after an object with the fields `vs` was inserted at position `pos`. -/
theorem view_ins (s : St) (d pos : Nat) (u : Bool) (k : Nat) (vs : List Nat) (hi : Inv s) :
    view (ins s d pos u k vs).1 d = some (insertAt ((view s d).getD []) pos (k, vs)) := by
  obtain ⟨_, l1, k1, c1, f1⟩ := ins_spec s d pos u k vs hi
  unfold view
  show Option.map _ ((insertLive (mkObj s u k vs).1 d pos (mkObj s u k vs).2.1).live d) = _
  rw [insertLive_same, l1]
  show some (contentM (mkObj s u k vs).1.heap (insertAt ((s.live d).getD []) pos (mkObj s u k vs).2.1)) = _
  rw [contentM_insertAt, k1, c1]
  cases hq : s.live d with
  | none => rfl
  | some m =>
    have := contentM_congr _ _ m (f1 d m hq)
    simp only [Option.getD_some, Option.map_some]
    rw [this]

/-- step_view_determined: the target's view after an operation is a function of the views of target and
source before it. -/
theorem step_view_determined (s1 s2 : St) (op : Op) (h1 : Inv s1) (h2 : Inv s2)
    (o1 : OpOk s1 op) (o2 : OpOk s2 op)
    (ht : view s1 (target op) = view s2 (target op))
    (hs : ∀ a, source op = some a → view s1 a = view s2 a) :
    view (step s1 op) (target op) = view (step s2 op) (target op) := by
  cases op with
  | new d span ps =>
    show view (newMsg s1 d span ps) d = view (newMsg s2 d span ps) d
    rw [view_new s1 d span ps o1.2, view_new s2 d span ps o2.2]
  | clone a b =>
    show view (clone s1 a b).1 b = view (clone s2 a b).1 b
    rw [view_clone s1 a b h1 o1, view_clone s2 a b h2 o2]
    exact hs a rfl
  | dispose h =>
    show view (dispose s1 h) h = view (dispose s2 h) h
    rw [view_dispose, view_dispose]
  | make d u k vs =>
    show view (make s1 d u k vs).1 d = view (make s2 d u k vs).1 d
    replace ht : view s1 d = view s2 d := ht
    rw [view_make s1 d u k vs h1, view_make s2 d u k vs h2, ht]
  | poke h i j v =>
    show view (poke s1 h i j v) h = view (poke s2 h i j v) h
    replace ht : view s1 h = view s2 h := ht
    rw [view_poke s1 h i j v h1, view_poke s2 h i j v h2, ht]
  | grow h i v c =>
    show view (grow s1 h i v c) h = view (grow s2 h i v c) h
    replace ht : view s1 h = view s2 h := ht
    rw [view_grow s1 h i v c h1 o1, view_grow s2 h i v c h2 o2, ht]
  | ins d pos u k vs =>
    show view (ins s1 d pos u k vs).1 d = view (ins s2 d pos u k vs).1 d
    replace ht : view s1 d = view s2 d := ht
    rw [view_ins s1 d pos u k vs h1, view_ins s2 d pos u k vs h2, ht]

/-- Non-vacuity of `step_view_determined` for `grow` and `ins`: the same append / insertion in a state whose
pool holds a buffer and in one where it has been lost. -/
example : view (step demoSt (.grow 1 0 9 0)) 1 = view (step (popDiscard demoSt kBuf) (.grow 1 0 9 0)) 1 :=
  step_view_determined demoSt _ (.grow 1 0 9 0) demo_inv (popDiscard_spec demoSt kBuf demo_inv).1
    (show GrowOk demoSt 1 0 by decide) (show GrowOk (popDiscard demoSt kBuf) 1 0 by decide) (by decide)
    (fun a ha => by cases ha)
example : view (step demoSt (.ins 1 2 true kBuf [8, 8])) 1 =
    view (step (popDiscard demoSt kBuf) (.ins 1 2 true kBuf [8, 8])) 1 :=
  step_view_determined demoSt _ (.ins 1 2 true kBuf [8, 8]) demo_inv (popDiscard_spec demoSt kBuf demo_inv).1
    trivial trivial (by decide) (fun a ha => by cases ha)
example : view (step demoSt (.ins 1 2 true kBuf [8, 8])) 1 =
    some [(1, [1,1,1,1]), (1, [2,2,2,2]), (1, [8, 8]), (1, [3,3,3,3]), (1, [4,4,4,4]), (1, [5,5,5,5])] ∧
    (ins demoSt 1 2 true kBuf [8, 8]).2 = true ∧ (ins (popDiscard demoSt kBuf) 1 2 true kBuf [8, 8]).2 = false := by
  decide

/-- Non-vacuity of `step_view_determined`: the same clone in a state whose pool holds a buffer and in one
where the buffer has been lost (different pools, different allocation points). -/
def demoStB : St := popDiscard demoSt kBuf
theorem demo_invB : Inv demoStB := (popDiscard_spec demoSt kBuf demo_inv).1
example : demoStB.pool ≠ demoSt.pool := by decide
example : view (step demoSt (.clone 1 2)) 2 = view (step demoStB (.clone 1 2)) 2 :=
  step_view_determined demoSt demoStB (.clone 1 2) demo_inv demo_invB
    ⟨by decide, by decide⟩ ⟨by decide, by decide⟩ (by decide) (fun a ha => by cases ha; decide)

/-! ## The unchanged tree: counterexamples -/

/-- With the rule of the unchanged tree (`cap(ip) >= 16`, `donateOld`) releasing the first message makes the
clone of the second differ from its original. -/
theorem dispose_old_counterexample :
    let s1 := newMsg St.init 0 20 miekgFiveHints
    let s2 := disposeWith donateOld s1 0
    let s3 := newMsg s2 1 32 twoV6Hints
    view (clone s3 1 2).1 2 ≠ view s3 1 := by decide

/-- The same history with the fixed rule (`donate`) is fine; it also shows SpecsOk holds for the miekg layout. -/
example : SpecsOk 20 miekgFiveHints := specsOk_miekg
example : let s3 := newMsg (dispose (newMsg St.init 0 20 miekgFiveHints) 0) 1 32 twoV6Hints
          view (clone s3 1 2).1 2 = view s3 1 := by decide

/-- `newOPT` of the unchanged tree (`mkObjOld`): an OPT constructed after another message's OPT (TTL cell 5) was
released carries that TTL cell instead of the requested 0. -/
theorem make_old_counterexample :
    let s1 := newMsg St.init 0 2 [⟨2, 0, 2, [5, 40]⟩]
    let s2 := dispose s1 0
    content (mkObjOld s2 true kOpt [0, 77]).1.heap (mkObjOld s2 true kOpt [0, 77]).2.1 ≠ [0, 77] := by decide

/-! ## Interleaving -/

/-- interleaving_irrelevant: let `P` be the handles one request owns (its footprint, closed under "source
of").  In any disciplined history `xs` in which the operations of other requests are interleaved, the
request sees on its handles exactly what it sees when only its own operations run — from any state that
agrees on `P` (other pools, other allocation point, other messages). -/
theorem interleaving_irrelevant (P : Nat → Bool) (xs : List Op) (s1 s2 : St) (h1 : Inv s1) (h2 : Inv s2)
    (d1 : Disc s1 xs) (d2 : Disc s2 (xs.filter (fun op => P (target op))))
    (closed : ∀ op ∈ xs, P (target op) = true → ∀ a, source op = some a → P a = true)
    (hv : ∀ h, P h = true → view s1 h = view s2 h) :
    ∀ h, P h = true → view (run s1 xs) h = view (run s2 (xs.filter (fun op => P (target op)))) h := by
  induction xs generalizing s1 s2 with
  | nil => exact hv
  | cons op r ih =>
    have closed' : ∀ o ∈ r, P (target o) = true → ∀ a, source o = some a → P a = true :=
      fun o ho => closed o (List.mem_cons_of_mem _ ho)
    by_cases hp : P (target op) = true
    · have hf : (op :: r).filter (fun op => P (target op)) = op :: r.filter (fun op => P (target op)) := by
        simp [List.filter, hp]
      rw [hf] at d2 ⊢
      show ∀ h, P h = true → view (run (step s1 op) r) h = view (run (step s2 op) _) h
      apply ih (step s1 op) (step s2 op) (inv_step s1 op h1 d1.1) (inv_step s2 op h2 d2.1) d1.2 d2.2 closed'
      intro h hh
      by_cases ht : h = target op
      · subst ht
        exact step_view_determined s1 s2 op h1 h2 d1.1 d2.1 (hv _ hp)
          (fun a ha => hv a (closed op List.mem_cons_self hp a ha))
      · rw [step_frame s1 op h1 d1.1 h ht, step_frame s2 op h2 d2.1 h ht]
        exact hv h hh
    · have hf : (op :: r).filter (fun op => P (target op)) = r.filter (fun op => P (target op)) := by
        simp [List.filter, hp]
      rw [hf] at d2 ⊢
      show ∀ h, P h = true → view (run (step s1 op) r) h = view (run s2 _) h
      apply ih (step s1 op) s2 (inv_step s1 op h1 d1.1) h2 d1.2 d2 closed'
      intro h hh
      have ht : h ≠ target op := by
        intro e; subst e; exact hp hh
      rw [step_frame s1 op h1 d1.1 h ht]
      exact hv h hh

/-- Non-vacuity of `interleaving_irrelevant`: request A owns handles 0 and 1 (an upstream answer with five
hints, cloned, the original released, the clone modified), request B owns 2 and 3 and recycles A's
buffers in between; A run alone starts from the same empty state. -/
def demoMix : List Op :=
  [.new 0 20 miekgFiveHints, .new 2 32 twoV6Hints, .clone 0 1, .dispose 0, .clone 2 3, .poke 1 0 0 42,
   .dispose 2, .make 3 true kOpt [0, 77]]
def ownsA (h : Nat) : Bool := h == 0 || h == 1

theorem demoMix_disc : Disc St.init demoMix := by
  simp only [demoMix, Disc, OpOk]
  exact ⟨⟨by decide, specsOk_miekg⟩, ⟨by decide, specsOk_twoV6⟩, ⟨by decide, by decide⟩, trivial,
    ⟨by decide, by decide⟩, trivial, trivial, trivial, trivial⟩

example : demoMix.filter (fun op => ownsA (target op)) =
    [.new 0 20 miekgFiveHints, .clone 0 1, .dispose 0, .poke 1 0 0 42] := by
  simp [demoMix, ownsA, target, List.filter]

example : ∀ h, ownsA h = true →
    view (run St.init demoMix) h = view (run St.init (demoMix.filter (fun op => ownsA (target op)))) h := by
  apply interleaving_irrelevant ownsA demoMix St.init St.init inv_init inv_init demoMix_disc
  · have hf : demoMix.filter (fun op => ownsA (target op)) =
        [.new 0 20 miekgFiveHints, .clone 0 1, .dispose 0, .poke 1 0 0 42] := by
      simp [demoMix, ownsA, target, List.filter]
    rw [hf]
    simp only [Disc, OpOk]
    exact ⟨⟨by decide, specsOk_miekg⟩, ⟨by decide, by decide⟩, trivial, trivial, trivial⟩
  · intro op hop hp a ha
    simp only [demoMix, List.mem_cons, List.not_mem_nil, or_false] at hop
    rcases hop with rfl | rfl | rfl | rfl | rfl | rfl | rfl | rfl <;> simp_all [source, target, ownsA]
  · intro h _; rfl

/-! ## Shared read-only messages: cache items, cached results, templates

A message that many requests read at the same time (the message of an item of the ECS cache or of the
simple cache, a cached filtering result, a template of a constructor) is in the footprint of every one of
them.  `interleaving_irrelevant` then says something about a request alone only if the shared message is
the target of no operation at all: it is created once and afterwards only the *source* of clones. -/

/-- shared_readonly_interleaving_irrelevant: `own` are the handles of one request, `S` the shared
long-lived messages.  If no operation of the history targets a shared message (`ro`) and the request
clones only its own or shared messages (`closed`), the request sees — on its own handles and on the
shared ones — exactly what it sees when only its own operations run, whatever the other requests that
read the same shared messages do in between. -/
theorem shared_readonly_interleaving_irrelevant (own S : Nat → Bool) (xs : List Op) (s1 s2 : St)
    (h1 : Inv s1) (h2 : Inv s2)
    (d1 : Disc s1 xs) (d2 : Disc s2 (xs.filter (fun op => own (target op))))
    (ro : ∀ op ∈ xs, S (target op) = false)
    (closed : ∀ op ∈ xs, own (target op) = true → ∀ a, source op = some a → own a = true ∨ S a = true)
    (hv : ∀ h, (own h = true ∨ S h = true) → view s1 h = view s2 h) :
    ∀ h, (own h = true ∨ S h = true) →
      view (run s1 xs) h = view (run s2 (xs.filter (fun op => own (target op)))) h := by
  have hf : xs.filter (fun op => (own (target op) || S (target op))) = xs.filter (fun op => own (target op)) := by
    apply List.filter_congr
    intro op hop
    simp [ro op hop]
  have key := interleaving_irrelevant (fun h => own h || S h) xs s1 s2 h1 h2 d1 (by rw [hf]; exact d2)
    (by
      intro op hop hp a ha
      have ht : own (target op) = true := by simpa [ro op hop] using hp
      rcases closed op hop ht a ha with h | h <;> simp [h])
    (by
      intro h hh
      apply hv
      simpa [Bool.or_eq_true] using hh)
  intro h hh
  have := key h (by simpa [Bool.or_eq_true] using hh)
  rw [hf] at this
  exact this

/-- Non-vacuity: handle 0 is a cache item; request A clones it into 1 and sets the echoed cells of its
clone, request B clones it into 2, sets its own and releases the clone, all interleaved. -/
def cacheItem : List Spec := [⟨1, 0, 2, [7, 7]⟩, ⟨1, 2, 4, [1, 2, 3, 4]⟩]
theorem specsOk_cacheItem : SpecsOk 6 cacheItem := specsOk_of _ _ (by decide) (by decide) (by decide)
def cacheSt : St := newMsg St.init 0 6 cacheItem
theorem cache_inv : Inv cacheSt := inv_step St.init (.new 0 6 cacheItem) inv_init ⟨by decide, specsOk_cacheItem⟩
def hitMix : List Op :=
  [.clone 0 1, .clone 0 2, .poke 2 0 0 22, .poke 1 0 0 11, .dispose 2, .poke 1 0 1 12]
def hitOwnA (h : Nat) : Bool := h == 1
def hitShared (h : Nat) : Bool := h == 0

example : ∀ h, (hitOwnA h = true ∨ hitShared h = true) →
    view (run cacheSt hitMix) h = view (run cacheSt (hitMix.filter (fun op => hitOwnA (target op)))) h := by
  apply shared_readonly_interleaving_irrelevant hitOwnA hitShared hitMix cacheSt cacheSt cache_inv cache_inv
  · simp only [hitMix, Disc, OpOk]
    exact ⟨⟨by decide, by decide⟩, ⟨by decide, by decide⟩, trivial, trivial, trivial, trivial, trivial⟩
  · have hf : hitMix.filter (fun op => hitOwnA (target op)) = [.clone 0 1, .poke 1 0 0 11, .poke 1 0 1 12] := by
      simp [hitMix, hitOwnA, target, List.filter]
    rw [hf]
    simp only [Disc, OpOk]
    exact ⟨⟨by decide, by decide⟩, trivial, trivial, trivial⟩
  · intro op hop
    simp only [hitMix, List.mem_cons, List.not_mem_nil, or_false] at hop
    rcases hop with rfl | rfl | rfl | rfl | rfl | rfl <;> simp [target, hitShared]
  · intro op hop hp a ha
    simp only [hitMix, List.mem_cons, List.not_mem_nil, or_false] at hop
    rcases hop with rfl | rfl | rfl | rfl | rfl | rfl <;> simp_all [source, target, hitOwnA, hitShared]
  · intro h _; rfl

example : view (run cacheSt hitMix) 1 = some [(1, [11, 12]), (1, [1, 2, 3, 4])] ∧
    view (run cacheSt hitMix) 0 = view cacheSt 0 := by decide

/-- A cache hit that writes the data of its request into the shared item and clones it afterwards (the
reply set with `SetRcode` on `item.msg` before `Clone`): alone, request A gets its own ID; with request
B doing the same between A's write and A's clone, A gets B's.  Every operation is allowed by the
ownership discipline (`Disc`): what the history breaks is `ro`, the hypothesis of
`shared_readonly_interleaving_irrelevant`. -/
theorem shared_write_then_clone_counterexample :
    let mixed : List Op := [.poke 0 0 0 11, .poke 0 0 0 22, .clone 0 1, .clone 0 2]
    let aloneA : List Op := [.poke 0 0 0 11, .clone 0 1]
    view (run cacheSt aloneA) 1 = some [(1, [11, 7]), (1, [1, 2, 3, 4])] ∧
    view (run cacheSt mixed) 1 = some [(1, [22, 7]), (1, [1, 2, 3, 4])] ∧
    view (run cacheSt mixed) 1 ≠ view (run cacheSt aloneA) 1 := by decide

/-- A cache that keeps the response itself instead of a clone of it (`cachedResp := resp` in
`ecscache.Middleware.set`): the response goes on to the client, the server releases it after writing it
(handle 0 is dead: the handle table, i.e. the ownership discipline, has no message for the item any more),
and the clone of another client's answer is built in its storage: the cells the item points to now hold
the other client's records.  What a cache keeps must be a handle of its own — a clone (`ecs_set_clone_src`,
`simple_set_item_src`, `Agd.Tie.TrC07.ecs_set_stores_clone`). -/
theorem cache_keeps_response_counterexample :
    let s1 := newMsg St.init 0 2 [⟨7, 0, 2, [1, 2]⟩]
    let kept := (s1.live 0).getD []
    let s2 := dispose s1 0
    let s3 := newMsg s2 1 2 [⟨7, 0, 2, [8, 9]⟩]
    let s4 := (clone s3 1 2).1
    contentM s1.heap kept = [(7, [1, 2])] ∧ contentM s4.heap kept = [(7, [8, 9])] ∧
      view s4 0 = none ∧ view s4 2 = some [(7, [8, 9])] := by decide

/-- With a clone as the item (handle 5, made before the response is released) the same history leaves the
item alone. -/
example :
    let s1 := (clone (newMsg St.init 0 2 [⟨7, 0, 2, [1, 2]⟩]) 0 5).1
    let s4 := (clone (newMsg (dispose s1 0) 1 2 [⟨7, 0, 2, [8, 9]⟩]) 1 2).1
    view s4 5 = some [(7, [1, 2])] ∧ view s4 2 = some [(7, [8, 9])] := by decide

/-- The `dns.Copy` fall-back of the unchanged tree (`cloneOld`: the copy of a subnet option keeps the
original's address): W = OPT + subnet + unknown option is cloned, the clone is released, and the clone of
an unrelated message X then overwrites W's subnet, although nothing targeted W. -/
theorem copy_old_counterexample :
    let s1 := newMsg St.init 0 4 [⟨2, 0, 2, [0, 40]⟩, ⟨6, 2, 1, [5]⟩, ⟨3, 3, 1, [8]⟩]
    let s2 := (cloneOld s1 0 1).1
    let s3 := dispose s2 1
    let s4 := newMsg s3 2 3 [⟨2, 0, 2, [0, 41]⟩, ⟨6, 2, 1, [9]⟩]
    view (clone s4 2 3).1 0 ≠ view s4 0 := by decide

/-- With the repaired fall-back (`clone`) the same history leaves W alone. -/
example :
    let s1 := newMsg St.init 0 4 [⟨2, 0, 2, [0, 40]⟩, ⟨6, 2, 1, [5]⟩, ⟨3, 3, 1, [8]⟩]
    let s4 := newMsg (dispose (clone s1 0 1).1 1) 2 3 [⟨2, 0, 2, [0, 41]⟩, ⟨6, 2, 1, [9]⟩]
    view (clone s4 2 3).1 0 = view s4 0 := by decide

/-- double_release_counterexample (round 4): what the handle table (`Disc`: released at most once) stands
for.  A response is released by two parties (the handler stack on an error path and the server; `ServerBase`
and the DoH handler): the second release finds the message through its own pointer (`kept`) and gives the
same address buffer to the pool again.  The clones made for the next two clients are then built in the same
storage: client A's message holds client B's address, although every later operation is disciplined. -/
theorem double_release_counterexample :
    let s1 := newMsg St.init 0 16 [⟨1, 0, 16, List.replicate 16 7⟩]
    let kept := s1.live 0
    let s2 := dispose s1 0
    let s3 := dispose { s2 with live := setLive s2.live 0 kept } 0
    let s4 := newMsg (newMsg s3 1 16 [⟨1, 0, 16, List.replicate 16 1⟩]) 2 16 [⟨1, 0, 16, List.replicate 16 2⟩]
    let s5 := (clone s4 1 11).1
    let s6 := (clone s5 2 12).1
    s3.pool.length = 2 ∧ view s5 11 = view s4 1 ∧ view s6 11 ≠ view s5 11 ∧ view s6 11 = view s4 2 ∧
      anyAlias s6 20 = true := by decide

/-- Released once, the same history is fine. -/
example :
    let s2 := dispose (newMsg St.init 0 16 [⟨1, 0, 16, List.replicate 16 7⟩]) 0
    let s4 := newMsg (newMsg s2 1 16 [⟨1, 0, 16, List.replicate 16 1⟩]) 2 16 [⟨1, 0, 16, List.replicate 16 2⟩]
    let s6 := (clone (clone s4 1 11).1 2 12).1
    view s6 11 = view s4 1 ∧ view s6 12 = view s4 2 ∧ anyAlias s6 20 = false := by decide

#print axioms double_release_counterexample
#print axioms inv_init
#print axioms pool_inv
#print axioms clone_equal
#print axioms step_frame
#print axioms isolation
#print axioms make_content
#print axioms no_alias
#print axioms step_view_determined
#print axioms dispose_old_counterexample
#print axioms make_old_counterexample
#print axioms specsOk_miekg
#print axioms demo_disc
#print axioms interleaving_irrelevant
#print axioms demoMix_disc
#print axioms copy_old_counterexample
#print axioms cache_keeps_response_counterexample
#print axioms inv_step
#print axioms specsOk_of
#print axioms donate_specObj
#print axioms view_eq
#print axioms view_new
#print axioms view_clone
#print axioms view_dispose
#print axioms view_make
#print axioms view_poke
#print axioms demo_inv
#print axioms demo_invB
#print axioms demo_disc2
#print axioms specsOk_twoV6
#print axioms view_grow
#print axioms view_ins
#print axioms specsOk_spare
#print axioms demo_disc3
#print axioms grow_isolated
#print axioms no_cap_alias
#print axioms shared_readonly_interleaving_irrelevant
#print axioms specsOk_cacheItem
#print axioms cache_inv
#print axioms shared_write_then_clone_counterexample

end Agd.Pools

/-! # Pooled request contexts

`sync.Pool.Get` may hand a request ANY object that was put back before, with whatever its last user left in
it (`Op.get r k`: the adversary picks entry `k`); a request fills fields, reads fields, and puts the object
back.  Requests are interleaved arbitrarily.  The discipline `ReadsOkC C` is the rule the code follows
("NOTE: Fill all fields of fltReq since it is reused from the pool", `*fctx = filteringContext{}`): a request
reads only fields it has filled since its `Get` or the pool-constant fields `C` that the pool's `New` sets, and
nobody ever writes a pool-constant field.  It is tied to the source field by field in `Agd/Tie/C07.lean`. -/
namespace Agd.PoolCtx

/-- context_pool_inv: whatever the requests do (no discipline needed), no two requests in flight hold the same
context object, and an object in use is not in the pool. -/
theorem context_pool_inv (ops : List Op) : Inv (run St.init ops) := ctx_inv_run _ _ ctx_inv_init

/-- Non-vacuity: a schedule with recycling; requests 1 and 2 are in flight and hold different objects. -/
example : Inv (run St.init (demoMix.take 12)) ∧ (run St.init (demoMix.take 12)).held 1 = some 0 ∧
    (run St.init (demoMix.take 12)).held 2 = some 1 :=
  ⟨context_pool_inv _, by decide, by decide⟩

/-- context_never_overwritten: over any stretch of the schedule in which request `r` itself does nothing,
whatever the other requests do (Get, Put, writes of arbitrary values into their objects), `r` keeps its context
object, the object keeps every field value, and what `r` has read so far stays what it was. -/
theorem context_never_overwritten (s : St) (xs : List Op) (r : Nat) (hi : Inv s) (hne : ∀ op ∈ xs, op.req ≠ r) :
    (run s xs).held r = s.held r ∧ (∀ id, s.held r = some id → (run s xs).heap id = s.heap id) ∧
    (run s xs).out r = s.out r := by
  induction xs generalizing s with
  | nil => exact ⟨rfl, fun _ _ => rfl, rfl⟩
  | cons op rest ih =>
    have hf := ctx_frame s op r hi (hne op List.mem_cons_self)
    have ih' := ih (step s op) (ctx_inv_step s op hi) (fun o ho => hne o (List.mem_cons_of_mem _ ho))
    show (run (step s op) rest).held r = _ ∧ _ ∧ (run (step s op) rest).out r = _
    refine ⟨ih'.1.trans hf.1, ?_, ih'.2.2.trans hf.2.2.1⟩
    intro id hid
    have h1 : (step s op).held r = some id := by rw [hf.1]; exact hid
    show (run (step s op) rest).heap id = s.heap id
    rw [ih'.2.1 id h1, hf.2.1 id hid]

/-- Non-vacuity: request 1 holds the recycled object 0 (fields 20, 77) while request 2 fills, reads and puts
and request 3 takes an object and scribbles over it. -/
example :
    let s := run St.init (demoMix.take 10)
    let xs : List Op := [.read 2 [0, 1], .put 2, .get 3 0, .set 3 0 99, .set 3 1 98, .put 3, .get 2 1, .set 2 1 5]
    s.held 1 = some 0 ∧ s.heap 0 0 = 20 ∧ (run s xs).heap 0 = s.heap 0 ∧ (run s xs).held 1 = s.held 1 := by
  intro s xs
  have h := context_never_overwritten s xs 1 (context_pool_inv _) (by decide)
  exact ⟨by decide, by decide, h.2.1 0 (by decide), h.1⟩

/-- context_interleaving_irrelevant: in every schedule that follows the discipline, from every reachable state
(any pool content, any stale field values), a request reads exactly what it reads when only its own operations
run — from any state that agrees on what the request itself has established. -/
theorem context_interleaving_irrelevant (C : List Nat) (r : Nat) (xs : List Op) (s1 s2 : St) (h1 : Inv s1)
    (c1 : ConstZero C s1) (c2 : ConstZero C s2) (ok : ReadsOkC C s1 xs) (agree : Agree r s1 s2) :
    (run s1 xs).out r = (run s2 (xs.filter (fun op => op.req == r))).out r :=
  ctx_interleaving_const C r xs s1 s2 h1 c1 c2 ok agree

/-- context_alone: in every disciplined schedule on a server, each request reads what it reads when it is the
only request the server ever gets. -/
theorem context_alone (C : List Nat) (r : Nat) (xs : List Op) (ok : ReadsOkC C St.init xs) :
    (run St.init xs).out r = (run St.init (xs.filter (fun op => op.req == r))).out r :=
  ctx_solo_const C r xs St.init ctx_inv_init (constZero_init C) ok rfl rfl rfl

/-- The layout of `agd.RequestInfo`: 13 fields in the order of the struct; `FilteringGroup`, `ServerGroup`,
`Server`, `Proto` (3, 5, 7, 12) are set by the pool's `New`, the other nine are filled per request. -/
def riFields : List String :=
  ["DeviceResult", "Location", "ECS", "FilteringGroup", "Messages", "ServerGroup", "RemoteIP", "Server", "Host", "ID",
   "QType", "QClass", "Proto"]
def riConst : List String := ["FilteringGroup", "ServerGroup", "Server", "Proto"]
def riFilled : List String := ["DeviceResult", "Location", "ECS", "Messages", "RemoteIP", "Host", "ID", "QType", "QClass"]
def fctxFields : List String :=
  ["originalRequest", "modifiedRequest", "originalResponse", "filteredResponse", "requestResult", "responseResult",
   "elapsed", "isDebug"]
def fltReqFields : List String := ["DNS", "Messages", "RemoteIP", "ClientName", "Host", "QType", "QClass"]
def fltRespFields : List String := ["DNS", "RemoteIP", "ClientName"]
def crFields : List String := ["host", "subnet", "qType", "qClass", "reqDO", "isECSDeclined"]

/-- The lists above are the structs of the source (with `Agd/Tie/C07.lean`: `*_fields_src`), and every field
is either filled per request (one `*_fill_*_src` fact each; `filteringContext` is reset as a whole) or
pool-constant. -/
theorem layouts_src :
    ",".intercalate riFields = Agd.Gen.C07.ri_fields ∧ ",".intercalate fctxFields = Agd.Gen.C07.fctx_fields ∧
    ",".intercalate fltReqFields = Agd.Gen.C07.fltreq_fields ∧ ",".intercalate fltRespFields = Agd.Gen.C07.fltresp_fields ∧
    ",".intercalate crFields = Agd.Gen.C07.cr_fields := by decide
theorem ri_covered : (∀ f ∈ riFields, f ∈ riFilled ∨ f ∈ riConst) ∧ (∀ f ∈ riFilled, f ∉ riConst) ∧
    riConst.map riFields.idxOf = [3, 5, 7, 12] ∧ riFilled.map riFields.idxOf = [0, 1, 2, 4, 6, 8, 9, 10, 11] := by decide

/-- context_program_ok: a request that takes a context with `n` fields, fills every field that is not
pool-constant (with any values), reads ALL `n` fields and puts the object back follows the discipline — from
any state in which it holds nothing. -/
theorem context_program_ok (n : Nat) (C : List Nat) (s : St) (r k : Nat) (vals : Nat → Nat) (hh : s.held r = none) :
    ReadsOkC C s (prog r k (((List.range n).filter (fun f => decide (f ∉ C))).map (fun f => (f, vals f))) (List.range n)) := by
  apply prog_readsOkC C s r k _ _ hh
  · intro fv hfv
    obtain ⟨f, hf, rfl⟩ := List.mem_map.mp hfv
    have := (List.mem_filter.mp hf).2
    simpa using this
  · intro f hf
    by_cases hc : f ∈ C
    · exact Or.inr hc
    · left
      rw [List.map_map]
      exact List.mem_map.mpr ⟨f, List.mem_filter.mpr ⟨hf, by simpa using hc⟩, rfl⟩

/-- Two requests with the layout of `agd.RequestInfo` (13 fields, pool-constant 3, 5, 7, 12), one after the
other: the second one recycles the object of the first, which still holds the first one's nine values, and
reads only its own (and 0 = what `New` has set in the pool-constant fields). -/
def riDemo : List Op :=
  prog 0 0 (((List.range 13).filter (fun f => decide (f ∉ [3, 5, 7, 12]))).map (fun f => (f, 100 + f))) (List.range 13) ++
  prog 1 0 (((List.range 13).filter (fun f => decide (f ∉ [3, 5, 7, 12]))).map (fun f => (f, 200 + f))) (List.range 13)

theorem riDemo_ok : ReadsOkC [3, 5, 7, 12] St.init riDemo := by decide

example : (run St.init (riDemo.take 13)).held 1 = some 0 ∧ (run St.init (riDemo.take 13)).heap 0 4 = 104 ∧
    (run St.init riDemo).out 1 = [[200, 201, 202, 0, 204, 0, 206, 0, 208, 209, 210, 211, 0]] := by decide
example : (run St.init riDemo).out 1 = (run St.init (riDemo.filter (fun op => op.req == 1))).out 1 :=
  context_alone [3, 5, 7, 12] 1 riDemo riDemo_ok
/-- The first program of `riDemo` through `context_program_ok`. -/
example : ReadsOkC [3, 5, 7, 12] St.init
    (prog 0 0 (((List.range 13).filter (fun f => decide (f ∉ [3, 5, 7, 12]))).map (fun f => (f, 100 + f))) (List.range 13)) :=
  context_program_ok 13 [3, 5, 7, 12] St.init 0 0 (fun f => 100 + f) rfl

/-- The discipline is necessary, both halves: a field that is read but not filled shows the previous
request's value (`ri.Messages` without `ri.Messages = mw.messages`: the blocking mode of another profile), and
a pool-constant field that somebody writes shows up in the next request. -/
theorem context_missing_fill_counterexample :
    ¬ ((run St.init badMix).out 1 = (run St.init (badMix.filter (fun op => op.req == 1))).out 1) :=
  ctx_missing_reset_counterexample
theorem context_const_write_counterexample :
    ¬ ((run St.init constBad).out 1 = (run St.init (constBad.filter (fun op => op.req == 1))).out 1) :=
  ctx_const_write_counterexample

/-! ### Fills with an error branch (`BFill`, `progB`)

`ratelimitmw.newRequestInfo` fills `ri.Messages` on two branches: the constructor of the profile when
`dnsmsg.NewConstructor` accepts the profile's settings, the constructor of the server when it does not (negative
TTL, no blocking mode) or when there is no profile.  The discipline asks for the fill on EVERY branch. -/

/-- context_branching_program_ok: a request whose fills have error branches follows the discipline whichever
branches its own data select, provided every fill that fails has a fallback value on its error branch
(`ri.Messages = mw.messages` in front of the attempt).  No assumption on the object `Get` returns. -/
theorem context_branching_program_ok (C : List Nat) (s : St) (r k : Nat) (fill : List BFill) (reads : List Nat)
    (hh : s.held r = none) (hC : ∀ b ∈ fill, b.f ∉ C) (hfb : ∀ b ∈ fill, b.ok = true ∨ b.dflt.isSome = true)
    (hreads : ∀ f ∈ reads, f ∈ fill.map (·.f) ∨ f ∈ C) :
    ReadsOkC C s (progB r k fill reads) := by
  apply prog_readsOkC C s r k _ _ hh
  · intro fv hfv
    obtain ⟨b, hb, he⟩ := List.mem_filterMap.mp hfv
    have hf : fv.1 = b.f := by
      unfold BFill.eff at he
      by_cases hok : b.ok = true
      · simp [hok] at he; rw [← he]
      · simp [hok] at he; obtain ⟨d, _, hd⟩ := he; rw [← hd]
    rw [hf]; exact hC b hb
  · intro f hf
    rcases hreads f hf with h | h
    · left
      obtain ⟨b, hb, rfl⟩ := List.mem_map.mp h
      rcases hfb b hb with hok | hd
      · exact List.mem_map.mpr ⟨(b.f, b.v), List.mem_filterMap.mpr ⟨b, hb, by simp [BFill.eff, hok]⟩, rfl⟩
      · obtain ⟨d, hd'⟩ := Option.isSome_iff_exists.mp hd
        by_cases hok : b.ok = true
        · exact List.mem_map.mpr ⟨(b.f, b.v), List.mem_filterMap.mpr ⟨b, hb, by simp [BFill.eff, hok]⟩, rfl⟩
        · exact List.mem_map.mpr ⟨(b.f, d), List.mem_filterMap.mpr ⟨b, hb, by simp [BFill.eff, hok, hd']⟩, rfl⟩
    · exact Or.inr h

/-- context_all_branches_ok: when every fill has a fallback, EVERY assignment of outcomes (`oks`: which
computations succeed for this request) gives a disciplined program. -/
theorem context_all_branches_ok (C : List Nat) (s : St) (r k : Nat) (fill : List BFill) (reads : List Nat)
    (oks : Nat → Bool) (hh : s.held r = none) (hC : ∀ b ∈ fill, b.f ∉ C) (hfb : ∀ b ∈ fill, b.dflt.isSome = true)
    (hreads : ∀ f ∈ reads, f ∈ fill.map (·.f) ∨ f ∈ C) :
    ReadsOkC C s (progB r k (fill.map (fun b => { b with ok := oks b.f })) reads) := by
  apply context_branching_program_ok C s r k _ _ hh
  · intro b hb
    obtain ⟨b0, hb0, rfl⟩ := List.mem_map.mp hb
    exact hC b0 hb0
  · intro b hb
    obtain ⟨b0, hb0, rfl⟩ := List.mem_map.mp hb
    exact Or.inr (hfb b0 hb0)
  · intro f hf
    rcases hreads f hf with h | h
    · left
      obtain ⟨b0, hb0, rfl⟩ := List.mem_map.mp h
      exact List.mem_map.mpr ⟨_, List.mem_map.mpr ⟨b0, hb0, rfl⟩, rfl⟩
    · exact Or.inr h

/-- Two requests with a fill of field 4 (`ri.Messages`) that has an error branch: request 0 belongs to a
profile with a constructor of its own (value 41), for request 1 the construction fails.  `d` is what the error
branch writes. -/
def branchMix (d : Option Nat) : List Op :=
  progB 0 0 [.plain 0 10, { f := 4, ok := true, v := 41, dflt := d }] [0, 4] ++
  progB 1 0 [.plain 0 20, { f := 4, ok := false, v := 0, dflt := d }] [0, 4]

/-- Non-vacuity of `context_branching_program_ok` / `context_all_branches_ok`: with the fallback 8 (the
server's constructor) both programs are disciplined, request 1 recycles the object of request 0 and reads its
own 20 and the fallback 8 — what it reads alone. -/
example : ReadsOkC [3] St.init (branchMix (some 8)) ∧ (run St.init ((branchMix (some 8)).take 5)).held 1 = none ∧
    (run St.init ((branchMix (some 8)).take 6)).held 1 = some 0 ∧
    (run St.init (branchMix (some 8))).out 1 = [[20, 8]] ∧
    (run St.init ((branchMix (some 8)).filter (fun op => op.req == 1))).out 1 = [[20, 8]] := by decide
def twoFills : List BFill := [{ f := 0, ok := true, v := 20, dflt := some 0 }, { f := 4, ok := true, v := 0, dflt := some 8 }]
example : ReadsOkC [3] St.init (progB 1 0 (twoFills.map (fun b => { b with ok := (fun f => f != 4) b.f })) [0, 3, 4]) :=
  context_all_branches_ok [3] St.init 1 0 twoFills [0, 3, 4] (fun f => f != 4) rfl (by decide) (by decide) (by decide)

/-- context_error_branch_counterexample: an error branch that leaves the field alone (the seeded change
`messages-constructor-kept-on-ctor-error`: the reset of `ri.Messages` moved into the no-profile branch) —
request 1, whose profile's constructor cannot be built, reads 41: the constructor (blocking mode, TTL) of the
profile of request 0.  Alone it reads what `New` has put into the object. -/
theorem context_error_branch_counterexample :
    (run St.init (branchMix none)).out 1 = [[20, 41]] ∧
    ¬ ((run St.init (branchMix none)).out 1 = (run St.init ((branchMix none).filter (fun op => op.req == 1))).out 1) := by
  decide

/-- What the model's `put` excludes and the code must not do (Tie facts `*_put_count_src`): an object that is
put back twice (a second `Put` on an early-return path in front of the deferred one) is handed to two requests
at once. -/
def doublePut (s : St) (r : Nat) : St :=
  match s.held r with
  | none => s
  | some id => { s with pool := id :: id :: s.pool, held := upd s.held r none, defd := upd s.defd r [] }

/-- context_double_put_counterexample: request 0 (dropped by the access rules, say) puts its context back
twice; afterwards requests 1 and 2 are in flight with the SAME object, and request 1, which has filled field 0
with 20, reads 30 — the value of request 2. -/
theorem context_double_put_counterexample :
    let s := doublePut (run St.init [.get 0 0, .set 0 0 10]) 0
    let t := run s [.get 1 0, .set 1 0 20, .get 2 0, .set 2 0 30, .read 1 [0]]
    t.held 1 = some 0 ∧ t.held 2 = some 0 ∧ t.out 1 = [[30]] ∧ ReadsOk s [.get 1 0, .set 1 0 20, .get 2 0, .set 2 0 30, .read 1 [0]] := by
  decide

/-- With the single `put` of the model the same history is fine. -/
example :
    let s := run St.init [.get 0 0, .set 0 0 10, .put 0]
    let t := run s [.get 1 0, .set 1 0 20, .get 2 0, .set 2 0 30, .read 1 [0]]
    t.held 1 = some 0 ∧ t.held 2 = some 1 ∧ t.out 1 = [[20]] := by decide

#print axioms context_pool_inv
#print axioms context_never_overwritten
#print axioms context_interleaving_irrelevant
#print axioms context_alone
#print axioms layouts_src
#print axioms ri_covered
#print axioms context_program_ok
#print axioms riDemo_ok
#print axioms context_missing_fill_counterexample
#print axioms context_const_write_counterexample
#print axioms context_double_put_counterexample
#print axioms context_branching_program_ok
#print axioms context_all_branches_ok
#print axioms context_error_branch_counterexample

end Agd.PoolCtx

/-! # Round 4: the servers' side of the ownership discipline, and the echoed question

`Agd/Model/PoolRelease.lean`: the order of handler, write and release on every transport, tied to the code by
`serverbase_dispose_cases_src`, `serve_msg_release_order_src`, `doh_release_order_src`, `doq_release_order_src`
and run by the wire campaign (the production servers behind `dnssvc.New`). -/
namespace Agd.Release

/-- server_release_disciplined: on every transport the response is written before it is released, it is
released at most once, and nothing happens to it after the release — the hypothesis (`Agd.Pools.Disc`) under
which `isolation`, `no_cap_alias` and `interleaving_irrelevant` speak about responses. -/
theorem server_release_disciplined (t : Transport) :
    Disciplined (serveCode t) = true ∧ ((serveCode t).filter (· == .release)).length ≤ 1 ∧
    (serveCode t).filter (· != .release) = [.handler, .write] := by
  cases t <;> decide

/-- Non-vacuity: four transports do release (so the pools are fed by the servers), DNSCrypt does not. -/
example : serveCode .udp = [.handler, .write, .release] ∧ serveCode .doh = [.handler, .write, .release] ∧
    serveCode .doq = [.handler, .write, .release] ∧ serveCode .dnscrypt = [.handler, .write] := by decide

/-- What the two Tie facts exclude.  With the `NonWriterResponseWriter` in the first case of
`ServerBase.dispose`, a DoH / DoQ response is released twice (`Agd.Pools.double_release_counterexample`);
with the transport's `Dispose` in front of its write, the response is packed after its release. -/
theorem server_double_release_counterexample :
    Disciplined (serve [.nonWriter] false .doh) = false ∧
    ((serve [.nonWriter] false .doq).filter (· == .release)).length = 2 := by decide
theorem server_release_before_write_counterexample :
    Disciplined (serve [] true .doh) = false ∧ serve [] true .doq = [.handler, .release, .write] := by decide

/-- response_echoes_class: whatever the class of the question and whether or not the handler fails, the
question of what the client receives has the class that the client sent (with the `fix:` commit). -/
theorem response_echoes_class (q : Nat) (fails : Bool) : answeredClass true q fails = q := by
  unfold answeredClass handle
  by_cases h : q = classCHAOS
  · subst h; cases fails <;> decide
  · have hb : (q == classCHAOS) = false := by simpa using h
    cases fails <;> simp [hb]

/-- Non-vacuity: a debug request whose upstreams are down, and one that is answered. -/
example : answeredClass true classCHAOS true = classCHAOS ∧ answeredClass true classCHAOS false = classCHAOS ∧
    (handle true classCHAOS true).2 = none := by decide

/-- debug_class_old_counterexample: the unchanged tree (no restore): a CHAOS request whose handler returns an
error is answered with a SERVFAIL whose question has class IN — a response that does not match the
client's question. -/
theorem debug_class_old_counterexample : answeredClass false classCHAOS true ≠ classCHAOS := by decide

#print axioms server_release_disciplined
#print axioms server_double_release_counterexample
#print axioms server_release_before_write_counterexample
#print axioms response_echoes_class
#print axioms debug_class_old_counterexample

end Agd.Release
#print axioms Agd.Tie.TrC07.translation_complete
#print axioms Agd.Tie.TrC07.filtering_context_reset
#print axioms Agd.Tie.TrC07.request_info_reset
#print axioms Agd.Tie.TrC07.request_info_messages
#print axioms Agd.Tie.TrC07.request_info_pool_independent
#print axioms Agd.Tie.TrC07.flt_request_filled
#print axioms Agd.Tie.TrC07.flt_response_filled
#print axioms Agd.Tie.TrC07.flt_put_drops_message
#print axioms Agd.Tie.TrC07.ecs_set_stores_clone
#print axioms Agd.Tie.TrC07.newRespDDR_copies_templates
