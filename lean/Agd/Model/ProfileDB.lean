/-!
# Model of `internal/profiledb.Default` (C14)

The six Go maps are function tables.  The three secondary indexes
(`linkedIPToDeviceID`, `dedicatedIPToDeviceID`, `humanIDToDeviceID`) have disjoint key
spaces and are kept as ONE table over the tagged key type `Key`.  The clean-up goroutines
(`go db.remove…`) are explicit pending items which the scheduler (`Op.run i`) may execute at
any later point.  Core Lean only.
-/
namespace Agd.ProfileDB

/-- `agd.Device`, reduced to what the database inspects; `tag` stands for all other settings. -/
structure Device where
  id : Nat
  /-- `LinkedIP`; 0 is `netip.Addr{}` (none). -/
  linked : Nat
  dedicated : List Nat
  /-- `HumanIDLower`; 0 is the empty string. -/
  human : Nat
  tag : Nat
deriving DecidableEq, Repr

/-- `agd.Profile`, reduced likewise. -/
structure Profile where
  id : Nat
  devIds : List Nat
  auto : Bool
  deleted : Bool
  tag : Nat
deriving DecidableEq, Repr

/-- Key of a secondary index. -/
inductive Key
  | linked (ip : Nat)
  | ded (ip : Nat)
  | human (h : Nat) (pid : Nat)
deriving DecidableEq, Repr

/-- A pending clean-up goroutine. -/
inductive Cleanup
  | dev (id : Nat)      -- removeDevice
  | key (k : Key)       -- removeLinkedIP / removeDedicatedIP / removeHumanID
deriving DecidableEq, Repr

def put {K V : Type} [DecidableEq K] (m : K → Option V) (k : K) (v : V) : K → Option V :=
  fun x => if x = k then some v else m x

def del {K V : Type} [DecidableEq K] (m : K → Option V) (k : K) : K → Option V :=
  fun x => if x = k then none else m x

def putAll {K V : Type} [DecidableEq K] (m : K → Option V) (ks : List K) (v : V) : K → Option V :=
  ks.foldl (fun m k => put m k v) m

/-- Go: `for _, it := range items { for _, k := range it.keys { m[k] = it.val } }`. -/
def putMany {K V : Type} [DecidableEq K] (m : K → Option V) (items : List (List K × V)) :
    K → Option V :=
  items.foldl (fun m it => putAll m it.1 it.2) m

/-- Content of the cache file: `internal.FileCache` (sync time, profiles, devices). -/
structure CacheFile where
  time : Nat
  profs : List Profile
  devs : List Device
deriving DecidableEq, Repr

structure St where
  profiles : Nat → Option Profile
  devices : Nat → Option Device
  /-- `deviceIDToProfileID` -/
  devIdx : Nat → Option Nat
  /-- the three secondary indexes -/
  idx : Key → Option Nat
  pending : List Cleanup
  /-- content of the cache file: what the last full sync stored -/
  cache : Option CacheFile
  /-- `db.syncTime`, the synchronisation point sent with the next partial request;
  0 is `time.Time{}` -/
  syncTime : Nat

def init : St :=
  { profiles := fun _ => none, devices := fun _ => none, devIdx := fun _ => none,
    idx := fun _ => none, pending := [], cache := none, syncTime := 0 }

/-- The device `d`, attached to profile `pid`, is reachable under key `k`
(the read-side re-checks of `ProfileByLinkedIP`, `ProfileByDedicatedIP`, `ProfileByHumanID`). -/
def HasKey (pid : Nat) (d : Device) : Key → Prop
  | .linked ip => ip ≠ 0 ∧ d.linked = ip
  | .ded ip => ip ∈ d.dedicated
  | .human h p => h ≠ 0 ∧ d.human = h ∧ p = pid

instance (pid : Nat) (d : Device) (k : Key) : Decidable (HasKey pid d k) := by
  cases k <;> unfold HasKey <;> infer_instance

/-- Keys written by `setDevices` for one device; `po` is `deviceIDToProfileID[d.ID]`. -/
def keysOf (po : Option Nat) (d : Device) : List Key :=
  (if d.linked ≠ 0 then [Key.linked d.linked] else []) ++
  (d.dedicated.map Key.ded ++
  (if d.human ≠ 0 then (match po with
    | some pid => [Key.human d.human pid]
    | none => []) else []))

def profItems (ps : List Profile) : List (List Nat × Profile) := ps.map fun p => ([p.id], p)
def devItems (ds : List Device) : List (List Nat × Device) := ds.map fun d => ([d.id], d)
def devIdxItems (ps : List Profile) : List (List Nat × Nat) := ps.map fun p => (p.devIds, p.id)
def keyItems (di : Nat → Option Nat) (ds : List Device) : List (List Key × Nat) :=
  ds.map fun d => (keysOf (di d.id) d, d.id)

/-- `clear(...)` of the six maps. -/
def cleared (s : St) : St :=
  { s with profiles := fun _ => none, devices := fun _ => none, devIdx := fun _ => none,
           idx := fun _ => none }

/-- `setProfiles` + `setDevices` on an already cleared-or-not base. -/
def setAll (b : St) (ps : List Profile) (ds : List Device) : St :=
  { b with
    profiles := putMany b.profiles (profItems ps),
    devices := putMany b.devices (devItems ds),
    devIdx := putMany b.devIdx (devIdxItems ps),
    idx := putMany b.idx (keyItems (putMany b.devIdx (devIdxItems ps)) ds) }

/-- `fetchProfiles`: the synchronisation point sent to the storage — the zero time for a full
synchronisation, otherwise the sync time of the last response applied (or of the cache loaded). -/
def reqTime (s : St) (full : Bool) : Nat := if full then 0 else s.syncTime

/-- `Refresh` with a successful storage response carrying sync time `t`:
`setProfiles(profiles, devices, isFullSync)`, `db.syncTime = resp.SyncTime`, and the file cache is
rewritten on a full sync.  (A failed storage call returns before any of this: no step.) -/
def applySync (s : St) (full : Bool) (t : Nat) (ps : List Profile) (ds : List Device) : St :=
  if full then { setAll (cleared s) ps ds with cache := some ⟨t, ps, ds⟩, syncTime := t }
  else { setAll s ps ds with syncTime := t }

inductive Res
  | ok (p : Profile) (d : Device)
  | devNF      -- ErrDeviceNotFound
  | profNF     -- ErrProfileNotFound
deriving DecidableEq, Repr

/-- The device with this id, if it has a record and is listed by the profile it is indexed under
(the checks of `profileByDeviceID`). -/
def attachedDevice (s : St) (id : Nat) : Option (Profile × Device) :=
  match s.devIdx id with
  | none => none
  | some pid =>
    match s.profiles pid with
    | none => none
    | some p => if id ∈ p.devIds then (s.devices id).map (fun d => (p, d)) else none

/-- `profileByDeviceID`: result and the clean-ups it starts. -/
def findByDev (s : St) (id : Nat) : Res × List Cleanup :=
  match s.devIdx id with
  | none => (.devNF, [])
  | some pid =>
    match s.profiles pid with
    | none => (.profNF, [.dev id])
    | some p =>
      match (if id ∈ p.devIds then s.devices id else none) with
      | some d => (.ok p d, [])
      | none => (.devNF, if p.auto then [] else [.dev id])

/-- Whether a failed re-check of `k` against the device found starts a clean-up
(`ProfileByLinkedIP` does not when the device has no linked IP at all). -/
def staleSpawns (d : Device) : Key → Bool
  | .linked _ => d.linked != 0
  | _ => true

/-- `ProfileByLinkedIP` / `ProfileByDedicatedIP` / the index part of `ProfileByHumanID`. -/
def lookupKey (s : St) (k : Key) : Res × List Cleanup :=
  match s.idx k with
  | none => (.devNF, [])
  | some id =>
    match (findByDev s id).1 with
    | .ok p d =>
      if HasKey p.id d k then (.ok p d, [])
      else (.devNF, if staleSpawns d k then [.key k] else [])
    | .devNF => (.devNF, (findByDev s id).2 ++ [.key k])
    | .profNF => (.profNF, (findByDev s id).2)

/-- `ProfileByHumanID`. -/
def lookupHuman (s : St) (pid h : Nat) : Res × List Cleanup :=
  match s.profiles pid with
  | none => (.profNF, [])
  | some _ => lookupKey s (.human h pid)

/-- The clean-up goroutines as repaired: re-validate under the write lock, delete only a mapping
that is still stale. -/
def applyCleanup (s : St) : Cleanup → St
  | .dev id =>
    match attachedDevice s id with
    | some _ => s
    | none => { s with devIdx := del s.devIdx id }
  | .key k =>
    match s.idx k with
    | none => s
    | some id =>
      match attachedDevice s id with
      | some pd => if HasKey pd.1.id pd.2 k then s else { s with idx := del s.idx k }
      | none => { s with idx := del s.idx k }

/-- The clean-up goroutines as they were on the pinned tree: unconditional `delete`. -/
def applyCleanupOld (s : St) : Cleanup → St
  | .dev id => { s with devIdx := del s.devIdx id }
  | .key k => { s with idx := del s.idx k }

/-- `ProfileByHumanID` as it was on the pinned tree: no check that the device found belongs to
the profile asked for. -/
def lookupHumanOld (s : St) (pid h : Nat) : Res :=
  match s.profiles pid with
  | none => .profNF
  | some _ =>
    match s.idx (.human h pid) with
    | none => .devNF
    | some id =>
      match (findByDev s id).1 with
      | .ok p d => if d.human = h then .ok p d else .devNF
      | r => r

/-! ### Restart from the file cache -/

def fileCacheVersion : Nat := 15

/-- `New` + `loadFileCache`: a fresh database filled from the cache file, unless the file is
absent, has another version, or holds no profiles or no devices.  The sync time of the cache
becomes the database's synchronisation point. -/
def loadCache (version : Nat) (c : Option CacheFile) : St :=
  match c with
  | none => init
  | some f =>
    if version ≠ fileCacheVersion then { init with cache := c }
    else if f.profs.length = 0 ∨ f.devs.length = 0 then { init with cache := c }
    else { setAll init f.profs f.devs with cache := c, syncTime := f.time }

inductive Op
  | sync (full : Bool) (t : Nat) (ps : List Profile) (ds : List Device)
  /-- a full synchronisation whose `db.cache.Store` failed: the response is applied and the
  synchronisation point advanced (`Refresh` returns the error only afterwards), the cache file keeps
  its previous content (write-then-rename: a failed store never touches the target) -/
  | syncNS (t : Nat) (ps : List Profile) (ds : List Device)
  | byDev (id : Nat)
  | byKey (k : Key)
  | byHuman (pid h : Nat)
  /-- scheduler: the `i`-th pending clean-up goroutine gets the write lock now -/
  | run (i : Nat)
  /-- the process is restarted: pending clean-up goroutines die, a new database is opened on the
  cache file, read as version `v` -/
  | restart (v : Nat)

def step (s : St) : Op → St
  | .sync full t ps ds => applySync s full t ps ds
  | .syncNS t ps ds => { applySync s true t ps ds with cache := s.cache }
  | .byDev id => { s with pending := s.pending ++ (findByDev s id).2 }
  | .byKey k => { s with pending := s.pending ++ (lookupKey s k).2 }
  | .byHuman pid h => { s with pending := s.pending ++ (lookupHuman s pid h).2 }
  | .run i =>
    match s.pending[i]? with
    | none => s
    | some c => applyCleanup { s with pending := s.pending.eraseIdx i } c
  | .restart v => loadCache v s.cache

def run (ops : List Op) : St := ops.foldl step init

/-- Run every pending clean-up, oldest first. -/
def flush (s : St) : St :=
  s.pending.foldl applyCleanup { s with pending := [] }

/-! ### `backendpb.ProfileStorage.Profiles`: from the stream of wire profiles to the response -/

/-- A wire `DeviceSettings` and whether `(*DeviceSettings).toInternal` accepts it (addresses well
formed, dedicated IPs among the bound ones, valid ids and names). -/
structure WireDevice where
  dev : Device
  valid : Bool

/-- A wire `DNSProfile` (its `devIds` are not on the wire) and whether
`(*DNSProfile).toInternal` accepts it. -/
structure WireProfile where
  prof : Profile
  devs : List WireDevice
  ok : Bool

/-- `devicesToInternal`: rejected devices are dropped. -/
def acceptedDevs (ws : List WireDevice) : List Device := (ws.filter (·.valid)).map (·.dev)

/-- `(*DNSProfile).toInternal`: `DeviceIDs` are the ids of the accepted devices. -/
def convProfile (w : WireProfile) : Profile :=
  { w.prof with devIds := (acceptedDevs w.devs).map (·.id) }

/-- The receive loop of `Profiles`: a rejected profile is skipped with its devices. -/
def respOfWire : List WireProfile → List Profile × List Device
  | [] => ([], [])
  | w :: r =>
    if w.ok then (convProfile w :: (respOfWire r).1, acceptedDevs w.devs ++ (respOfWire r).2)
    else respOfWire r

/-! ### The synchronisation protocol seen from the storage -/

/-- What happens to the database over time: model operations, and `Refresh` calls whose storage
request failed (no state change, but a request was sent). -/
inductive Ev
  | op (o : Op)
  | failed (full : Bool)

def stepEv (s : St) : Ev → St
  | .op o => step s o
  | .failed _ => s

def runEv (evs : List Ev) : St := evs.foldl stepEv init

/-! ### Production wiring (`internal/cmd`): the context of a refresh, the start of the process -/

/-- `ctxWithOptionalTimeout` (used by `initProfDB` and by the context constructor of the refresh
worker): the deadline of a context created at `now` for the configured `backend.timeout`; `none`
is a context without a deadline — what the configuration documents for `timeout: 0s`. -/
def ctxDeadline (timeout now : Nat) : Option Nat :=
  if timeout = 0 then none else some (now + timeout)

/-- The builder before the repair: `context.WithTimeout(parent, timeout)` for every value. -/
def ctxDeadlineOld (timeout now : Nat) : Option Nat := some (now + timeout)

/-- A request issued at `now` whose answer takes `latency` is answered iff it is complete before
the deadline of its context. -/
def answered (deadline : Option Nat) (now latency : Nat) : Bool :=
  match deadline with
  | none => true
  | some d => decide (now + latency < d)

/-- `needsFullSync` with the clock readings as inputs: `sinceFull = time.Since(lastFullSync)`,
`sinceErr = some (time.Since(lastFullSyncError))` iff the last attempt at a full synchronisation
failed. -/
def needsFullSync (fullIvl retryIvl sinceFull : Int) (sinceErr : Option Int) : Bool :=
  match sinceErr with
  | none => decide (sinceFull ≥ fullIvl)
  | some e => decide (e ≥ retryIvl)

/-- How the initial refresh of a start ends. -/
inductive InitialRefresh
  | ok | deadlineExceeded | otherError
deriving DecidableEq, Repr

/-- `initProfDB`: the process goes on after a successful initial refresh and after one that ran
into the deadline (it serves what the cache file held); any other error aborts the start. -/
def startGoesOn : InitialRefresh → Bool
  | .ok => true
  | .deadlineExceeded => true
  | .otherError => false

/-- One start of the process as `builder.initProfileDB` runs it against a backend that answers
after `latency`: `profiledb.New` (the cache file read as version `v`), then the initial refresh
under a context made for `backend.timeout` by `mk`. -/
def startEvs (mk : Nat → Nat → Option Nat) (v timeout latency : Nat) (full : Bool) (t : Nat)
    (ps : List Profile) (ds : List Device) : List Ev :=
  [.op (.restart v),
   if answered (mk timeout 0) 0 latency then .op (.sync full t ps ds) else .failed full]

/-! ### The refresh worker (`agdservice.RefreshWorker.refreshInALoop`) and panics -/

/-- One tick of the refresh worker: the `Refresh` it runs is an event of the history (applied,
failed request, failed store), or it panics inside (a converter of `backendpb` dereferencing an
absent part of the backend's answer). -/
inductive Tick
  | ev (e : Ev)
  | panic

/-- The events a sequence of ticks leaves in the history.  `refreshInALoop` defers
`slogutil.RecoverAndLog` OUTSIDE its `for` loop: the first panic is logged, the goroutine returns,
and no later tick refreshes anything (the process itself lives on and keeps answering look-ups). -/
def workerEvs : List Tick → List Ev
  | [] => []
  | .ev e :: r => e :: workerEvs r
  | .panic :: _ => []

/-- A tick whose answer makes the conversion panic (`panics`) or not. -/
def tickOf (panics : Bool) (e : Ev) : Tick := if panics then .panic else .ev e

end Agd.ProfileDB
