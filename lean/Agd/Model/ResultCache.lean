/-!
# C12 model: filtering-result caches

Mirrors

* `internal/filter/internal/rulelist/rulelist.go` (`filter.DNSResult`, `itemFromCache`) and
  `refreshable.go` (`Refreshable.Refresh`: `cache.Clear` + engine swap under the write lock) — the
  cache type shared by rule lists, blocked-service lists and the safe-search filters;
* `internal/filter/hashprefix/filter.go` (`FilterRequest`, `filteredResult`, `respForFamily`,
  `setInCache`, `clearCache`, `refresh`) in the *fixed* form (matched host cached, result rebuilt
  per requester, generation guard), plus the unfixed forms `Old.*` used by the counter-example
  theorems;
* `internal/filter/internal/custom/custom.go` (`Filters.Get/get/set`).

A cache is a function table `slot → Option item`; LRU capacity eviction is the explicit operation
`evict` that may hit any slot at any time, so every theorem holds under arbitrary eviction.  The
64-bit `maphash` key is an arbitrary function `hash` of the structural key; the host stored in the
item is compared on every hit exactly as the code does.
-/
namespace Agd.ResultCache

/-! ## Function tables -/

abbrev Tbl (S V : Type) := S → Option V

def Tbl.empty {S V : Type} : Tbl S V := fun _ => none

def Tbl.put {S V : Type} [DecidableEq S] (t : Tbl S V) (k : S) (v : V) : Tbl S V :=
  fun j => if j = k then some v else t j

def Tbl.del {S V : Type} [DecidableEq S] (t : Tbl S V) (k : S) : Tbl S V :=
  fun j => if j = k then none else t j

/-! ## Rule-list result cache (`rulelist.filter` / `rulelist.Refreshable`) -/

/-- Structural cache key: `NewCacheKey(host, rrType, ClassINET, isAns)`.  `sub` packs the type,
class and answer flag. -/
structure Key where
  host : String
  sub : Nat
deriving DecidableEq, Repr

/-- `rulelist.CacheItem`. -/
structure Item (V : Type) where
  val : V
  host : String

/-- A rule-list filter: the engine (a function of the key and of the requester `R`: client address
and name), its result cache and whether the cache is a real LRU or `ResultCacheEmpty`. -/
structure RL (S R V : Type) where
  engine : Key → R → V
  cache : Tbl S (Item V)
  enabled : Bool

inductive Op (S R V : Type) where
  /-- `DNSResult` (atomic: the read lock is held from `Get` to `Set`). -/
  | query (k : Key) (r : R)
  /-- `Refreshable.Refresh` (`Clear` + engine swap under the write lock); for immutable lists and
  for `filterstorage.addRuleList` a fresh filter object with a fresh cache — the same state. -/
  | refresh (e : Key → R → V)
  /-- LRU eviction of an arbitrary slot. -/
  | evict (slot : S)

/-- `itemFromCache`. -/
def RL.lookup {S R V : Type} (hash : Key → S) (s : RL S R V) (k : Key) : Option V :=
  if s.enabled then
    match s.cache (hash k) with
    | some it => if it.host = k.host then some it.val else none
    | none => none
  else none

def RL.step {S R V : Type} [DecidableEq S] (hash : Key → S) (s : RL S R V) : Op S R V → RL S R V × Option V
  | .query k r =>
    match s.lookup hash k with
    | some v => (s, some v)
    | none =>
      (if s.enabled then { s with cache := s.cache.put (hash k) ⟨s.engine k r, k.host⟩ } else s,
       some (s.engine k r))
  | .refresh e => ({ s with engine := e, cache := Tbl.empty }, none)
  | .evict slot => ({ s with cache := s.cache.del slot }, none)

/-- Outputs of a history. -/
def RL.run {S R V : Type} [DecidableEq S] (hash : Key → S) : RL S R V → List (Op S R V) → List (Option V)
  | _, [] => []
  | s, op :: ops => (s.step hash op).2 :: RL.run hash (s.step hash op).1 ops

def RL.final {S R V : Type} [DecidableEq S] (hash : Key → S) : RL S R V → List (Op S R V) → RL S R V
  | s, [] => s
  | s, op :: ops => RL.final hash (s.step hash op).1 ops

/-- The engine has no client-specific rules (`$client`, `$ctag`): its result does not depend on the
requester. -/
def ClientFree {R V : Type} (e : Key → R → V) : Prop := ∀ k r₁ r₂, e k r₁ = e k r₂

/-- Every engine installed by a history is client-free. -/
def OpsClientFree {S R V : Type} : List (Op S R V) → Prop
  | [] => True
  | .refresh e :: ops => ClientFree e ∧ OpsClientFree ops
  | _ :: ops => OpsClientFree ops

/-- The 64-bit key does not collide for two different (type, class, answer) tuples of one host.
Collisions between different hosts are caught by the code's host comparison and need no
assumption. -/
def HashOK {S : Type} (hash : Key → S) : Prop :=
  ∀ h a b, hash ⟨h, a⟩ = hash ⟨h, b⟩ → a = b

/-- The history without any cache: only the current engine is tracked (independent specification
of what a rule-list filter answers). -/
def RL.spec {S R V : Type} : (Key → R → V) → List (Op S R V) → List (Option V)
  | _, [] => []
  | e, .query k r :: ops => some (e k r) :: RL.spec e ops
  | _, .refresh e' :: ops => none :: RL.spec e' ops
  | e, .evict _ :: ops => none :: RL.spec e ops

/-! ### The storage: one filter per list (`filterstorage.Default`, `internal/cmd` builder) -/

/-- The rule-list side of `filterstorage.Default` as the builder wires it: every list identifier
(rule list, blocked service, general / YouTube safe search) has a filter of its own — its own
engine *and its own result cache* (`NewManagedResultCache` per `addRuleList` / per service /
per safe-search filter). -/
abbrev Store (ι S R V : Type) := ι → RL S R V

/-- An operation addressed to the filter of one list. -/
structure StOp (ι S R V : Type) where
  list : ι
  op : Op S R V

def Store.step {ι S R V : Type} [DecidableEq ι] [DecidableEq S] (hash : Key → S) (st : Store ι S R V)
    (o : StOp ι S R V) : Store ι S R V × Option V :=
  (fun j => if j = o.list then ((st o.list).step hash o.op).1 else st j, ((st o.list).step hash o.op).2)

def Store.run {ι S R V : Type} [DecidableEq ι] [DecidableEq S] (hash : Key → S) :
    Store ι S R V → List (StOp ι S R V) → List (Option V)
  | _, [] => []
  | st, o :: ops => (st.step hash o).2 :: Store.run hash (st.step hash o).1 ops

/-- Independent specification of the storage: per list only the engine installed last. -/
def Store.spec {ι S R V : Type} [DecidableEq ι] : (ι → Key → R → V) → List (StOp ι S R V) → List (Option V)
  | _, [] => []
  | es, ⟨i, .query k r⟩ :: ops => some (es i k r) :: Store.spec es ops
  | es, ⟨i, .refresh e⟩ :: ops => none :: Store.spec (fun j => if j = i then e else es j) ops
  | es, ⟨_, .evict _⟩ :: ops => none :: Store.spec es ops

def StOpsClientFree {ι S R V : Type} : List (StOp ι S R V) → Prop
  | [] => True
  | ⟨_, .refresh e⟩ :: ops => ClientFree e ∧ StOpsClientFree ops
  | _ :: ops => StOpsClientFree ops

/-- A mis-wired storage: the lists have their own engines but *one* result cache between them (a
cache memoised by identifier, or one cache object handed to several filters). -/
structure Shared (ι S R V : Type) where
  engines : ι → Key → R → V
  cache : Tbl S (Item V)

def Shared.step {ι S R V : Type} [DecidableEq ι] [DecidableEq S] (hash : Key → S) (s : Shared ι S R V)
    (o : StOp ι S R V) : Shared ι S R V × Option V :=
  (⟨fun j => if j = o.list then
        (RL.step hash ⟨s.engines o.list, s.cache, true⟩ o.op).1.engine else s.engines j,
     (RL.step hash ⟨s.engines o.list, s.cache, true⟩ o.op).1.cache⟩,
   (RL.step hash ⟨s.engines o.list, s.cache, true⟩ o.op).2)

def Shared.run {ι S R V : Type} [DecidableEq ι] [DecidableEq S] (hash : Key → S) :
    Shared ι S R V → List (StOp ι S R V) → List (Option V)
  | _, [] => []
  | s, o :: ops => (s.step hash o).2 :: Shared.run hash (s.step hash o).1 ops

/-! ### The cache key (`internal.NewCacheKey`) -/

/-- The five bytes written after the host: question type and class as little-endian 16-bit
numbers, then the answer flag. -/
def keyTail (qt cl : Nat) (isAns : Bool) : List Nat :=
  [qt % 256, qt / 256 % 256, cl % 256, cl / 256 % 256, if isAns then 1 else 0]

/-- The byte string that `NewCacheKey` feeds to `maphash`. -/
def keyBytes (host : List Nat) (qt cl : Nat) (isAns : Bool) : List Nat := host ++ keyTail qt cl isAns

/-! ### Safe search (`safesearch.Filter.FilterRequest`) -/

/-- Only A, AAAA and HTTPS questions reach the rule list. -/
def ssGate (qt : Nat) : Bool := qt == 1 || qt == 28 || qt == 65

inductive SSOp (S R V : Type) where
  /-- `FilterRequest` for host / question type by requester `r`. -/
  | query (host : String) (qt : Nat) (r : R)
  | refresh (e : Key → R → V)
  | evict (slot : S)

/-- `FilterRequest`: the gate, the (cached) `DNSResult` for `(host, qt, IN, false)`, then the result
is built anew for the requester (`ProcessDNSRewrites` with the requester's message and constructor,
`replaceRule`) — `post`. -/
def RL.ssStep {S R V W : Type} [DecidableEq S] (hash : Key → S) (post : R → String → V → W)
    (s : RL S R V) : SSOp S R V → RL S R V × Option W
  | .query host qt r =>
    if ssGate qt then
      ((s.step hash (.query ⟨host, 2 * qt⟩ r)).1,
       (s.step hash (.query ⟨host, 2 * qt⟩ r)).2.map (post r host))
    else (s, none)
  | .refresh e => ((s.step hash (.refresh e)).1, none)
  | .evict slot => ((s.step hash (.evict slot)).1, none)

def RL.ssRun {S R V W : Type} [DecidableEq S] (hash : Key → S) (post : R → String → V → W) :
    RL S R V → List (SSOp S R V) → List (Option W)
  | _, [] => []
  | s, op :: ops => (s.ssStep hash post op).2 :: RL.ssRun hash post (s.ssStep hash post op).1 ops

/-- Safe search without a cache: gate, current engine, result built for the requester. -/
def ssSpec {S R V W : Type} (post : R → String → V → W) : (Key → R → V) → List (SSOp S R V) → List (Option W)
  | _, [] => []
  | e, .query host qt r :: ops =>
    (if ssGate qt then some (post r host (e ⟨host, 2 * qt⟩ r)) else none) :: ssSpec post e ops
  | _, .refresh e' :: ops => none :: ssSpec post e' ops
  | e, .evict _ :: ops => none :: ssSpec post e ops

def SSOpsClientFree {S R V : Type} : List (SSOp S R V) → Prop
  | [] => True
  | .refresh e :: ops => ClientFree e ∧ SSOpsClientFree ops
  | _ :: ops => SSOpsClientFree ops

/-! ### Small-step rule-list filter: `Refreshable` with its `RWMutex`

`Refreshable.DNSResult` takes the read lock, then `filter.DNSResult` does `Get`, on a miss
`MatchRequest` and `Set`; `Refreshable.Refresh` takes the write lock, clears the cache, swaps the
engine.  `disc = true` is the lock discipline of the code; `disc = false` lets lookups and the
refresh overlap freely (what happens when `Clear` or the swap are moved out of the critical section,
or when the old and the new filter object share one cache). -/

structure RThread (R V : Type) where
  tid : Nat
  key : Key
  req : R
  /-- `none`: holds the read lock, `Get` not done yet; `some none`: `Get` missed; `some (some v)`:
  the engine returned `v`, `Set` not done yet. -/
  phase : Option (Option V)

/-- Writer phases. -/
inductive WPhase (R V : Type) where
  | idle
  /-- holds the write lock, `Clear` not done yet -/
  | locked (e : Key → R → V)
  /-- `Clear` done, engine not swapped yet -/
  | cleared (e : Key → R → V)

structure RLS (S R V : Type) where
  engine : Key → R → V
  cache : Tbl S (Item V)
  readers : List (RThread R V)
  writer : WPhase R V

inductive ROp (S R V : Type) where
  /-- `f.mu.RLock()` -/
  | rlock (tid : Nat) (k : Key) (r : R)
  /-- `itemFromCache`; a hit returns (and releases the lock) -/
  | get (tid : Nat)
  /-- `engine.MatchRequest` -/
  | mtch (tid : Nat)
  /-- `cache.Set`, return, `RUnlock` -/
  | set (tid : Nat)
  /-- `f.mu.Lock()` in `Refresh` with the compiled new engine -/
  | wlock (e : Key → R → V)
  /-- `f.cache.Clear()` -/
  | wclear
  /-- `f.engine = …` and `Unlock` -/
  | wswap
  | evict (slot : S)

def WPhase.isIdle {R V : Type} : WPhase R V → Bool
  | .idle => true
  | _ => false

def findR {R V : Type} (ts : List (RThread R V)) (tid : Nat) : Option (RThread R V) :=
  ts.find? (fun t => t.tid = tid)

def dropR {R V : Type} (ts : List (RThread R V)) (tid : Nat) : List (RThread R V) :=
  ts.filter (fun t => t.tid ≠ tid)

def RLS.lookup {S R V : Type} (hash : Key → S) (s : RLS S R V) (k : Key) : Option V :=
  match s.cache (hash k) with
  | some it => if it.host = k.host then some it.val else none
  | none => none

def RLS.step {S R V : Type} [DecidableEq S] (disc : Bool) (hash : Key → S) (s : RLS S R V) :
    ROp S R V → RLS S R V × Option V
  | .rlock tid k r =>
    if disc && !s.writer.isIdle then (s, none)
    else ({ s with readers := ⟨tid, k, r, none⟩ :: dropR s.readers tid }, none)
  | .get tid =>
    match findR s.readers tid with
    | some t =>
      match t.phase with
      | none =>
        match s.lookup hash t.key with
        | some v => ({ s with readers := dropR s.readers tid }, some v)
        | none => ({ s with readers := { t with phase := some none } :: dropR s.readers tid }, none)
      | some _ => (s, none)
    | none => (s, none)
  | .mtch tid =>
    match findR s.readers tid with
    | some t =>
      match t.phase with
      | some none =>
        ({ s with readers := { t with phase := some (some (s.engine t.key t.req)) } :: dropR s.readers tid }, none)
      | _ => (s, none)
    | none => (s, none)
  | .set tid =>
    match findR s.readers tid with
    | some t =>
      match t.phase with
      | some (some v) =>
        ({ s with readers := dropR s.readers tid, cache := s.cache.put (hash t.key) ⟨v, t.key.host⟩ }, some v)
      | _ => (s, none)
    | none => (s, none)
  | .wlock e =>
    match s.writer with
    | .idle => if disc && !s.readers.isEmpty then (s, none) else ({ s with writer := .locked e }, none)
    | _ => (s, none)
  | .wclear =>
    match s.writer with
    | .locked e => ({ s with writer := .cleared e, cache := Tbl.empty }, none)
    | _ => (s, none)
  | .wswap =>
    match s.writer with
    | .cleared e => ({ s with writer := .idle, engine := e }, none)
    | _ => (s, none)
  | .evict slot => ({ s with cache := s.cache.del slot }, none)

def RLS.init {S R V : Type} (e : Key → R → V) : RLS S R V :=
  { engine := e, cache := Tbl.empty, readers := [], writer := .idle }

def RLS.final {S R V : Type} [DecidableEq S] (disc : Bool) (hash : Key → S) :
    RLS S R V → List (ROp S R V) → RLS S R V
  | s, [] => s
  | s, op :: ops => RLS.final disc hash (s.step disc hash op).1 ops

def RLS.run {S R V : Type} [DecidableEq S] (disc : Bool) (hash : Key → S) :
    RLS S R V → List (ROp S R V) → List (Option V)
  | _, [] => []
  | s, op :: ops => (s.step disc hash op).2 :: RLS.run disc hash (s.step disc hash op).1 ops

/-- Every engine a history installs is client-free. -/
def ROpsClientFree {S R V : Type} : List (ROp S R V) → Prop
  | [] => True
  | .wlock e :: ops => ClientFree e ∧ ROpsClientFree ops
  | _ :: ops => ROpsClientFree ops

/-- The four small steps of one lookup / three of one refresh, run back to back. -/
def RLS.atomic {S R V : Type} [DecidableEq S] (hash : Key → S) (s : RLS S R V) : Op S R V → RLS S R V × Option V
  | .query k r =>
    let s1 := (s.step true hash (.rlock 0 k r)).1
    let g := s1.step true hash (.get 0)
    match g.2 with
    | some v => (g.1, some v)
    | none =>
      let s3 := (g.1.step true hash (.mtch 0)).1.step true hash (.set 0)
      (s3.1, s3.2)
  | .refresh e => ((((s.step true hash (.wlock e)).1.step true hash .wclear).1.step true hash .wswap).1, none)
  | .evict sl => ((s.step true hash (.evict sl)).1, none)

def RLS.atomicRun {S R V : Type} [DecidableEq S] (hash : Key → S) : RLS S R V → List (Op S R V) → List (Option V)
  | _, [] => []
  | s, op :: ops => (s.atomic hash op).2 :: RLS.atomicRun hash (s.atomic hash op).1 ops

/-! ## Hash-prefix filter -/

inductive Mode where
  | nxdomain | refused | nullIP | customIP (has4 has6 : Bool)
deriving DecidableEq, Repr

inductive QT where
  | a | aaaa | https | other
deriving DecidableEq, Repr

/-- What the answer depends on besides the matched host: the requester's message constructor
(blocking mode, filtered-response TTL, EDE switch) and message (question type, EDNS). -/
structure Req where
  mode : Mode
  ttl : Nat
  ede : Bool
  edns : Bool
  qt : QT
deriving DecidableEq, Repr

/-- Replacement: an IPv4 / IPv6 address or a host name. -/
inductive Rep where
  | ip4 | ip6 | host
deriving DecidableEq, Repr

/-- Observable shape of a filtering result. -/
inductive Res where
  | none
  | modReq (rule : String)
  /-- `ans = 0`: no answer record, `1`: the replacement address, `2`: a blocking-mode address. -/
  | modResp (rule : String) (rcode : Nat) (ans : Nat) (ttl : Nat) (soa : Bool) (ede : Bool)
deriving DecidableEq, Repr

/-- `isFilterable`. -/
def filterable : QT → Bool
  | .other => false
  | _ => true

/-- `Constructor.NewBlockedResp` for a non-address question (HTTPS). -/
def blockedRespHTTPS (rule : String) (r : Req) : Res :=
  let ede := r.ede && r.edns
  match r.mode with
  | .nxdomain => .modResp rule 3 0 r.ttl true ede
  | .refused => .modResp rule 5 0 r.ttl true ede
  | .nullIP => .modResp rule 0 0 r.ttl true ede
  | .customIP _ _ => .modResp rule 0 0 r.ttl true ede

/-- `filteredResult` + `respForFamily`. -/
def build (rep : Rep) (r : Req) (matched : String) : Res :=
  if matched = "" then .none
  else match rep with
    | .host => .modReq matched
    | .ip4 =>
      match r.qt with
      | .https => blockedRespHTTPS matched r
      | .a => .modResp matched 0 1 r.ttl false false
      | _ => .modResp matched 0 0 r.ttl true (r.ede && r.edns)
    | .ip6 =>
      match r.qt with
      | .https => blockedRespHTTPS matched r
      | .aaaa => .modResp matched 0 1 r.ttl false false
      | _ => .modResp matched 0 0 r.ttl true (r.ede && r.edns)

/-- The first hashable subdomain of the host that is in the hash storage (`""` if none).  `subs` is
`hashableSubdomains` (public-suffix list as a parameter). -/
def matchOf (subs : String → List String) (store : List String) (host : String) : String :=
  ((subs host).find? (fun s => store.contains s)).getD ""

/-- Hash-prefix cache item of the fixed code. -/
structure HItem where
  matched : String
  host : String
deriving DecidableEq, Repr

/-- An in-flight `FilterRequest` that missed the cache. -/
structure Thread where
  tid : Nat
  key : Key
  req : Req
  gen : Nat
  matched : Option String
deriving DecidableEq, Repr

/-- State of a hash-prefix filter.  `pending` counts `Storage.Reset`s whose `clearCache` has not run
yet. -/
structure HP (S : Type) where
  store : List String
  cache : Tbl S HItem
  gen : Nat
  pending : Nat
  threads : List Thread

def HP.init {S : Type} : HP S := { store := [], cache := Tbl.empty, gen := 0, pending := 0, threads := [] }

inductive HOp (S : Type) where
  /-- `FilterRequest` up to and including `resCacheGen.Load()`: cache lookup, filterable check. -/
  | begin (tid : Nat) (k : Key) (r : Req)
  /-- The `hashes.Matches` loop. -/
  | mtch (tid : Nat)
  /-- `filteredResult` + `setInCache`. -/
  | finish (tid : Nat)
  /-- `hashes.Reset(text)` inside `refresh`. -/
  | store (hosts : List String)
  /-- `clearCache()` inside `refresh`. -/
  | clear
  | evict (slot : S)

def HP.lookup {S : Type} (hash : Key → S) (s : HP S) (k : Key) : Option HItem :=
  match s.cache (hash k) with
  | some it => if it.host = k.host then some it else none
  | none => none

def findThread (ts : List Thread) (tid : Nat) : Option Thread := ts.find? (fun t => t.tid = tid)

def dropThread (ts : List Thread) (tid : Nat) : List Thread := ts.filter (fun t => t.tid ≠ tid)

/-- One small step.  `guarded = true` is the fixed code (`setInCache` compares generations),
`guarded = false` the code before the fix. -/
def HP.step {S : Type} [DecidableEq S] (guarded : Bool) (subs : String → List String) (rep : Rep)
    (hash : Key → S) (s : HP S) : HOp S → HP S × Option Res
  | .begin tid k r =>
    if !filterable r.qt then (s, some .none)
    else match s.lookup hash k with
      | some it => (s, some (build rep r it.matched))
      | none =>
        ({ s with threads := { tid := tid, key := k, req := r, gen := s.gen, matched := none }
                              :: dropThread s.threads tid }, none)
  | .mtch tid =>
    match findThread s.threads tid with
    | some t => ({ s with threads := { t with matched := some (matchOf subs s.store t.key.host) }
                                       :: dropThread s.threads tid }, none)
    | none => (s, none)
  | .finish tid =>
    match findThread s.threads tid with
    | some t =>
      match t.matched with
      | some m =>
        ({ s with threads := dropThread s.threads tid,
                  cache := if !guarded || t.gen = s.gen then s.cache.put (hash t.key) ⟨m, t.key.host⟩
                           else s.cache },
         some (build rep t.req m))
      | none => (s, none)
    | none => (s, none)
  | .store hosts => ({ s with store := hosts, pending := s.pending + 1 }, none)
  | .clear =>
    if s.pending = 0 then (s, none)
    else ({ s with pending := s.pending - 1, gen := s.gen + 1, cache := Tbl.empty }, none)
  | .evict slot => ({ s with cache := s.cache.del slot }, none)

def HP.final {S : Type} [DecidableEq S] (g : Bool) (subs : String → List String) (rep : Rep)
    (hash : Key → S) : HP S → List (HOp S) → HP S
  | s, [] => s
  | s, op :: ops => HP.final g subs rep hash (s.step g subs rep hash op).1 ops

def HP.run {S : Type} [DecidableEq S] (g : Bool) (subs : String → List String) (rep : Rep)
    (hash : Key → S) : HP S → List (HOp S) → List (Option Res)
  | _, [] => []
  | s, op :: ops => (s.step g subs rep hash op).2 :: HP.run g subs rep hash (s.step g subs rep hash op).1 ops

/-- What a lookup without any cache answers in state `s`. -/
def HP.fresh {S : Type} (subs : String → List String) (rep : Rep) (s : HP S) (k : Key) (r : Req) : Res :=
  if !filterable r.qt then .none else build rep r (matchOf subs s.store k.host)

/-- Sequential histories: a whole `FilterRequest`, a whole `refresh`, an eviction. -/
inductive SOp (S : Type) where
  | query (k : Key) (r : Req)
  | refresh (hosts : List String)
  | evict (slot : S)

/-- Expansion of a sequential history into small steps (thread id 0 is reused). -/
def expand {S : Type} : List (SOp S) → List (HOp S)
  | [] => []
  | .query k r :: ops => .begin 0 k r :: .mtch 0 :: .finish 0 :: expand ops
  | .refresh hosts :: ops => .store hosts :: .clear :: expand ops
  | .evict slot :: ops => .evict slot :: expand ops

/-- The answer of a whole query: the output of `begin` if it was final, else that of `finish`. -/
def HP.query {S : Type} [DecidableEq S] (g : Bool) (subs : String → List String) (rep : Rep)
    (hash : Key → S) (s : HP S) (k : Key) (r : Req) : HP S × Res :=
  let s1 := s.step g subs rep hash (.begin 0 k r)
  match s1.2 with
  | some res => (s1.1, res)
  | none =>
    let s2 := (s1.1.step g subs rep hash (.mtch 0)).1
    let s3 := s2.step g subs rep hash (.finish 0)
    (s3.1, s3.2.getD .none)

def HP.seqRun {S : Type} [DecidableEq S] (g : Bool) (subs : String → List String) (rep : Rep)
    (hash : Key → S) : HP S → List (SOp S) → List Res
  | _, [] => []
  | s, .query k r :: ops =>
    (s.query g subs rep hash k r).2 :: HP.seqRun g subs rep hash (s.query g subs rep hash k r).1 ops
  | s, .refresh hosts :: ops =>
    HP.seqRun g subs rep hash
      ((s.step g subs rep hash (.store hosts)).1.step g subs rep hash .clear).1 ops
  | s, .evict slot :: ops => HP.seqRun g subs rep hash (s.step g subs rep hash (.evict slot)).1 ops

/-- The same history without any cache: only the hash storage is tracked. -/
def refRun (subs : String → List String) (rep : Rep) {S : Type} : List String → List (SOp S) → List Res
  | _, [] => []
  | st, .query k r :: ops =>
    (if !filterable r.qt then Res.none else build rep r (matchOf subs st k.host)) :: refRun subs rep st ops
  | _, .refresh hosts :: ops => refRun subs rep hosts ops
  | st, .evict _ :: ops => refRun subs rep st ops

/-! ### The code before the `fix:` commits (for the counter-example theorems) -/

namespace Old

/-- `ResultModifiedResponse.CloneForReq`: `SetReply` resets the response code; everything else in
the cached message (TTL, records, EDE option) is the first requester's.  `ResultModifiedRequest.Clone`
keeps the first requester's message. -/
def cloneForReq : Res → Res
  | .modResp rule _ ans ttl soa ede => .modResp rule 0 ans ttl soa ede
  | r => r

/-- Item of the unfixed cache: the first requester's result. -/
structure OItem where
  res : Res
  host : String
deriving DecidableEq, Repr

structure OHP (S : Type) where
  store : List String
  cache : Tbl S OItem

/-- The unfixed `FilterRequest`, sequential. -/
def query {S : Type} [DecidableEq S] (subs : String → List String) (rep : Rep) (hash : Key → S)
    (s : OHP S) (k : Key) (r : Req) : OHP S × Res :=
  let hit : Option OItem :=
    match s.cache (hash k) with
    | some it => if it.host = k.host then some it else none
    | none => none
  match hit with
  | some it => (s, cloneForReq it.res)
  | none =>
    if !filterable r.qt then (s, .none)
    else
      let res := build rep r (matchOf subs s.store k.host)
      ({ s with cache := s.cache.put (hash k) ⟨res, k.host⟩ }, res)

end Old

/-! ## Custom-filter cache (`custom.Filters`) -/

/-- `filter.ConfigCustom` (`rules` stands for the compiled engine as well). -/
structure Conf where
  id : String
  upd : Int
  rules : List String
  enabled : Bool
deriving DecidableEq, Repr

structure CItem where
  upd : Int
  rules : List String
deriving DecidableEq, Repr

abbrev CU := Tbl String CItem

inductive COp where
  | get (c : Conf)
  | evict (id : String)

/-- `Filters.Get`: `none` is "no custom filter", `some rules` the engine that is applied.  The cached
engine is used only when its update time *equals* the one of the configuration asked for
(`!item.updTime.Equal(c.UpdateTime)` → rebuild; the code after the round-5 `fix:` commit). -/
def CU.step (s : CU) : COp → CU × Option (List String)
  | .get c =>
    if !c.enabled || c.rules.isEmpty then (s, none)
    else match s c.id with
      | some it =>
        if it.upd ≠ c.upd then (s.put c.id ⟨c.upd, c.rules⟩, some c.rules)
        else (s, some it.rules)
      | none => (s.put c.id ⟨c.upd, c.rules⟩, some c.rules)
  | .evict id => (s.del id, none)

/-- The unfixed form: a cached engine was kept as long as its update time was not *before* the one
asked for (`item.updTime.Before(c.UpdateTime)` → rebuild). -/
def Old.cuStep (s : CU) : COp → CU × Option (List String)
  | .get c =>
    if !c.enabled || c.rules.isEmpty then (s, none)
    else match s c.id with
      | some it =>
        if it.upd < c.upd then (s.put c.id ⟨c.upd, c.rules⟩, some c.rules)
        else (s, some it.rules)
      | none => (s.put c.id ⟨c.upd, c.rules⟩, some c.rules)
  | .evict id => (s.del id, none)

def Old.cuRun : CU → List COp → List (Option (List String))
  | _, [] => []
  | s, op :: ops => (Old.cuStep s op).2 :: Old.cuRun (Old.cuStep s op).1 ops

def CU.run : CU → List COp → List (Option (List String))
  | _, [] => []
  | s, op :: ops => (s.step op).2 :: CU.run (s.step op).1 ops

/-- The answer without a cache: the requester's own rules. -/
def cuFresh : COp → Option (List String)
  | .get c => if !c.enabled || c.rules.isEmpty then none else some c.rules
  | .evict _ => none

/-- A history of configurations in which the update time identifies the version: two configurations
of one profile with equal times have equal rules.  The times need not be ordered in any way (the
unfixed code needed them never to go back: `VersionedMono`). -/
def Versioned : List Conf → List COp → Prop
  | _, [] => True
  | seen, .get c :: ops =>
    (∀ c' ∈ seen, c'.id = c.id → c'.upd = c.upd → c'.rules = c.rules) ∧
      Versioned (c :: seen) ops
  | seen, .evict _ :: ops => Versioned seen ops

/-- The stronger hypothesis the unfixed code needed: the times of a profile never go back either. -/
def VersionedMono : List Conf → List COp → Prop
  | _, [] => True
  | seen, .get c :: ops =>
    (∀ c' ∈ seen, c'.id = c.id → c'.upd ≤ c.upd ∧ (c'.upd = c.upd → c'.rules = c.rules)) ∧
      VersionedMono (c :: seen) ops
  | seen, .evict _ :: ops => VersionedMono seen ops

/-! ### Small-step custom-filter storage: `Filters.Get` is `cache.Get` … compile … `cache.Set` -/

/-- A `Get` that found no usable item and is compiling the caller's rules. -/
structure CThread where
  tid : Nat
  conf : Conf
deriving DecidableEq, Repr

structure CUS where
  cache : CU
  threads : List CThread

inductive CSOp where
  /-- `Filters.Get` up to and including `f.get(c)`: returns at once when the filter is disabled, has
  no rules, or a usable item is cached; otherwise the caller starts compiling. -/
  | get (tid : Nat) (c : Conf)
  /-- `NewImmutable`, `f.set`, return. -/
  | set (tid : Nat)
  | evict (id : String)

def CUS.init : CUS := { cache := Tbl.empty, threads := [] }

/-- The outer `Option` is "this step returns to a caller", the inner one is `Get`'s result. -/
def CUS.step (s : CUS) : CSOp → CUS × Option (Option (List String))
  | .get tid c =>
    if !c.enabled || c.rules.isEmpty then (s, some none)
    else match s.cache c.id with
      | some it =>
        if it.upd ≠ c.upd then ({ s with threads := ⟨tid, c⟩ :: s.threads.filter (fun t => t.tid ≠ tid) }, none)
        else (s, some (some it.rules))
      | none => ({ s with threads := ⟨tid, c⟩ :: s.threads.filter (fun t => t.tid ≠ tid) }, none)
  | .set tid =>
    match s.threads.find? (fun t => t.tid = tid) with
    | some t =>
      ({ cache := s.cache.put t.conf.id ⟨t.conf.upd, t.conf.rules⟩,
         threads := s.threads.filter (fun t => t.tid ≠ tid) }, some (some t.conf.rules))
    | none => (s, none)
  | .evict id => ({ s with cache := s.cache.del id }, none)

def CUS.final : CUS → List CSOp → CUS
  | s, [] => s
  | s, op :: ops => CUS.final (s.step op).1 ops

def CUS.run : CUS → List CSOp → List (Option (Option (List String)))
  | _, [] => []
  | s, op :: ops => (s.step op).2 :: CUS.run (s.step op).1 ops

/-- `Versioned` for small-step histories. -/
def VersionedS : List Conf → List CSOp → Prop
  | _, [] => True
  | seen, .get _ c :: ops =>
    (∀ c' ∈ seen, c'.id = c.id → c'.upd = c.upd → c'.rules = c.rules) ∧
      VersionedS (c :: seen) ops
  | seen, _ :: ops => VersionedS seen ops

/-! ## Where `UpdateTime` comes from: backend → `backendpb.ProfileStorage.Profiles` → `profiledb`

The version stamp that `custom.Filters` compares is not part of the backend's message: it is put on
every delivered profile by `ProfileStorage.Profiles` (`profile.toInternal(ctx, time.Now(), …)`), kept
by `profiledb.Default` until the profile is delivered again, written to the cache file by every full
synchronisation and read back after a restart.  `Sync` is that pipeline with the custom-filter
storage of the running process at its end. -/

/-- A profile at the backend: its current custom rules and the backend time of its last change. -/
structure BProf where
  id : String
  rules : List String
  changed : Int
deriving DecidableEq, Repr

/-- How `Profiles` stamps a delivered profile: a function of the local time of the call and of the
sync time of the request (`0`, the zero time, for a full synchronisation).  The code: `time.Now()`. -/
abbrev Stamp := Int → Int → Int

/-- `time.Now()`. -/
def stampNow : Stamp := fun now _ => now

/-- The stamps that keep the property: a later call stamps strictly later, whatever was requested. -/
def StrictStamp (stamp : Stamp) : Prop :=
  ∀ now now' req req', now < now' → stamp now req < stamp now' req'

structure Sync where
  /-- backend: at most one entry per profile ID is looked at (the first) -/
  backend : List BProf
  /-- backend clock: the `sync_time` trailer of the latest response, the time of the latest change -/
  btime : Int
  /-- local clock: the time of the latest `Profiles` call -/
  now : Int
  /-- `profiledb.Default.profiles`, the custom part of the filter configuration -/
  db : Tbl String Conf
  /-- `profiledb.Default.syncTime` -/
  syncTime : Int
  /-- the cache file, written by every successful full synchronisation -/
  file : Tbl String Conf
  fileSync : Int
  /-- `custom.Filters` of the running process -/
  cache : CU

def Sync.init : Sync :=
  { backend := [], btime := 1, now := 1, db := Tbl.empty, syncTime := 0, file := Tbl.empty, fileSync := 0,
    cache := Tbl.empty }

inductive YOp where
  /-- the user edits the custom rules of a profile, `dt + 1` backend ticks after the previous event -/
  | change (id : String) (rules : List String) (dt : Nat)
  /-- a successful `profiledb.Default.Refresh`, `dt + 1` local ticks after the previous one -/
  | sync (full : Bool) (dt : Nat)
  /-- the process restarts: `profiledb` from the cache file, a new (empty) filter storage; the wall
  clock of the new process is `back` ticks behind the one of the old process (`0`: it goes on) -/
  | restart (back : Nat)
  /-- a request of a device of the profile: `db` lookup, `ForConfig`, `custom.Filters.Get` -/
  | query (id : String)
  /-- LRU eviction from the custom-filter cache -/
  | evict (id : String)

/-- `DNSProfile.toInternal`: the custom filter is enabled exactly when there are rules. -/
def confOf (p : BProf) (upd : Int) : Conf := { id := p.id, upd := upd, rules := p.rules, enabled := !p.rules.isEmpty }

/-- What a `GetDNSProfiles` call with the request sync time `req` delivers. -/
def delivered (backend : List BProf) (full : Bool) (req : Int) (id : String) : Option BProf :=
  backend.find? (fun p => p.id == id && (full || decide (req < p.changed)))

def Sync.step (stamp : Stamp) (s : Sync) : YOp → Sync × Option (List String)
  | .change id rules dt =>
    ({ s with backend := ⟨id, rules, s.btime + dt + 1⟩ :: s.backend.filter (fun p => p.id != id),
              btime := s.btime + dt + 1 }, none)
  | .sync full dt =>
    let req := if full then 0 else s.syncTime
    let now' := s.now + dt + 1
    let db' : Tbl String Conf := fun id =>
      match delivered s.backend full req id with
      | some p => some (confOf p (stamp now' req))
      | none => if full then none else s.db id
    ({ s with now := now', btime := s.btime + 1, db := db', syncTime := s.btime + 1,
              file := if full then db' else s.file, fileSync := if full then s.btime + 1 else s.fileSync }, none)
  | .restart back => ({ s with db := s.file, syncTime := s.fileSync, cache := Tbl.empty, now := s.now - back }, none)
  | .query id =>
    match s.db id with
    | some c => ({ s with cache := (s.cache.step (.get c)).1 }, (s.cache.step (.get c)).2)
    | none => (s, none)
  | .evict id => ({ s with cache := s.cache.del id }, none)

def Sync.final (stamp : Stamp) : Sync → List YOp → Sync
  | s, [] => s
  | s, op :: ops => Sync.final stamp (s.step stamp op).1 ops

def Sync.run (stamp : Stamp) : Sync → List YOp → List (Option (List String))
  | _, [] => []
  | s, op :: ops => (s.step stamp op).2 :: Sync.run stamp (s.step stamp op).1 ops

/-- The answer without a custom-filter cache: the rules `profiledb` holds for the profile now. -/
def Sync.fresh (s : Sync) (id : String) : Option (List String) :=
  match s.db id with
  | some c => cuFresh (.get c)
  | none => none

/-- The same history with the cache emptied before every request (the uncached twin). -/
def Sync.runFresh (stamp : Stamp) : Sync → List YOp → List (Option (List String))
  | _, [] => []
  | s, .query id :: ops => s.fresh id :: Sync.runFresh stamp (s.step stamp (.query id)).1 ops
  | s, op :: ops => none :: Sync.runFresh stamp (s.step stamp op).1 ops

/-- No restart of the history sets the wall clock back. -/
def NoSetBack : List YOp → Prop
  | [] => True
  | .restart back :: ops => back = 0 ∧ NoSetBack ops
  | _ :: ops => NoSetBack ops

/-- Every stamp a synchronisation puts on the profiles it delivers differs from every stamp that is
still held somewhere (profile database, cache file, custom-filter cache).  With a clock that was set
back across a restart this is what remains of `StrictStamp`: a reading of the new process must not
coincide, to the nanosecond, with a reading of the old one. -/
def StampsFresh (stamp : Stamp) : Sync → List YOp → Prop
  | _, [] => True
  | s, .sync full dt :: ops =>
    (∀ x, (∃ id c, s.db id = some c ∧ c.upd = x) ∨ (∃ id c, s.file id = some c ∧ c.upd = x) ∨
          (∃ id it, s.cache id = some it ∧ it.upd = x) →
        x ≠ stamp (s.now + dt + 1) (if full then 0 else s.syncTime)) ∧
      StampsFresh stamp (s.step stamp (.sync full dt)).1 ops
  | s, op :: ops => StampsFresh stamp (s.step stamp op).1 ops

/-- The pipeline with the unfixed custom-filter storage (`Old.cuStep`). -/
def Old.syncStep (stamp : Stamp) (s : Sync) : YOp → Sync × Option (List String)
  | .query id =>
    match s.db id with
    | some c => ({ s with cache := (Old.cuStep s.cache (.get c)).1 }, (Old.cuStep s.cache (.get c)).2)
    | none => (s, none)
  | op => s.step stamp op

def Old.syncRun (stamp : Stamp) : Sync → List YOp → List (Option (List String))
  | _, [] => []
  | s, op :: ops => (Old.syncStep stamp s op).2 :: Old.syncRun stamp (Old.syncStep stamp s op).1 ops

/-- The rules the backend has for a profile (what a full synchronisation must put in force). -/
def backendRules (backend : List BProf) (id : String) : Option (List String) :=
  match backend.find? (fun p => p.id == id) with
  | some p => if p.rules.isEmpty then none else some p.rules
  | none => none

end Agd.ResultCache
