import Agd.Model.Config
/-!
# C20, backend stage: what the builder makes of the accepted values for the backend-facing parts

`builder.initBillStat`, `builder.initProfileDB` and `builder.initRateLimiter` (`internal/cmd/builder.go`)
hand configuration values to three refresh workers (`agdservice.NewRefreshWorker` → `time.NewTicker`,
which panics for a non-positive interval) and the response-size estimate to the TWO places that build
the rate limiters of the profiles: `backendpb.NewProfileStorage` (profiles that come from the backend)
and `profiledb.New` → `filecachepb.New` (profiles that are restored from `PROFILES_CACHE_PATH` after a
restart).  `agd.DefaultRatelimiter.CountResponses` divides the length of every response by that
estimate — before it looks at the client subnets.

`Wiring` is the record of what reaches those places; `wire` is the builder as found.  The executable
functions are total and core-only (the driver links them).
-/
namespace Agd.Config.Backend
open Agd.Config

/-- Where the limiter of a served profile was built. -/
inductive Source | backend | cache deriving DecidableEq, Repr

/-- The builder steps of this stage that start a refresh worker. -/
inductive Step | billStat | profileDB | rateLimiter deriving DecidableEq, Repr

def Step.name : Step → String
  | .billStat => "initBillStat" | .profileDB => "initProfileDB" | .rateLimiter => "initRateLimiter"

/-- What the builder hands on. -/
structure Wiring where
  billIvl : Int      -- `RefreshWorkerConfig.Interval` in `initBillStat`
  profIvl : Int      -- … in `initProfileDB`
  allowIvl : Int     -- … in `initRateLimiter`
  storageEst : Int   -- `backendpb.ProfileStorageConfig.ResponseSizeEstimate`
  cacheEst : Int     -- `profiledb.Config.ResponseSizeEstimate`, passed on to `filecachepb.New`
  fullIvl : Int      -- `profiledb.Config.FullSyncIvl`
  retryIvl : Int     -- `profiledb.Config.FullSyncRetryIvl`
  timeout : Int      -- `newCtxWithTimeoutCons(timeout)`, `initProfDB(…, timeout)`
  deriving DecidableEq, Repr

/-- The builder as found: every consumer gets the value of the file. -/
def wire (c : Config) : Wiring :=
  { billIvl := c.beBill, profIvl := c.beRefresh, allowIvl := c.alRefresh, storageEst := c.est,
    cacheEst := c.est, fullIvl := c.beFull, retryIvl := c.beRetry, timeout := c.beTimeout }

inductive BPanic
  | ticker (s : Step)     -- `time.NewTicker(d)` with `d ≤ 0`
  | divZero               -- `datasize.ByteSize(resp.Len()) / r.respSzEst`
  deriving DecidableEq, Repr

def ticker (s : Step) (ivl : Int) : Except BPanic Unit := if ivl ≤ 0 then .error (.ticker s) else .ok ()

/-- The three steps in the order of `Main`. -/
def start (w : Wiring) : Except BPanic Unit := do
  ticker .billStat w.billIvl
  ticker .profileDB w.profIvl
  ticker .rateLimiter w.allowIvl

/-- The estimate the limiter of a profile from `src` was built with. -/
def estOf (w : Wiring) : Source → Int
  | .backend => w.storageEst
  | .cache => w.cacheEst

/-- `needsFullSync` right after start-up with a cache of age `age` (no failed attempt yet): a restart
keeps serving the limiters rebuilt from the file unless a full synchronisation is due. -/
def restartSource (w : Wiring) (cachePresent : Bool) (age : Int) : Source :=
  if cachePresent ∧ age < w.fullIvl then .cache else .backend

inductive Verdict | pass | drop | global deriving DecidableEq, Repr

def Verdict.name : Verdict → String
  | .pass => "pass" | .drop => "drop" | .global => "global"

/-- `RequestCounter.Add` on a ring of `rps + 1` stamps, all events within the second: the `k`-th event
is above the limit exactly when `k > rps`. -/
def event (rps k : Nat) : Verdict := if k > rps then .drop else .pass

/-- What `ratelimitmw` does with the limiter of a profile for one request and the next: `Check`,
`CountResponses` on a response of `len` bytes, `Check`; a fresh limiter with a custom limit of `rps`
per second; `applies` = the client is covered by the custom limit. -/
def probe (est : Int) (applies : Bool) (rps len : Nat) : Except BPanic (Verdict × Verdict) :=
  if est = 0 then .error .divZero
  else if applies then .ok (event rps 1, event rps (2 + len / est.toNat))
  else .ok (.global, .global)

/-- Start the backend-facing parts with `c`, then serve a profile from `src`. -/
def run (c : Config) (src : Source) (applies : Bool) (rps len : Nat) : Except BPanic (Verdict × Verdict) := do
  start (wire c)
  probe (estOf (wire c) src) applies rps len

end Agd.Config.Backend
