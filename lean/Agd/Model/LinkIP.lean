/-! Executable model of the linked-IP / DDNS proxy (`internal/websvc/linkip.go`), core Lean only.

Strings are `List Char` (one `Char` per byte).  Header names are in the canonical MIME form that
`net/http` gives them while parsing; a header set is an association list with repeated keys.

A `Variant` selects the code that is modelled: `Variant.fixed` is the tree after the two `fix:`
commits (dot segments refused; `Rewrite` sets `X-Connecting-Ip`/`X-Request-Id` again),
`Variant.pinned` is the tree as it was pinned.  The driver and all positive theorems use `fixed`;
the counter-example theorems use `pinned`. -/
namespace Agd.LinkIP

abbrev Str := List Char
abbrev Hdrs := List (Str × Str)

/-! ### strings.Cut / SplitN / Split / Join on "/" -/

/-- `strings.Cut(s, "/")`. -/
def cut : Str → Option (Str × Str)
  | [] => none
  | c :: r =>
    if c = '/' then some ([], r)
    else match cut r with
      | none => none
      | some ab => some (c :: ab.1, ab.2)

/-- `strings.SplitN(s, "/", n)`. -/
def splitN : Nat → Str → List Str
  | 0, _ => []
  | 1, s => [s]
  | n + 2, s =>
    match cut s with
    | none => [s]
    | some ab => ab.1 :: splitN (n + 1) ab.2

/-- `strings.Split(s, "/")`. -/
def split : Str → List Str
  | [] => [[]]
  | c :: r =>
    if c = '/' then [] :: split r
    else match split r with
      | [] => [[c]]
      | h :: t => (c :: h) :: t

/-- `strings.Join(parts, "/")`. -/
def join : List Str → Str
  | [] => []
  | [a] => a
  | a :: b :: r => a ++ '/' :: join (b :: r)

/-- `strings.TrimPrefix(s, "/")`. -/
def trimSlash : Str → Str
  | '/' :: r => r
  | s => s

/-! ### shouldProxy -/

def mGET : Str := ['G', 'E', 'T']
def mPOST : Str := ['P', 'O', 'S', 'T']
def sLinkip : Str := ['l', 'i', 'n', 'k', 'i', 'p']
def sDdns : Str := ['d', 'd', 'n', 's']
def sStatus : Str := ['s', 't', 'a', 't', 'u', 's']
def sDot : Str := ['.']
def sDotDot : Str := ['.', '.']
def robotsPath : Str := ['/', 'r', 'o', 'b', 'o', 't', 's', '.', 't', 'x', 't']

def isDot (s : Str) : Bool := s == sDot || s == sDotDot

/-- `shouldProxyGet(parts)`. -/
def shouldProxyGet (parts : List Str) : Bool :=
  parts[0]? == some sLinkip &&
    (parts.length == 3 || (parts.length == 4 && parts[3]? == some sStatus))

/-- `shouldProxyPost(parts)`. -/
def shouldProxyPost (parts : List Str) : Bool :=
  (parts[0]? == some sDdns && parts.length == 4) ||
    (parts[0]? == some sLinkip && parts.length == 3)

structure Variant where
  /-- `shouldProxy` refuses `.` and `..` segments. -/
  dotCheck : Bool
  /-- `Rewrite` sets `X-Connecting-Ip` and `X-Request-Id` again from the inbound request. -/
  resetInRewrite : Bool
  /-- `Rewrite` deletes `Connection` and `Upgrade` from the outgoing request (third `fix:` commit). -/
  dropUpgrade : Bool

def Variant.fixed : Variant := { dotCheck := true, resetInRewrite := true, dropUpgrade := true }
def Variant.pinned : Variant := { dotCheck := false, resetInRewrite := false, dropUpgrade := false }
/-- the tree after the first two `fix:` commits: protocol upgrades were still passed on. -/
def Variant.upgradeForwarding : Variant := { dotCheck := true, resetInRewrite := true, dropUpgrade := false }

/-- `shouldProxy(method, urlPath)`. -/
def shouldProxyV (v : Variant) (method path : Str) : Bool :=
  let parts := splitN 5 (trimSlash path)
  if parts.length < 3 || parts.length > 4 then false
  else if v.dotCheck && parts.any isDot then false
  else if method = mGET then shouldProxyGet parts
  else if method = mPOST then shouldProxyPost parts
  else false

def shouldProxy : Str → Str → Bool := shouldProxyV .fixed

/-! ### RFC 3986 §5.2.4 remove_dot_segments, on the segments of an absolute path -/

/-- `st` is the output so far, reversed.  A final `.`/`..` leaves a trailing slash (an empty last
segment). -/
def normSegs : List Str → List Str → List Str
  | st, [] => st.reverse
  | st, [s] =>
    if s = sDot then ([] :: st).reverse
    else if s = sDotDot then ([] :: st.tail).reverse
    else (s :: st).reverse
  | st, s :: r@(_ :: _) =>
    if s = sDot then normSegs st r
    else if s = sDotDot then normSegs st.tail r
    else normSegs (s :: st) r

/-- remove_dot_segments for a path that starts with `/` (other inputs are returned unchanged; the
backend path always starts with `/`). -/
def normalize : Str → Str
  | '/' :: q => '/' :: join (normSegs [] (split q))
  | p => p

/-! ### the URL that reaches the backend: `ProxyRequest.SetURL` → `joinURLPath`/`singleJoiningSlash` -/

def endsSlash : Str → Bool
  | [] => false
  | [c] => c == '/'
  | _ :: r => endsSlash r

def startsSlash : Str → Bool
  | '/' :: _ => true
  | _ => false

/-- `singleJoiningSlash(base, p)`. -/
def joinPath (base p : Str) : Str :=
  if endsSlash base && startsSlash p then base ++ p.drop 1
  else if !endsSlash base && !startsSlash p then base ++ '/' :: p
  else base ++ p

/-! ### the request target on the wire: `http.ReadRequest` → `url.ParseRequestURI` → `URL.Path` -/

def isHex (c : Char) : Bool :=
  c.isDigit || ('a' ≤ c && c ≤ 'f') || ('A' ≤ c && c ≤ 'F')

def hexV (c : Char) : Nat :=
  if c.isDigit then c.toNat - '0'.toNat
  else if 'a' ≤ c && c ≤ 'f' then c.toNat - 'a'.toNat + 10
  else c.toNat - 'A'.toNat + 10

/-- `url.unescape(s, encodePath)`: every `%XX` is decoded, a malformed `%` is an error, `+` stays. -/
def unescape : Str → Option Str
  | [] => some []
  | [c] => if c = '%' then none else some [c]
  | [c, d] => if c = '%' then none else (unescape [d]).map (c :: ·)
  | c :: a :: b :: r =>
    if c = '%' then
      if isHex a && isHex b then (unescape r).map (Char.ofNat (hexV a * 16 + hexV b) :: ·) else none
    else (unescape (a :: b :: r)).map (c :: ·)

/-- bytes that make `net/http` refuse the request line: control bytes (`stringContainsCTLByte`) and
the space (it ends the request target). -/
def badTargetByte (c : Char) : Bool := c.toNat < 0x20 || c.toNat == 0x7f || c == ' '

/-- the part of an origin-form request target before the first `?`. -/
def rawPath (t : Str) : Str := t.takeWhile (· ≠ '?')

/-- `URL.Path` of an origin-form request target (one that starts with `/`), `none` when `net/http`
answers 400 itself.  Other forms (`*`, absolute and authority form) are not modelled here; for them
the model starts from the parsed path. -/
def parseTarget (t : Str) : Option Str :=
  if t.any badTargetByte then none else unescape (rawPath t)

/-! ### every form of request target: `url.ParseRequestURI` as `net/http`'s `readRequest` calls it -/

def mCONNECT : Str := ['C', 'O', 'N', 'N', 'E', 'C', 'T']
def httpSlashSlash : Str := ['h', 't', 't', 'p', ':', '/', '/']

def isAlpha (c : Char) : Bool := ('a' ≤ c && c ≤ 'z') || ('A' ≤ c && c ≤ 'Z')
def isSchemeTail (c : Char) : Bool := c.isDigit || c == '+' || c == '-' || c == '.'

/-- `url.getScheme`: `some (scheme, rest)`, `none` for the error "missing protocol scheme".  `acc` is
the scheme read so far, reversed (empty exactly at index 0). -/
def getSchemeGo (whole : Str) : Str → Str → Option (Str × Str)
  | _, [] => some ([], whole)
  | acc, c :: r =>
    if isAlpha c then getSchemeGo whole (c :: acc) r
    else if isSchemeTail c then (if acc = [] then some ([], whole) else getSchemeGo whole (c :: acc) r)
    else if c = ':' then (if acc = [] then none else some (acc.reverse, r))
    else some ([], whole)

def getScheme (t : Str) : Option (Str × Str) := getSchemeGo t [] t

/-- the authorities that are modelled: `host` of letters, digits, `.` and `-` (possibly empty) with
an optional `:port` of digits.  Userinfo, IP literals in brackets and percent-escapes in the host
have their own validation in `net/url`; for them the model starts from the parsed path. -/
def simpleAuthority (a : Str) : Bool :=
  (a.takeWhile (· ≠ ':')).all (fun c => isAlpha c || c.isDigit || c == '.' || c == '-') &&
    ((a.dropWhile (· ≠ ':')).drop 1).all Char.isDigit

inductive TargetForm
  /-- `net/http` answers 400 itself -/
  | refused
  /-- an authority outside `simpleAuthority` -/
  | unmodelled
  /-- `URL.Path` is `*` (`star`) or empty (an opaque URL such as `http:x`, or no path after the
  authority) -/
  | noPath (star : Bool)
  /-- the path-and-query part `/q` of an origin-form or absolute-form target -/
  | origin (q : Str)
  deriving DecidableEq

/-- `url.parse(rawURL, viaRequest = true)` after the scheme has been split off. -/
def classifyRest (scheme rest : Str) : TargetForm :=
  match rawPath rest with
  | '/' :: '/' :: a =>
    if scheme ≠ [] then
      if simpleAuthority (a.takeWhile (· ≠ '/')) then
        match a.dropWhile (· ≠ '/') with
        | [] => .noPath false
        | '/' :: q => .origin q
        | _ :: _ => .refused
      else .unmodelled
    else .origin ('/' :: a)
  | '/' :: q => .origin q
  | _ => if scheme ≠ [] then .noPath false else .refused

/-- the form of a request target.  (`CONNECT host:port` is parsed as `http://host:port`.) -/
def classify (m t : Str) : TargetForm :=
  let t' := if m = mCONNECT && !startsSlash t then httpSlashSlash ++ t else t
  if t'.any badTargetByte then .refused
  else if t' = [] then .refused
  else if t' = ['*'] then .noPath true
  else match getScheme t' with
    | none => .refused
    | some sr => classifyRest sr.1 sr.2

inductive Parsed
  | refused
  | unmodelled
  | path (p : Str)
  deriving DecidableEq

/-- `URL.Path` of the request the handler receives for the request target `t` of a request with
method `m`, for every form of target. -/
def parseAnyTarget (m t : Str) : Parsed :=
  match classify m t with
  | .refused => .refused
  | .unmodelled => .unmodelled
  | .noPath star => .path (if star then ['*'] else [])
  | .origin q =>
    match parseTarget ('/' :: q) with
    | none => .refused
    | some p => .path p

/-! ### net.SplitHostPort / netutil.SplitHost -/

def lastIdx (c : Char) : Str → Option Nat
  | [] => none
  | x :: r =>
    match lastIdx c r with
    | some i => some (i + 1)
    | none => if x = c then some 0 else none

def firstIdx (c : Char) : Str → Option Nat
  | [] => none
  | x :: r => if x = c then some 0 else (firstIdx c r).map (· + 1)

inductive HostErr | missingPort | other
  deriving DecidableEq, Repr

/-- `net.SplitHostPort`, host part only. -/
def splitHostPort (hp : Str) : Except HostErr Str :=
  match lastIdx ':' hp with
  | none => .error .missingPort
  | some i =>
    match hp with
    | '[' :: _ =>
      match firstIdx ']' hp with
      | none => .error .other
      | some e =>
        if e + 1 = hp.length then .error .missingPort
        else if e + 1 = i then
          if (hp.drop 1).contains '[' || (hp.drop (e + 1)).contains ']' then .error .other
          else .ok ((hp.take e).drop 1)
        else if hp[e + 1]? = some ':' then .error .other
        else .error .missingPort
    | _ =>
      let host := hp.take i
      if host.contains ':' then .error .other
      else if hp.contains '[' || hp.contains ']' then .error .other
      else .ok host

/-- `netutil.SplitHost`: a missing port means "use the string as it is". -/
def splitHost (hp : Str) : Option Str :=
  match splitHostPort hp with
  | .ok h => some h
  | .error .missingPort => some hp
  | .error .other => none

/-! ### headers -/

def hdel (n : Str) (h : Hdrs) : Hdrs := h.filter (fun kv => !(kv.1 == n))
def hset (n v : Str) (h : Hdrs) : Hdrs := hdel n h ++ [(n, v)]
/-- all values of a header, in order. -/
def vals (n : Str) (h : Hdrs) : List Str := (h.filter (fun kv => kv.1 == n)).map (·.2)
/-- `Header.Get`. -/
def hget (n : Str) (h : Hdrs) : Str := (vals n h).headD []
def hdelAll (ns : List Str) (h : Hdrs) : Hdrs := ns.foldl (fun h n => hdel n h) h

def isTokenChar (c : Char) : Bool :=
  c.isAlphanum || ['!', '#', '$', '%', '&', '\'', '*', '+', '-', '.', '^', '_', '`', '|', '~'].contains c

def canonGo : Bool → Str → Str
  | _, [] => []
  | up, c :: r =>
    let c' := if up then c.toUpper else c.toLower
    c' :: canonGo (c' == '-') r

/-- `textproto.CanonicalMIMEHeaderKey`. -/
def canon (s : Str) : Str := if s.all isTokenChar then canonGo true s else s

def isSpaceTab (c : Char) : Bool := c == ' ' || c == '\t'

/-- `textproto.TrimString`. -/
def trimWS (s : Str) : Str := ((s.dropWhile isSpaceTab).reverse.dropWhile isSpaceTab).reverse

def splitComma : Str → List Str
  | [] => [[]]
  | c :: r =>
    if c = ',' then [] :: splitComma r
    else match splitComma r with
      | [] => [[c]]
      | h :: t => (c :: h) :: t

def hCFConnectingIP : Str := ['C', 'f', '-', 'C', 'o', 'n', 'n', 'e', 'c', 't', 'i', 'n', 'g', '-', 'I', 'p']
def hForwarded : Str := ['F', 'o', 'r', 'w', 'a', 'r', 'd', 'e', 'd']
def hTrueClientIP : Str := ['T', 'r', 'u', 'e', '-', 'C', 'l', 'i', 'e', 'n', 't', '-', 'I', 'p']
def hXRealIP : Str := ['X', '-', 'R', 'e', 'a', 'l', '-', 'I', 'p']
def hXConnectingIP : Str := ['X', '-', 'C', 'o', 'n', 'n', 'e', 'c', 't', 'i', 'n', 'g', '-', 'I', 'p']
def hXRequestID : Str := ['X', '-', 'R', 'e', 'q', 'u', 'e', 's', 't', '-', 'I', 'd']
def hXForwardedFor : Str := ['X', '-', 'F', 'o', 'r', 'w', 'a', 'r', 'd', 'e', 'd', '-', 'F', 'o', 'r']
def hXForwardedHost : Str := ['X', '-', 'F', 'o', 'r', 'w', 'a', 'r', 'd', 'e', 'd', '-', 'H', 'o', 's', 't']
def hXForwardedProto : Str := ['X', '-', 'F', 'o', 'r', 'w', 'a', 'r', 'd', 'e', 'd', '-', 'P', 'r', 'o', 't', 'o']
def hUserAgent : Str := ['U', 's', 'e', 'r', '-', 'A', 'g', 'e', 'n', 't']
def hConnection : Str := ['C', 'o', 'n', 'n', 'e', 'c', 't', 'i', 'o', 'n']
def hUpgrade : Str := ['U', 'p', 'g', 'r', 'a', 'd', 'e']
def sUpgradeLower : Str := ['u', 'p', 'g', 'r', 'a', 'd', 'e']

/-- The headers a client could use to claim another address. -/
def forwardingNames : List Str :=
  [hCFConnectingIP, hForwarded, hTrueClientIP, hXRealIP, hXForwardedFor, hXForwardedHost,
   hXForwardedProto]

/-- The fixed hop-by-hop list of `net/http/httputil`. -/
def hopHeaders : List Str :=
  [hConnection, ['P', 'r', 'o', 'x', 'y', '-', 'C', 'o', 'n', 'n', 'e', 'c', 't', 'i', 'o', 'n'], ['K', 'e', 'e', 'p', '-', 'A', 'l', 'i', 'v', 'e'], ['P', 'r', 'o', 'x', 'y', '-', 'A', 'u', 't', 'h', 'e', 'n', 't', 'i', 'c', 'a', 't', 'e'],
   ['P', 'r', 'o', 'x', 'y', '-', 'A', 'u', 't', 'h', 'o', 'r', 'i', 'z', 'a', 't', 'i', 'o', 'n'], ['T', 'e'], ['T', 'r', 'a', 'i', 'l', 'e', 'r'], ['T', 'r', 'a', 'n', 's', 'f', 'e', 'r', '-', 'E', 'n', 'c', 'o', 'd', 'i', 'n', 'g'],
   ['U', 'p', 'g', 'r', 'a', 'd', 'e']]

/-- names listed in the `Connection` header values (non-empty, trimmed, canonicalised by `Del`). -/
def connTokens (h : Hdrs) : List Str :=
  (((vals hConnection h).flatMap splitComma).map trimWS).filter (· ≠ []) |>.map canon

/-- `removeHopByHopHeaders` (library contract). -/
def removeHopByHop (h : Hdrs) : Hdrs := hdelAll hopHeaders (hdelAll (connTokens h) h)

/-- `httpguts.HeaderValuesContainsToken(h["Connection"], "Upgrade")`: some comma-separated element
of some `Connection` value is, after trimming spaces and tabs, ASCII-case-insensitively `upgrade`. -/
def asksUpgrade (h : Hdrs) : Bool :=
  (((vals hConnection h).flatMap splitComma).map trimWS).any (fun t => t.map Char.toLower == sUpgradeLower)

/-- `upgradeType(h)` of `net/http/httputil`: the protocol the client wants to switch to, empty when
it asks for none. -/
def upgradeType (h : Hdrs) : Str := if asksUpgrade h then hget hUpgrade h else []

/-- `ascii.IsPrint`. -/
def isPrint (s : Str) : Bool := s.all (fun c => ' ' ≤ c && c ≤ '~')

/-- after the hop-by-hop removal `ReverseProxy` puts the protocol switch back (library contract). -/
def reAddUpgrade (up : Str) (h : Hdrs) : Hdrs :=
  if up = [] then h else hset hUpgrade up (hset hConnection hUpgrade h)

/-- the last step of the `rewrite` closure: no protocol switch is passed on. -/
def dropUpgradeHdrs (v : Variant) (h : Hdrs) : Hdrs :=
  if v.dropUpgrade then hdel hUpgrade (hdel hConnection h) else h

/-- `ReverseProxy.ServeHTTP` up to and including `Rewrite` (library contract + the `rewrite`
closure of `linkedIPHandler`), header part. -/
def proxyHeaders (v : Variant) (ua : Str) (inH : Hdrs) : Hdrs :=
  let h := reAddUpgrade (upgradeType inH) (removeHopByHop inH)
  let h := hdel hXForwardedProto (hdel hXForwardedHost (hdel hXForwardedFor (hdel hForwarded h)))
  let h := hset hUserAgent ua h
  dropUpgradeHdrs v
    (if v.resetInRewrite then
      hset hXRequestID (hget hXRequestID inH) (hset hXConnectingIP (hget hXConnectingIP inH) h)
    else h)

/-! ### the handler -/

structure Req where
  method : Str
  path : Str
  remote : Str
  hdrs : Hdrs

inductive Resp
  | notFound
  | robots
  | err500
  /-- `ReverseProxy` refuses the request before `Rewrite` (the client asks to switch to a protocol
  whose name is not printable ASCII) and calls the error handler of `linkedIPHandler`, which writes
  nothing: an empty answer, the backend is not contacted. -/
  | proxyErr
  | proxied (path : Str) (hdrs : Hdrs)
  deriving DecidableEq

structure Env where
  /-- path of the configured target URL -/
  base : Str
  /-- the request ID drawn for this request -/
  reqID : Str
  /-- `agdhttp.UserAgent()` -/
  ua : Str

/-- `linkedIPProxy.ServeHTTP`. -/
def serveV (v : Variant) (e : Env) (r : Req) : Resp :=
  if shouldProxyV v r.method r.path then
    let h := hdel hXRealIP (hdel hTrueClientIP (hdel hForwarded (hdel hCFConnectingIP r.hdrs)))
    match splitHost r.remote with
    | none => .err500
    | some ip =>
      let h := hset hXRequestID e.reqID (hset hXConnectingIP ip h)
      if isPrint (upgradeType h) then .proxied (joinPath e.base r.path) (proxyHeaders v e.ua h)
      else .proxyErr
  else if r.path = robotsPath then .robots
  else .notFound

def serve : Env → Req → Resp := serveV .fixed

/-! ### requests in flight together

Between `Rewrite` and the moment the transport writes the request to the backend connection (it has
to get or dial a connection first) other requests run through the same handler, and through the
handlers of the other bind addresses, which `websvc.New` builds from the same `TargetURL` value.
The model makes the two phases separate events of a schedule. -/

/-- What the transport sends to the backend for one proxied request. -/
structure Out where
  method : Str
  path : Str
  hdrs : Hdrs
  deriving DecidableEq

/-- Which parts of the outgoing request live in an object shared by all requests instead of the
per-request clone that `ReverseProxy.ServeHTTP` hands to `Rewrite`.  The code as it is shares
nothing: `SetURL(apiURL)` copies scheme, host and the joined path into the clone's own URL, and the
closure sets headers in the clone's own map. -/
structure Sharing where
  /-- `Rewrite` writes the path into one URL object and points every outgoing request at it. -/
  url : Bool
  /-- `Rewrite` fills one header map and hands it to every outgoing request. -/
  hdr : Bool

def Sharing.none : Sharing := { url := false, hdr := false }

/-- Events of a schedule; `i` indexes the list of requests. -/
inductive Ev
  /-- request `i` runs `ServeHTTP` up to and including `Rewrite`; a request that is not forwarded is
  answered locally here. -/
  | rewrite (i : Nat)
  /-- the transport writes request `i` (request line and headers) to a backend connection. -/
  | send (i : Nat)
  deriving DecidableEq

structure Flight where
  /-- the shared objects as last written (only read when `Sharing` says so) -/
  url : Str
  hdr : Hdrs
  /-- requests after `Rewrite` that are not written yet -/
  waiting : List (Nat × Out)
  /-- what the backend received, in order, with the request that caused it -/
  log : List (Nat × Out)

def Flight.init : Flight := { url := [], hdr := [], waiting := [], log := [] }

/-- the outgoing request `Rewrite` leaves behind, `none` when the request is answered locally. -/
def outOf (e : Env) (r : Req) : Option Out :=
  match serve e r with
  | .proxied p h => some { method := r.method, path := p, hdrs := h }
  | _ => none

def stepFlight (sh : Sharing) (e : Env) (reqs : List Req) (s : Flight) : Ev → Flight
  | .rewrite i =>
    match reqs[i]? with
    | none => s
    | some r =>
      match outOf e r with
      | none => s
      | some o => { s with url := o.path, hdr := o.hdrs, waiting := s.waiting ++ [(i, o)] }
  | .send i =>
    match s.waiting.find? (fun io => io.1 == i) with
    | none => s
    | some io =>
      { s with
        waiting := s.waiting.eraseP (fun io => io.1 == i)
        log := s.log ++ [(i, { method := io.2.method,
                               path := if sh.url then s.url else io.2.path,
                               hdrs := if sh.hdr then s.hdr else io.2.hdrs })] }

def runFlight (sh : Sharing) (e : Env) (reqs : List Req) (evs : List Ev) : Flight :=
  evs.foldl (stepFlight sh e reqs) Flight.init

/-! ### fault paths: what the transport and the backend do with a forwarded request

`httputil.ReverseProxy` hands the outgoing request to `http.Transport.RoundTrip`.  The stated contract
of the transport (observed by the fault campaign of the harness, not proved): an attempt either finds
no connection (nothing is written), or writes the request and the connection breaks before a complete
answer, or gets a complete answer; after a broken attempt the *same* request is written again only
when it is replayable (no body, idempotent method or an idempotency key) and the connection was a
reused one; redirects are not followed; an answer `101` to a request that does not ask for a protocol
switch is an error.  On any error the error handler of `linkedIPHandler` runs, which writes nothing. -/

inductive Attempt
  /-- no connection to the target (nobody listens, the dial times out) -/
  | noConn
  /-- the request was written; the connection broke before a complete answer -/
  | broke
  /-- a complete answer with this status -/
  | answered (status : Nat)
  deriving DecidableEq

/-- what the client gets -/
inductive ClientAnswer
  | notFound
  | robots
  | err500
  /-- the error handler of `linkedIPHandler` wrote nothing: `200` without a body -/
  | empty
  /-- the backend's own answer (a redirect is handed on, not followed) -/
  | backend (status : Nat)
  deriving DecidableEq

/-- `Transport.RoundTrip` over a list of attempt outcomes: the answer and what the backend received. -/
def roundTrip (retryable : Bool) (o : Out) : List Attempt → ClientAnswer × List Out
  | [] => (.empty, [])
  | .noConn :: _ => (.empty, [])
  | .broke :: rest =>
    if retryable then ((roundTrip retryable o rest).1, o :: (roundTrip retryable o rest).2) else (.empty, [o])
  | .answered s :: _ => (if s = 101 then .empty else .backend s, [o])

/-- `linkedIPProxy.ServeHTTP` in front of a transport and a backend that behave as `atts` says. -/
def serveFaulty (e : Env) (r : Req) (retryable : Bool) (atts : List Attempt) : ClientAnswer × List Out :=
  match serve e r with
  | .notFound => (.notFound, [])
  | .robots => (.robots, [])
  | .err500 => (.err500, [])
  | .proxyErr => (.empty, [])
  | .proxied p h => roundTrip retryable { method := r.method, path := p, hdrs := h } atts

end Agd.LinkIP
