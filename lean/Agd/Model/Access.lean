/-!
# C10 model: global and per-profile access control, and the access part of `ratelimitmw.Wrap`

Mirrors `internal/access/{access,engine,profile}.go`,
`internal/dnssvc/internal/ratelimitmw/{access,ratelimitmw}.go` and the two
normalisation functions of `internal/agdnet/agdnet.go`.

* Addresses are `(family, value)`; `netip.Prefix.Contains` is a comparison of the
  leading `bits` bits (shifts).
* A urlfilter DNS engine is a *parameter*: `Eng = host → qtype → EngRes`, where
  `EngRes` is the part of `urlfilter.DNSResult` the wrappers look at (`matched`
  and the whitelist flag of `res.NetworkRule`, if any).  Every access theorem
  quantifies over all engines.  `ruleEngine` is a concrete engine over a small
  regex-free rule grammar of urlfilter (hosts-style names; patterns with `||`, `|`, `*`, `^`; `@@`,
  `$important`, `$dnstype` lists), used by the driver and characterised by its own theorems.
* `wrap` is the skeleton of `Middleware.Wrap` up to the call of
  `serveWithRatelimiting`, with an *effect log* (responses written by the
  middleware itself, calls of the next stage), the error it returns and the
  request information it hands to the next stage; `wire` adds what the server
  does with a returned error (SERVFAIL).
* `fillInfo` is `newRequestInfo` over the pooled `agd.RequestInfo`.
-/
namespace Agd.Access

/-! ## Addresses and prefixes -/

structure Addr where
  is4 : Bool
  val : Nat
deriving Repr, DecidableEq

structure Prefix where
  is4 : Bool
  val : Nat
  bits : Nat
deriving Repr, DecidableEq

def width (is4 : Bool) : Nat := if is4 then 32 else 128

/-- `netip.Prefix.Contains` for a valid prefix and a zone-less address. -/
def Prefix.contains (p : Prefix) (a : Addr) : Bool :=
  p.is4 == a.is4 && (a.val >>> (width a.is4 - p.bits)) == (p.val >>> (width a.is4 - p.bits))

/-- `matchNets` / `netutil.SliceSubnetSet.Contains`. -/
def matchNets (nets : List Prefix) (a : Addr) : Bool := nets.any (fun n => n.contains a)

/-- `matchASNs`: `l != nil && slices.Contains(asns, l.ASN)`; the location is `none` or its ASN. -/
def matchASNs (asns : List Nat) (l : Option Nat) : Bool :=
  match l with
  | none => false
  | some n => asns.contains n

/-! ## IPv6 zones

A `netip.Addr` may carry an IPv6 zone (`fe80::1%eth0`: what the kernel reports for a link-local
client).  `netip.Prefix.Contains` answers `false` for every address that has one; the access package
therefore removes the zone (`ip.WithZone("")`) before it consults its subnets. -/

/-- A `netip.Addr` as the transport hands it over: the bits and whether there is a zone. -/
structure ZAddr where
  addr : Addr
  zoned : Bool
deriving Repr, DecidableEq

/-- `netip.Addr.WithZone("")`. -/
def ZAddr.withoutZone (z : ZAddr) : ZAddr := { z with zoned := false }

/-- `netip.Prefix.Contains` including its zone rule. -/
def Prefix.containsZ (p : Prefix) (z : ZAddr) : Bool := !z.zoned && p.contains z.addr

/-- `matchNets` / `SliceSubnetSet.Contains` over addresses as the library sees them. -/
def matchNetsZ (nets : List Prefix) (z : ZAddr) : Bool := nets.any (fun n => n.containsZ z)

/-! ## Name normalisation (`agdnet`) -/

/-- `strings.TrimSuffix(s, ".")`: removes one final dot. -/
def trimDot (s : String) : String :=
  match s.toList.reverse with
  | '.' :: r => String.ofList r.reverse
  | _ => s

/-- `strings.ToLower` on ASCII names, written over `List Char` so that the kernel can evaluate it. -/
def lower (s : String) : String := String.ofList (s.toList.map Char.toLower)

/-- `agdnet.NormalizeDomain`. -/
def normDomain (fqdn : String) : String := lower (trimDot fqdn)

/-- `agdnet.NormalizeQueryDomain`: the root domain stays `"."`. -/
def normQueryDomain (host : String) : String := if host == "." then host else normDomain host

/-! ## urlfilter engine: interface and the wrapper logic of `access` -/

/-- What `IsBlockedHost` / `blockedHostEngine.isBlocked` read from `MatchRequest`. -/
structure EngRes where
  matched : Bool
  /-- `some w`: `res.NetworkRule != nil` and `w` is its `Whitelist` flag. -/
  net : Option Bool
deriving Repr, DecidableEq

abbrev Eng := String → Nat → EngRes

/-- `if matched && res.NetworkRule != nil { return !res.NetworkRule.Whitelist }; return matched`. -/
def engBlocked (e : EngRes) : Bool :=
  match e.net with
  | some w => if e.matched then !w else e.matched
  | none => e.matched

/-! ## A concrete engine over the regex-free urlfilter rule grammar

Rules are either hosts-style (`dom`, `IP dom1 dom2 …`: exact names) or network-style: an optional
`@@`, a pattern — optional start anchor `||` or `|`, a body of literal characters, `*` and `^`, an
optional end anchor `|` — and the modifiers `$important` and `$dnstype=` with a list of permitted and
`~`restricted types.  `urlfilter` compiles such a pattern to a regular expression
(`rules.patternToRegexp`); the model matches it directly. -/

inductive Tok where
  | lit (c : Char)
  /-- `*`: any string. -/
  | star
  /-- `^`: one separator character, or the end of the name. -/
  | sep
deriving Repr, DecidableEq

inductive Anchor where
  /-- `||`: the name itself or any subdomain boundary (`^(http|https|ws|wss)://([a-z0-9-_.]+\.)?`). -/
  | domain
  /-- `|`: the beginning of the name. -/
  | start
  /-- no anchor: anywhere in the name. -/
  | none
deriving Repr, DecidableEq

structure Pat where
  anchor : Anchor
  toks : List Tok
  /-- a final `|`. -/
  endAnch : Bool
deriving Repr, DecidableEq

/-- The characters `RegexSeparator = ([^ a-zA-Z0-9.%_-]|$)` does *not* accept. -/
def nonSepChar (c : Char) : Bool :=
  c.isAlphanum || c == ' ' || c == '.' || c == '%' || c == '_' || c == '-'

/-- `[a-z0-9-_.]` under `(?i)`: what the optional subdomain part of `||` may consist of. -/
def hostChar (c : Char) : Bool := c.isAlphanum || c == '-' || c == '_' || c == '.'

/-- `p` holds for some suffix of the string (the regular expression is not anchored, or `.*`). -/
def anySuffix (p : List Char → Bool) : List Char → Bool
  | [] => p []
  | x :: xs => p (x :: xs) || anySuffix p xs

/-- The body of a pattern matches a prefix of the string (all of it when the pattern ends in `|`). -/
def matchToks (endAnch : Bool) : List Tok → List Char → Bool
  | [], s => !endAnch || s.isEmpty
  | .lit c :: ts, s =>
    match s with
    | [] => false
    | x :: xs => x.toLower == c.toLower && matchToks endAnch ts xs
  | .sep :: ts, s =>
    match s with
    | [] => matchToks endAnch ts []
    | x :: xs => !nonSepChar x && matchToks endAnch ts xs
  | .star :: ts, s => anySuffix (matchToks endAnch ts) s

/-- `p` holds right after a `.` that ends a non-empty run of host characters starting at the beginning
(`n` characters have been passed). -/
def afterDots (p : List Char → Bool) : Nat → List Char → Bool
  | _, [] => false
  | n, x :: xs => hostChar x && ((x == '.' && n != 0 && p xs) || afterDots p (n + 1) xs)

def Pat.matches (p : Pat) (h : List Char) : Bool :=
  match p.anchor with
  | .domain => matchToks p.endAnch p.toks h || afterDots (matchToks p.endAnch p.toks) 0 h
  | .start => matchToks p.endAnch p.toks h
  | .none => anySuffix (matchToks p.endAnch p.toks) h

/-- Length of the pattern text. -/
def Pat.textLen (p : Pat) : Nat :=
  (match p.anchor with | .domain => 2 | .start => 1 | .none => 0) + p.toks.length + (if p.endAnch then 1 else 0)

inductive Kind where
  /-- hosts-style rule: exact names. -/
  | host
  /-- network-style rule: a pattern with modifiers. -/
  | net
deriving Repr, DecidableEq

structure Rule where
  kind : Kind
  /-- names of a hosts-style rule. -/
  hosts : List String := []
  pat : Pat := ⟨.none, [], false⟩
  allow : Bool := false
  important : Bool := false
  /-- `$dnstype=A|AAAA`. -/
  permitted : List Nat := []
  /-- `$dnstype=~A|~AAAA`. -/
  restricted : List Nat := []
deriving Repr, DecidableEq

/-- `NetworkRule.matchDNSType`. -/
def Rule.typeOk (r : Rule) (qt : Nat) : Bool :=
  !r.restricted.contains qt && (r.permitted.isEmpty || r.permitted.contains qt)

/-- `NewNetworkRule` refuses (`ErrTooWideRule`) a pattern shorter than three characters unless a
`$dnstype` restricts the rule; the rule list skips refused rules. -/
def Rule.valid (r : Rule) : Bool :=
  r.kind == .host || !(r.pat.textLen < 3 && r.permitted.isEmpty && r.restricted.isEmpty)

def Rule.isNet (r : Rule) : Bool := r.kind != .host

/-- A network rule matches the name and the query type. -/
def Rule.netMatches (r : Rule) (h : String) (qt : Nat) : Bool :=
  r.isNet && r.valid && r.pat.matches h.toList && r.typeOk qt

/-- A hosts-style rule matches the exact name (modifiers do not exist for it); rule texts are
lower-cased when the engine is built. -/
def Rule.hostMatches (r : Rule) (h : String) : Bool :=
  !r.isNet && (r.hosts.map lower).contains h

/-- Priority class of `NetworkRule.IsHigherPriority`: important exception 3, important block 2,
exception 1, block 0.  (The remaining tie-breakers choose among rules of one class and cannot
change the whitelist flag of the winner.) -/
def prio (r : Rule) : Nat := (if r.important then 2 else 0) + (if r.allow then 1 else 0)

/-- `rules.GetDNSBasicRule`: fold keeping the first rule of the highest priority. -/
def pick (b : Option Rule) (r : Rule) : Option Rule :=
  match b with
  | none => some r
  | some b' => if prio b' < prio r then some r else some b'

def basicRule (rs : List Rule) : Option Rule := rs.foldl pick none

/-- `DNSEngine.MatchRequest` restricted to the grammar. -/
def ruleEngine (rules : List Rule) : Eng := fun h qt =>
  if h == "" then { matched := false, net := none }
  else
    match basicRule (rules.filter (fun r => r.netMatches h qt)) with
    | some r => { matched := true, net := some r.allow }
    | none => { matched := rules.any (fun r => r.hostMatches h), net := none }

/-! ## `access.Global`, `access.DefaultProfile` -/

structure Global where
  nets : List Prefix
  eng : Eng

/-- `Global.IsBlockedIP`. -/
def Global.isBlockedIP (g : Global) (a : Addr) : Bool := matchNets g.nets a

/-- `Global.IsBlockedIP` on the address as the transport delivers it: `blockedNets.Contains(ip.WithZone(""))`. -/
def Global.isBlockedIPZ (g : Global) (z : ZAddr) : Bool := matchNetsZ g.nets z.withoutZone

/-- `Global.IsBlockedIP` before the repair: `blockedNets.Contains(ip)`. -/
def Global.isBlockedIPZPreFix (g : Global) (z : ZAddr) : Bool := matchNetsZ g.nets z

/-- `Global.IsBlockedHost`. -/
def Global.isBlockedHost (g : Global) (host : String) (qt : Nat) : Bool := engBlocked (g.eng host qt)

structure ProfAcc where
  allowedNets : List Prefix
  blockedNets : List Prefix
  allowedASN : List Nat
  blockedASN : List Nat
  eng : Eng

/-- `DefaultProfile.isBlockedByNets`: allowed first, then blocked. -/
def ProfAcc.isBlockedByNets (p : ProfAcc) (a : Addr) (l : Option Nat) : Bool :=
  if matchASNs p.allowedASN l || matchNets p.allowedNets a then false
  else matchASNs p.blockedASN l || matchNets p.blockedNets a

/-- `blockedHostEngine.isBlocked`: the engine sees `NormalizeQueryDomain(q.Name)`. -/
def ProfAcc.isBlockedByHostsEng (p : ProfAcc) (qname : String) (qt : Nat) : Bool :=
  engBlocked (p.eng (normQueryDomain qname) qt)

/-- `DefaultProfile.IsBlocked`. -/
def ProfAcc.isBlocked (p : ProfAcc) (qname : String) (qt : Nat) (a : Addr) (l : Option Nat) : Bool :=
  p.isBlockedByNets a l || p.isBlockedByHostsEng qname qt

/-- `DefaultProfile.isBlockedByNets` over an address as the library sees it. -/
def ProfAcc.isBlockedByNetsZ (p : ProfAcc) (z : ZAddr) (l : Option Nat) : Bool :=
  if matchASNs p.allowedASN l || matchNetsZ p.allowedNets z then false
  else matchASNs p.blockedASN l || matchNetsZ p.blockedNets z

/-- `DefaultProfile.IsBlocked` on the address as the transport delivers it:
`ip := rAddr.Addr().WithZone("")`. -/
def ProfAcc.isBlockedZ (p : ProfAcc) (qname : String) (qt : Nat) (z : ZAddr) (l : Option Nat) : Bool :=
  p.isBlockedByNetsZ z.withoutZone l || p.isBlockedByHostsEng qname qt

/-- `DefaultProfile.IsBlocked` before the repair: `ip := rAddr.Addr()`. -/
def ProfAcc.isBlockedZPreFix (p : ProfAcc) (qname : String) (qt : Nat) (z : ZAddr) (l : Option Nat) : Bool :=
  p.isBlockedByNetsZ z l || p.isBlockedByHostsEng qname qt

/-! ## The middleware -/

/-- Everything a `*DeviceResultOK` carries besides the profile's access settings: the switches and
settings of the `agd.Profile` and `agd.Device` records that the *later* stages act on (filtering,
query log, billing, blocking mode …).  They are inputs of the middleware like everything else in the
device result, and the statement quantifies over them: `isBlockedByAccess` has the whole profile and
device in its hands (`ri.DeviceData()`), so the model carries them to be able to say — and the
harness to be able to check — that the access decision does not look at any of them. -/
structure DevAttrs where
  /-- `Profile.FilteringEnabled`. -/
  profFiltering : Bool := true
  /-- `Device.FilteringEnabled`. -/
  devFiltering : Bool := true
  /-- `Profile.QueryLogEnabled`. -/
  queryLog : Bool := true
  /-- `Profile.IPLogEnabled`. -/
  ipLog : Bool := true
  /-- `Profile.Deleted`. -/
  deleted : Bool := false
  /-- `Profile.AutoDevicesEnabled`. -/
  autoDevices : Bool := false
  /-- `Profile.BlockChromePrefetch`, `BlockFirefoxCanary`, `BlockPrivateRelay`. -/
  blockSpecial : Bool := false
  /-- `Profile.BlockingMode` other than the default null-IP mode. -/
  customBlockingMode : Bool := false
  /-- `Profile.FilterConfig` with safe browsing, parental control and rule lists switched on. -/
  filtersOn : Bool := false
  /-- `Profile.Ratelimiter` is `agd.GlobalRatelimiter` (no rate limit of the profile's own). -/
  globalRatelimiter : Bool := false
  /-- `Device.LinkedIP` is the client's address. -/
  linkedIP : Bool := false
  /-- `Device.DedicatedIPs` is not empty. -/
  dedicatedIPs : Bool := false
  /-- `Device.Auth.Enabled` (with `DoHAuthOnly`). -/
  auth : Bool := false
deriving Repr, DecidableEq

/-- The result of the device finder, an input of the middleware. -/
inductive DevRes where
  /-- `nil`: no device / profile. -/
  | none
  /-- `*DeviceResultOK`; `acc = none` is `access.EmptyProfile`; `attrs` is the rest of the profile and
  device records. -/
  | ok (acc : Option ProfAcc) (attrs : DevAttrs)
  | authFail
  | unknownDedicated
  | error

structure Req where
  addr : Addr
  /-- The remote address carries an IPv6 zone. -/
  zoned : Bool := false
  port : Nat
  qname : String
  qtype : Nat
  /-- Question class; access control never looks at it. -/
  qclass : Nat := 1
  /-- ASN of the GeoIP location of the client address, if there is a location. -/
  asn : Option Nat
  /-- The request carries a well-formed EDNS Client Subnet option. -/
  ecsOk : Bool := false
  /-- The request carries a malformed EDNS Client Subnet option. -/
  ecsBad : Bool
  dev : DevRes

inductive Reason where
  | globalIP | globalHost | profile | pass
deriving Repr, DecidableEq

/-- `ri.DeviceData()`'s profile, as far as access is concerned: only `*DeviceResultOK` has one. -/
def DevRes.profAcc : DevRes → Option ProfAcc
  | .ok (some p) _ => some p
  | _ => Option.none

/-- `Middleware.isBlockedByAccess`: global address, global name, then the profile. -/
def accessReason (g : Global) (r : Req) : Reason :=
  if g.isBlockedIP r.addr then .globalIP
  else if g.isBlockedHost (normQueryDomain r.qname) r.qtype then .globalHost
  else
    match r.dev.profAcc with
    | Option.none => .pass
    | some p => if p.isBlocked r.qname r.qtype r.addr r.asn then .profile else .pass

def blocked (g : Global) (r : Req) : Bool := accessReason g r != .pass

/-- The remote address as the transport delivers it. -/
def Req.zaddr (r : Req) : ZAddr := { addr := r.addr, zoned := r.zoned }

/-- `Middleware.isBlockedByAccess` read literally: the address goes to the access package with its
zone, and the package's own `WithZone("")` and `netip.Prefix.Contains` decide. -/
def accessReasonZ (g : Global) (r : Req) : Reason :=
  if g.isBlockedIPZ r.zaddr then .globalIP
  else if g.isBlockedHost (normQueryDomain r.qname) r.qtype then .globalHost
  else
    match r.dev.profAcc with
    | Option.none => .pass
    | some p => if p.isBlockedZ r.qname r.qtype r.zaddr r.asn then .profile else .pass

/-- The same before the repair of the access package. -/
def accessReasonZPreFix (g : Global) (r : Req) : Reason :=
  if g.isBlockedIPZPreFix r.zaddr then .globalIP
  else if g.isBlockedHost (normQueryDomain r.qname) r.qtype then .globalHost
  else
    match r.dev.profAcc with
    | Option.none => .pass
    | some p => if p.isBlockedZPreFix r.qname r.qtype r.zaddr r.asn then .profile else .pass

/-- What is visible outside the middleware: it writes a FORMERR, it hands the request to the next
stage (rate limiting and everything behind it), or — `servfail` — the *server* writes a SERVFAIL
because the handler returned an error (`ServerBase.serveDNSMsgInternal`). -/
inductive Effect where
  | formerr
  | next
  | servfail
deriving Repr, DecidableEq

/-- Kind of the device result as the next stage finds it in `RequestInfo.DeviceResult`. -/
inductive DevKind where
  | none | ok | authFail | unknownDedicated | error
deriving Repr, DecidableEq

def DevRes.kind : DevRes → DevKind
  | .none => .none
  | .ok _ _ => .ok
  | .authFail => .authFail
  | .unknownDedicated => .unknownDedicated
  | .error => .error

/-- The part of `agd.RequestInfo` that `newRequestInfo` and `Wrap` fill in from the request itself. -/
structure RI where
  /-- `NormalizeDomain(q.Name)`: empty for the root. -/
  host : String
  qtype : Nat
  qclass : Nat
  remote : Addr
  /-- ASN of `ri.Location`. -/
  asn : Option Nat
  /-- `ri.ECS != nil`. -/
  ecs : Bool
  dev : DevKind
  /-- `ri.RemoteIP` keeps the zone of the remote address. -/
  zoned : Bool := false
deriving Repr, DecidableEq

/-- `newRequestInfo` followed by `ri.Location, ri.ECS = loc, ecs`: every field comes from the current
request (nothing survives from the pooled structure). -/
def reqInfo (r : Req) : RI :=
  { host := normDomain r.qname, qtype := r.qtype, qclass := r.qclass, remote := r.addr, asn := r.asn,
    ecs := r.ecsOk && !r.ecsBad, dev := r.dev.kind, zoned := r.zoned }

structure Out where
  effects : List Effect
  /-- The handler returned a non-nil error of its own (not one from the next stage). -/
  err : Bool
  why : String
  /-- The request information put into the context of the next stage, when it is called. -/
  info : Option RI := none
deriving Repr, DecidableEq

/-- `Middleware.Wrap`'s handler: spoofed port, access (global address, global name, profile), device
result, malformed ECS, next stage — in this order. -/
def wrap (g : Global) (r : Req) : Out :=
  if r.port == 0 then { effects := [], err := false, why := "spoof" }
  else
    match accessReason g r with
    | .globalIP => { effects := [], err := false, why := "global-ip" }
    | .globalHost => { effects := [], err := false, why := "global-host" }
    | .profile => { effects := [], err := false, why := "profile" }
    | .pass =>
      match r.dev with
      | .unknownDedicated => { effects := [], err := false, why := "unknown-dedicated" }
      | .error => { effects := [], err := true, why := "device-error" }
      | _ =>
        if r.ecsBad then { effects := [.formerr], err := false, why := "formerr" }
        else { effects := [.next], err := false, why := "next", info := some (reqInfo r) }

/-- Everything the client and the later stages can observe of one request: the middleware's own effects
followed by the server's SERVFAIL when the handler returned an error. -/
def wire (g : Global) (r : Req) : List Effect :=
  (wrap g r).effects ++ (if (wrap g r).err then [.servfail] else [])

/-! ## Histories against an arbitrary downstream -/

/-- What the client gets. -/
inductive Resp (ρ : Type) where
  | nothing
  /-- FORMERR written by the middleware (followed by the server's SERVFAIL for the returned error). -/
  | formerr
  /-- SERVFAIL written by the server for a device-finder error. -/
  | servfail
  | fromNext (o : Option ρ)

/-- One request through the middleware in front of an arbitrary stateful downstream `next`
(rate limiter, caches, resolver, filters, query log, billing: all inside `σ`). -/
def serve {σ ρ : Type} (g : Global) (next : σ → Req → σ × Option ρ) (s : σ) (r : Req) : σ × Resp ρ :=
  if (wrap g r).effects == [.next] then ((next s r).1, .fromNext (next s r).2)
  else if (wrap g r).effects == [.formerr] then (s, .formerr)
  else if (wrap g r).err then (s, .servfail)
  else (s, .nothing)

/-- A history: final downstream state and the list of (request, what its client got). -/
def run {σ ρ : Type} (g : Global) (next : σ → Req → σ × Option ρ) : σ → List Req → σ × List (Req × Resp ρ)
  | s, [] => (s, [])
  | s, r :: rs =>
    let st := serve g next s r
    let rest := run g next st.1 rs
    (rest.1, (r, st.2) :: rest.2)

/-! ## The pooled `RequestInfo`

`Wrap` takes the `agd.RequestInfo` from a `sync.Pool` and returns it when the handler is done, so the
structure a request gets may still hold the data of an earlier — possibly rejected — request.
`fillInfo` is `newRequestInfo` + `ri.Location, ri.ECS = loc, ecs` as assignments over the pooled
value. -/

def fillInfo (_pooled : RI) (r : Req) : RI :=
  let ri := _pooled
  -- ri.DeviceResult = nil; ri.ECS = nil; ri.Location = nil
  let ri := { ri with dev := .none, ecs := false, asn := Option.none }
  -- ri.RemoteIP = raddr.Addr(); ri.Host = NormalizeDomain(q.Name); ri.QType; ri.QClass
  let ri := { ri with remote := r.addr, zoned := r.zoned, host := normDomain r.qname, qtype := r.qtype, qclass := r.qclass }
  -- ri.DeviceResult = mw.deviceFinder.Find(...)
  let ri := { ri with dev := r.dev.kind }
  -- ri.Location, ri.ECS = loc, ecs
  { ri with asn := r.asn, ecs := r.ecsOk && !r.ecsBad }

/-! ## The server around the handler (`dnsserver.ServerBase` and the per-protocol servers)

Before the handler runs, `ServerBase.acceptMsg` looks at the shape of the message; after it, the
protocol server decides what to do when nothing was written. -/

inductive Proto where
  | udp | tcp | dot | doh | doq | dnscrypt
deriving Repr, DecidableEq

/-- What `acceptMsg` looks at. -/
structure MsgShape where
  response : Bool := false
  opcode : Nat := 0
  nQ : Nat := 1
  nAns : Nat := 0
  nNs : Nat := 0
deriving Repr, DecidableEq

inductive Accept where
  | accept | reject | notImpl | ignore
deriving Repr, DecidableEq

/-- `ServerBase.acceptMsg`: responses are ignored, opcodes other than QUERY (0) and NOTIFY (4) are not
implemented, anything but one question, at most one answer and at most one authority record is
malformed. -/
def acceptMsg (m : MsgShape) : Accept :=
  if m.response then .ignore
  else if m.opcode != 0 && m.opcode != 4 then .notImpl
  else if m.nQ != 1 then .reject
  else if m.nAns > 1 then .reject
  else if m.nNs > 1 then .reject
  else .accept

/-- What reaches the client. -/
inductive Reply where
  /-- FORMERR written by the server for a message `acceptMsg` rejects. -/
  | srvFormerr
  /-- NOTIMP written by the server. -/
  | srvNotimp
  /-- SERVFAIL written by the server: the handler returned an error, or (DoQ, DNSCrypt) wrote nothing. -/
  | srvServfail
  /-- FORMERR written by the middleware for a malformed ECS option. -/
  | mwFormerr
  /-- whatever the next stage wrote. -/
  | fromNext
  /-- DoH only: HTTP status 500 "No response", no DNS message. -/
  | http500
deriving Repr, DecidableEq

/-- DNS-over-HTTPS, DNS-over-QUIC and DNSCrypt buffer the response (`NonWriterResponseWriter`): only
the last message written survives. -/
def Proto.buffered : Proto → Bool
  | .doh | .doq | .dnscrypt => true
  | _ => false

/-- The protocol server's reaction when nothing was written for a message: UDP sends nothing, TCP and
DoT close the connection, DoH answers HTTP 500, DoQ and DNSCrypt answer SERVFAIL. -/
def noResponse : Proto → List Reply
  | .doq | .dnscrypt => [.srvServfail]
  | .doh => [.http500]
  | _ => []

def sent (p : Proto) (l : List Reply) : List Reply :=
  match l with
  | [] => noResponse p
  | _ => if p.buffered then l.drop (l.length - 1) else l

/-- One message through a real server: `acceptMsg`, then the handler (`wrap`) with the next stage
writing a response or not, then `serveDNSMsgInternal`'s SERVFAIL for a returned error, then the
protocol's reaction to silence. -/
def serverWire (p : Proto) (m : MsgShape) (g : Global) (r : Req) (nextWrites : Bool) : List Reply :=
  match acceptMsg m with
  | .ignore => noResponse p
  | .reject => [.srvFormerr]
  | .notImpl => [.srvNotimp]
  | .accept =>
    sent p
      ((wrap g r).effects.filterMap (fun e =>
          match e with
          | .formerr => some .mwFormerr
          | .next => if nextWrites then some .fromNext else none
          | .servfail => some .srvServfail) ++
        (if (wrap g r).err then [.srvServfail] else []))

/-- The next stage ran for this message. -/
def serverReachedNext (m : MsgShape) (g : Global) (r : Req) : Bool :=
  acceptMsg m == .accept && (wrap g r).effects.contains .next

/-! ## Where a profile's access settings come from: the backend and the file cache

`backendpb.AccessSettings.toInternal` (+ `cidrRangeToInternal`, `asnToInternal`) builds the
`access.Profile` of a profile from the message of the backend; `filecachepb.accessToProtobuf`
(+ `prefixesToProtobuf`) over `DefaultProfile.Config()` writes it to the cache file and
`filecachepb.Access.toInternal` (+ `cidrRangeToInternal`) reads it back after a restart. -/

/-- The configuration of an `access.DefaultProfile` (`access.ProfileConfig`), with the rules in the
modelled grammar. -/
structure ProfConf where
  allowedNets : List Prefix := []
  blockedNets : List Prefix := []
  allowedASN : List Nat := []
  blockedASN : List Nat := []
  rules : List Rule := []
deriving Repr, DecidableEq

/-- `access.NewDefaultProfile`. -/
def ProfConf.acc (c : ProfConf) : ProfAcc :=
  { allowedNets := c.allowedNets, blockedNets := c.blockedNets, allowedASN := c.allowedASN,
    blockedASN := c.blockedASN, eng := ruleEngine c.rules }

/-- A `CidrRange` message: the address as a byte string (its length and its big-endian value) and the
prefix length (`uint32`). -/
structure Cidr where
  nbytes : Nat
  val : Nat
  bits : Nat
deriving Repr, DecidableEq

/-- One element of `cidrRangeToInternal`: `netip.AddrFromSlice` accepts 4 bytes (IPv4) and 16 bytes
(IPv6 — also for an IPv4-mapped address, which stays IPv6); any other length is skipped (backend:
reported and skipped; cache: cannot happen).  `netip.PrefixFrom` with a length beyond the family's
width gives an invalid prefix, which `Contains` nothing: the model drops it. -/
def cidrToPrefix (c : Cidr) : Option Prefix :=
  if c.nbytes == 4 then (if c.bits ≤ 32 then some ⟨true, c.val, c.bits⟩ else none)
  else if c.nbytes == 16 then (if c.bits ≤ 128 then some ⟨false, c.val, c.bits⟩ else none)
  else none

/-- `AccessSettings` of the backend protocol. -/
structure AccessSettings where
  enabled : Bool
  allowCidr : List Cidr := []
  blockCidr : List Cidr := []
  allowASN : List Nat := []
  blockASN : List Nat := []
  rules : List Rule := []
deriving Repr, DecidableEq

/-- `backendpb.AccessSettings.toInternal`: no message or `enabled = false` gives
`access.EmptyProfile` (`none`). -/
def accessFromBackend (x : Option AccessSettings) : Option ProfConf :=
  match x with
  | none => none
  | some x =>
    if !x.enabled then none
    else some { allowedNets := x.allowCidr.filterMap cidrToPrefix, blockedNets := x.blockCidr.filterMap cidrToPrefix,
                allowedASN := x.allowASN, blockedASN := x.blockASN, rules := x.rules }

/-- The `Access` message of the cache file. -/
structure CacheAccess where
  allowCidr : List Cidr := []
  blockCidr : List Cidr := []
  allowASN : List Nat := []
  blockASN : List Nat := []
  rules : List Rule := []
deriving Repr, DecidableEq

/-- One element of `prefixesToProtobuf`: `Address: n.Addr().AsSlice(), Prefix: uint32(n.Bits())`. -/
def cidrOfPrefix (p : Prefix) : Cidr := ⟨if p.is4 then 4 else 16, p.val, p.bits⟩

/-- `filecachepb.accessToProtobuf (p.Access.Config())`: `EmptyProfile.Config()` is nil and stays nil. -/
def cacheOfConf (c : Option ProfConf) : Option CacheAccess :=
  c.map fun c =>
    { allowCidr := c.allowedNets.map cidrOfPrefix, blockCidr := c.blockedNets.map cidrOfPrefix,
      allowASN := c.allowedASN, blockASN := c.blockedASN, rules := c.rules }

/-- `filecachepb.Access.toInternal`: nil gives `access.EmptyProfile`. -/
def confOfCache (x : Option CacheAccess) : Option ProfConf :=
  x.map fun x =>
    { allowedNets := x.allowCidr.filterMap cidrToPrefix, blockedNets := x.blockCidr.filterMap cidrToPrefix,
      allowedASN := x.allowASN, blockedASN := x.blockASN, rules := x.rules }

/-- The access decision of a profile as the device finder hands it over (`none` = `EmptyProfile`). -/
def confBlocked (c : Option ProfConf) (qname : String) (qt : Nat) (z : ZAddr) (l : Option Nat) : Bool :=
  match c with
  | none => false
  | some c => c.acc.isBlockedZ qname qt z l

/-! ## Rule texts: `access.lowerRule` (fourth deepening)

`NewGlobal` and `blockedHostEngine.init` hand every rule text to urlfilter through `lowerRule`.  Before
the repair they lower-cased the whole text (`strings.ToLower`), which rewrites the escape sequences of a
regular-expression rule (`\D` → `\d`, `\S` → `\s`, `\W` → `\w`).  The repaired code keeps the text from
the first `/` of a pattern that starts with one (after an optional `@@`) up to the last `/` as written and
lower-cases only what follows (the options); every other rule is lower-cased as before. -/

/-- ASCII white space (`strings.TrimSpace`; the generators pad with ASCII blanks only). -/
def isSpaceC (c : Char) : Bool :=
  c == ' ' || c == '\t' || c == '\n' || c == '\r' || c == Char.ofNat 11 || c == Char.ofNat 12

/-- `strings.TrimSpace`. -/
def trimSpaceL (l : List Char) : List Char := ((l.dropWhile isSpaceC).reverse.dropWhile isSpaceC).reverse

/-- `strings.ToLower` over a list of ASCII characters. -/
def lowerL (l : List Char) : List Char := l.map Char.toLower

/-- Splitting at the last `/` (`strings.LastIndexByte`): the part up to and including it, and the rest. -/
def splitLastSlash : List Char → Option (List Char × List Char)
  | [] => none
  | c :: cs =>
    match splitLastSlash cs with
    | some ab => some (c :: ab.1, ab.2)
    | none => if c == '/' then some ([c], cs) else none

/-- `strings.TrimPrefix(text, "@@")` with the removed prefix. -/
def stripAllow : List Char → List Char × List Char
  | '@' :: '@' :: r => (['@', '@'], r)
  | l => ([], l)

/-- `access.lowerRule` (the repaired code). -/
def lowerRuleL (text : List Char) : List Char :=
  let t := trimSpaceL text
  match (stripAllow t).2 with
  | '/' :: rest =>
    match splitLastSlash rest with
    | some ab => (stripAllow t).1 ++ '/' :: ab.1 ++ lowerL ab.2
    | none => lowerL t
  | _ => lowerL t

def lowerRule (s : String) : String := String.ofList (lowerRuleL s.toList)

/-- The code before the repair: `strings.ToLower(h)`. -/
def lowerRulePreFixL (text : List Char) : List Char := lowerL text

/-! ### A fragment of regular-expression rules

`/^` items `$/`, an item being a literal character or an escape `\k`, optionally followed by `+`.  The
escapes `\d \D \w \W \s \S` are the Perl classes (ASCII), any other escaped character stands for itself.
urlfilter compiles the pattern with `(?i)`: literals match case-insensitively. -/

inductive RxAtom where
  | lit (c : Char)
  | esc (k : Char)
deriving Repr, DecidableEq

structure RxItem where
  atom : RxAtom
  plus : Bool
deriving Repr, DecidableEq

def wordChar (c : Char) : Bool := c.isAlphanum || c == '_'

def RxAtom.matches (a : RxAtom) (c : Char) : Bool :=
  match a with
  | .lit x => x.toLower == c.toLower
  | .esc k =>
    if k == 'd' then c.isDigit else if k == 'D' then !c.isDigit
    else if k == 'w' then wordChar c else if k == 'W' then !wordChar c
    else if k == 's' then isSpaceC c else if k == 'S' then !isSpaceC c
    else k.toLower == c.toLower

/-- The items of a pattern body. -/
def rxItems : List Char → List RxItem
  | [] => []
  | '\\' :: k :: '+' :: r => ⟨.esc k, true⟩ :: rxItems r
  | '\\' :: k :: r => ⟨.esc k, false⟩ :: rxItems r
  | c :: '+' :: r => ⟨.lit c, true⟩ :: rxItems r
  | c :: r => ⟨.lit c, false⟩ :: rxItems r

/-- The anchored match of the items against a whole name. -/
def rxMatch : List RxItem → List Char → Bool
  | [], h => h.isEmpty
  | _ :: _, [] => false
  | it :: its, c :: h => it.atom.matches c && (rxMatch its h || (it.plus && rxMatch (it :: its) h))

/-- The regular expression of a rule text of the form `/^…$/`. -/
def rxOfText (t : List Char) : Option (List RxItem) :=
  match t with
  | '/' :: '^' :: r =>
    match r.reverse with
    | '/' :: '$' :: b => some (rxItems b.reverse)
    | _ => none
  | _ => none

/-- What the engine decides for a single option-free regular-expression rule whose text reached it as
`t`: blocked iff the text is a regular expression of the fragment and matches the name. -/
def rxTextBlocks (t : List Char) (host : List Char) : Bool :=
  match rxOfText t with
  | some items => rxMatch items host
  | none => false

/-- The repaired code: the engine is given `lowerRule text`. -/
def rxRuleBlocks (text host : List Char) : Bool := rxTextBlocks (lowerRuleL text) host

/-- The code before the repair: the engine was given `strings.ToLower(text)`. -/
def rxRuleBlocksPreFix (text host : List Char) : Bool := rxTextBlocks (lowerRulePreFixL text) host

/-! ## The global settings in the configuration file (fourth deepening)

`access.blocked_client_subnets` is a list of `netutil.Prefix`: an entry with a `/` is read by
`netip.ParsePrefix` (the address is kept unmasked; a length beyond the family's width is an error and the
program does not start), an entry without one is an address and becomes the prefix of full length
(`netip.PrefixFrom(ip, ip.BitLen())`, which also drops a zone). -/

structure YamlNet where
  is4 : Bool
  val : Nat
  /-- `none`: a bare address. -/
  bits : Option Nat
deriving Repr, DecidableEq

/-- `netutil.Prefix.UnmarshalText`; `none`: the configuration is rejected. -/
def YamlNet.toPrefix (y : YamlNet) : Option Prefix :=
  match y.bits with
  | none => some ⟨y.is4, y.val, width y.is4⟩
  | some b => if b ≤ width y.is4 then some ⟨y.is4, y.val, b⟩ else none

/-- `yaml.Unmarshal` + `netutil.UnembedPrefixes` + `access.NewGlobal` as far as the subnets go: all
entries or no start-up. -/
def yamlNets : List YamlNet → Option (List Prefix)
  | [] => some []
  | y :: ys =>
    match y.toPrefix, yamlNets ys with
    | some p, some ps => some (p :: ps)
    | _, _ => none

/-! ## The device lookup as a step with effects (fifth deepening)

`newRequestInfo` calls the device finder, and the finder is not a pure function: for a client that names
its device by an extended human-readable ID (`<type>-<profile>-<id>` in the TLS server name or the DoH
path) and whose device does not exist yet, `devicefinder.Default.deviceByExtID` asks the profile database
to *create* one (`profiledb.Default.CreateAutoDevice` → the backend).  `wrapF` is `Middleware.Wrap`'s handler with
the finder as an arbitrary state machine `find : φ → κ → φ × DevRes` (`κ`: what the finder reads off the
connection): the repaired code consults the global access settings first and looks the device up only
for a request that passes them; `wrapFPreFix` is the order before the repair. -/

/-- `Middleware.isBlockedGlobally`: the two global clauses, over the request alone. -/
def globalReason (g : Global) (r : Req) : Reason :=
  if g.isBlockedIP r.addr then .globalIP
  else if g.isBlockedHost (normQueryDomain r.qname) r.qtype then .globalHost
  else .pass

/-- The handler with its device lookup: spoofed port, global access, lookup, then the rest (`wrap` over the
device result the lookup returned).  `r.dev` is ignored. -/
def wrapF {φ κ : Type} (g : Global) (find : φ → κ → φ × DevRes) (s : φ) (k : κ) (r : Req) : φ × Out :=
  if r.port == 0 then (s, { effects := [], err := false, why := "spoof" })
  else
    match globalReason g r with
    | .globalIP => (s, { effects := [], err := false, why := "global-ip" })
    | .globalHost => (s, { effects := [], err := false, why := "global-host" })
    | _ => ((find s k).1, wrap g { r with dev := (find s k).2 })

/-- The handler before the repair: the lookup came first. -/
def wrapFPreFix {φ κ : Type} (g : Global) (find : φ → κ → φ × DevRes) (s : φ) (k : κ) (r : Req) : φ × Out :=
  if r.port == 0 then (s, { effects := [], err := false, why := "spoof" })
  else ((find s k).1, wrap g { r with dev := (find s k).2 })

/-- A history through the handler with its finder: final finder state and the outcomes. -/
def runF {φ κ : Type} (g : Global) (find : φ → κ → φ × DevRes) : φ → List (κ × Req) → φ × List Out
  | s, [] => (s, [])
  | s, (k, r) :: rest =>
    let st := wrapF g find s k r
    let tl := runF g find st.1 rest
    (tl.1, st.2 :: tl.2)

/-- What the finder reads off the connection of a client with an extended human-readable device ID. -/
structure ExtKey where
  /-- Index of the profile the ID names (`none`: the connection carries no device data). -/
  prof : Option Nat
  /-- The lower-case human-readable ID. -/
  hid : String
  /-- The backend refuses the next creation. -/
  backendFails : Bool := false

/-- The profile database as far as human-readable IDs go, with the backend's call counter. -/
structure AutoDB where
  /-- Existing profiles: index, automatic devices enabled, access settings. -/
  profs : List (Nat × Bool × Option ProfAcc) := []
  /-- Devices known by (profile, lower-case human ID). -/
  devs : List (Nat × String) := []
  /-- `CreateAutoDevice` calls that reached the backend. -/
  creates : Nat := 0

/-- `deviceByExtID` + `profiledb.Default.ProfileByHumanID` / `CreateAutoDevice`: no such profile → nobody; a known
device → its profile; otherwise, if the profile allows automatic devices, one call to the backend — the new
device, or the backend's error. -/
def AutoDB.find (db : AutoDB) (k : ExtKey) : AutoDB × DevRes :=
  match k.prof with
  | Option.none => (db, .none)
  | some i =>
    match db.profs.find? (fun e => e.1 == i) with
    | Option.none => (db, .none)
    | some (_, auto, acc) =>
      if db.devs.contains (i, k.hid) then (db, .ok acc {})
      else if !auto then (db, .none)
      else if k.backendFails then ({ db with creates := db.creates + 1 }, .error)
      else ({ db with devs := db.devs ++ [(i, k.hid)], creates := db.creates + 1 }, .ok acc { autoDevices := true })

end Agd.Access
