import Agd.Model.Ratelimit
/-!
# C09 model, part 2: whole request histories through the middleware

`serve` (in `Model/Ratelimit.lean`) is one request through `serveWithRatelimiting`.  Here a whole
run of requests is modelled: the global `Backoff` limiter plus one `DefaultRatelimiter` per profile
persist between requests, every passed request's response is weighed into the limiter that judged
it (`CountResponses`: ⌊len / est⌋ further events, each at its own clock reading), and the next
request meets the state all of that left behind.

The specification side (`mwSpecRun`) is written against the epoch window-log specification `ESpec`
and a plain one-second log per profile; it never mentions rings, caches or counters.
-/
namespace Agd.Ratelimit

/-- One request arriving at the middleware.  `tick` is the clock advance between the iterations of
the `CountResponses` loop of this request, `resp` the length of the message the next handler wrote
(`none`: it wrote nothing), `prof` the profile the request was attributed to. -/
structure MReq where
  now : Int
  tick : Int
  limited : Bool
  addr : Addr
  qtype : Nat
  resp : Option Nat
  prof : Option Nat
deriving Repr

/-- Middleware state of a whole run: the global limiter and each profile's own limiter (`none`: the
profile has no limit of its own, `GlobalRatelimiter`). -/
structure HSt where
  glob : St
  profs : Nat → Option ProfLim

/-- One request: `serve` on the global state and the limiter of the request's profile; the new
profile limiter is stored back under the profile's id. -/
def mwStep (c : Cfg) (h : HSt) (r : MReq) : HSt × Effect :=
  ({ glob := (serve c r.limited { glob := h.glob, prof := r.prof.bind h.profs } r.now r.tick r.addr
                r.qtype r.resp).1.glob
     profs :=
       match r.prof,
         (serve c r.limited { glob := h.glob, prof := r.prof.bind h.profs } r.now r.tick r.addr
            r.qtype r.resp).1.prof with
       | some id, some p' => fun i => if i = id then some p' else h.profs i
       | _, _ => h.profs },
   (serve c r.limited { glob := h.glob, prof := r.prof.bind h.profs } r.now r.tick r.addr r.qtype
      r.resp).2)

/-- What the clients see over a whole run. -/
def mwRun (c : Cfg) : HSt → List MReq → List Effect
  | _, [] => []
  | h, r :: rest => (mwStep c h r).2 :: mwRun c (mwStep c h r).1 rest

/-! ## Specification -/

/-- A profile's own limit, declaratively: `rps` per second for the clients in `subnets` (everyone
when empty), responses weighed by `est`, and the log of counted stamps (most recent first). -/
structure PSpec where
  rps : Nat
  subnets : List Prefix
  est : Nat
  log : List Int
deriving Repr

structure HSpec where
  glob : ESpec
  profs : Nat → Option PSpec

def PSpec.covers (p : PSpec) (a : Addr) : Bool :=
  p.subnets.isEmpty || p.subnets.any (fun s => s.contains a)

/-- The further events a response of `resp` bytes stands for: ⌊len / est⌋ events of the same client
and query type, at the loop's clock readings. -/
def respEvents (now tick : Int) (est : Nat) (a : Addr) (q : Nat) (resp : Option Nat) : List Ev :=
  match resp with
  | none => []
  | some l => (loopTimes now tick (l / est)).map (fun t => ⟨t, a, q⟩)

/-- The specification state after a list of events (verdicts discarded). -/
def especFold (c : Cfg) (sp : ESpec) (evs : List Ev) : ESpec :=
  evs.foldl (fun sp e => (especStep c sp e).1) sp

/-- The global part of the specification: the query is one event of the epoch window-log
specification; dropped ⇒ no response; allowlisted ⇒ served and nothing is counted; passed ⇒ served
and the response's events are counted as well. -/
def mwSpecGlobal (c : Cfg) (h : HSpec) (r : MReq) : HSpec × Effect :=
  match (especStep c h.glob ⟨r.now, r.addr, r.qtype⟩).2 with
  | .drop => ({ h with glob := (especStep c h.glob ⟨r.now, r.addr, r.qtype⟩).1 }, .dropped)
  | .allowlisted => ({ h with glob := (especStep c h.glob ⟨r.now, r.addr, r.qtype⟩).1 }, .servedNoCount)
  | .pass =>
    ({ h with glob := especFold c (especStep c h.glob ⟨r.now, r.addr, r.qtype⟩).1
                        (respEvents r.now r.tick c.est r.addr r.qtype r.resp) }, .servedCounted)

/-- One request against the specification.  Protocols other than plain DNS are served untouched.
A request of a profile with its own limit that covers the client is judged by the profile's
one-second log alone (dropped iff `rps` earlier counted stamps lie within the closed last second),
it is logged, and when it passed the response's ⌊len / est⌋ stamps are logged too; the global
specification state is untouched.  Every other request is the global specification's. -/
def mwSpecStep (c : Cfg) (h : HSpec) (r : MReq) : HSpec × Effect :=
  if !r.limited then (h, .servedNoCount)
  else
    match r.prof with
    | none => mwSpecGlobal c h r
    | some id =>
      match h.profs id with
      | none => mwSpecGlobal c h r
      | some p =>
        if !p.covers r.addr then mwSpecGlobal c h r
        else if aboveSpec p.rps 1000000000 p.log r.now then
          ({ h with profs := fun i => if i = id then some { p with log := r.now :: p.log } else h.profs i },
           .dropped)
        else
          ({ h with profs := fun i => if i = id then
                some { p with log := ((respEvents r.now r.tick p.est r.addr r.qtype r.resp).map (·.now)).reverse
                                        ++ r.now :: p.log }
              else h.profs i },
           .servedCounted)

def mwSpecRun (c : Cfg) : HSpec → List MReq → List Effect
  | _, [] => []
  | h, r :: rest => (mwSpecStep c h r).2 :: mwSpecRun c (mwSpecStep c h r).1 rest

/-- The real middleware state a configuration starts from: an empty global limiter and, for every
profile with its own limit, a fresh one-second counter. -/
def HSt.init (profs : Nat → Option PSpec) : HSt :=
  { glob := St.empty
    profs := fun id => (profs id).map (fun p =>
      { subnets := p.subnets, ctr := Counter.new p.rps 1000000000, est := p.est }) }

/-- Request times are positive and non-decreasing, the loop clock does not run backwards, and the
next request does not arrive before the previous request's `CountResponses` loop has finished
(`now + tick * len` bounds every clock reading of the loop, whatever the estimate). -/
def MChain : Int → List MReq → Prop
  | _, [] => True
  | T, r :: rest => 0 < r.now ∧ T ≤ r.now ∧ 0 ≤ r.tick ∧ MChain (r.now + r.tick * ((r.resp.getD 0 : Nat) : Int)) rest

/-- Round 5.  A request the allowlist makes invisible: plain DNS (a limited protocol), no profile, an
allowlisted client, and not an ANY query under refusal. -/
def transparent (c : Cfg) (r : MReq) : Bool :=
  r.limited && r.prof.isNone && allowed c r.addr && !(c.refuseAny && r.qtype == qtypeANY)

end Agd.Ratelimit
