/-!
# Model of device recognition (C03)

Executable, total model of `internal/dnssvc/internal/devicefinder` (`Default.Find` and everything it
calls) and of the two places in `ratelimitmw`/`agd` that decide what the rest of the pipeline sees
(`handleDeviceResult`, `RequestInfo.DeviceData`).  Core Lean only.

Strings are `List Char`; all inputs of the correspondence run are ASCII, where Go's
`strings.ToLower`/`EqualFold` coincide with `Char.toLower`.
The profile database is five arbitrary lookup functions (`DB`); the password check of a device is an
arbitrary function `check : Str → Bool` (bcrypt is a parameter).
-/
namespace Agd.Device

abbrev Str := List Char
abbrev IP := String

/-! ## String helpers (Go: strings.Split, strings.ToLower, path.Clean, netutil label checks) -/

def lower (s : Str) : Str := s.map Char.toLower

/-- `strings.Split(s, sep)` for a one-character separator. -/
def splitOn (sep : Char) : Str → List Str
  | [] => [[]]
  | c :: cs =>
    if c = sep then [] :: splitOn sep cs
    else match splitOn sep cs with
      | [] => [[c]]
      | h :: t => (c :: h) :: t

/-- `strings.SplitN(s, "-", 2)`: text before the first hyphen and the rest, if there is a hyphen. -/
def cutHyphen : Str → Option (Str × Str)
  | [] => none
  | c :: cs =>
    if c = '-' then some ([], cs)
    else match cutHyphen cs with
      | none => none
      | some (a, b) => some (c :: a, b)

def isOuter (c : Char) : Bool :=
  ('a' ≤ c && c ≤ 'z') || ('A' ≤ c && c ≤ 'Z') || ('0' ≤ c && c ≤ '9')

def isInner (c : Char) : Bool := c = '-' || isOuter c

/-- `netutil.ValidateHostnameLabel(s) == nil`. -/
def validLabel (s : Str) : Bool :=
  match s with
  | [] => false
  | c :: _ => s.length ≤ 63 && isOuter c && isOuter (s.getLast?.getD c) && s.all isInner

/-- `agd.NewDeviceID(s)` succeeds. -/
def validDeviceID (s : Str) : Bool := 1 ≤ s.length && s.length ≤ 8 && validLabel s

def hasTripleHyphen : Str → Bool
  | '-' :: '-' :: '-' :: _ => true
  | _ :: r => hasTripleHyphen r
  | [] => false

/-- `agd.newHumanID(s)` succeeds. -/
def validHumanID (s : Str) : Bool := validLabel s && !hasTripleHyphen s

/-! ### `agd.HumanIDParser.ParseNormalized` -/

inductive NState | initial | invalid | valid
  deriving DecidableEq, Repr

/-- Normaliser state; `buf` is kept reversed. `p`/`pp`: previous / pre-previous rune is a hyphen. -/
structure Norm where
  buf : Str := []
  st : NState := .initial
  p : Bool := false
  pp : Bool := false

def Norm.write (n : Norm) (c : Char) : Norm :=
  { n with buf := c :: n.buf, pp := n.p, p := (c = '-') }

def Norm.truncateHyphens (n : Norm) : Norm :=
  if !n.p then n
  else if n.pp then { n with buf := n.buf.drop 2, pp := false, p := false }
  else { n with buf := n.buf.drop 1, p := false }

def Norm.next (n : Norm) (c : Char) : Norm :=
  match n.st with
  | .initial => if isOuter c then ({ n with st := .valid }).write c else n
  | .valid =>
    if c = '-' then
      if n.pp && n.p then { n with buf := n.buf.drop 2, pp := false, p := false, st := .invalid }
      else n.write c
    else if !isOuter c then { n.truncateHyphens with st := .invalid }
    else n.write c
  | .invalid =>
    if !isOuter c then n
    else
      let n1 : Norm := { n with st := .valid }
      let n2 := if !n1.p then n1.write '-' else n1
      n2.write c

def trimRightHyphens (s : Str) : Str := (s.reverse.dropWhile (· = '-')).reverse

def normalizeHuman (s : Str) : Str :=
  trimRightHyphens (((s.foldl Norm.next {}).buf.reverse).take 63)

/-- `ParseNormalized`: `none` is an error. -/
def parseNormalized (s : Str) : Option Str :=
  if validHumanID s then some s
  else if s.length < 1 || s.length > 253 then none
  else
    let r := normalizeHuman s
    if r = [] || r = ['-'] then none
    else if validHumanID r then some r else none

/-! ### `agd.DeviceTypeFromDNS`, `agd.NewProfileID` -/

def deviceTypeStrings : List Str :=
  ["win".toList, "adr".toList, "mac".toList, "ios".toList, "lnx".toList, "rtr".toList,
   "stv".toList, "gam".toList, "otr".toList]

def findIdx (p : Str → Bool) : List Str → Nat → Option Nat
  | [], _ => none
  | x :: r, i => if p x then some i else findIdx p r (i + 1)

/-- Device type number (1-based), `none` on error. -/
def deviceTypeFromDNS (s : Str) : Option Nat :=
  if s.length ≠ 3 then none else findIdx (fun t => lower s = t) deviceTypeStrings 1

def validProfileID (s : Str) : Bool := s.length ≤ 8 && s.all (fun c => '!' ≤ c && c ≤ '~')

/-! ## Device data carried by a request -/

/-- Which check produced a `DeviceResultError`. -/
inductive ErrCls | basicAuth | urlPath | sni | edns | db
  deriving DecidableEq, Repr

inductive DevData
  | nothing
  | id (s : Str)
  | ext (dt : Nat) (pid : Str) (hid : Str)
  deriving DecidableEq, Repr

/-- `parseExtHumanID`; only called when `s` has at least two hyphens. -/
def parseExtHumanID (s : Str) : Option (Nat × Str × Str) :=
  match cutHyphen s with
  | none => none
  | some (a, r) =>
    match cutHyphen r with
    | none => none
    | some (b, c) =>
      match deviceTypeFromDNS a with
      | none => none
      | some dt =>
        if !validProfileID (lower b) then none
        else match parseNormalized c with
          | none => none
          | some h => some (dt, lower b, h)

def isLikelyExtHumanID (s : Str) : Bool := 2 ≤ s.count '-'

/-- `parseDeviceData`: `none` is an error. -/
def parseDeviceData (s : Str) : Option DevData :=
  if isLikelyExtHumanID s then
    match parseExtHumanID s with
    | none => none
    | some (dt, pid, hid) => some (.ext dt pid hid)
  else if validDeviceID (lower s) then some (.id (lower s)) else none

def dot : Str := ['.']
def dotdot : Str := ['.', '.']
def pathDoH : Str := "/dns-query".toList
def pathJSON : Str := "/resolve".toList

/-- The element stack of Go's `path.Clean` (stack reversed). -/
def cleanGo (rooted : Bool) : List Str → List Str → List Str
  | [], st => st.reverse
  | s :: r, st =>
    if s = [] || s = dot then cleanGo rooted r st
    else if s = dotdot then
      match st with
      | t :: st' =>
        if t = dotdot then cleanGo rooted r (if rooted then st else s :: st)
        else cleanGo rooted r st'
      | [] => cleanGo rooted r (if rooted then [] else [s])
    else cleanGo rooted r (s :: st)

/-- `strings.Split(path.Clean(p), "/")` with a leading empty element removed. -/
def cleanElems (p : Str) : List Str :=
  let rooted := p.head? = some '/'
  let segs := cleanGo rooted (splitOn '/' p) []
  if segs = [] then (if rooted then [[]] else [dot]) else segs

/-- `pathElements`: `none` is an error. -/
def pathElements (p : Str) : Option (List Str) :=
  match cleanElems p with
  | [] => none
  | e0 :: rest =>
    if e0 = [] then none
    else if rest.length > 1 then none
    else if !(e0.isSuffixOf pathDoH) && !(e0.isSuffixOf pathJSON) then none
    else some (e0 :: rest)

/-- `deviceDataFromDoHURL`. -/
def deviceDataFromDoHURL (p : Str) : Option DevData :=
  match pathElements p with
  | none => none
  | some [_, e1] => parseDeviceData e1
  | some _ => some .nothing

/-- `netutil.IsImmediateSubdomain(sub, top)`. -/
def isImmediateSubdomain (sub top : Str) : Bool :=
  sub.length > top.length + 1 && top.isSuffixOf sub &&
    (sub.drop (sub.length - top.length - 1)).head? = some '.' &&
    sub.count '.' = top.count '.' + 1

/-- `matchDomain`. -/
def matchDomain (sni : Str) : List Str → Option Str
  | [] => none
  | d :: r => if isImmediateSubdomain (lower sni) d then some d else matchDomain sni r

/-- `strings.Cut(cliSrvName, ".")`, first result: the text before the first dot (the whole name when
it has none). -/
def sniLabel (sni : Str) : Str := sni.takeWhile (· ≠ '.')

/-- `deviceDataFromCliSrvName`. -/
def deviceDataFromSNI (domains : List Str) (sni : Str) : Option DevData :=
  if sni = [] then some .nothing
  else match matchDomain sni domains with
    | none => some .nothing
    | some d =>
      if d = [] then some .nothing  -- `matchedDomain == ""` is "no match" in the code
      else parseDeviceData (sniLabel sni)

/-- One EDNS option: code and payload. -/
structure EOpt where
  code : Nat
  data : Str
  deriving DecidableEq, Repr

def cpeIDOption : Nat := 65074

/-- `deviceIDFromEDNS` over the option list of the OPT record. -/
def deviceIDFromOpts : List EOpt → Except ErrCls DevData
  | [] => .ok .nothing
  | o :: r =>
    if o.code = cpeIDOption then
      if validDeviceID o.data then .ok (.id o.data) else .error .edns
    else deviceIDFromOpts r

/-! ## Server, request, database -/

inductive Proto | invalid | dns | dnscrypt | doh | doq | dot
  deriving DecidableEq, Repr

def Proto.isStdEncrypted : Proto → Bool
  | .doh | .doq | .dot => true
  | _ => false

def supportsDeviceID : Proto → Bool
  | .dns | .doh | .doq | .dot => true
  | _ => false

/-- One entry of the server's bind data. -/
inductive Bind
  | addr (ip : IP) (port : Nat)
  | pref (ip : IP) (single : Bool) (port : Nat)
  deriving DecidableEq, Repr

structure Srv where
  proto : Proto
  linkedIP : Bool
  binds : List Bind
  domains : List Str

def Srv.bindsToInterfaces (s : Srv) : Bool :=
  match s.binds with
  | .pref .. :: _ => true
  | _ => false

def Bind.has (ip : IP) (port : Nat) : Bind → Bool
  | .addr i p => i = ip && p = port
  | .pref i single p => single && i = ip && p = port

def Srv.hasAddr (s : Srv) (ip : IP) (port : Nat) : Bool := s.binds.any (Bind.has ip port)

structure Auth where
  enabled : Bool
  dohOnly : Bool
  check : Str → Bool

structure Device where
  id : Str
  auth : Auth
  humanLower : Str := []
  linkedIP : Option IP := none
  dedicated : List IP := []

structure Profile where
  id : Str
  deleted : Bool
  devices : List Str

inductive DBRes
  | found (p : Profile) (d : Device)
  | devNotFound
  | profNotFound
  | error

structure DB where
  byDeviceID : Str → DBRes
  byHumanID : Str → Str → DBRes
  createAuto : Str → Str → Nat → DBRes
  byLinkedIP : IP → DBRes
  byDedicatedIP : IP → DBRes

structure Req where
  /-- `none`: no userinfo; `some (u, none)`: user only; `some (u, some p)`: user and password. -/
  userinfo : Option (Str × Option Str)
  path : Str
  sni : Str
  /-- `none`: no OPT record. -/
  edns : Option (List EOpt)
  lip : IP
  lport : Nat
  rip : IP

inductive AuthErr | notDoH | noUserinfo | noPassword | failed
  deriving DecidableEq, Repr

inductive Result
  | none
  | ok (p : Profile) (d : Device)
  | authFail (e : AuthErr)
  | error (c : ErrCls)
  | unknownDedicated

/-! ## `deviceData*` -/

def deviceDataForDoH (rq : Req) : Except ErrCls DevData :=
  match rq.userinfo with
  | some (u, _) => if validDeviceID u then .ok (.id u) else .error .basicAuth
  | none =>
    match deviceDataFromDoHURL rq.path with
    | none => .error .urlPath
    | some d => .ok d

def deviceDataFromSNIStep (s : Srv) (rq : Req) : Except ErrCls DevData :=
  if s.domains = [] then .ok .nothing
  else match deviceDataFromSNI s.domains rq.sni with
    | none => .error .sni
    | some d => .ok d

def deviceDataFromSrvReqInfo (s : Srv) (rq : Req) : Except ErrCls DevData :=
  if s.proto = .doh then
    match deviceDataForDoH rq with
    | .error e => .error e
    | .ok .nothing => deviceDataFromSNIStep s rq
    | .ok d => .ok d
  else deviceDataFromSNIStep s rq

def deviceData (s : Srv) (rq : Req) : Except ErrCls DevData :=
  if s.proto.isStdEncrypted then deviceDataFromSrvReqInfo s rq
  else match rq.edns with
    | none => .ok .nothing
    | some opts => deviceIDFromOpts opts

/-! ## Database lookups -/

def newDeviceResult : DBRes → Result
  | .found p d => .ok p d
  | .devNotFound => .none
  | .profNotFound => .none
  | .error => .error .db

def deviceByExtID (db : DB) (dt : Nat) (pid hid : Str) : Result :=
  match db.byHumanID pid (lower hid) with
  | .found p d => .ok p d
  | .profNotFound => .none
  | .error => .error .db
  | .devNotFound =>
    -- a device-not-found error from CreateAutoDevice is wrapped and then recognised as
    -- not-found by `newDeviceResult`
    newDeviceResult (db.createAuto pid hid dt)

def deviceByLocalAddr (db : DB) (ip : IP) : Result :=
  match db.byDedicatedIP ip with
  | .found p d => .ok p d
  | .devNotFound => .unknownDedicated
  | .profNotFound => .unknownDedicated
  | .error => .error .db

def deviceByAddrs (s : Srv) (db : DB) (rq : Req) : Result :=
  if s.bindsToInterfaces && !s.hasAddr rq.lip rq.lport then deviceByLocalAddr db rq.lip
  else if !s.linkedIP then .none
  else newDeviceResult (db.byLinkedIP rq.rip)

def deviceFromDB (s : Srv) (db : DB) (rq : Req) : DevData → Result
  | .id i => newDeviceResult (db.byDeviceID i)
  | .ext dt pid hid => deviceByExtID db dt pid hid
  | .nothing => if s.proto = .dns then deviceByAddrs s db rq else .none

def findDevice (s : Srv) (db : DB) (rq : Req) (dd : DevData) : Result :=
  match deviceFromDB s db rq dd with
  | .ok p d => if p.deleted then .none else .ok p d
  | r => r

/-! ## Authentication -/

def authenticate (s : Srv) (rq : Req) (d : Device) : Option AuthErr :=
  if !d.auth.enabled then none
  else if s.proto ≠ .doh then (if d.auth.dohOnly then some .notDoH else none)
  else match rq.userinfo with
    | none => if d.auth.dohOnly then some .noUserinfo else none
    | some (_, none) => some .noPassword
    | some (_, some pw) => if d.auth.check pw then none else some .failed

def authenticatedResult (s : Srv) (rq : Req) (p : Profile) (d : Device) : Result :=
  match authenticate s rq d with
  | some e => .authFail e
  | none => .ok p d

/-- `Default.Find`. -/
def find (s : Srv) (db : DB) (rq : Req) : Result :=
  if !supportsDeviceID s.proto then .none
  else match deviceData s rq with
    | .error e => .error e
    | .ok dd =>
      match findDevice s db rq dd with
      | .ok p d => authenticatedResult s rq p d
      | r => r

/-- `dnssvc.newDeviceFinder` followed by `Find`: a server group with `profiles_enabled = false` gets
`agd.EmptyDeviceFinder`, whose `Find` returns nil. -/
def findIn (profilesEnabled : Bool) (s : Srv) (db : DB) (rq : Req) : Result :=
  if !profilesEnabled then .none else find s db rq

/-! ## The DoH server's request information (`dnsserver.addRequestInfo`, `http.Request.BasicAuth`) -/

def b64Val (c : Char) : Option Nat :=
  if 'A' ≤ c && c ≤ 'Z' then some (c.toNat - 65)
  else if 'a' ≤ c && c ≤ 'z' then some (c.toNat - 71)
  else if '0' ≤ c && c ≤ '9' then some (c.toNat + 4)
  else if c = '+' then some 62
  else if c = '/' then some 63
  else none

/-- `base64.StdEncoding.DecodeString` on input from which CR/LF have been removed (`stripCRLF`; padding
required, trailing bits not checked); bytes are characters 0–255. -/
def b64Decode : Str → Option Str
  | [] => some []
  | [a, b, '=', '='] =>
    match b64Val a, b64Val b with
    | some x, some y => some [Char.ofNat (x * 4 + y / 16)]
    | _, _ => none
  | [a, b, c, '='] =>
    match b64Val a, b64Val b, b64Val c with
    | some x, some y, some z => some [Char.ofNat (x * 4 + y / 16), Char.ofNat (y % 16 * 16 + z / 4)]
    | _, _, _ => none
  | a :: b :: c :: d :: r =>
    match b64Val a, b64Val b, b64Val c, b64Val d, b64Decode r with
    | some x, some y, some z, some w, some rest =>
      some (Char.ofNat (x * 4 + y / 16) :: Char.ofNat (y % 16 * 16 + z / 4) :: Char.ofNat (z % 4 * 64 + w) :: rest)
    | _, _, _, _, _ => none
  | _ => none

/-- `strings.Cut(s, ":")`. -/
def cutColon : Str → Option (Str × Str)
  | [] => none
  | c :: cs =>
    if c = ':' then some ([], cs)
    else match cutColon cs with
      | none => none
      | some (a, b) => some (c :: a, b)

def basicPrefix : Str := ['b', 'a', 's', 'i', 'c', ' ']

/-- `encoding/base64` skips carriage returns and line feeds wherever they stand (also inside the
padding); everything else that is not in the alphabet is an error. -/
def stripCRLF (s : Str) : Str := s.filter (fun c => !(c = '\r' || c = '\n'))

/-- `net/http.parseBasicAuth`: case-insensitive `Basic ` prefix, base64 (CR/LF skipped), split at the
first colon. -/
def parseBasicAuth (h : Str) : Option (Str × Str) :=
  if h.length < 6 || lower (h.take 6) ≠ basicPrefix then none
  else match b64Decode (stripCRLF (h.drop 6)) with
    | none => none
    | some cs => cutColon cs

/-- What the DoH server looks at in an HTTP request. -/
structure HttpReq where
  /-- TLS connection state present? with which server name. -/
  tls : Option Str
  /-- First `Authorization` header value, empty if absent. -/
  auth : Str
  path : Str

/-- `addRequestInfo`: URL path, TLS server name (if there is a TLS state), and userinfo — always
*with* a password, possibly empty — iff `BasicAuth()` succeeds.  Everything else of `rq` (EDNS,
addresses) is the DNS message's / connection's. -/
def addRequestInfo (h : HttpReq) (rq : Req) : Req :=
  { rq with
    userinfo := (parseBasicAuth h.auth).map (fun up => (up.1, some up.2)),
    path := h.path,
    sni := h.tls.getD [] }

/-! ## Where a device's authentication settings come from

The `Auth` of a device is not written by hand: it is converted from the backend's
`AuthenticationSettings` message (`backendpb`: `AuthenticationSettings.toInternal`,
`dohPasswordToInternal`), written to the profile cache file by a full synchronisation (`filecachepb`:
`authToProtobuf`, `dohPasswordToProtobuf`) and read back from it after a restart (`filecachepb`:
`AuthenticationSettings.toInternal`).  A bcrypt hash is the set of passwords it accepts. -/

/-- The `AuthenticationSettings` message of the backend and, with the same fields, of the cache file;
an absent message is `none`.  `hash = none`: the `doh_password_hash` oneof is not set. -/
structure MsgAuth where
  dohOnly : Bool
  hash : Option (Str → Bool)

/-- `agdpasswd.Authenticator` values the converters produce. -/
inductive PwHash
  | allow
  | bcrypt (accepts : Str → Bool)

/-- `agd.AuthSettings`. -/
structure AuthSettings where
  enabled : Bool
  dohOnly : Bool
  hash : PwHash

/-- What `authenticate` reads of the settings (`PasswordHash.Authenticate`). -/
def AuthSettings.toAuth (a : AuthSettings) : Auth :=
  { enabled := a.enabled, dohOnly := a.dohOnly,
    check := match a.hash with
      | .allow => fun _ => true
      | .bcrypt c => c }

/-- `dohPasswordToInternal` (both packages): no hash ⇒ the allow-all authenticator. -/
def hashOfMsg : Option (Str → Bool) → PwHash
  | none => .allow
  | some c => .bcrypt c

/-- `AuthenticationSettings.toInternal` (both packages): no message ⇒ authentication disabled; a
message ⇒ enabled, DoH-only as sent. -/
def authOfMsg : Option MsgAuth → AuthSettings
  | none => { enabled := false, dohOnly := false, hash := .allow }
  | some m => { enabled := true, dohOnly := m.dohOnly, hash := hashOfMsg m.hash }

/-- `filecachepb.dohPasswordToProtobuf`. -/
def msgOfHash : PwHash → Option (Str → Bool)
  | .allow => none
  | .bcrypt c => some c

/-- `filecachepb.authToProtobuf`: nothing is written for disabled settings; enabled settings are
written with their DoH-only flag and their hash, whether or not there is a hash. -/
def cacheOfAuth (a : AuthSettings) : Option MsgAuth :=
  if !a.enabled then none else some { dohOnly := a.dohOnly, hash := msgOfHash a.hash }

/-- Settings written to the cache file and read back after a restart. -/
def throughCache (a : AuthSettings) : AuthSettings := authOfMsg (cacheOfAuth a)

/-- Where the profile database has a device from. -/
inductive Source | backend | cacheFile
  deriving DecidableEq, Repr

/-- The settings the device finder sees for a device whose backend message said `m`. -/
def settingsFrom : Source → Option MsgAuth → AuthSettings
  | .backend, m => authOfMsg m
  | .cacheFile, m => throughCache (authOfMsg m)

def authFrom (src : Source) (m : Option MsgAuth) : Auth := (settingsFrom src m).toAuth

/-! ## What the rest of the pipeline sees -/

/-- `ratelimitmw.handleDeviceResult`: does the request continue? -/
def continues : Result → Bool
  | .unknownDedicated => false
  | .error _ => false
  | _ => true

/-- `agd.RequestInfo.DeviceData`. -/
def deviceDataOf : Result → Option (Profile × Device)
  | .ok p d => some (p, d)
  | _ => none

/-! ## Glue around `Find`: addresses, the OPT record, and `ratelimitmw.Middleware.Wrap` -/

/-- `netip.Addr.Unmap` on the textual form, as applied to the remote and the local address by
`netutil.NetAddrToAddrPort` (`Wrap`, `newRequestInfo`): `::ffff:a.b.c.d[%zone]` ↦ `a.b.c.d`; every other
address — including a zoned one such as `fe80::1%eth0` — is left as it is. -/
def unmapIP (ip : IP) : IP :=
  let cs := ip.toList
  if "::ffff:".toList.isPrefixOf cs && (cs.drop 7).contains '.' then
    String.ofList ((cs.drop 7).takeWhile (fun c => !(c = '%')))
  else ip

/-- The request as the finder sees it: both addresses unmapped. -/
def normAddrs (rq : Req) : Req := { rq with lip := unmapIP rq.lip, rip := unmapIP rq.rip }

/-- `dns.Msg.IsEdns0`: the *last* OPT record of the additional section counts. -/
def ednsOfExtra (opts : List (List EOpt)) : Option (List EOpt) := opts.getLast?

/-- What `Wrap` consults besides the device result: is the remote port 0 (spoofed), does the global
access manager block the client address / the queried host, and does the access list of a profile
(by ID) block this request. -/
structure Gate where
  port0 : Bool
  blockedIP : Bool
  blockedHost : Bool
  profBlocks : Str → Bool

/-- What becomes of a request in `Wrap`. -/
inductive Served
  /-- no response, no error, next handler not called -/
  | dropped
  /-- error returned to the server (SERVFAIL), next handler not called -/
  | failed (c : ErrCls)
  /-- request information with this device result put into the context, rate limiting and the next
  handler run -/
  | next (r : Result)

/-- `isBlockedByAccess`, profile part: only the profile of `DeviceData()` is consulted. -/
def profileBlocked (g : Gate) (r : Result) : Bool :=
  match deviceDataOf r with
  | some (p, _) => g.profBlocks p.id
  | none => false

/-- `Middleware.Wrap` up to the call of `serveWithRatelimiting`: spoof check, (find), access before the
device result, `handleDeviceResult`. -/
def wrap (g : Gate) (r : Result) : Served :=
  if g.port0 then .dropped
  else if g.blockedIP || g.blockedHost || profileBlocked g r then .dropped
  else match r with
    | .unknownDedicated => .dropped
    | .error c => .failed c
    | .none => .next .none
    | .ok p d => .next (.ok p d)
    | .authFail e => .next (.authFail e)

/-- The profile and device the later stages (filtering, billing, query log) see. -/
def exposed : Served → Option (Profile × Device)
  | .next r => deviceDataOf r
  | _ => none

/-- One request through finder construction, address conversion, `Find` and `Wrap`. -/
def serve (g : Gate) (profilesEnabled : Bool) (s : Srv) (db : DB) (rq : Req) : Served :=
  wrap g (findIn profilesEnabled s db (normAddrs rq))


/-! ## Production wiring: from the configuration file to the finder's settings (`internal/cmd`)

`serverGroups.toInternal` / `tlsConfig.toInternal` / `servers.toInternal` / `serverProto.toInternal` and
`dnssvc.newDeviceFinder`: every server of a group gets the group's `device_id_wildcards` with the
prefix `*.` trimmed as its device domains, the group's `profiles_enabled`, its own `linked_ip_enabled`
and protocol, and — with `bind_addresses` — address binds only. -/

/-- `strings.TrimPrefix(w, "*.")`. -/
def trimStarDot : Str → Str
  | '*' :: '.' :: r => r
  | w => w

/-- `serverProto.toInternal`: the protocol names of the configuration file. -/
def protoOfYAML (n : Str) : Proto :=
  if n = "dns".toList then .dns
  else if n = "dnscrypt".toList then .dnscrypt
  else if n = "https".toList then .doh
  else if n = "quic".toList then .doq
  else if n = "tls".toList then .dot
  else .invalid

/-- A `server_groups` entry as far as device recognition reads it. -/
structure GroupConf where
  profiles : Bool
  /-- `tls.device_id_wildcards`, as written. -/
  wildcards : List Str

/-- A `servers` entry with `bind_addresses`. -/
structure SrvConf where
  proto : Str
  linked : Bool
  binds : List (IP × Nat)

def noDup : List Str → Bool
  | [] => true
  | w :: r => !r.contains w && noDup r

/-- `validateDeviceIDWildcards`: every entry starts with `*.`, no entry twice. -/
def validWildcards (ws : List Str) : Bool :=
  ws.all (fun w => ['*', '.'].isPrefixOf w) && noDup ws

def deviceDomainsOf (g : GroupConf) : List Str := g.wildcards.map trimStarDot

/-- The `agd.Server` + device domains that `newDeviceFinder` hands to `devicefinder.NewDefault`. -/
def srvOfConf (g : GroupConf) (c : SrvConf) : Srv :=
  { proto := protoOfYAML c.proto, linkedIP := c.linked,
    binds := c.binds.map (fun b => .addr b.1 b.2), domains := deviceDomainsOf g }

/-- One request on server `c` of group `g` of the configuration file. -/
def findWired (g : GroupConf) (c : SrvConf) (db : DB) (rq : Req) : Result :=
  findIn g.profiles (srvOfConf g c) db (normAddrs rq)

def serveWired (gt : Gate) (g : GroupConf) (c : SrvConf) (db : DB) (rq : Req) : Served :=
  serve gt g.profiles (srvOfConf g c) db rq

end Agd.Device
