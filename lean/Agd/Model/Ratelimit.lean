/-!
# C09 model: request counter, backoff limiter, per-profile limiter

Mirrors `internal/dnsserver/ratelimit/{counter,backoff,allowlist}.go`,
`internal/agd/ratelimit.go` and `internal/dnssvc/internal/ratelimitmw/limit.go`.

Time is an explicit `Int` of nanoseconds.  `go-cache` is a finite map with an
optional expiry stamp per entry (`expires = none` ⇔ non-positive default
expiration ⇔ never expires); an entry is gone when `now > expires`.
-/
namespace Agd.Ratelimit

/-! ## Layer 1: `RequestCounter` -/

/-- `RequestCounter.Add`: history is most-recent-first.  The ring of size
`num + 1` holds the last `num + 1` stamps; after pushing `ts`, `Current()` is the
stamp pushed `num` pushes before `ts` (or the zero value). -/
def above (num : Nat) (ivl : Int) (hist : List Int) (ts : Int) : Bool :=
  match (ts :: hist)[num]? with
  | some tail => decide (tail > 0) && decide (ts - tail ≤ ivl)
  | none => false

structure Counter where
  num : Nat
  ivl : Int
  hist : List Int
deriving Repr, DecidableEq

def Counter.new (num : Nat) (ivl : Int) : Counter := { num, ivl, hist := [] }

def Counter.add (c : Counter) (ts : Int) : Counter × Bool :=
  ({ c with hist := ts :: c.hist }, above c.num c.ivl c.hist ts)

/-- The concrete ring buffer of golibs' `container.RingBuffer` (size `n`). -/
structure Ring where
  buf : List Int
  cur : Nat
deriving Repr, DecidableEq

def Ring.new (n : Nat) : Ring := { buf := List.replicate n 0, cur := 0 }

def Ring.push (r : Ring) (e : Int) : Ring :=
  if r.buf.length = 0 then r
  else { buf := r.buf.set r.cur e, cur := (r.cur + 1) % r.buf.length }

def Ring.current (r : Ring) : Int := r.buf.getD r.cur 0

/-- `RequestCounter.Add` written against the ring exactly as the Go code does. -/
def ringAdd (r : Ring) (ivl : Int) (ts : Int) : Ring × Bool :=
  let r' := r.push ts
  let tail := r'.current
  (r', decide (tail > 0) && decide (ts - tail ≤ ivl))

/-- Verdicts of a stamp sequence on the concrete ring. -/
def ringRun (ivl : Int) : Ring → List Int → List Bool
  | _, [] => []
  | r, t :: ts => (ringAdd r ivl t).2 :: ringRun ivl (ringAdd r ivl t).1 ts

/-- Verdicts of a stamp sequence on the history model. -/
def ctrRun : Counter → List Int → List Bool
  | _, [] => []
  | c, t :: ts => (c.add t).2 :: ctrRun (c.add t).1 ts

/-- Sliding-window-log specification: at least `num` earlier events lie within
the closed window `[ts - ivl, ts]`. -/
def aboveSpec (num : Nat) (ivl : Int) (hist : List Int) (ts : Int) : Bool :=
  decide (num ≤ (hist.filter (fun t => decide (ts - t ≤ ivl))).length)

/-! ## Layer 2: `Backoff` -/

structure Addr where
  is4 : Bool
  val : Nat
deriving Repr, DecidableEq

structure Prefix where
  is4 : Bool
  val : Nat
  bits : Nat
deriving Repr, DecidableEq

def width (is4 : Bool) : Nat := if is4 then 32 else 128

/-- The rate-limit bucket key: the address masked to `bits` leading bits. -/
structure Key where
  is4 : Bool
  net : Nat
deriving Repr, DecidableEq

def subnetKey (a : Addr) (v4len v6len : Nat) : Key :=
  let w := width a.is4
  let bits := if a.is4 then v4len else v6len
  { is4 := a.is4, net := a.val >>> (w - bits) }

/-- `netip.Prefix.Contains`: a prefix whose length does not fit its family is the invalid prefix
(`netip.PrefixFrom` with `bits > BitLen`), which contains nothing. -/
def Prefix.contains (p : Prefix) (a : Addr) : Bool :=
  let w := width a.is4
  decide (p.bits ≤ w) && p.is4 == a.is4 && (a.val >>> (w - p.bits)) == (p.val >>> (w - p.bits))

structure Cfg where
  count : Nat
  period : Int
  duration : Int
  est : Nat
  v4count : Nat
  v4ivl : Int
  v4len : Nat
  v6count : Nat
  v6ivl : Int
  v6len : Nat
  refuseAny : Bool
  allow : List Prefix
deriving Repr

structure Entry (α : Type) where
  val : α
  expires : Option Int

/-- A `go-cache` instance: a finite map, modelled as a function. -/
abbrev Tbl (α : Type) := Key → Option (Entry α)

def Entry.expired {α} (e : Entry α) (now : Int) : Bool :=
  match e.expires with
  | some x => decide (now > x)
  | none => false

def Tbl.get {α} (t : Tbl α) (k : Key) (now : Int) : Option α :=
  match t k with
  | some e => if e.expired now then none else some e.val
  | none => none

def Tbl.put {α} (t : Tbl α) (k : Key) (e : Entry α) : Tbl α :=
  fun k' => if k' = k then some e else t k'

@[simp] theorem Tbl.put_same {α} (t : Tbl α) (k : Key) (e : Entry α) : t.put k e k = some e := by
  simp [Tbl.put]

@[simp] theorem Tbl.put_other {α} (t : Tbl α) (k k' : Key) (e : Entry α) (h : ¬ k' = k) :
    t.put k e k' = t k' := by
  simp [Tbl.put, h]

def expiry (now d : Int) : Option Int := if d > 0 then some (now + d) else none

structure St where
  req : Tbl Counter
  hit : Tbl Nat

def St.empty : St := { req := fun _ => none, hit := fun _ => none }

inductive Verdict | drop | allowlisted | pass
deriving Repr, DecidableEq

def qtypeANY : Nat := 255

def isBackoff (c : Cfg) (s : St) (k : Key) (now : Int) : Bool :=
  match s.hit.get k now with
  | some n => decide (n ≥ c.count)
  | none => false

def incBackoff (c : Cfg) (s : St) (k : Key) (now : Int) : St :=
  match s.hit.get k now with
  | some n =>
    { s with hit := s.hit.put k { val := n + 1, expires := (s.hit k).bind (·.expires) } }
  | none => { s with hit := s.hit.put k { val := 1, expires := expiry now c.duration } }

/-- The counter object found in (or created for) bucket `k`. -/
def curCounter (s : St) (k : Key) (count : Nat) (ivl : Int) (now : Int) : Counter :=
  match s.req k with
  | some e => if e.expired now then Counter.new count ivl else e.val
  | none => Counter.new count ivl

def curExpiry (c : Cfg) (s : St) (k : Key) (now : Int) : Option Int :=
  match s.req k with
  | some e => if e.expired now then expiry now c.period else e.expires
  | none => expiry now c.period

def hasHitRateLimit (c : Cfg) (s : St) (k : Key) (count : Nat) (ivl : Int) (now : Int) :
    St × Bool :=
  let ctr := curCounter s k count ivl now
  let ab := (ctr.add now).2
  let s' := { s with req := s.req.put k { val := (ctr.add now).1, expires := curExpiry c s k now } }
  (if ab then incBackoff c s' k now else s', ab)

def allowed (c : Cfg) (a : Addr) : Bool := c.allow.any (fun p => p.contains a)

def famCount (c : Cfg) (a : Addr) : Nat := if a.is4 then c.v4count else c.v6count
def famIvl (c : Cfg) (a : Addr) : Int := if a.is4 then c.v4ivl else c.v6ivl

def isRateLimited (c : Cfg) (s : St) (now : Int) (a : Addr) (qtype : Nat) : St × Verdict :=
  if c.refuseAny && qtype == qtypeANY then (s, .drop)
  else if allowed c a then (s, .allowlisted)
  else if isBackoff c s (subnetKey a c.v4len c.v6len) now then (s, .drop)
  else
    let r := hasHitRateLimit c s (subnetKey a c.v4len c.v6len) (famCount c a) (famIvl c a) now
    (r.1, if r.2 then .drop else .pass)

/-- The times observed by the iterations of a `CountResponses` loop started at `now`: each
iteration calls `time.Now()` itself; `tick` is the (positive) clock advance per iteration. -/
def loopTimes (now : Int) (tick : Int) (n : Nat) : List Int :=
  (List.range n).map (fun (i : Nat) => now + tick * ((i : Int) + 1))

/-- `CountResponses`: ⌊len / est⌋ further events (est > 0 is C20's business), one per observed
time. -/
def countResponses (c : Cfg) (s : St) (times : List Int) (a : Addr) (qtype : Nat) : St :=
  times.foldl (fun s t => (isRateLimited c s t a qtype).1) s

def respWeight (est len : Nat) : Nat := len / est

/-! ## Layer 3: middleware (`serveWithRatelimiting`) -/

inductive PRes | pass | drop | useGlobal
deriving Repr, DecidableEq

structure ProfLim where
  subnets : List Prefix
  ctr : Counter
  est : Nat
deriving Repr

def ProfLim.check (p : ProfLim) (now : Int) (a : Addr) : ProfLim × PRes :=
  if !p.subnets.isEmpty && !(p.subnets.any (fun s => s.contains a)) then (p, .useGlobal)
  else
    let (c', ab) := p.ctr.add now
    ({ p with ctr := c' }, if ab then .drop else .pass)

def ProfLim.countResponses (p : ProfLim) (times : List Int) (a : Addr) : ProfLim :=
  times.foldl (fun p t => (p.check t a).1) p

/-- What the middleware does with one request.  `respLen = none` means the next
handler wrote nothing. -/
inductive Effect | dropped | servedNoCount | servedCounted
deriving Repr, DecidableEq

structure MwSt where
  glob : St
  prof : Option ProfLim

/-- `serveWithGlobalRatelimiting` (and the tail of the library `Middleware.ServeDNS`): the global
limiter decides; a passed request's response is weighed, an allowlisted one is not. -/
def serveGlobal (c : Cfg) (g : St) (now tick : Int) (a : Addr) (qtype : Nat)
    (respLen : Option Nat) : St × Effect :=
  match isRateLimited c g now a qtype with
  | (g', .drop) => (g', .dropped)
  | (g', .allowlisted) => (g', .servedNoCount)
  | (g', .pass) =>
    match respLen with
    | none => (g', .servedCounted)
    | some l => (countResponses c g' (loopTimes now tick (respWeight c.est l)) a qtype, .servedCounted)

def serve (c : Cfg) (protoLimited : Bool) (m : MwSt) (now tick : Int) (a : Addr) (qtype : Nat)
    (respLen : Option Nat) : MwSt × Effect :=
  if !protoLimited then (m, .servedNoCount)
  else
    let globalPath (m : MwSt) : MwSt × Effect :=
      ({ m with glob := (serveGlobal c m.glob now tick a qtype respLen).1 },
        (serveGlobal c m.glob now tick a qtype respLen).2)
    match m.prof with
    | none => globalPath m
    | some p =>
      match p.check now a with
      | (p', .drop) => ({ m with prof := some p' }, .dropped)
      | (p', .useGlobal) => globalPath { m with prof := some p' }
      | (p', .pass) =>
        match respLen with
        | none => ({ m with prof := some p' }, .servedCounted)
        | some l =>
          ({ m with prof := some (p'.countResponses (loopTimes now tick (respWeight p'.est l)) a) },
            .servedCounted)

/-- The library middleware `ratelimit.Middleware.ServeDNS` (`internal/dnsserver/ratelimit/ratelimit.go`):
protocol gate (`enabled` = protocol list empty or containing the server's protocol), a remote
address without a port is dropped as spoofed before the limiter is consulted, then the global flow. -/
def serveLib (c : Cfg) (enabled portZero : Bool) (g : St) (now tick : Int) (a : Addr) (qtype : Nat)
    (respLen : Option Nat) : St × Effect :=
  if !enabled then (g, .servedNoCount)
  else if portZero then (g, .dropped)
  else serveGlobal c g now tick a qtype respLen

/-! ## `DynamicAllowlist` -/

/-- `DynamicAllowlist`: a fixed list and a replaceable list of networks. -/
structure Allowlist where
  persistent : List Prefix
  dynamic : List Prefix
deriving Repr

/-- `IsAllowed`: persistent networks first, then the dynamic ones. -/
def Allowlist.isAllowed (l : Allowlist) (a : Addr) : Bool :=
  l.persistent.any (fun p => p.contains a) || l.dynamic.any (fun p => p.contains a)

/-- `Update` replaces the dynamic networks and nothing else. -/
def Allowlist.update (l : Allowlist) (nets : List Prefix) : Allowlist := { l with dynamic := nets }

/-- The list the limiter's `allowed` test runs over. -/
def Allowlist.flat (l : Allowlist) : List Prefix := l.persistent ++ l.dynamic

/-- A consul record is one address; `loadConsul` turns it into the network that holds exactly that
host (`r.Address.Prefix(r.Address.BitLen())`). -/
def hostPrefix (a : Addr) : Prefix := { is4 := a.is4, val := a.val, bits := width a.is4 }

/-- `consul.AllowlistUpdater.Refresh`: `none` = the HTTP request failed, the status was not 200 or the
body did not decode — the error is returned before `Update` is reached and the list stays as it was;
`some addrs` = the decoded records, which replace the dynamic networks. -/
def Allowlist.consulRefresh (l : Allowlist) (resp : Option (List Addr)) : Allowlist :=
  match resp with
  | none => l
  | some addrs => l.update (addrs.map hostPrefix)

/-! ## Zoned client addresses

The transport hands the limiter the client address as received; an IPv6 link-local client carries a
zone (`fe80::1%eth0`).  `netip.Prefix.Contains` is false for every zoned address, networks having no
zones.  Since the `fix:` commit `DynamicAllowlist.IsAllowed` and `DefaultRatelimiter.Check` remove
the zone (`WithZone("")`) before the containment tests; the bucket key never depended on it
(`Addr.Prefix` drops the zone). -/

/-- A client address as handed over: the address proper and whether it carries a zone. -/
structure ZAddr where
  addr : Addr
  zoned : Bool
deriving Repr, DecidableEq

/-- `netip.Prefix.Contains` on the address as given. -/
def Prefix.containsZ (p : Prefix) (z : ZAddr) : Bool := !z.zoned && p.contains z.addr

/-- `netip.Addr.WithZone("")`. -/
def ZAddr.strip (z : ZAddr) : ZAddr := { z with zoned := false }

/-- `DynamicAllowlist.IsAllowed` as it was: the two loops over the address as given. -/
def Allowlist.isAllowedPreFix (l : Allowlist) (z : ZAddr) : Bool :=
  l.persistent.any (fun p => p.containsZ z) || l.dynamic.any (fun p => p.containsZ z)

/-- `DynamicAllowlist.IsAllowed` as it is: the zone is removed first. -/
def Allowlist.isAllowedZ (l : Allowlist) (z : ZAddr) : Bool := l.isAllowedPreFix z.strip

/-- The subnet test of `DefaultRatelimiter.Check` as it was / as it is. -/
def ProfLim.coversPreFix (p : ProfLim) (z : ZAddr) : Bool :=
  p.subnets.isEmpty || p.subnets.any (fun s => s.containsZ z)
def ProfLim.coversZ (p : ProfLim) (z : ZAddr) : Bool := p.coversPreFix z.strip

end Agd.Ratelimit

namespace Agd.Ratelimit

/-! ## Histories -/

structure Ev where
  now : Int
  addr : Addr
  qtype : Nat
deriving Repr

def evKey (c : Cfg) (e : Ev) : Key := subnetKey e.addr c.v4len c.v6len

/-- Verdicts of a whole history. -/
def run (c : Cfg) : St → List Ev → List Verdict
  | _, [] => []
  | s, e :: r =>
    let p := isRateLimited c s e.now e.addr e.qtype
    p.2 :: run c p.1 r

/-- Final limiter state of a history. -/
def runState (c : Cfg) : St → List Ev → St
  | s, [] => s
  | s, e :: r => runState c (isRateLimited c s e.now e.addr e.qtype).1 r

/-- Verdicts, within the whole history, of the events that fall in bucket `k`. -/
def runK (c : Cfg) (k : Key) : St → List Ev → List Verdict
  | _, [] => []
  | s, e :: r =>
    let p := isRateLimited c s e.now e.addr e.qtype
    if evKey c e = k then p.2 :: runK c k p.1 r else runK c k p.1 r

/-! ## Window-log specification of the whole limiter -/

/-- Abstract per-bucket state: the stamps counted so far (most recent first) and the number of
times the bucket went over its limit. -/
abbrev Spec := Key → List Int × Nat

def Spec.empty : Spec := fun _ => ([], 0)

def famCountK (c : Cfg) (k : Key) : Nat := if k.is4 then c.v4count else c.v6count
def famIvlK (c : Cfg) (k : Key) : Int := if k.is4 then c.v4ivl else c.v6ivl

/-- One event against the specification: drop ⇔ ANY-refusal, or the bucket is in backoff, or at
least `limit` earlier counted events of the bucket lie within the closed window. -/
def specStep (c : Cfg) (sp : Spec) (e : Ev) : Spec × Verdict :=
  if c.refuseAny && e.qtype == qtypeANY then (sp, .drop)
  else if allowed c e.addr then (sp, .allowlisted)
  else if decide (0 < (sp (evKey c e)).2 ∧ c.count ≤ (sp (evKey c e)).2) then (sp, .drop)
  else
    let ab := aboveSpec (famCountK c (evKey c e)) (famIvlK c (evKey c e)) (sp (evKey c e)).1 e.now
    (fun k => if k = evKey c e then (e.now :: (sp (evKey c e)).1, (sp (evKey c e)).2 + (if ab then 1 else 0))
              else sp k,
     if ab then .drop else .pass)

def specRun (c : Cfg) : Spec → List Ev → List Verdict
  | _, [] => []
  | sp, e :: r => (specStep c sp e).2 :: specRun c (specStep c sp e).1 r

/-- Event times are positive and non-decreasing, starting from `T`. -/
def Chain : Int → List Ev → Prop
  | _, [] => True
  | T, e :: r => 0 < e.now ∧ T ≤ e.now ∧ Chain e.now r

end Agd.Ratelimit

namespace Agd.Ratelimit

/-! ## Window-log specification with epochs (cache expiry)

The real limiter keeps its per-bucket log in a cache entry that lives `Period` after its
*creation* (use does not prolong it), and its per-bucket over-limit count in an entry that lives
`Duration` after its *first hit*.  The specification below says exactly that, declaratively: a
bucket is a sliding window log that is wiped `Period` after the first event of its epoch, plus a
hit count that is wiped `Duration` after the first hit of its epoch. -/

/-- Abstract bucket: counted stamps of the current counter epoch (most recent first), creation time
of that epoch, number of over-limit hits of the current hit epoch, time of its first hit. -/
structure Bk where
  log : List Int
  born : Option Int
  hits : Nat
  hitBorn : Option Int
deriving Repr, DecidableEq

abbrev ESpec := Key → Bk

def ESpec.empty : ESpec := fun _ => ⟨[], none, 0, none⟩

/-- An epoch created at `b` with lifetime `d` is still alive at `now` (`d ≤ 0` = lives forever;
no epoch = not alive). -/
def aliveAt (b : Option Int) (d now : Int) : Bool :=
  match b with
  | none => false
  | some b => decide (d ≤ 0) || decide (now ≤ b + d)

/-- The log that counts at `now`: the stored one if its epoch is alive, else empty. -/
def Bk.curLog (b : Bk) (period now : Int) : List Int :=
  if aliveAt b.born period now then b.log else []

/-- The epoch the event at `now` falls in: the stored one if alive, else a new one born `now`. -/
def Bk.curBorn (b : Bk) (period now : Int) : Option Int :=
  if aliveAt b.born period now then b.born else some now

/-- Backoff: the hit epoch is alive and has reached `count` hits. -/
def Bk.inBackoff (b : Bk) (count : Nat) (duration now : Int) : Bool :=
  aliveAt b.hitBorn duration now && decide (count ≤ b.hits)

/-- Count one event at `now` in a bucket with limit `num` per `ivl`: window-log test against the
current epoch's log, the stamp is logged, and an over-limit event is one more hit of the alive hit
epoch or the first hit of a new one. -/
def Bk.count (b : Bk) (num : Nat) (ivl period duration now : Int) : Bk × Bool :=
  (if aboveSpec num ivl (b.curLog period now) now then
      { log := now :: b.curLog period now
        born := b.curBorn period now
        hits := if aliveAt b.hitBorn duration now then b.hits + 1 else 1
        hitBorn := if aliveAt b.hitBorn duration now then b.hitBorn else some now }
    else
      { log := now :: b.curLog period now
        born := b.curBorn period now
        hits := b.hits
        hitBorn := b.hitBorn },
   aboveSpec num ivl (b.curLog period now) now)

/-- One event against the epoch specification: drop ⇔ ANY-refusal, or the bucket is in backoff, or
at least `limit` earlier counted events of the bucket's current epoch lie within the closed window;
allowlisted clients and events dropped by ANY-refusal/backoff leave no trace. -/
def especStep (c : Cfg) (sp : ESpec) (e : Ev) : ESpec × Verdict :=
  if c.refuseAny && e.qtype == qtypeANY then (sp, .drop)
  else if allowed c e.addr then (sp, .allowlisted)
  else if (sp (evKey c e)).inBackoff c.count c.duration e.now then (sp, .drop)
  else
    (fun k => if k = evKey c e then
        ((sp (evKey c e)).count (famCountK c (evKey c e)) (famIvlK c (evKey c e)) c.period c.duration e.now).1
      else sp k,
     if ((sp (evKey c e)).count (famCountK c (evKey c e)) (famIvlK c (evKey c e)) c.period c.duration e.now).2
     then .drop else .pass)

def especRun (c : Cfg) : ESpec → List Ev → List Verdict
  | _, [] => []
  | sp, e :: r => (especStep c sp e).2 :: especRun c (especStep c sp e).1 r

end Agd.Ratelimit

namespace Agd.Ratelimit

/-! ## Quiet resets

The property as stated (an exact sliding window per subnet, with backoff) is the epoch specification
with counter resets switched off: `especRun { c with period := 0 }`.  A reset of a bucket's log is
*quiet* when every discarded stamp had already left the window — then the reset cannot be observed. -/

/-- The event at `now` wipes the bucket's log: a counter epoch exists and is no longer alive. -/
def Bk.resetsAt (b : Bk) (period now : Int) : Bool :=
  b.born.isSome && !aliveAt b.born period now

/-- The event is harmless for the exact-window claim: it does not reach the counter (ANY-refusal,
allowlisted, backoff), or it does not reset its bucket's log, or every stamp `x` of the discarded log
is already outside its window, `e.now - x > ivl`. -/
def quietStep (c : Cfg) (sp : ESpec) (e : Ev) : Bool :=
  if c.refuseAny && e.qtype == qtypeANY then true
  else if allowed c e.addr then true
  else if (sp (evKey c e)).inBackoff c.count c.duration e.now then true
  else if (sp (evKey c e)).resetsAt c.period e.now then
    (sp (evKey c e)).log.all (fun x => decide (famIvlK c (evKey c e) < e.now - x))
  else true

/-- Every reset along the history (followed on the epoch specification) is quiet. -/
def quietResets (c : Cfg) : ESpec → List Ev → Bool
  | _, [] => true
  | sp, e :: r => quietStep c sp e && quietResets c (especStep c sp e).1 r

/-- `Prop` form of `quietResets`. -/
def QuietResets (c : Cfg) (sp : ESpec) (evs : List Ev) : Prop := quietResets c sp evs = true

instance (c : Cfg) (sp : ESpec) (evs : List Ev) : Decidable (QuietResets c sp evs) :=
  inferInstanceAs (Decidable (quietResets c sp evs = true))

/-! ## Histories with a changing allowlist -/

/-- Verdicts of a history in which every event is evaluated under the allowlist current at its time
(`DynamicAllowlist.Update` between events). -/
def runA (c : Cfg) : St → List (List Prefix × Ev) → List Verdict
  | _, [] => []
  | s, (al, e) :: r =>
    (isRateLimited { c with allow := al } s e.now e.addr e.qtype).2 ::
      runA c (isRateLimited { c with allow := al } s e.now e.addr e.qtype).1 r

def especRunA (c : Cfg) : ESpec → List (List Prefix × Ev) → List Verdict
  | _, [] => []
  | sp, (al, e) :: r =>
    (especStep { c with allow := al } sp e).2 :: especRunA c (especStep { c with allow := al } sp e).1 r

end Agd.Ratelimit

namespace Agd.Ratelimit

/-! ## The profile limiter over whole histories -/

/-- Verdicts of a history of (time, client) pairs on a profile's limiter. -/
def profRun : ProfLim → List (Int × Addr) → List PRes
  | _, [] => []
  | p, (t, a) :: r => (p.check t a).2 :: profRun (p.check t a).1 r

/-- Window-log specification of the profile limiter (`rps` per second): a client outside the
configured (non-empty) subnets is handed to the global limiter and leaves no trace; any other request
is dropped iff at least `rps` earlier counted requests lie within the last second, and is logged. -/
def profSpecRun (rps : Nat) (subnets : List Prefix) : List Int → List (Int × Addr) → List PRes
  | _, [] => []
  | log, (t, a) :: r =>
    if !subnets.isEmpty && !(subnets.any (fun s => s.contains a)) then
      .useGlobal :: profSpecRun rps subnets log r
    else
      (if aboveSpec rps 1000000000 log t then .drop else .pass) :: profSpecRun rps subnets (t :: log) r

/-- Times are positive and non-decreasing, starting from `T`. -/
def TChain : Int → List (Int × Addr) → Prop
  | _, [] => True
  | T, (t, _) :: r => 0 < t ∧ T ≤ t ∧ TChain t r

/-! ## Runs with consul refreshes of the allowlist -/

/-- An operation of a run: a query event or a consul refresh of the allowlist. -/
inductive Op
  | ev (e : Ev)
  | refresh (resp : Option (List Addr))

/-- The limiter and its `DynamicAllowlist` driven by a list of operations: a refresh changes the
allowlist object only, a query is judged under the allowlist as it is at that moment. -/
def runOps (c : Cfg) : St → Allowlist → List Op → List Verdict
  | _, _, [] => []
  | s, l, .refresh resp :: r => runOps c s (l.consulRefresh resp) r
  | s, l, .ev e :: r =>
    (isRateLimited { c with allow := l.flat } s e.now e.addr e.qtype).2 ::
      runOps c (isRateLimited { c with allow := l.flat } s e.now e.addr e.qtype).1 l r

/-- Declarative reading of the same operations: each query event paired with the networks that are
allowlisted when it arrives — the persistent ones plus the hosts of the last successful refresh. -/
def annotOps : Allowlist → List Op → List (List Prefix × Ev)
  | _, [] => []
  | l, .refresh resp :: r => annotOps (l.consulRefresh resp) r
  | l, .ev e :: r => (l.flat, e) :: annotOps l r

/-- Verdicts, within a whole history with per-event allowlists, of the events in bucket `k`. -/
def runKA (c : Cfg) (k : Key) : St → List (List Prefix × Ev) → List Verdict
  | _, [] => []
  | s, (al, e) :: r =>
    if evKey c e = k then
      (isRateLimited { c with allow := al } s e.now e.addr e.qtype).2 ::
        runKA c k (isRateLimited { c with allow := al } s e.now e.addr e.qtype).1 r
    else runKA c k (isRateLimited { c with allow := al } s e.now e.addr e.qtype).1 r

end Agd.Ratelimit
