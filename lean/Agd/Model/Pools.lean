/-!
# Model of the message cloner's pools (`internal/dnsmsg`: `Cloner`, `httpsCloner`, `optCloner`,
`rrconstructor.go`) as an ownership model over a heap of storage cells.  Core Lean only.

* A **cell** is one unit of mutable storage, named by a `Nat`.  A pooled struct (`dns.A`, `dns.TXT`,
  `dns.SVCBAlpn`, …, together with the slices it owns and re-uses through `x[:0]`) occupies one cell whose
  value stands for all of its fields; a `dns.OPT` occupies two (cell 0: the TTL bits other than DO —
  extended rcode, version, Z —, cell 1: the rest); the `[16]byte` arrays of the SVCB address hints occupy
  one cell per byte, so that overlapping arrays can be expressed.
* An **object** `Obj` is an interval of cells `[start, start+cap)` of which the first `len` are in use.
* A **message** is the list of its objects in the order in which `Cloner.Clone` visits them (the message
  struct first, then every RR head followed by its values / options / address buffers).
* The **pool** is one list of kind-tagged free intervals; `sync.Pool.Get` of kind `k` takes the first
  entry of kind `k`, `Put` conses.  (Which entry of a kind is taken is irrelevant for the theorems.)
* The backing array of a slice owned by a struct (sections of a message, `OPT.Option`, `HTTPS.Value`, `TXT.Txt`,
  `A.A`, …) is an object of its own (kinds ≥ 30) with `len ≤ cap`; `grow` is Go's `append` on it.
* `kind` is the pooling class *by position*: an `*dns.A` in the answer section has the pooled kind of A
  records, the same record in the additional section has kind 0 (cloned with `dns.Copy`, never put back).
-/
namespace Agd.Pools

structure Obj where
  kind : Nat
  start : Nat
  len : Nat
  cap : Nat
deriving Repr, DecidableEq

structure Ent where
  kind : Nat
  start : Nat
  size : Nat
deriving Repr, DecidableEq

abbrev Heap := Nat → Nat

/-- kind of the `[16]byte` address buffers of `httpsCloner.ip`. -/
def kBuf : Nat := 1
/-- kind of `*dns.OPT` in the additional section. -/
def kOpt : Nat := 2
/-- an EDNS0 option the OPT cloner does not know: never pooled, forces the `dns.Copy` fall-back. -/
def kUnk : Nat := 3
/-- option kinds (cookie, EDE, subnet) are 4, 5, 6; 3 is the unknown option. -/
def isOptKind (k : Nat) : Bool := k == 3 || k == 4 || k == 5 || k == 6
def bufSize : Nat := 16

def pooled (k : Nat) : Bool := k != 0 && k != kUnk

/-- `n` cells read from `s`. -/
def readN (h : Heap) (s n : Nat) : List Nat := (List.range n).map (fun i => h (s + i))

/-- Write the values `vs` to the cells starting at `s`. -/
def writeL (h : Heap) (s : Nat) (vs : List Nat) : Heap :=
  fun c => if s ≤ c ∧ c < s + vs.length then vs.getD (c - s) 0 else h c

structure St where
  heap : Heap
  next : Nat
  pool : List Ent
  live : Nat → Option (List Obj)

def St.init : St := { heap := fun _ => 0, next := 0, pool := [], live := fun _ => none }

def setLive (l : Nat → Option (List Obj)) (h : Nat) (v : Option (List Obj)) : Nat → Option (List Obj) :=
  fun x => if x = h then v else l x

/-- Remove and return the first pool entry of kind `k`. -/
def popK (k : Nat) : List Ent → Option (Ent × List Ent)
  | [] => none
  | e :: r => if e.kind = k then some (e, r) else
      match popK k r with
      | some p => some (p.1, e :: p.2)
      | none => none

/-- What `Dispose` gives back to the pools for one object (the code after the `fix:` commit: an address
buffer is taken only if its capacity is *exactly* 16). -/
def donate (o : Obj) : Option Ent :=
  if pooled o.kind then
    if o.kind = kBuf then (if o.cap = bufSize then some ⟨kBuf, o.start, bufSize⟩ else none)
    else some ⟨o.kind, o.start, o.cap⟩
  else none

/-- The rule of the unchanged tree: `cap(ip) >= 16`. -/
def donateOld (o : Obj) : Option Ent :=
  if pooled o.kind then
    if o.kind = kBuf then (if bufSize ≤ o.cap then some ⟨kBuf, o.start, bufSize⟩ else none)
    else some ⟨o.kind, o.start, o.cap⟩
  else none

/-- Capacity of a freshly allocated object of kind `k` for `need` cells. -/
def freshCap (k need : Nat) : Nat := if k = kBuf ∧ need ≤ bufSize then bufSize else need

/-- Get storage for an object of kind `k` with `need` cells in use: from the pool when `usePool`, the
kind is pooled and an entry exists and is large enough (`append(arr[:0], …)` re-allocates otherwise and the
popped array is lost); else fresh cells.  Returns the state, the start, the capacity and whether the
storage was recycled. -/
def acquire (s : St) (usePool : Bool) (k need : Nat) : St × Nat × Nat × Bool :=
  if usePool && pooled k then
    match popK k s.pool with
    | some p =>
      if need ≤ p.1.size then ({ s with pool := p.2 }, p.1.start, p.1.size, true)
      else ({ s with pool := p.2, next := s.next + freshCap k need }, s.next, freshCap k need, false)
    | none => ({ s with next := s.next + freshCap k need }, s.next, freshCap k need, false)
  else ({ s with next := s.next + freshCap k need }, s.next, freshCap k need, false)

/-- Build an object of kind `k` holding `vals` (all cells written). -/
def mkObj (s : St) (usePool : Bool) (k : Nat) (vals : List Nat) : St × Obj × Bool :=
  let a := acquire s usePool k vals.length
  ({ a.1 with heap := writeL a.1.heap a.2.1 vals },
   { kind := k, start := a.2.1, len := vals.length, cap := a.2.2.1 }, a.2.2.2)

/-- `newOPT` of the unchanged tree: the TTL cell (cell 0) of a recycled OPT is not written. -/
def mkObjOld (s : St) (usePool : Bool) (k : Nat) (vals : List Nat) : St × Obj × Bool :=
  let a := acquire s usePool k vals.length
  let h' := if k = kOpt ∧ a.2.2.2 = true then writeL a.1.heap (a.2.1 + 1) (vals.drop 1)
            else writeL a.1.heap a.2.1 vals
  ({ a.1 with heap := h' },
   { kind := k, start := a.2.1, len := vals.length, cap := a.2.2.1 }, a.2.2.2)

def content (h : Heap) (o : Obj) : List Nat := readN h o.start o.len

def contentM (h : Heap) (m : List Obj) : List (Nat × List Nat) := m.map (fun o => (o.kind, content h o))

/-- Clone one object. -/
def cloneObj (s : St) (usePool : Bool) (o : Obj) : St × Obj × Bool :=
  mkObj s usePool o.kind (content s.heap o)

def appendLive (s : St) (d : Nat) (o : Obj) : St :=
  { s with live := setLive s.live d (some ((s.live d).getD [] ++ [o])) }

/-- Drop one pool entry of kind `k` (a `Get` whose result is thrown away). -/
def popDiscard (s : St) (k : Nat) : St :=
  if pooled k then
    match popK k s.pool with
    | some p => { s with pool := p.2 }
    | none => s
  else s

/-- Clone mode for the object `o` followed by `rest`, when the previous mode was `m`:
0 = per-object pooled clone; 1 = inside an OPT whose option list contains an unknown option, before that
option (the pool is popped, the result discarded, everything is `dns.Copy`'d); 2 = same, after it. -/
def nextMode (m : Nat) (o : Obj) (rest : List Obj) : Nat :=
  if o.kind = kOpt then
    (if (rest.takeWhile (fun x => isOptKind x.kind)).any (fun x => x.kind == kUnk) then 1 else 0)
  else if isOptKind o.kind then (if o.kind = kUnk ∧ m = 1 then 2 else m)
  else 0

/-- One step of `Clone`: clone object `o` into message `d` under mode `m`. -/
def cloneStep (s : St) (d : Nat) (m : Nat) (o : Obj) : St × Bool :=
  if m = 0 then
    let r := cloneObj s true o
    (appendLive r.1 d r.2.1, r.2.2)
  else
    let s1 := if m = 1 then popDiscard s o.kind else s
    let r := cloneObj s1 false o
    (appendLive r.1 d r.2.1, false)

/-- Clone the objects `os` into message `d`; returns the state and the recycle flags. -/
def cloneList (s : St) (d : Nat) : Nat → List Obj → St × List Bool
  | _, [] => (s, [])
  | m, o :: r =>
    let m' := nextMode m o r
    let a := cloneStep s d m' o
    let b := cloneList a.1 d m' r
    (b.1, a.2 :: b.2)

/-- `Cloner.Clone(src)` into the fresh handle `dst`. -/
def clone (s : St) (src dst : Nat) : St × List Bool :=
  match s.live src with
  | none => (s, [])
  | some m => cloneList { s with live := setLive s.live dst (some []) } dst 0 m

def disposeList (don : Obj → Option Ent) (pool : List Ent) : List Obj → List Ent
  | [] => pool
  | o :: r => disposeList don (match don o with | some e => e :: pool | none => pool) r

/-- `Cloner.Dispose(h)`. -/
def disposeWith (don : Obj → Option Ent) (s : St) (h : Nat) : St :=
  match s.live h with
  | none => s
  | some m => { s with pool := disposeList don s.pool m, live := setLive s.live h none }

def dispose (s : St) (h : Nat) : St := disposeWith donate s h

/-- Description of one object of a message that was not made by the cloner (upstream answer unpacked by
`miekg/dns`, constructor output): offset of its interval from the allocation base, capacity, values. -/
structure Spec where
  kind : Nat
  off : Nat
  cap : Nat
  vals : List Nat
deriving Repr

def specObj (base : Nat) (p : Spec) : Obj :=
  { kind := p.kind, start := base + p.off, len := p.vals.length, cap := p.cap }

def writeSpecs (h : Heap) (base : Nat) : List Spec → Heap
  | [] => h
  | p :: r => writeSpecs (writeL h (base + p.off) p.vals) base r

/-- A foreign message of total extent `span` enters as handle `d`. -/
def newMsg (s : St) (d span : Nat) (ps : List Spec) : St :=
  { s with heap := writeSpecs s.heap s.next ps, next := s.next + span,
           live := setLive s.live d (some (ps.map (specObj s.next))) }

/-- Constructor call (`newA`, `newTXT`, `newOPT`, `newEDNS0EDE`, …): one object with all fields set is
appended to message `d`. -/
def make (s : St) (d : Nat) (usePool : Bool) (k : Nat) (vals : List Nat) : St × Bool :=
  let r := mkObj s usePool k vals
  (appendLive r.1 d r.2.1, r.2.2)

/-- Mutation through message `h`: cell `j` of its object `i`. -/
def poke (s : St) (h i j v : Nat) : St :=
  match s.live h with
  | none => s
  | some m =>
    match m[i]? with
    | none => s
    | some o => if j < o.len then { s with heap := writeL s.heap (o.start + j) [v] } else s

/-- Two intervals of cells are disjoint. -/
def disj (a la b lb : Nat) : Bool := la == 0 || lb == 0 || a + la ≤ b || b + lb ≤ a

/-- Do two objects' cells in use overlap? -/
def overlapUse (a b : Obj) : Bool := !(disj a.start a.len b.start b.len)

def anyOverlapIn : List Obj → Bool
  | [] => false
  | o :: r => r.any (overlapUse o) || anyOverlapIn r

/-- Is there a pair of distinct live objects (handles `< n`) whose cells in use overlap? -/
def anyAlias (s : St) (n : Nat) : Bool :=
  anyOverlapIn (((List.range n).filterMap s.live).flatten)

/-! ### Slices with spare capacity

The backing array of a slice that a struct owns (`Msg.Answer`, `Msg.Extra`, `OPT.Option`, `HTTPS.Value`,
`TXT.Txt`, `A.A`, …) is an object of its own: `len` cells in use out of `cap`.  Whoever holds the message may
`append` to such a slice (`Msg.SetEdns0`, `ecscache.setECS`, the filters): Go writes into the spare capacity
when there is some and moves the content to a new array otherwise. -/

/-- `append(x, v)` on the slice that is object `i` of message `h`.  In place when `len < cap`; otherwise the
content moves to `max c (len+1)` fresh cells (`c` is the capacity the runtime chose) and the old array is
abandoned. -/
def grow (s : St) (h i v c : Nat) : St :=
  match s.live h with
  | none => s
  | some m =>
    match m[i]? with
    | none => s
    | some o =>
      if o.len < o.cap then
        { s with heap := writeL s.heap (o.start + o.len) [v],
                 live := setLive s.live h (some (m.set i { o with len := o.len + 1 })) }
      else
        { s with heap := writeL s.heap s.next (content s.heap o ++ [v]),
                 next := s.next + max c (o.len + 1),
                 live := setLive s.live h
                   (some (m.set i { kind := o.kind, start := s.next, len := o.len + 1, cap := max c (o.len + 1) })) }

def insertAt {α : Type} (l : List α) (pos : Nat) (x : α) : List α := l.take pos ++ x :: l.drop pos

def insertLive (s : St) (d pos : Nat) (o : Obj) : St :=
  { s with live := setLive s.live d (some (insertAt ((s.live d).getD []) pos o)) }

/-- The element that was appended to a slice of message `d` is itself an object (an RR, an EDNS0 option, an
SVCB value, an address buffer): it takes position `pos` among the objects of `d`. -/
def ins (s : St) (d pos : Nat) (usePool : Bool) (k : Nat) (vals : List Nat) : St × Bool :=
  let r := mkObj s usePool k vals
  (insertLive r.1 d pos r.2.1, r.2.2)

/-- Do the reachable cells (capacity included) of two objects overlap? -/
def overlapCap (a b : Obj) : Bool := !(disj a.start a.cap b.start b.cap)

/-- Is there a pair of objects of two different live messages (handles `< n`) whose reachable cells, spare
capacity included, overlap? -/
def anyCapAlias (s : St) (n : Nat) : Bool :=
  (List.range n).any (fun h1 => (List.range n).any (fun h2 => h1 != h2 &&
    ((s.live h1).getD []).any (fun o1 => ((s.live h2).getD []).any (fun o2 => overlapCap o1 o2))))

inductive Op where
  | new (d span : Nat) (ps : List Spec)
  | clone (src dst : Nat)
  | dispose (h : Nat)
  | make (d : Nat) (usePool : Bool) (k : Nat) (vals : List Nat)
  | poke (h i j v : Nat)
  | grow (h i v c : Nat)
  | ins (d pos : Nat) (usePool : Bool) (k : Nat) (vals : List Nat)

def step (s : St) : Op → St
  | .new d span ps => newMsg s d span ps
  | .clone a b => (clone s a b).1
  | .dispose h => dispose s h
  | .make d u k vs => (make s d u k vs).1
  | .poke h i j v => poke s h i j v
  | .grow h i v c => grow s h i v c
  | .ins d pos u k vs => (ins s d pos u k vs).1

def run (s : St) (ops : List Op) : St := ops.foldl step s

/-- The `dns.Copy` fall-back of the unchanged tree: the copy of a subnet option (kind 6) keeps the storage
of the original's address, i.e. the clone's object *is* the original's object. -/
def cloneStepOld (s : St) (d : Nat) (m : Nat) (o : Obj) : St × Bool :=
  if m ≠ 0 ∧ o.kind = 6 then (appendLive s d o, false) else cloneStep s d m o

def cloneListOld (s : St) (d : Nat) : Nat → List Obj → St × List Bool
  | _, [] => (s, [])
  | m, o :: r =>
    let m' := nextMode m o r
    let a := cloneStepOld s d m' o
    let b := cloneListOld a.1 d m' r
    (b.1, a.2 :: b.2)

def cloneOld (s : St) (src dst : Nat) : St × List Bool :=
  match s.live src with
  | none => (s, [])
  | some m => cloneListOld { s with live := setLive s.live dst (some []) } dst 0 m

end Agd.Pools
