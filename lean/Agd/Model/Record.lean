/-!
# Model of query logging: `mainmw.recordQueryInfo`, `querylog.FileSystem.Write`, `encoding/json` strings

Core Lean only.  Go strings are lists of bytes (`Nat`, < 256 when they come from the driver; the
theorems hold for every `Nat`).

* `esc` — `encoding/json.appendString` with `escapeHTML = true` on the bytes of a Go string,
  including the UTF-8 validation (`�` for every invalid byte) and U+2028/U+2029.
* `encodeLine` — `json.Encoder.Encode(jsonlEntry)`: struct order, `omitempty`, trailing `\n`.
* `serve` — the request path from the rate-limit/access middleware down to `recordQueryInfo`, as a
  function from what the environment decides (device result, access, limiter, filter results,
  responses, failures) to the effects (response, rule statistics, billing record, log entry).
* `FS` — the log file under concurrent writers: pooled buffers, encode into the private buffer,
  one atomic append, put back; a schedule is a list of (writer, pool choice) steps.
-/
namespace Agd.Record

abbrev Str := List Nat

/-! ## JSON string escaping -/

def hexDigit (n : Nat) : Nat := if n < 10 then 48 + n else 87 + n

/-- The replacement text for one invalid byte: `�`. -/
def badSeq : Str := [92, 117, 102, 102, 102, 100]

/-- ` ` / ` `; `last` is 56 or 57. -/
def lineSep (last : Nat) : Str := [92, 117, 50, 48, 50, last]

/-- One ASCII byte (`b < 0x80`): `htmlSafeSet` bytes are copied, the others escaped. -/
def escAscii (b : Nat) : Str :=
  if b = 34 ∨ b = 92 then [92, b]
  else if b = 8 then [92, 98]
  else if b = 12 then [92, 102]
  else if b = 10 then [92, 110]
  else if b = 13 then [92, 114]
  else if b = 9 then [92, 116]
  else if b < 32 ∨ b = 60 ∨ b = 62 ∨ b = 38 then [92, 117, 48, 48, hexDigit (b / 16), hexDigit (b % 16)]
  else [b]

def cont (b : Nat) : Bool := 128 ≤ b && b ≤ 191

/-- Two-byte sequence accepted by `utf8.DecodeRune`. -/
def ok2 (b0 b1 : Nat) : Bool := 194 ≤ b0 && b0 ≤ 223 && cont b1

/-- Three-byte sequence (no surrogates, no overlong forms). -/
def ok3 (b0 b1 b2 : Nat) : Bool :=
  224 ≤ b0 && b0 ≤ 239 && (if b0 = 224 then 160 else 128) ≤ b1 && b1 ≤ (if b0 = 237 then 159 else 191)
    && cont b2

/-- Four-byte sequence (≤ U+10FFFF, no overlong forms). -/
def ok4 (b0 b1 b2 b3 : Nat) : Bool :=
  240 ≤ b0 && b0 ≤ 244 && (if b0 = 240 then 144 else 128) ≤ b1 && b1 ≤ (if b0 = 244 then 143 else 191)
    && cont b2 && cont b3

/-- The body of a JSON string (without the surrounding quotes) for the Go string `s`. -/
def esc : Str → Str
  | [] => []
  | b0 :: r =>
    if b0 < 128 then escAscii b0 ++ esc r
    else match r with
      | [] => badSeq
      | b1 :: r1 =>
        if ok2 b0 b1 then b0 :: b1 :: esc r1
        else match r1 with
          | [] => badSeq ++ esc [b1]
          | b2 :: r2 =>
            if ok3 b0 b1 b2 then
              (if b0 = 226 ∧ b1 = 128 ∧ (b2 = 168 ∨ b2 = 169) then lineSep (if b2 = 168 then 56 else 57) ++ esc r2
               else b0 :: b1 :: b2 :: esc r2)
            else match r2 with
              | [] => badSeq ++ esc [b1, b2]
              | b3 :: r3 =>
                if ok4 b0 b1 b2 b3 then b0 :: b1 :: b2 :: b3 :: esc r3
                else badSeq ++ esc (b1 :: b2 :: b3 :: r3)
termination_by s => s.length

/-! ## Numbers -/

def natDigitsAux : Nat → Nat → Str → Str
  | 0, _, acc => acc
  | f + 1, n, acc =>
    if n / 10 = 0 then (48 + n % 10) :: acc else natDigitsAux f (n / 10) ((48 + n % 10) :: acc)

/-- Decimal digits of `n` (`strconv.AppendUint`). -/
def natDigits (n : Nat) : Str := natDigitsAux (n + 1) n []

def intDigits (i : Int) : Str := if i < 0 then 45 :: natDigits i.natAbs else natDigits i.natAbs

/-! ## Flat JSON objects -/

inductive Val where
  | str (s : Str)
  | num (i : Int)
deriving Repr, DecidableEq

structure Field where
  key : Str
  val : Val
deriving Repr, DecidableEq

def renderVal : Val → Str
  | .str s => 34 :: (esc s ++ [34])
  | .num i => intDigits i

def renderField (f : Field) : Str := 34 :: (f.key ++ 34 :: 58 :: renderVal f.val)

def renderFields : List Field → Str
  | [] => []
  | [f] => renderField f
  | f :: g :: r => renderField f ++ 44 :: renderFields (g :: r)

def renderObj (fs : List Field) : Str := 123 :: (renderFields fs ++ [125])

/-! ## Filtering results and the documented result codes -/

inductive ResKind where
  | none | allowed | blocked | modResp | modReq
deriving Repr, DecidableEq

/-- A `filter.Result`: its dynamic type and `MatchedRule()`.  For `none` the texts are ignored. -/
structure FRes where
  kind : ResKind
  list : Str
  rule : Str
deriving Repr, DecidableEq

def FRes.nil : FRes := ⟨.none, [], []⟩

/-- `querylog.toResultCode`. -/
def toResultCode (k : ResKind) (resp : Bool) : Nat :=
  match k with
  | .none => 1
  | .allowed => if resp then 5 else 4
  | .blocked => if resp then 3 else 2
  | .modResp => 6
  | .modReq => 6

/-- `querylog.resultData`: code, list ID, rule text. -/
def resultData (req resp : FRes) : Nat × Str × Str :=
  if req.kind = .none then
    (toResultCode resp.kind true, if resp.kind = .none then ([], []) else (resp.list, resp.rule))
  else (toResultCode req.kind false, req.list, req.rule)

/-! ## `querylog.Entry` and its line -/

structure Entry where
  /-- textual form of `RemoteIP`; `none` is the zero `netip.Addr`. -/
  ip : Option Str
  reqRes : FRes
  respRes : FRes
  timeMs : Int
  reqId : Str
  prof : Str
  dev : Str
  cc : Str
  rc : Str
  name : Str
  /-- `Elapsed.Milliseconds()` -/
  elapsedMs : Int
  asn : Nat
  qtype : Nat
  rcode : Nat
  proto : Nat
  dnssec : Bool
deriving Repr, DecidableEq

/-- `FileSystem.convertElapsed`. -/
def convertElapsed (ms : Int) : Nat := if ms < 0 then 0 else if ms > 4294967295 then 4294967295 else ms.toNat

def optStr (k : Str) (s : Str) : List Field := if s = [] then [] else [⟨k, .str s⟩]
def optNum (k : Str) (n : Nat) : List Field := if n = 0 then [] else [⟨k, .num n⟩]

/-- The fields of `jsonlEntry` in struct order with `omitempty` applied; `rn` is the random number. -/
def fieldsOf (e : Entry) (rn : Nat) : List Field :=
  (match e.ip with | none => [] | some a => [⟨[105, 112], .str a⟩]) ++
  [⟨[117], .str e.reqId⟩, ⟨[98], .str e.prof⟩, ⟨[105], .str e.dev⟩] ++
  optStr [99] e.cc ++ optStr [100] e.rc ++
  [⟨[110], .str e.name⟩] ++
  optStr [108] (resultData e.reqRes e.respRes).2.1 ++
  optStr [109] (resultData e.reqRes e.respRes).2.2 ++
  [⟨[116], .num e.timeMs⟩] ++
  optNum [97] e.asn ++
  [⟨[101], .num (convertElapsed e.elapsedMs)⟩, ⟨[113], .num e.qtype⟩, ⟨[114], .num e.rcode⟩,
   ⟨[114, 110], .num rn⟩, ⟨[102], .num (resultData e.reqRes e.respRes).1⟩,
   ⟨[115], .num (if e.dnssec then 1 else 0)⟩, ⟨[112], .num e.proto⟩]

/-- `json.NewEncoder(buf).Encode(ent)`: the object and one line feed. -/
def encodeLine (e : Entry) (rn : Nat) : Str := renderObj (fieldsOf e rn) ++ [10]

/-! ## An independent reader of log lines

`lexLine` is a specification of what a consumer of the JSONL file sees: a strict tokenizer for one
flat JSON object of string and integer members on one line.  It knows nothing about `esc` or
`renderObj`: strings end at the first quote that is not part of an escape, escapes must be
`\" \\ \/ \b \f \n \r \t` or `\u` with four hex digits, raw control bytes are rejected. -/

inductive Tok where
  /-- the raw (still escaped) body of a string -/
  | str (body : Str)
  /-- the text of an integer -/
  | num (text : Str)
deriving Repr, DecidableEq

def isHex (c : Nat) : Bool := (48 ≤ c && c ≤ 57) || (97 ≤ c && c ≤ 102) || (65 ≤ c && c ≤ 70)

def isSimpleEscape (c : Nat) : Bool :=
  c = 34 || c = 92 || c = 47 || c = 98 || c = 102 || c = 110 || c = 114 || c = 116

def consFst (c : Nat) (p : Str × Str) : Str × Str := (c :: p.1, p.2)

/-- Scan a string body up to its closing quote; the state is 0 (plain), 1 (after a backslash) or
`k + 1` (`k` hex digits of a `\u` escape still to come).  Returns the body and what follows the quote. -/
def scanStr : Nat → Str → Option (Str × Str)
  | _, [] => none
  | 0, c :: r =>
    if c = 34 then some ([], r)
    else if c < 32 then none
    else (scanStr (if c = 92 then 1 else 0) r).map (consFst c)
  | 1, c :: r =>
    if c = 117 then (scanStr 5 r).map (consFst c)
    else if isSimpleEscape c then (scanStr 0 r).map (consFst c)
    else none
  | n + 2, c :: r =>
    if isHex c then (scanStr (if n = 0 then 0 else n + 1) r).map (consFst c) else none

/-- The longest prefix of sign and digit characters. -/
def scanNum : Str → Str × Str
  | [] => ([], [])
  | c :: r => if c = 45 ∨ (48 ≤ c ∧ c ≤ 57) then consFst c (scanNum r) else ([], c :: r)

/-- One member `"key":value`. -/
def lexField (s : Str) : Option ((Str × Tok) × Str) :=
  match s with
  | [] => none
  | q :: r =>
    if q ≠ 34 then none
    else match scanStr 0 r with
      | none => none
      | some (k, r1) =>
        match r1 with
        | [] => none
        | colon :: r2 =>
          if colon ≠ 58 then none
          else match r2 with
            | [] => none
            | v :: r3 =>
              if v = 34 then
                (match scanStr 0 r3 with
                 | none => none
                 | some (body, r4) => some ((k, .str body), r4))
              else
                (if (scanNum r2).1 = [] then none else some ((k, .num (scanNum r2).1), (scanNum r2).2))

/-- Members separated by commas up to the closing brace (`fuel` bounds the number of members). -/
def lexFields : Nat → Str → Option (List (Str × Tok) × Str)
  | 0, _ => none
  | fuel + 1, s =>
    match lexField s with
    | none => none
    | some (fld, rest) =>
      match rest with
      | [] => none
      | c :: r =>
        if c = 125 then some ([fld], r)
        else if c = 44 then (lexFields fuel r).map (fun p => (fld :: p.1, p.2))
        else none

/-- A log line: `{`, members, `}`, one line feed, nothing else. -/
def lexLine (s : Str) : Option (List (Str × Tok)) :=
  match s with
  | [] => none
  | c :: r =>
    if c ≠ 123 then none
    else match lexFields r.length r with
      | some (fs, [10]) => some fs
      | _ => none

/-! ## The request path down to `recordQueryInfo` -/

structure Prof where
  id : Str
  qlog : Bool
  iplog : Bool
deriving Repr, DecidableEq

/-- `agd.DeviceResult` as seen by `RequestInfo.DeviceData`. -/
inductive DevRes where
  | anon
  | ok (p : Prof) (dev : Str)
  | authFail
  | unknownDedicated
  | error
deriving Repr, DecidableEq

def DevRes.data : DevRes → Option (Prof × Str)
  | .ok p d => some (p, d)
  | _ => none

/-- What the profile database answers for the identification data of the request. -/
inductive Lookup where
  | notFound
  /-- a profile and device; `deleted`: `Profile.Deleted`; `authOK`: the device's authentication
  settings accept this request (`devicefinder.authenticate`) -/
  | found (p : Prof) (dev : Str) (deleted : Bool) (authOK : Bool)
  | err
  | unknownDedicated
deriving Repr, DecidableEq

/-- `devicefinder.Default.Find`: protocols without a way to carry a device ID (DNSCrypt) are never
attributed; a deleted profile counts as not found; a found device that fails authentication yields
`DeviceResultAuthenticationFailure`. -/
def findDevice (supportsID : Bool) (l : Lookup) : DevRes :=
  if ¬ supportsID then .anon
  else match l with
    | .notFound => .anon
    | .found p d deleted authOK => if deleted then .anon else if authOK then .ok p d else .authFail
    | .err => .error
    | .unknownDedicated => .unknownDedicated

/-- `ratelimitmw.supportsDeviceID`: DoH 3, DoQ 4, DoT 5, plain DNS 8 (not DNSCrypt 9). -/
def supportsDeviceID (proto : Nat) : Bool := proto = 3 || proto = 4 || proto = 5 || proto = 8

/-- What `responseData` extracts from a response. -/
inductive IPKind where
  | none | unspec | addr
deriving Repr, DecidableEq

structure RespData where
  rcode : Nat
  ad : Bool
  ip : IPKind
deriving Repr, DecidableEq

/-! ### `ipFromAnswer`, `ipFromHTTPSRR`, `ipFromHTTPSRRKV`

The answer section as these functions see it: the dynamic type of each record and the `net.IP`
values of address records and HTTPS hints. -/

/-- A `net.IP` value: `nil`, a slice of a length no address has (or, for an A record, a 16-byte
value that is not an IPv4-mapped one: `netutil.IPToAddr` fails), the unspecified address, another one. -/
inductive IPVal where
  | nil | bad | unspec | addr
deriving Repr, DecidableEq

/-- A parameter of an HTTPS record. -/
inductive KV where
  | hint4 (hs : List IPVal)
  | hint6 (hs : List IPVal)
  | other
deriving Repr, DecidableEq

inductive RR where
  | a (ip : IPVal)
  | aaaa (ip : IPVal)
  | https (kvs : List KV)
  /-- any other record type (CNAME, TXT, ...) -/
  | other
deriving Repr, DecidableEq

/-- `netIP == nil` → zero address; `netutil.IPToAddr` error → zero address (the error is collected). -/
def ipOfVal : IPVal → IPKind
  | .nil => .none
  | .bad => .none
  | .unspec => .unspec
  | .addr => .addr

/-- `ipFromHTTPSRR`: the first parameter for which `ipFromHTTPSRRKV` reports a family — a hint with
at least one address — decides, by its first address. -/
def ipFromKVs : List KV → IPKind
  | [] => .none
  | .hint4 (h :: _) :: _ => ipOfVal h
  | .hint6 (h :: _) :: _ => ipOfVal h
  | _ :: r => ipFromKVs r

/-- `ipFromAnswer`: records of other types are skipped; the first A, AAAA or HTTPS record decides. -/
def ipFromAnswer : List RR → IPKind
  | [] => .none
  | .a ip :: _ => ipOfVal ip
  | .aaaa ip :: _ => ipOfVal ip
  | .https kvs :: _ => ipFromKVs kvs
  | .other :: r => ipFromAnswer r

/-- `responseData` of a message with the given RCODE, AD flag and answer section. -/
def RespData.ofMsg (rcode : Nat) (ad : Bool) (ans : List RR) : RespData := ⟨rcode, ad, ipFromAnswer ans⟩

structure Req where
  -- rate-limit / access middleware
  port0 : Bool
  dev : DevRes
  globBlockIP : Bool
  globBlockHost : Bool
  profBlock : Bool
  /-- the malformed-ECS error of `ratelimitmw.location`: answered FORMERR after the access checks and the limiter -/
  badECS : Bool
  /-- the global limiter's verdict -/
  rlDrop : Bool
  /-- the profile's own limiter: 0 use the global one, 1 pass, 2 drop -/
  profRl : Nat
  /-- a malformed `resolver.arpa` query, answered NODATA by the initial middleware; never reaches
  the main middleware -/
  special : Bool
  -- main middleware
  debug : Bool
  /-- the request had the AD or the DO bit (the initial middleware clears AD in the response otherwise) -/
  adWanted : Bool
  ctxErr : Bool
  upErr : Bool
  /-- the client's response writer fails -/
  writeErr : Bool
  reqRes : FRes
  respRes : FRes
  /-- `NewBlockedResp` failed -/
  blockErr : Bool
  -- the request
  name : Str
  qtype : Nat
  proto : Nat
  remoteIP : Str
  reqId : Str
  startMs : Int
  elapsedMs : Int
  loc : Option (Str × Nat)
  -- responses
  orig : RespData
  blockedResp : RespData
  modResp : RespData
  /-- country GeoIP returns for the response address that is looked up -/
  geoCtry : Str
deriving Repr, DecidableEq

structure Bill where
  dev : Str
  ctry : Str
  asn : Nat
  startMs : Int
  proto : Nat
deriving Repr, DecidableEq

structure Effects where
  /-- the response handed to the client's writer (`none`: nothing written) -/
  resp : Option RespData := none
  ruleStat : Option (Str × Str) := none
  bill : Option Bill := none
  log : Option Entry := none
deriving Repr, DecidableEq

/-- `mainmw.resultData` / `filteringData`: list, rule, "blocked". -/
def filteringData (req resp : FRes) : Str × Str × Bool :=
  let r := if req.kind ≠ .none then req else resp
  match r.kind with
  | .none => ([], [], false)
  | .allowed => (r.list, r.rule, false)
  | _ => (r.list, r.rule, true)

/-- `blockedRespFallback`: SERVFAIL without data when the blocked response cannot be built. -/
def servfail : RespData := ⟨2, false, .none⟩

/-- `setFilteredResponse` / `setFilteredResponseNoReq`. -/
def filteredResp (q : Req) : RespData :=
  match q.reqRes.kind with
  | .none =>
    (match q.respRes.kind with
     | .blocked => if q.blockErr then servfail else q.blockedResp
     | _ => q.orig)
  | .blocked => if q.blockErr then servfail else q.blockedResp
  | .allowed => q.orig
  | .modReq => q.orig
  | .modResp => q.modResp

/-- "QN": `geoip.CountryNotApplicable`. -/
def ctryNA : Str := [81, 78]

/-- `filterResponse`: the response is not filtered after a CNAME rewrite of the request. -/
def respResOf (q : Req) : FRes := if q.reqRes.kind = .modReq then FRes.nil else q.respRes

/-- `dnsmsg.RCode(resp.Rcode)` in `responseData`: the conversion of `Msg.Rcode` (an `int`) to `uint16`.
A message that can be packed has a 12-bit RCODE (4 header bits and 8 bits in the OPT record), for which
this is the identity (`rcode16_wire`). -/
def rcode16 (rc : Nat) : Nat := rc % 65536

/-- `recordQueryInfo`. -/
def record (q : Req) : Effects :=
  let fd := filteringData q.reqRes (respResOf q)
  let fr := filteredResp q
  let base : Effects := { resp := some fr, ruleStat := some (fd.1, fd.2.1) }
  match q.dev.data with
  | none => base
  | some (p, d) =>
    let ctry := match q.loc with | none => [] | some l => l.1
    let asn := match q.loc with | none => 0 | some l => l.2
    let billed : Effects := { base with bill := some ⟨d, ctry, asn, q.startMs, q.proto⟩ }
    if ¬ p.qlog then billed
    else
      let respIP := if fd.2.2 then q.orig.ip else fr.ip
      let rc := if rcode16 fr.rcode ≠ 0 ∨ respIP ≠ .addr then ctryNA else q.geoCtry
      let e : Entry :=
        { ip := if p.iplog then some q.remoteIP else none,
          reqRes := q.reqRes, respRes := respResOf q, timeMs := q.startMs, reqId := q.reqId,
          prof := p.id, dev := d, cc := ctry, rc := rc, name := q.name, elapsedMs := q.elapsedMs,
          asn := asn, qtype := q.qtype, rcode := rcode16 fr.rcode, proto := q.proto, dnssec := fr.ad }
      { billed with log := some e }

/-- The main middleware's `Wrap`; `wfail`: its own response writer fails. -/
def mainmw (q : Req) (wfail : Bool) : Effects :=
  if q.ctxErr ∨ q.upErr then {}
  else if q.debug then { resp := if wfail then none else some (filteredResp q) }
  else if wfail then {}
  else record q

/-- The initial middleware around the main one: the main middleware writes into a recorder (its own
write cannot fail), then the AD bit is restored and the response goes to the client's writer. -/
def initialmw (q : Req) : Effects :=
  let e := mainmw q false
  { e with resp := if q.writeErr then none
                   else match e.resp with
                     | none => none
                     | some r => some { r with ad := r.ad && q.adWanted } }

/-- `serveWithRatelimiting`: only plain DNS (protocol 8) is rate limited; a profile's own limiter
decides alone unless it defers to the global one; unattributed queries use the global one. -/
def rlDropEff (q : Req) : Bool :=
  q.proto = 8 &&
    (match q.dev.data with
     | some _ => q.profRl = 2 || (q.profRl = 0 && q.rlDrop)
     | none => q.rlDrop)

/-- The whole path: spoofed port, device result, access, limiter, malformed ECS (since the C09 repair the
FORMERR is a rate-limited response like any other), special domains, main. -/
def serve (q : Req) : Effects :=
  if q.port0 then {}
  else match q.dev with
    | .unknownDedicated => {}
    | .error => {}
    | _ =>
      if q.globBlockIP ∨ q.globBlockHost ∨ (q.dev.data.isSome ∧ q.profBlock) then {}
      else if rlDropEff q then {}
      else if q.badECS then { resp := if q.writeErr then none else some ⟨1, false, .none⟩ }
      else if q.special then { resp := if q.writeErr then none else some ⟨0, false, .none⟩ }
      else initialmw q

/-! ## Where the profile's switches come from

The `Prof` that `recordQueryInfo` reads is not written by hand in production: the backend's
`DNSProfile` message is converted by `backendpb.DNSProfile.toInternal`, a full synchronisation writes
the profile to the cache file (`filecachepb.profilesToProtobuf`), and after a restart the profile is
the one read back from that file (`filecachepb.Profile.toInternal`).  The three converters are modelled
on the fields this property is about; each is a field-by-field copy in the code (Tie/TrC15:
`fcProfileToInternal_switches`, `bpProfileToInternal_switches`; Tie/C15: `cache_profile_literal`). -/

/-- The backend's `DNSProfile` message: `dns_id`, `query_log_enabled`, `ip_log_enabled`, `deleted`. -/
structure WireProf where
  id : Str
  qlog : Bool
  iplog : Bool
  deleted : Bool
deriving Repr, DecidableEq

/-- `agd.Profile` as far as the request path reads it: the profile and `Profile.Deleted`. -/
structure DBProf where
  prof : Prof
  deleted : Bool
deriving Repr, DecidableEq

/-- `filecachepb.Profile`: `profile_id`, `query_log_enabled`, `ip_log_enabled`, `deleted`. -/
structure CacheProf where
  id : Str
  qlog : Bool
  iplog : Bool
  deleted : Bool
deriving Repr, DecidableEq

/-- `backendpb.DNSProfile.toInternal`. -/
def profOfBackend (w : WireProf) : DBProf := ⟨⟨w.id, w.qlog, w.iplog⟩, w.deleted⟩

/-- `filecachepb.profilesToProtobuf`. -/
def cacheOfProf (p : DBProf) : CacheProf := ⟨p.prof.id, p.prof.qlog, p.prof.iplog, p.deleted⟩

/-- `filecachepb.Profile.toInternal`. -/
def profOfCache (c : CacheProf) : DBProf := ⟨⟨c.id, c.qlog, c.iplog⟩, c.deleted⟩

/-- Where the profile database has the profile from: a synchronisation with the backend, or the cache
file written by an earlier full synchronisation. -/
inductive Source where
  | backend
  | cacheFile
deriving Repr, DecidableEq

/-- The profile the database holds for the backend's message `w`. -/
def profFrom : Source → WireProf → DBProf
  | .backend, w => profOfBackend w
  | .cacheFile, w => profOfCache (cacheOfProf (profOfBackend w))

/-- The database's answer for a device `dev` of the profile of message `w`. -/
def lookupFrom (src : Source) (w : WireProf) (dev : Str) (authOK : Bool) : Lookup :=
  .found (profFrom src w).prof dev (profFrom src w).deleted authOK

/-! ## Production wiring (round 4)

What `internal/cmd` makes of the configuration file for this property: `builder.queryLog` (a file log
only if `query_log.file.enabled`, otherwise `querylog.Empty`), `serverGroups.toInternal`
(`profiles_enabled`, the device domains = `tls.device_id_wildcards` without `*.`, per server
`linked_ip_enabled` and the protocol), `dnssvc.newDeviceFinder` (a group without profiles gets
`agd.EmptyDeviceFinder`, whatever the shared profile database holds) and the part of
`devicefinder.Default` that chooses the database key (a device ID from the TLS server name only under
one of *this group's* device domains; the linked address only on a plain-DNS server with
`linked_ip_enabled`).  One main middleware, hence one `recordQueryInfo`, serves all groups. -/

/-- `serverProto.toInternal` (the YAML protocol names → `agd.Protocol`, the `p` of doc/querylog.md):
0 `dns`, 1 `dnscrypt`, 2 `https`, 3 `quic`, 4 `tls`. -/
def protoOfYAML (k : Nat) : Nat :=
  match k with
  | 0 => 8 | 1 => 9 | 2 => 3 | 3 => 4 | 4 => 5 | _ => 0

structure WServer where
  proto : Nat
  linkedIP : Bool
deriving Repr, DecidableEq

structure WGroup where
  profilesEnabled : Bool
  domains : List Str
deriving Repr, DecidableEq

/-- How a request identifies itself and what the (shared) profile database would answer. -/
structure Ident where
  /-- the TLS server name split at its first dot: (first label, parent domain) -/
  sni : Option (Str × Str) := none
  /-- the database's answer for the device ID in that label -/
  byID : Lookup := .notFound
  /-- the database's answer for the remote address as a linked address -/
  byLinked : Lookup := .notFound
deriving Repr, DecidableEq

/-- The device ID the finder of group `g`, server `sv` extracts (`deviceDataFromCliSrvName`). -/
def wiredDevID (g : WGroup) (sv : WServer) (id : Ident) : Option Str :=
  match id.sni with
  | some (lab, dom) =>
    if (sv.proto = 3 ∨ sv.proto = 4 ∨ sv.proto = 5) ∧ dom ∈ g.domains then some lab else none
  | none => none

/-- `newDeviceFinder` + `Default.Find` + `deviceFromDB`: `none` is the empty device finder. -/
def wiredLookup (g : WGroup) (sv : WServer) (id : Ident) : Option Lookup :=
  if ¬ g.profilesEnabled then none
  else match wiredDevID g sv id with
    | some _ => some id.byID
    | none => if sv.proto = 8 ∧ sv.linkedIP then some id.byLinked else some .notFound

def wiredDev (g : WGroup) (sv : WServer) (id : Ident) : DevRes :=
  match wiredLookup g sv id with
  | none => .anon
  | some l => findDevice (supportsDeviceID sv.proto) l

/-- The request as the handler of (`g`, `sv`) sees it. -/
def wiredReq (g : WGroup) (sv : WServer) (id : Ident) (q : Req) : Req :=
  { q with dev := wiredDev g sv id, proto := sv.proto }

def wiredServe (g : WGroup) (sv : WServer) (id : Ident) (q : Req) : Effects :=
  serve (wiredReq g sv id q)

/-- What the request adds to the file at `QUERYLOG_PATH`: `querylog.Empty` writes nothing. -/
def wiredFile (fileEnabled : Bool) (g : WGroup) (sv : WServer) (id : Ident) (q : Req) (rn : Nat) : Str :=
  if fileEnabled then
    match (wiredServe g sv id q).log with
    | some e => encodeLine e rn
    | none => []
  else []

/-! ## The log file under concurrent writers -/

/-- A pooled `entryBuffer`: the `jsonlEntry` (as the entry and its random number) and the bytes. -/
structure Buf where
  ent : Option (Entry × Nat) := none
  bytes : Str := []
deriving Repr, DecidableEq

def Buf.empty : Buf := {}

/-- The calls of `FileSystem.Write`: writer `i` logs entry `(J i).1` with random number `(J i).2`. -/
abbrev Jobs := Nat → Option (Entry × Nat)

def put {α : Type} (f : Nat → α) (k : Nat) (v : α) : Nat → α := fun x => if x = k then v else f x

/-- `pc i`: 0 not started, 1 has a reset buffer, 2 entry stored, 3 file opened and entry encoded,
4 appended, 5 buffer returned; 6 opening the file failed (buffer still held), 7 buffer returned after
the failure; 8 the write after a successful open failed with nothing written (the buffer still holds
the encoded record), 9 that dirty buffer returned to the pool.  `hold i` is the pooled buffer writer `i` got. -/
structure FS where
  file : Str := []
  nbufs : Nat := 0
  bufs : Nat → Buf := fun _ => Buf.empty
  free : List Nat := []
  pc : Nat → Nat := fun _ => 0
  hold : Nat → Nat := fun _ => 0
  /-- ghost: the writers in the order of their append -/
  order : List Nat := []

/-- `sync.Pool.Get` hands out the pooled buffer `k`; `buf.Reset()`. -/
def FS.reuse (s : FS) (i k : Nat) : FS :=
  { s with free := s.free.erase k, bufs := put s.bufs k { s.bufs k with bytes := [] },
           pc := put s.pc i 1, hold := put s.hold i k }

/-- `sync.Pool.Get` allocates a new buffer. -/
def FS.alloc (s : FS) (i : Nat) : FS :=
  { s with nbufs := s.nbufs + 1, bufs := put s.bufs s.nbufs Buf.empty,
           pc := put s.pc i 1, hold := put s.hold i s.nbufs }

def lineOf (J : Jobs) (i : Nat) : Str :=
  match J i with
  | some job => encodeLine job.1 job.2
  | none => []

/-- One step of writer `i`.  `choice` is what the environment does: at the first step what
`sync.Pool.Get` does (`some k` with `k` pooled hands out buffer `k`; anything else allocates a new
one), at the step from 2 whether `os.OpenFile` fails (`some _`) or not (`none`), at the step from 3
whether the `write(2)` fails (`some _`) or not (`none`). -/
def FS.step (J : Jobs) (s : FS) (i : Nat) (choice : Option Nat) : FS :=
  match J i with
  | none => s
  | some job =>
    match s.pc i with
    | 0 =>
      (match choice with
       | some k => if k ∈ s.free then s.reuse i k else s.alloc i
       | none => s.alloc i)
    | 1 =>
      { s with bufs := put s.bufs (s.hold i) { s.bufs (s.hold i) with ent := some job },
               pc := put s.pc i 2 }
    | 2 =>
      match choice with
      | some _ =>
        -- `os.OpenFile` fails (the directory is being rotated, no descriptors left, ...): `Write`
        -- returns the error; only the deferred `Put` is left to do
        { s with pc := put s.pc i 6 }
      | none =>
      { s with bufs := put s.bufs (s.hold i)
                 { s.bufs (s.hold i) with
                   bytes := (s.bufs (s.hold i)).bytes ++
                     (match (s.bufs (s.hold i)).ent with
                      | some en => encodeLine en.1 en.2
                      | none => []) },
               pc := put s.pc i 3 }
    | 3 =>
      match choice with
      | some _ =>
        -- `write(2)` fails with nothing written (no space left, `/dev/full`): `bytes.Buffer.WriteTo`
        -- keeps the unwritten record in the pooled buffer; `Write` returns the error
        { s with pc := put s.pc i 8 }
      | none =>
      { s with file := s.file ++ (s.bufs (s.hold i)).bytes,
               bufs := put s.bufs (s.hold i) { s.bufs (s.hold i) with bytes := [] },
               order := s.order ++ [i],
               pc := put s.pc i 4 }
    | 4 => { s with free := s.hold i :: s.free, pc := put s.pc i 5 }
    | 6 => { s with free := s.hold i :: s.free, pc := put s.pc i 7 }
    | 8 => { s with free := s.hold i :: s.free, pc := put s.pc i 9 }
    | _ => s

def FS.run (J : Jobs) (s : FS) : List (Nat × Option Nat) → FS
  | [] => s
  | op :: r => FS.run J (s.step J op.1 op.2) r

/-- Split a byte string at line feeds (a trailing unterminated piece is returned last). -/
def splitLines : Str → List Str
  | [] => [[]]
  | c :: r =>
    if c = 10 then [] :: splitLines r
    else match splitLines r with
      | [] => [[c]]
      | l :: ls => (c :: l) :: ls

end Agd.Record
