/-!
# C17 model: forwarding handler with fallbacks and health-check backoff

Mirrors `internal/dnsserver/forward/{forward,healthcheck,upstreamplain}.go`.

* Main upstreams are the indices `0 … nMain-1` (position in `Handler.upstreams`),
  fallbacks `0 … nFb-1`.
* Time is an explicit `Int` supplied by the environment.  `lastFailed u = none`
  is the zero `time.Time` ("last health check succeeded / never failed").
* The random choice `h.rand.Intn(len)` is the environment's `pick`.
* What an upstream does with one request is the environment's `Outcome`
  (handler level) or a pair of `Wire` results (plain-upstream level).
-/
namespace Agd.Forward

/-! ## Handler level: `ServeDNS` -/

/-- Result of `Upstream.Exchange` as `ServeDNS` sees it. -/
inductive Outcome where
  /-- a response (identified by a token) and a nil error -/
  | reply (r : Nat)
  /-- an error for which `errors.As(err, &net.Error)` holds -/
  | netErr
  /-- any other error (validation failure, unpack error, EOF …) -/
  | otherErr
  /-- `nil, nil` -/
  | noResp
deriving DecidableEq, Repr

structure Cfg where
  nMain : Nat
  nFb : Nat
  backoff : Int
deriving Repr

structure St where
  /-- `Handler.activeUpstreams`, in order. -/
  active : List Nat
  /-- `upstreamStatus.lastFailedHealthcheck` per main upstream. -/
  lastFailed : Nat → Option Int

/-- State built by `NewHandler` (without the initial health check). -/
def St.init (c : Cfg) : St := { active := List.range c.nMain, lastFailed := fun _ => none }

/-- What the client gets: the handler wrote response `r`, or it returned an error
(which the server turns into SERVFAIL). -/
inductive Res where
  | answered (r : Nat)
  | servfail
deriving DecidableEq, Repr

/-- One exchange performed by `ServeDNS`. -/
inductive Call where
  | main (u : Nat)
  | fb (f : Nat)
deriving DecidableEq, Repr

structure ServeOut where
  res : Res
  /-- the exchanges performed, in order -/
  calls : List Call
deriving DecidableEq, Repr

def finish : Outcome → Res
  | .reply r => .answered r
  | _ => .servfail

/-- `pickActiveUpstream`: `nil` iff the active list is empty. -/
def pickActive (s : St) (pick : Nat) : Option Nat := s.active[pick % s.active.length]?

/-- `ServeDNS`.  `om u` / `ofb f` is what main `u` / fallback `f` would do with this query. -/
def serve (c : Cfg) (s : St) (pick : Nat) (om : Nat → Outcome) (pickFb : Nat)
    (ofb : Nat → Outcome) : ServeOut :=
  match pickActive s pick with
  | none =>
    if c.nFb > 0 then { res := finish (ofb (pickFb % c.nFb)), calls := [.fb (pickFb % c.nFb)] }
    else { res := .servfail, calls := [] }
  | some u =>
    if om u = .netErr ∧ c.nFb > 0 then
      { res := finish (ofb (pickFb % c.nFb)), calls := [.main u, .fb (pickFb % c.nFb)] }
    else { res := finish (om u), calls := [.main u] }

/-! ## Handler level: `refresh` / `healthcheck` / `healthcheckUpstream` -/

/-- Environment of one `healthcheckUpstream` call: the clock read by `time.Since`,
whether `checkUpstream` succeeds, and the clock read by `time.Now()` after a failure. -/
structure Probe where
  tCheck : Int
  ok : Bool
  tFail : Int
deriving Repr

/-- `time.Since(lastFailed) < h.hcBackoff`; the zero time is infinitely long ago. -/
def inBackoff (b : Int) (lf : Option Int) (t : Int) : Bool :=
  match lf with
  | none => false
  | some f => decide (t - f < b)

def put (m : Nat → Option Int) (k : Nat) (v : Option Int) : Nat → Option Int :=
  fun j => if j = k then v else m j

/-- Observable events, used by the trace theorems and by the driver. -/
inductive Ev where
  | query (calls : List Call) (res : Res)
  | probe (u : Nat) (t : Int) (ok : Bool) (tFail : Int)
deriving DecidableEq, Repr

structure HcAcc where
  lf : Nat → Option Int
  act : List Nat
  evs : List Ev

/-- One iteration of the loop in `healthcheck`. -/
def hcOne (b : Int) (pr : Nat → Probe) (a : HcAcc) (u : Nat) : HcAcc :=
  if inBackoff b (a.lf u) (pr u).tCheck then a
  else if (pr u).ok then
    { lf := put a.lf u none, act := a.act ++ [u],
      evs := a.evs ++ [.probe u (pr u).tCheck true (pr u).tFail] }
  else
    { lf := put a.lf u (some (pr u).tFail), act := a.act,
      evs := a.evs ++ [.probe u (pr u).tCheck false (pr u).tFail] }

/-- The loop over the first `k` main upstreams. -/
def hcFold (b : Int) (pr : Nat → Probe) (lf0 : Nat → Option Int) (k : Nat) : HcAcc :=
  (List.range k).foldl (hcOne b pr) { lf := lf0, act := [], evs := [] }

def hcLoop (c : Cfg) (s : St) (pr : Nat → Probe) : HcAcc :=
  hcFold c.backoff pr s.lastFailed c.nMain

/-- `refresh`: nothing at all without fallbacks; otherwise the health-check loop, after
which the active list is exactly the upstreams probed successfully in this round.
The Boolean is "an error was returned" (all main upstreams are down). -/
def refresh (c : Cfg) (s : St) (pr : Nat → Probe) : St × List Ev × Bool :=
  if c.nFb = 0 then (s, [], false)
  else
    let a := hcLoop c s pr
    ({ active := a.act, lastFailed := a.lf }, a.evs, a.act.isEmpty)

/-! ## Histories -/

inductive Op where
  | query (pick : Nat) (om : Nat → Outcome) (pickFb : Nat) (ofb : Nat → Outcome)
  | refresh (pr : Nat → Probe)

def step (c : Cfg) (s : St) : Op → St × List Ev
  | .query pick om pickFb ofb =>
    (s, [.query (serve c s pick om pickFb ofb).calls (serve c s pick om pickFb ofb).res])
  | .refresh pr => ((refresh c s pr).1, (refresh c s pr).2.1)

def run (c : Cfg) : St → List Op → St × List Ev
  | s, [] => (s, [])
  | s, o :: os => ((run c (step c s o).1 os).1, (step c s o).2 ++ (run c (step c s o).1 os).2)

/-! ## The reference monitor (specification automaton) for the backoff clause

It reads only the observable events.  `last u` is the outcome of the most recent probe of
`u`: `some (some tf)` = failed at `tf`, `some none` = succeeded, `none` = never probed. -/

structure Mon where
  last : Nat → Option (Option Int)

def Mon.init : Mon := { last := fun _ => none }

def callsMain : List Call → List Nat
  | [] => []
  | .main u :: r => u :: callsMain r
  | .fb _ :: r => callsMain r

def callsFb : List Call → List Nat
  | [] => []
  | .main _ :: r => callsFb r
  | .fb f :: r => f :: callsFb r

/-- `none` = the event violates the backoff clause. -/
def Mon.step (b : Int) (m : Mon) : Ev → Option Mon
  | .query calls _ =>
    if (callsMain calls).all (fun u => match m.last u with | some (some _) => false | _ => true)
    then some m else none
  | .probe u t ok tf =>
    match m.last u with
    | some (some f) =>
      if t - f < b then none
      else some { last := fun j => if j = u then some (if ok then none else some tf) else m.last j }
    | _ => some { last := fun j => if j = u then some (if ok then none else some tf) else m.last j }

def Mon.run (b : Int) : Mon → List Ev → Option Mon
  | m, [] => some m
  | m, e :: r => match m.step b e with
    | none => none
    | some m' => Mon.run b m' r

def Mon.accepts (b : Int) (m : Mon) (evs : List Ev) : Bool := (Mon.run b m evs).isSome

/-! ## Plain upstream level: `validatePlainResponse` and `UpstreamPlain.Exchange` -/

/-- ASCII case folding of one byte of a presentation-format name. -/
def foldByte (c : Nat) : Nat := if 65 ≤ c ∧ c ≤ 90 then c + 32 else c

def foldName (n : List Nat) : List Nat := n.map foldByte

structure Question where
  name : List Nat
  qtype : Nat
deriving DecidableEq, Repr

structure Msg where
  id : Nat
  qs : List Question
  tc : Bool
  tok : Nat
deriving DecidableEq, Repr

inductive VRes where
  | ok | badId | badCount | badType | badName
deriving DecidableEq, Repr

/-- `validatePlainResponse`, checks in source order.  `q` is `req.Question[0]`. -/
def validate (reqId : Nat) (q : Question) (resp : Msg) : VRes :=
  if reqId ≠ resp.id then .badId
  else match resp.qs with
    | [rq] =>
      if q.qtype ≠ rq.qtype then .badType
      else if foldName q.name ≠ foldName rq.name then .badName
      else .ok
    | _ => .badCount

inductive Net where
  | any | udp | tcp
deriving DecidableEq, Repr

/-- What one `exchangeNet` attempt (including its one retry on a fresh connection)
reads from the wire. -/
inductive Wire where
  /-- a message that unpacks -/
  | msg (m : Msg)
  /-- a `net.Error` (timeout, refused, dial failure) -/
  | netErr
  /-- `io.EOF` (peer closed): retried like a network error but is not a `net.Error` -/
  | eof
  /-- short read / unpack error / any other failure -/
  | bad
deriving DecidableEq, Repr

/-- Result of `exchangeNet`. -/
inductive XRes where
  | ok (m : Msg)
  | netErr
  | eof
  | other
deriving DecidableEq, Repr

def exchangeNet (reqId : Nat) (q : Question) : Wire → XRes
  | .msg m => if validate reqId q m = .ok then .ok m else .other
  | .netErr => .netErr
  | .eof => .eof
  | .bad => .other

/-- `isExpectedConnErr`. -/
def XRes.expectedConnErr : XRes → Bool
  | .netErr => true
  | .eof => true
  | _ => false

/-- `UpstreamPlain.Exchange` (with `exchangeUDP` inlined): the result and whether TCP was used. -/
def exchange (net : Net) (reqId : Nat) (q : Question) (udp tcp : Wire) : XRes × Bool :=
  if net = .tcp then (exchangeNet reqId q tcp, true)
  else
    match exchangeNet reqId q udp with
    | .ok m =>
      if net ≠ .udp ∧ m.tc then (exchangeNet reqId q tcp, true) else (.ok m, false)
    | .netErr => (.netErr, false)
    | .eof => (.eof, false)
    | .other => (exchangeNet reqId q tcp, true)

/-- How `ServeDNS` classifies the result of `Exchange`. -/
def XRes.outcome : XRes → Outcome
  | .ok m => .reply m.tok
  | .netErr => .netErr
  | .eof => .otherErr
  | .other => .otherErr

/-! ## Byte level: `readMsg` hands `Unpack` the bytes that were read

A small parser of the header and the (uncompressed) question section, enough to state that
the parsed reply is a function of the received bytes only. -/

/-- Uncompressed name in presentation bytes (labels joined by `.`), and the rest. -/
def parseName : Nat → List Nat → Option (List Nat × List Nat)
  | 0, _ => none
  | _, [] => none
  | fuel + 1, len :: rest =>
    if len = 0 then some ([], rest)
    else if 64 ≤ len then none
    else if rest.length < len then none
    else match parseName fuel (rest.drop len) with
      | none => none
      | some (nm, r) => some (rest.take len ++ [46] ++ nm, r)

/-- The question loop of `dns.Msg.unpack`.  `unpackQuestion` is lenient when the message ends
exactly after the name (type 0), exactly after the type, or inside the class; a following
question then fails. -/
def parseQs : Nat → List Nat → Option (List Question)
  | 0, _ => some []
  | k + 1, b =>
    match parseName b.length b with
    | some (nm, []) =>
      if k = 0 then some [{ name := (if nm = [] then [46] else nm), qtype := 0 }] else none
    | some (nm, [t1, t2]) =>
      if k = 0 then some [{ name := (if nm = [] then [46] else nm), qtype := t1 * 256 + t2 }] else none
    | some (nm, [t1, t2, _]) =>
      if k = 0 then some [{ name := (if nm = [] then [46] else nm), qtype := t1 * 256 + t2 }] else none
    | some (nm, t1 :: t2 :: _ :: _ :: r) =>
      (parseQs k r).map (fun qs => { name := (if nm = [] then [46] else nm), qtype := t1 * 256 + t2 } :: qs)
    | _ => none

/-- `dns.Msg.Unpack` restricted to header and questions. -/
def parseMsg : List Nat → Option Msg
  | i1 :: i2 :: f1 :: _ :: q1 :: q2 :: _ :: _ :: _ :: _ :: _ :: _ :: body =>
    (parseQs (q1 * 256 + q2) body).map
      (fun qs => { id := i1 * 256 + i2, qs := qs, tc := (f1 / 2) % 2 = 1, tok := 0 })
  | _ => none

def minDNSMessageSize : Nat := 17

/-- `readMsg` as the code now is: `n` bytes were read into the pooled buffer `buf`. -/
def readMsg (buf : List Nat) (n : Nat) : Option Msg :=
  if n < minDNSMessageSize then none else parseMsg (buf.take n)

/-- `readMsg` before the fix: the whole buffer was unpacked. -/
def readMsgWholeBuffer (buf : List Nat) (n : Nat) : Option Msg :=
  if n < minDNSMessageSize then none else parseMsg buf

end Agd.Forward
