/-!
# C17 model: forwarding handler with fallbacks and health-check backoff

Mirrors `internal/dnsserver/forward/{forward,healthcheck,upstreamplain}.go`.

* Main upstreams are the indices `0 … nMain-1` (position in `Handler.upstreams`),
  fallbacks `0 … nFb-1`.
* Time is an explicit `Int` supplied by the environment.  `lastFailed u = none`
  is the zero `time.Time` ("last health check succeeded / never failed").
* The random choice `h.rand.Intn(len)` is the environment's `pick`.
* What an upstream does with one request is the environment's `Outcome`
  (handler level) or a pair of `Wire` results (plain-upstream level).
-/
namespace Agd.Forward

/-! ## Handler level: `ServeDNS` -/

/-- Result of `Upstream.Exchange` as `ServeDNS` sees it. -/
inductive Outcome where
  /-- a response (identified by a token) and a nil error -/
  | reply (r : Nat)
  /-- an error for which `errors.As(err, &net.Error)` holds -/
  | netErr
  /-- any other error (validation failure, unpack error, EOF …) -/
  | otherErr
  /-- `nil, nil` -/
  | noResp
deriving DecidableEq, Repr

structure Cfg where
  nMain : Nat
  nFb : Nat
  backoff : Int
deriving Repr

structure St where
  /-- `Handler.activeUpstreams`, in order. -/
  active : List Nat
  /-- `upstreamStatus.lastFailedHealthcheck` per main upstream. -/
  lastFailed : Nat → Option Int

/-- State built by `NewHandler` (without the initial health check). -/
def St.init (c : Cfg) : St := { active := List.range c.nMain, lastFailed := fun _ => none }

/-- What the client gets: the handler wrote response `r`, or it returned an error
(which the server turns into SERVFAIL). -/
inductive Res where
  | answered (r : Nat)
  | servfail
deriving DecidableEq, Repr

/-- One exchange performed by `ServeDNS`. -/
inductive Call where
  | main (u : Nat)
  | fb (f : Nat)
deriving DecidableEq, Repr

structure ServeOut where
  res : Res
  /-- the exchanges performed, in order -/
  calls : List Call
deriving DecidableEq, Repr

def finish : Outcome → Res
  | .reply r => .answered r
  | _ => .servfail

/-- `pickActiveUpstream`: `nil` iff the active list is empty. -/
def pickActive (s : St) (pick : Nat) : Option Nat := s.active[pick % s.active.length]?

/-- `ServeDNS`.  `om u` / `ofb f` is what main `u` / fallback `f` would do with this query. -/
def serve (c : Cfg) (s : St) (pick : Nat) (om : Nat → Outcome) (pickFb : Nat)
    (ofb : Nat → Outcome) : ServeOut :=
  match pickActive s pick with
  | none =>
    if c.nFb > 0 then { res := finish (ofb (pickFb % c.nFb)), calls := [.fb (pickFb % c.nFb)] }
    else { res := .servfail, calls := [] }
  | some u =>
    if om u = .netErr ∧ c.nFb > 0 then
      { res := finish (ofb (pickFb % c.nFb)), calls := [.main u, .fb (pickFb % c.nFb)] }
    else { res := finish (om u), calls := [.main u] }

/-! ## Handler level: `refresh` / `healthcheck` / `healthcheckUpstream` -/

/-- Environment of one `healthcheckUpstream` call: the clock read by `time.Since`,
whether `checkUpstream` succeeds, and the clock read by `time.Now()` after a failure. -/
structure Probe where
  tCheck : Int
  ok : Bool
  tFail : Int
  /-- `roundIsOver(ctx)` (context done or deadline passed) when the loop of `healthcheck` reaches this upstream: the time of the
  round is used up (or the round was cancelled), nothing is sent to the upstream. -/
  ctxDone : Bool
deriving Repr

/-- `time.Since(lastFailed) < h.hcBackoff`; the zero time is infinitely long ago. -/
def inBackoff (b : Int) (lf : Option Int) (t : Int) : Bool :=
  match lf with
  | none => false
  | some f => decide (t - f < b)

def put (m : Nat → Option Int) (k : Nat) (v : Option Int) : Nat → Option Int :=
  fun j => if j = k then v else m j

/-- Observable events, used by the trace theorems and by the driver. -/
inductive Ev where
  | query (calls : List Call) (res : Res)
  | probe (u : Nat) (t : Int) (ok : Bool) (tFail : Int)
deriving DecidableEq, Repr

structure HcAcc where
  lf : Nat → Option Int
  act : List Nat
  evs : List Ev

/-- One iteration of the loop in `healthcheck`. -/
def hcOne (b : Int) (pr : Nat → Probe) (a : HcAcc) (u : Nat) : HcAcc :=
  if (pr u).ctxDone then
    -- not probed: the upstream keeps its status (active iff no failure is recorded)
    (if (a.lf u).isNone then { lf := a.lf, act := a.act ++ [u], evs := a.evs } else a)
  else if inBackoff b (a.lf u) (pr u).tCheck then a
  else if (pr u).ok then
    { lf := put a.lf u none, act := a.act ++ [u],
      evs := a.evs ++ [.probe u (pr u).tCheck true (pr u).tFail] }
  else
    { lf := put a.lf u (some (pr u).tFail), act := a.act,
      evs := a.evs ++ [.probe u (pr u).tCheck false (pr u).tFail] }

/-- The loop over the first `k` main upstreams. -/
def hcFold (b : Int) (pr : Nat → Probe) (lf0 : Nat → Option Int) (k : Nat) : HcAcc :=
  (List.range k).foldl (hcOne b pr) { lf := lf0, act := [], evs := [] }

def hcLoop (c : Cfg) (s : St) (pr : Nat → Probe) : HcAcc :=
  hcFold c.backoff pr s.lastFailed c.nMain

/-- `refresh`: nothing at all without fallbacks; otherwise the health-check loop, after
which the active list is exactly the upstreams probed successfully in this round.
The Boolean is "an error was returned" (all main upstreams are down). -/
def refresh (c : Cfg) (s : St) (pr : Nat → Probe) : St × List Ev × Bool :=
  if c.nFb = 0 then (s, [], false)
  else
    let a := hcLoop c s pr
    ({ active := a.act, lastFailed := a.lf }, a.evs, a.act.isEmpty)

/-! ## The round's context: upstreams that do not answer use up the time of the round

The probes of one round share one context (`newCtxWithTimeoutCons(healthcheck.timeout)` in
`cmd/upstream.go`, `HealthcheckInitDuration` in `NewHandler`).  An upstream that does not answer
holds its probe until that deadline; the context is then done for every upstream after it. -/

/-- What a main upstream does with a health probe. -/
inductive PBeh where
  | ok
  | fail
  /-- never answers: the probe ends when the context of the round does, as a network error -/
  | hang
deriving DecidableEq, Repr

/-- `ctx.Err() != nil` when the loop reaches upstream `u`: the context was done from the start, or
an earlier upstream was probed (not in backoff) and hung. -/
def deadBefore (b : Int) (lf : Nat → Option Int) (t : Int) (dead0 : Bool) (beh : Nat → PBeh) : Nat → Bool
  | 0 => dead0
  | u + 1 => deadBefore b lf t dead0 beh u || (decide (beh u = .hang) && !inBackoff b (lf u) t)

/-- The inputs of `hcOne` for a round at time `t` over upstreams behaving like `beh`. -/
def probesOf (b : Int) (lf : Nat → Option Int) (t : Int) (dead0 : Bool) (beh : Nat → PBeh) : Nat → Probe :=
  fun u => { tCheck := t, ok := decide (beh u = .ok), tFail := t, ctxDone := deadBefore b lf t dead0 beh u }

/-- The loop step **before the fix** (`fix: forward: do not record a failed health check for an
upstream that was not probed`): `healthcheckUpstream` was called with the dead context, and an
upstream client that honours its context (`UpstreamPlain` does: `connsPool.Get(ctx)`, the dial
timeout, `SetDeadline`) returned an error without sending anything — recorded as a failed probe. -/
def hcOneOld (b : Int) (pr : Nat → Probe) (a : HcAcc) (u : Nat) : HcAcc :=
  if inBackoff b (a.lf u) (pr u).tCheck then a
  else if (pr u).ok && !(pr u).ctxDone then
    { lf := put a.lf u none, act := a.act ++ [u], evs := a.evs }
  else
    { lf := put a.lf u (some (pr u).tFail), act := a.act, evs := a.evs }

def refreshOld (c : Cfg) (s : St) (pr : Nat → Probe) : St :=
  if c.nFb = 0 then s
  else
    let a := (List.range c.nMain).foldl (hcOneOld c.backoff pr) { lf := s.lastFailed, act := [], evs := [] }
    { active := a.act, lastFailed := a.lf }

/-! ## Histories -/

inductive Op where
  | query (pick : Nat) (om : Nat → Outcome) (pickFb : Nat) (ofb : Nat → Outcome)
  | refresh (pr : Nat → Probe)

def step (c : Cfg) (s : St) : Op → St × List Ev
  | .query pick om pickFb ofb =>
    (s, [.query (serve c s pick om pickFb ofb).calls (serve c s pick om pickFb ofb).res])
  | .refresh pr => ((refresh c s pr).1, (refresh c s pr).2.1)

def run (c : Cfg) : St → List Op → St × List Ev
  | s, [] => (s, [])
  | s, o :: os => ((run c (step c s o).1 os).1, (step c s o).2 ++ (run c (step c s o).1 os).2)

/-! ## The reference monitor (specification automaton) for the backoff clause

It reads only the observable events.  `last u` is the outcome of the most recent probe of
`u`: `some (some tf)` = failed at `tf`, `some none` = succeeded, `none` = never probed. -/

structure Mon where
  last : Nat → Option (Option Int)

def Mon.init : Mon := { last := fun _ => none }

def callsMain : List Call → List Nat
  | [] => []
  | .main u :: r => u :: callsMain r
  | .fb _ :: r => callsMain r

def callsFb : List Call → List Nat
  | [] => []
  | .main _ :: r => callsFb r
  | .fb f :: r => f :: callsFb r

/-- `none` = the event violates the backoff clause. -/
def Mon.step (b : Int) (m : Mon) : Ev → Option Mon
  | .query calls _ =>
    if (callsMain calls).all (fun u => match m.last u with | some (some _) => false | _ => true)
    then some m else none
  | .probe u t ok tf =>
    match m.last u with
    | some (some f) =>
      if t - f < b then none
      else some { last := fun j => if j = u then some (if ok then none else some tf) else m.last j }
    | _ => some { last := fun j => if j = u then some (if ok then none else some tf) else m.last j }

def Mon.run (b : Int) : Mon → List Ev → Option Mon
  | m, [] => some m
  | m, e :: r => match m.step b e with
    | none => none
    | some m' => Mon.run b m' r

def Mon.accepts (b : Int) (m : Mon) (evs : List Ev) : Bool := (Mon.run b m evs).isSome

/-! ## `NewHandler` with its optional initial health check -/

/-- `NewHandler`: every main upstream active, no failure recorded; when
`HealthcheckInitDuration > 0` one `refresh` follows at once (`init` are its probes). -/
def St.new (c : Cfg) (init : Option (Nat → Probe)) : St × List Ev :=
  match init with
  | none => (St.init c, [])
  | some pr => ((refresh c (St.init c) pr).1, (refresh c (St.init c) pr).2.1)

/-- Histories of a handler built by `NewHandler`. -/
def runNew (c : Cfg) (init : Option (Nat → Probe)) (ops : List Op) : St × List Ev :=
  ((run c (St.new c init).1 ops).1, (St.new c init).2 ++ (run c (St.new c init).1 ops).2)

/-! ## Queries arriving while a health-check round is running

`healthcheck` probes the upstreams one after the other without holding the lock and stores the
new active list only after the loop.  A query served meanwhile therefore still picks from the
list that was active when the round began. -/

structure QArgs where
  pick : Nat
  om : Nat → Outcome
  pickFb : Nat
  ofb : Nat → Outcome

def qEv (c : Cfg) (s : St) (q : QArgs) : Ev :=
  .query (serve c s q.pick q.om q.pickFb q.ofb).calls (serve c s q.pick q.om q.pickFb q.ofb).res

/-- Events of an interleaved history: the old ones plus the moment a round's result is stored. -/
inductive IEv where
  | ev (e : Ev)
  | roundEnd
deriving DecidableEq, Repr

/-- One iteration of the loop with the queries `during u` served first (from the state `s` the
round started in). -/
def hcOneI (c : Cfg) (s : St) (pr : Nat → Probe) (during : Nat → List QArgs) (a : HcAcc) (u : Nat) :
    HcAcc :=
  hcOne c.backoff pr { lf := a.lf, act := a.act, evs := a.evs ++ (during u).map (qEv c s) } u

def hcFoldI (c : Cfg) (s : St) (pr : Nat → Probe) (during : Nat → List QArgs) (k : Nat) : HcAcc :=
  (List.range k).foldl (hcOneI c s pr during) { lf := s.lastFailed, act := [], evs := [] }

/-- `refresh` with concurrent queries: `during u` arrive while the loop is at upstream `u`,
`during nMain` after the loop and before the new list is stored.  Without fallbacks `refresh`
returns at once: there is no round (and the queries are ordinary ones). -/
def refreshI (c : Cfg) (s : St) (pr : Nat → Probe) (during : Nat → List QArgs) : St × List IEv :=
  if c.nFb = 0 then (s, [])
  else
    let a := hcFoldI c s pr during c.nMain
    ({ active := a.act, lastFailed := a.lf },
      a.evs.map .ev ++ (during c.nMain).map (fun q => .ev (qEv c s q)) ++ [.roundEnd])

inductive IOp where
  | query (q : QArgs)
  | refresh (pr : Nat → Probe) (during : Nat → List QArgs)

def stepI (c : Cfg) (s : St) : IOp → St × List IEv
  | .query q => (s, [.ev (qEv c s q)])
  | .refresh pr during => refreshI c s pr during

def runI (c : Cfg) : St → List IOp → St × List IEv
  | s, [] => (s, [])
  | s, o :: os => ((runI c (stepI c s o).1 os).1, (stepI c s o).2 ++ (runI c (stepI c s o).1 os).2)

/-- Reference monitor for interleaved histories.  `last` as in `Mon`; `barred u` says that the
most recent probe of `u`, as of the end of the last completed round, failed.  Probes obey the
backoff with respect to `last`; queries must avoid the barred upstreams. -/
structure Mon2 where
  last : Nat → Option (Option Int)
  barred : Nat → Bool

def Mon2.init : Mon2 := { last := fun _ => none, barred := fun _ => false }

def lastFailedP (l : Option (Option Int)) : Bool :=
  match l with
  | some (some _) => true
  | _ => false

def Mon2.step (b : Int) (m : Mon2) : IEv → Option Mon2
  | .ev (.query calls _) =>
    if (callsMain calls).all (fun u => !m.barred u) then some m else none
  | .ev (.probe u t ok tf) =>
    match m.last u with
    | some (some f) =>
      if t - f < b then none
      else some { last := fun j => if j = u then some (if ok then none else some tf) else m.last j,
                  barred := m.barred }
    | _ => some { last := fun j => if j = u then some (if ok then none else some tf) else m.last j,
                  barred := m.barred }
  | .roundEnd => some { last := m.last, barred := fun u => lastFailedP (m.last u) }

def Mon2.run (b : Int) : Mon2 → List IEv → Option Mon2
  | m, [] => some m
  | m, e :: r => match m.step b e with
    | none => none
    | some m' => Mon2.run b m' r

def Mon2.accepts (b : Int) (m : Mon2) (evs : List IEv) : Bool := (Mon2.run b m evs).isSome

/-! ## `checkUpstream`: when a health probe counts as succeeded -/

/-- What `Exchange` gave the probe: a response with its RCODE, an error, or `nil, nil`. -/
inductive PRes where
  | resp (rcode : Nat)
  | err
  | nil
deriving DecidableEq, Repr

/-- `checkUpstream`: success iff there is a response and its RCODE is NOERROR. -/
def checkUpstream : PRes → Bool
  | .resp rc => rc == 0
  | _ => false

/-! ## Plain upstream level: `validatePlainResponse` and `UpstreamPlain.Exchange` -/

/-- ASCII case folding of one byte of a presentation-format name. -/
def foldByte (c : Nat) : Nat := if 65 ≤ c ∧ c ≤ 90 then c + 32 else c

def foldName (n : List Nat) : List Nat := n.map foldByte

structure Question where
  name : List Nat
  qtype : Nat
deriving DecidableEq, Repr

structure Msg where
  id : Nat
  qs : List Question
  tc : Bool
  tok : Nat
  /-- the RCODE of the header; only the health probe looks at it -/
  rcode : Nat := 0
deriving DecidableEq, Repr

inductive VRes where
  | ok | badId | badCount | badType | badName
deriving DecidableEq, Repr

/-- `validatePlainResponse`, checks in source order.  `q` is `req.Question[0]`. -/
def validate (reqId : Nat) (q : Question) (resp : Msg) : VRes :=
  if reqId ≠ resp.id then .badId
  else match resp.qs with
    | [rq] =>
      if q.qtype ≠ rq.qtype then .badType
      else if foldName q.name ≠ foldName rq.name then .badName
      else .ok
    | _ => .badCount

inductive Net where
  | any | udp | tcp
deriving DecidableEq, Repr

/-- What one `exchangeNet` attempt (including its one retry on a fresh connection)
reads from the wire. -/
inductive Wire where
  /-- a message that unpacks -/
  | msg (m : Msg)
  /-- a `net.Error` (timeout, refused, dial failure) -/
  | netErr
  /-- `io.EOF` (peer closed): retried like a network error but is not a `net.Error` -/
  | eof
  /-- short read / unpack error / any other failure -/
  | bad
deriving DecidableEq, Repr

/-- Result of `exchangeNet`. -/
inductive XRes where
  | ok (m : Msg)
  | netErr
  | eof
  | other
deriving DecidableEq, Repr

def exchangeNet (reqId : Nat) (q : Question) : Wire → XRes
  | .msg m => if validate reqId q m = .ok then .ok m else .other
  | .netErr => .netErr
  | .eof => .eof
  | .bad => .other

/-- `isExpectedConnErr`. -/
def XRes.expectedConnErr : XRes → Bool
  | .netErr => true
  | .eof => true
  | _ => false

/-- The retry in `exchangeNet`: when the first attempt (usually on a pooled connection) ends with
an expected connection error (`net.Error` or EOF), the request is sent once more on a fresh
connection and that attempt's result is final. -/
def retryWire (w1 w2 : Wire) : Wire :=
  match w1 with
  | .netErr => w2
  | .eof => w2
  | _ => w1

/-- `UpstreamPlain.Exchange` (with `exchangeUDP` inlined): the result and whether TCP was used. -/
def exchange (net : Net) (reqId : Nat) (q : Question) (udp tcp : Wire) : XRes × Bool :=
  if net = .tcp then (exchangeNet reqId q tcp, true)
  else
    match exchangeNet reqId q udp with
    | .ok m =>
      if net ≠ .udp ∧ m.tc then (exchangeNet reqId q tcp, true) else (.ok m, false)
    | .netErr => (.netErr, false)
    | .eof => (.eof, false)
    | .other => (exchangeNet reqId q tcp, true)

/-- `Exchange` with both attempts of each transport spelled out. -/
def exchangeR (net : Net) (reqId : Nat) (q : Question) (udp1 udp2 tcp1 tcp2 : Wire) : XRes × Bool :=
  exchange net reqId q (retryWire udp1 udp2) (retryWire tcp1 tcp2)

/-- How `checkUpstream` sees the result of `Exchange`. -/
def XRes.probe : XRes → PRes
  | .ok m => .resp m.rcode
  | _ => .err

/-- How `ServeDNS` classifies the result of `Exchange`. -/
def XRes.outcome : XRes → Outcome
  | .ok m => .reply m.tok
  | .netErr => .netErr
  | .eof => .otherErr
  | .other => .otherErr

/-! ## Byte level: `readMsg` hands `Unpack` the bytes that were read

A small parser of the header and the (uncompressed) question section, enough to state that
the parsed reply is a function of the received bytes only. -/

/-- `isDomainNameLabelSpecial`: bytes that `UnpackDomainName` prefixes with a backslash. -/
def labelSpecial (b : Nat) : Bool :=
  b = 46 || b = 32 || b = 39 || b = 64 || b = 59 || b = 40 || b = 41 || b = 34 || b = 92

/-- One label byte in presentation format: `\c` for the special ones, `\DDD` outside the printable
ASCII range, the byte itself otherwise (as `UnpackDomainName` writes them). -/
def escByte (b : Nat) : List Nat :=
  if labelSpecial b then [92, b]
  else if b < 32 ∨ 126 < b then [92, 48 + b / 100, 48 + (b / 10) % 10, 48 + b % 10]
  else [b]

def escLabel (l : List Nat) : List Nat := l.flatMap escByte

/-- Uncompressed name in presentation bytes (escaped labels, each followed by `.`), and the rest.
`budget` is `maxDomainNameWireOctets` minus what the labels so far took (`ErrLongDomain` when it
is used up); compression pointers and the reserved label types are errors here (a pointer in the
question section of a reply is outside the model). -/
def parseName : Nat → Int → List Nat → Option (List Nat × List Nat)
  | 0, _, _ => none
  | _, _, [] => none
  | fuel + 1, budget, len :: rest =>
    if len = 0 then some ([], rest)
    else if 64 ≤ len then none
    else if rest.length < len then none
    else if budget - (len + 1 : Nat) ≤ 0 then none
    else match parseName fuel (budget - (len + 1 : Nat)) (rest.drop len) with
      | none => none
      | some (nm, r) => some (escLabel (rest.take len) ++ [46] ++ nm, r)

/-- The question loop of `dns.Msg.unpack`.  `unpackQuestion` is lenient when the message ends
exactly after the name (type 0), exactly after the type, or inside the class; a following
question then fails. -/
def parseQs : Nat → List Nat → Option (List Question)
  | 0, _ => some []
  | k + 1, b =>
    match parseName b.length 255 b with
    | some (nm, []) =>
      if k = 0 then some [{ name := (if nm = [] then [46] else nm), qtype := 0 }] else none
    | some (nm, [t1, t2]) =>
      if k = 0 then some [{ name := (if nm = [] then [46] else nm), qtype := t1 * 256 + t2 }] else none
    | some (nm, [t1, t2, _]) =>
      if k = 0 then some [{ name := (if nm = [] then [46] else nm), qtype := t1 * 256 + t2 }] else none
    | some (nm, t1 :: t2 :: _ :: _ :: r) =>
      (parseQs k r).map (fun qs => { name := (if nm = [] then [46] else nm), qtype := t1 * 256 + t2 } :: qs)
    | _ => none

/-- `dns.Msg.Unpack` restricted to header and questions. -/
def parseMsg : List Nat → Option Msg
  | i1 :: i2 :: f1 :: f2 :: q1 :: q2 :: _ :: _ :: _ :: _ :: _ :: _ :: body =>
    (parseQs (q1 * 256 + q2) body).map
      (fun qs => { id := i1 * 256 + i2, qs := qs, tc := (f1 / 2) % 2 = 1, tok := 0, rcode := f2 % 16 })
  | _ => none

def minDNSMessageSize : Nat := 17

/-- `readMsg` as the code now is: `n` bytes were read into the pooled buffer `buf`. -/
def readMsg (buf : List Nat) (n : Nat) : Option Msg :=
  if n < minDNSMessageSize then none else parseMsg (buf.take n)

/-- `readMsg` before the fix: the whole buffer was unpacked. -/
def readMsgWholeBuffer (buf : List Nat) (n : Nat) : Option Msg :=
  if n < minDNSMessageSize then none else parseMsg buf

/-- What one attempt of `exchangeNet` gets from the connection: `n` bytes read into the pooled
buffer `buf`, or a connection-level failure. -/
inductive Raw where
  | bytes (buf : List Nat) (n : Nat)
  | netErr
  | eof
deriving DecidableEq, Repr

/-- `readMsg` in front of `validatePlainResponse`: the `Wire` a raw read amounts to. -/
def Raw.wire : Raw → Wire
  | .bytes buf n => match readMsg buf n with
    | some m => .msg m
    | none => .bad
  | .netErr => .netErr
  | .eof => .eof

/-! ## The wire format written down independently of the parser (specification side)

`encodeReply` is how RFC 1035 §4.1 lays out a message with one question: twelve header octets,
the labels each preceded by its length, a zero octet, type and class; whatever follows
(`tail`: resource records) is not looked at by the properties. -/

def encodeName : List (List Nat) → List Nat
  | [] => [0]
  | l :: r => l.length :: l ++ encodeName r

/-- Presentation form of a list of labels, as `UnpackDomainName` prints it (`.` for the root). -/
def presName (ls : List (List Nat)) : List Nat :=
  if ls = [] then [46] else ls.flatMap (fun l => escLabel l ++ [46])

structure Hdr where
  id1 : Nat
  id2 : Nat
  f1 : Nat
  f2 : Nat
  an : Nat × Nat := (0, 0)
  ns : Nat × Nat := (0, 0)
  ar : Nat × Nat := (0, 0)

def encodeReply (h : Hdr) (labels : List (List Nat)) (t1 t2 c1 c2 : Nat) (tail : List Nat) : List Nat :=
  [h.id1, h.id2, h.f1, h.f2, 0, 1, h.an.1, h.an.2, h.ns.1, h.ns.2, h.ar.1, h.ar.2] ++
    encodeName labels ++ [t1, t2, c1, c2] ++ tail

/-- Labels a name may legally consist of: 1–63 octets each, at most 255 octets on the wire. -/
def legalLabels (ls : List (List Nat)) : Prop :=
  (∀ l ∈ ls, 1 ≤ l.length ∧ l.length ≤ 63) ∧ (encodeName ls).length ≤ 255

/-! ### The health-check domain template (fifth audit)

A template is a list of labels, a label a list of literal pieces and `${RANDOM}` placeholders; every
placeholder of a round is replaced by the same string `r` (1–16 hexadecimal digits).  The start-up
check used to ask for a non-empty template only; as fixed it asks that the name made with the
longest random part is a legal name. -/

inductive Seg where
  | lit (bytes : List Nat)
  | rnd
deriving Repr, DecidableEq

abbrev Tmpl := List (List Seg)

def expandLabel (r : List Nat) : List Seg → List Nat
  | [] => []
  | .lit b :: t => b ++ expandLabel r t
  | .rnd :: t => r ++ expandLabel r t

def expandTmpl (r : List Nat) (t : Tmpl) : List (List Nat) := t.map (expandLabel r)

/-- `strings.Repeat("f", 16)`. -/
def maxRand : List Nat := List.replicate 16 102

def legalLabelsB (ls : List (List Nat)) : Bool :=
  ls.all (fun l => decide (1 ≤ l.length) && decide (l.length ≤ 63)) && decide ((encodeName ls).length ≤ 255)

/-- `upstreamHealthcheckConfig.validate` before the fix: `domain_template` is not empty. -/
def tmplAcceptedOld (t : Tmpl) : Bool := !t.isEmpty

/-- As fixed (`forward.ValidateHealthcheckDomainTmpl`): the name with the longest random part packs
and is at most 255 octets long. -/
def tmplAccepted (t : Tmpl) : Bool := legalLabelsB (expandTmpl maxRand t)

/-- A probe can only succeed if a request can be made from the template: `Pack` fails otherwise and
`healthcheckUpstream` records a failed check although nothing was sent. -/
def probesWithTmpl (t : Tmpl) (r : List Nat) (pr : Nat → Probe) : Nat → Probe :=
  fun u => { pr u with ok := (pr u).ok && legalLabelsB (expandTmpl r t) }

end Agd.Forward
