/-!
# Model of the ECS-aware cache path (C05)

`ratelimitmw.location` (ECS validation, GeoIP lookups, FORMERR) followed by
`ecscache.mwHandler.ServeDNS` (`locFromReq`, `SubnetByLocation`, `get`, `setECS`,
`writeUpstreamResponse`, `set`).  Core Lean only.

Abstractions: an address is a family and a number; a DNS message is reduced to its question, its
OPT RRs (option lists) and, for answers, a token naming the upstream exchange that produced it.
GeoIP is a parameter (`Env`).  LRU eviction / TTL expiry are the explicit events `dropN`/`dropE`.
-/
namespace Agd.ECS

inductive Fam | v4 | v6
deriving DecidableEq, Repr, Inhabited

def Fam.bits : Fam → Nat | .v4 => 32 | .v6 => 128
/-- IANA address family number, as in the ECS option. -/
def Fam.num : Fam → Nat | .v4 => 1 | .v6 => 2
/-- Length of the `net.IP` that `addrToNetIP` produces. -/
def Fam.alen : Fam → Nat | .v4 => 4 | .v6 => 16

structure Pfx where
  fam : Fam
  addr : Nat
  bits : Nat
deriving DecidableEq, Repr

def zeroPfx (f : Fam) : Pfx := ⟨f, 0, 0⟩

/-- `geoip.Location` reduced to the fields `locFromReq` copies; `0` is "none". -/
structure Loc where
  ctry : Nat
  subdiv : Nat
  asn : Nat
deriving DecidableEq, Repr

/-- A `dns.EDNS0_SUBNET` as the handler sees it. -/
structure RawECS where
  family : Nat
  alen : Nat
  aval : Nat
  mask : Nat
  scope : Nat
deriving DecidableEq, Repr

inductive Opt
  | ecs (e : RawECS)
  | other (code : Nat)
deriving DecidableEq, Repr

def Opt.isECS : Opt → Bool
  | .ecs _ => true
  | .other _ => false

structure OptRR where
  dobit : Bool
  opts : List Opt
deriving DecidableEq, Repr

/-! ## `dnsmsg.ECSFromMsg` -/

def maskAddr (f : Fam) (a bits : Nat) : Nat := (a >>> (f.bits - bits)) <<< (f.bits - bits)

/-- `netutil.IPToAddr(esn.Address, fam)` after the family check of `ecsData`. -/
def toAddr (e : RawECS) : Option (Fam × Nat) :=
  if e.family = 1 then
    if e.alen = 4 then some (.v4, e.aval)
    else if e.alen = 16 ∧ e.aval >>> 32 = 0xffff then some (.v4, e.aval % 2 ^ 32)
    else none
  else if e.family = 2 then
    if e.alen = 4 then some (.v6, 0xffff * 2 ^ 32 + e.aval)
    else if e.alen = 16 then some (.v6, e.aval)
    else none
  else none

/-- `ecsData`: `none` is an error. -/
def ecsData (e : RawECS) : Option (Pfx × Nat) :=
  match toAddr e with
  | none => none
  | some fa =>
    if e.mask ≤ fa.1.bits ∧ maskAddr fa.1 fa.2 e.mask = fa.2 then some (⟨fa.1, fa.2, e.mask⟩, e.scope)
    else none

inductive ECSRes
  | absent
  | bad
  | ok (p : Pfx) (scope : Nat)
deriving DecidableEq, Repr

/-- The first ECS option decides. -/
def ecsFromOpts : List Opt → ECSRes
  | [] => .absent
  | .other _ :: r => ecsFromOpts r
  | .ecs e :: _ =>
    match ecsData e with
    | none => .bad
    | some ps => .ok ps.1 ps.2

/-- `msg.IsEdns0()` is the last OPT RR of the additional section. -/
def ecsFromMsg (extra : List OptRR) : ECSRes :=
  match extra.getLast? with
  | none => .absent
  | some rr => ecsFromOpts rr.opts

def isDO (extra : List OptRR) : Bool :=
  match extra.getLast? with
  | none => false
  | some rr => rr.dobit

/-! ## `ecscache.setECS` (after the fix: all other ECS options are removed) -/

def stripECS (rr : OptRR) : OptRR := { rr with opts := rr.opts.filter (fun o => !o.isECS) }

def mkECS (p : Pfx) (scope : Nat) : Opt := .ecs ⟨p.fam.num, p.fam.alen, p.addr, p.bits, scope⟩

def appendLast (o : Opt) : List OptRR → List OptRR
  | [] => [⟨true, [o]⟩]
  | [rr] => [{ rr with opts := rr.opts ++ [o] }]
  | rr :: rr' :: rest => rr :: appendLast o (rr' :: rest)

def setECS (extra : List OptRR) (p : Pfx) (isResp : Bool) : List OptRR :=
  appendLast (mkECS p (if isResp then p.bits else 0)) (extra.map stripECS)

/-- The unfixed `setECS` of the pinned tree: only the first ECS option of the last OPT RR is
rewritten in place (its `Family` is kept).  Used for the counter-examples only. -/
def rewriteFirst (p : Pfx) (scope : Nat) : List Opt → Option (List Opt)
  | [] => none
  | .ecs e :: r => some (.ecs { e with alen := p.fam.alen, aval := p.addr, mask := p.bits, scope := scope } :: r)
  | o :: r => (rewriteFirst p scope r).map (o :: ·)

def setECSOld : List OptRR → Pfx → Bool → List OptRR
  | [], p, isResp => [⟨true, [mkECS p (if isResp then p.bits else 0)]⟩]
  | [rr], p, isResp =>
    let sc := if isResp then p.bits else 0
    match rewriteFirst p sc rr.opts with
    | some os => [{ rr with opts := os }]
    | none => [{ rr with opts := rr.opts ++ [mkECS p sc] }]
  | rr :: rr' :: rest, p, isResp => rr :: setECSOld (rr' :: rest) p isResp

/-- All ECS options of all OPT RRs. -/
def ecsOpts (extra : List OptRR) : List Opt :=
  (extra.map (fun rr => rr.opts.filter Opt.isECS)).flatten

/-- `rmHopToHopData` on the OPT RRs of an answer: only EDE (15) survives, empty OPT RRs vanish. -/
def rmHop (extra : List OptRR) : List OptRR :=
  (extra.map (fun rr => { rr with opts := rr.opts.filter (fun o => o == .other 15) })).filter
    (fun rr => !rr.opts.isEmpty)

/-! ## Names

`ratelimitmw.newRequestInfo` puts `agdnet.NormalizeDomain(q.Name)` (final dot removed, ASCII letters
lower-cased; miekg/dns presents every other byte as an ASCII escape) into `ri.Host`, which is what
the cache keys and the host check use; `respIsECSDependent` is asked about `req.Question[0].Name`,
the name as the message spells it.  Names are byte strings; `nameNat` numbers them injectively so
that the rest of the model keeps natural numbers for hosts. -/

def lowerByte (b : Nat) : Nat := if 65 ≤ b ∧ b ≤ 90 then b + 32 else b

/-- `strings.TrimSuffix(fqdn, ".")`. -/
def trimDot (n : List Nat) : List Nat := if n.getLast? = some 46 then n.dropLast else n

/-- `agdnet.NormalizeDomain`. -/
def normalizeDomain (n : List Nat) : List Nat := (trimDot n).map lowerByte

def nameNat (n : List Nat) : Nat := n.foldl (fun a b => a * 256 + b) 1

/-! ## Environment, requests, caches -/

structure Env where
  /-- `geoip.Interface.Data` as a function of the address; used by `locate` only (the theorems
  take the locations of a request as they come). -/
  data : Fam → Nat → Option Loc
  /-- `geoip.Interface.SubnetByLocation`; `none` is an error. -/
  subnet : Loc → Fam → Option Pfx
  /-- membership in `FakeECSFQDNs` of a question name as spelled (`Req.qn`). -/
  fake : Nat → Bool

structure Req where
  rfam : Fam
  raddr : Nat
  host : Nat
  qtype : Nat
  qclass : Nat
  extra : List OptRR
  /-- `ri.Location`: what `geoIP.Data` answered for the remote address when `ratelimitmw.location`
  asked (`none`: nil).  An input: the ECS cache only reads it, and `Data` need not be a function of
  the address (it has a cache of its own, the databases are refreshed). -/
  cl : Option Loc
  /-- `ri.ECS.Location`: the same for the address of a valid ECS option (ignored without one). -/
  el : Option Loc
  /-- `req.Question[0].Name` as the message spells it (numbered by `nameNat`); `host` is the number
  of its normalisation when the request comes from the wire (`Req.ofName`).  Only the fake-ECS list
  is asked about it. -/
  qn : Nat
deriving DecidableEq, Repr

/-- The two names of a request whose question name is the byte string `n`. -/
def hostOfName (n : List Nat) : Nat := nameNat (normalizeDomain n)
def qnOfName (n : List Nat) : Nat := nameNat n

/-- What the upstream does if consulted. -/
structure Up where
  fails : Bool
  cacheable : Bool
  token : Nat
  extra : List OptRR
deriving DecidableEq, Repr

structure NKey where
  host : Nat
  qtype : Nat
  qclass : Nat
  dobit : Bool
  fam : Fam
  declined : Bool
deriving DecidableEq, Repr

structure EKey where
  host : Nat
  qtype : Nat
  qclass : Nat
  dobit : Bool
  subnet : Pfx
deriving DecidableEq, Repr

/-! ## `toCacheKey`: the bytes fed to the 64-bit hash

The caches are modelled as tables over the structural keys above.  The code hashes a byte string:
the host name, then `qType`, `qClass` (little endian), the DO flag and the IPv6 flag, then for the
ECS-aware cache the whole address of the subnet (`addr.AsSlice()`, 4 or 16 bytes) and its length
(`byte(subnet.Bits())`), for the other cache the opt-out flag.  `ekeyBytes`/`nkeyBytes` are these
byte strings without the host (the code compares the host of a hit separately);
`Props/C05.lean` proves that they determine the structural key. -/

/-- `n` bytes of `a`, big endian (`netip.Addr.AsSlice`). -/
def beBytes : Nat → Nat → List Nat
  | 0, _ => []
  | n + 1, a => beBytes n (a / 256) ++ [a % 256]

def b2n (b : Bool) : Nat := if b then 1 else 0

def Fam.is6 : Fam → Bool | .v4 => false | .v6 => true

/-- The fixed-size part `buf[:6]`. -/
def keyHead (qtype qclass : Nat) (dobit : Bool) (f : Fam) : List Nat :=
  [qtype % 256, qtype / 256 % 256, qclass % 256, qclass / 256 % 256, b2n dobit, b2n f.is6]

def ekeyBytes (k : EKey) : List Nat :=
  keyHead k.qtype k.qclass k.dobit k.subnet.fam ++ beBytes k.subnet.fam.alen k.subnet.addr ++
    [k.subnet.bits % 256]

def nkeyBytes (k : NKey) : List Nat :=
  keyHead k.qtype k.qclass k.dobit k.fam ++ [b2n k.declined]

/-- A byte string that keeps only the `bits / 8` leading bytes of the address ("only the bytes
covered by the prefix"); used for a counter-example only. -/
def ekeyBytesLeading (k : EKey) : List Nat :=
  keyHead k.qtype k.qclass k.dobit k.subnet.fam ++
    (beBytes k.subnet.fam.alen k.subnet.addr).take (k.subnet.bits / 8) ++ [k.subnet.bits % 256]

/-- Ranges of the fields as the code has them (`uint16` type and class, an address of the family,
a prefix length within the family). -/
def Pfx.wf (p : Pfx) : Prop := p.addr < 2 ^ p.fam.bits ∧ p.bits ≤ p.fam.bits
def EKey.wf (k : EKey) : Prop := k.qtype < 65536 ∧ k.qclass < 65536 ∧ k.subnet.wf
def NKey.wf (k : NKey) : Prop := k.qtype < 65536 ∧ k.qclass < 65536

structure Item where
  tok : Nat
  extra : List OptRR
deriving DecidableEq, Repr

structure St where
  noecs : NKey → Option Item
  ecs : EKey → Option Item

def St.empty : St := ⟨fun _ => none, fun _ => none⟩

def putN (m : NKey → Option Item) (k : NKey) (v : Option Item) : NKey → Option Item :=
  fun k' => if k' = k then v else m k'

def putE (m : EKey → Option Item) (k : EKey) (v : Option Item) : EKey → Option Item :=
  fun k' => if k' = k then v else m k'

/-! ## `geoip.File`: the subnets assigned to locations

`File.Refresh` scans the networks of the ASN database (`resetLocationSubnets`) and of the country
database (`resetCountrySubnets`), keeps per key and family the network whose length is closest to
the desired one (`replaceSubnet`), widens nothing but lengthens networks shorter than the desired
length (`apply…SubnetHacks`), and `SubnetByLocation` looks a location up: its own key, the top ASN
of its country, its country, the zero prefix. -/

/-- `locationKey`. -/
structure LKey where
  ctry : Nat
  subdiv : Nat
  asn : Nat
deriving DecidableEq, Repr

/-- `desiredIPv4SubnetLength`, `desiredIPv6SubnetLength`. -/
def desired : Fam → Nat | .v4 => 24 | .v6 => 56

def dist (a b : Nat) : Nat := if a ≤ b then b - a else a - b

def putK {K : Type} [DecidableEq K] (m : K → Option Pfx) (k : K) (p : Pfx) : K → Option Pfx :=
  fun k' => if k' = k then some p else m k'

/-- `replaceSubnet`. -/
def replaceSubnet {K : Type} [DecidableEq K] (m : K → Option Pfx) (k : K) (p : Pfx) (want : Nat) :
    K → Option Pfx :=
  match m k with
  | none => if p.bits > want then m else putK m k p
  | some prev => if dist prev.bits want < dist p.bits want then m else putK m k p

/-- One network of a scan goes to the map of its own family. -/
def scanStep {K : Type} [DecidableEq K] (m : Fam → K → Option Pfx) (k : K) (p : Pfx) : Fam → K → Option Pfx :=
  fun f => if f = p.fam then replaceSubnet (m f) k p (desired f) else m f

def scan {K : Type} [DecidableEq K] (m : Fam → K → Option Pfx) : List (K × Pfx) → Fam → K → Option Pfx
  | [] => m
  | kp :: r => scan (scanStep m kp.1 kp.2) r

/-- The loop at the end of `apply…SubnetHacks`. -/
def lengthen (f : Fam) (p : Pfx) : Pfx := if p.bits < desired f then { p with bits := desired f } else p

/-- AS25159 (`applyLocationSubnetHacks`, IPv4 only): 178.176.72.0/24. -/
def hackKey : LKey := ⟨0, 0, 25159⟩
def hackPfx : Pfx := ⟨.v4, 2997897216, 24⟩

structure GeoDB where
  /-- countries whose location keys keep country and subdivision (RU, US, CN, IN). -/
  special : Nat → Bool
  /-- `countryTopASNs`. -/
  topASN : Nat → Option Nat
  /-- `allTopASNs`. -/
  isTop : Nat → Bool
  /-- networks of the ASN database with the country/subdivision of their first address. -/
  asnNets : List (LKey × Pfx)
  /-- networks of the country database with a country (`0` is none). -/
  ctryNets : List (Nat × Pfx)

/-- `newLocationKey`. -/
def GeoDB.key (db : GeoDB) (asn ctry subdiv : Nat) : LKey :=
  if db.special ctry then ⟨ctry, subdiv, asn⟩ else ⟨0, 0, asn⟩

/-- `ipv4LocationSubnets` / `ipv6LocationSubnets` after a refresh.  `asnNets` holds the raw
(asn, country, subdivision) of each network; the key is made here. -/
def GeoDB.locMap (db : GeoDB) (f : Fam) (k : LKey) : Option Pfx :=
  let nets := (db.asnNets.filter (fun n => db.isTop n.1.asn)).map
    (fun n => (db.key n.1.asn n.1.ctry n.1.subdiv, n.2))
  let m := scan (fun _ _ => none) nets
  let m4 : LKey → Option Pfx := if f = .v4 then putK (m f) hackKey hackPfx else m f
  (m4 k).map (lengthen f)

/-- `ipv4CountrySubnets` / `ipv6CountrySubnets` after a refresh. -/
def GeoDB.ctryMap (db : GeoDB) (f : Fam) (c : Nat) : Option Pfx :=
  ((scan (fun _ _ => none) (db.ctryNets.filter (fun n => n.1 != 0))) f c).map (lengthen f)

/-- `File.SubnetByLocation`. -/
def GeoDB.subnetByLocation (db : GeoDB) (l : Loc) (f : Fam) : Pfx :=
  match db.locMap f (db.key l.asn l.ctry l.subdiv) with
  | some n => n
  | none =>
    match (match db.topASN l.ctry with
           | some a => db.locMap f ⟨0, 0, a⟩
           | none => none) with
    | some n => n
    | none =>
      match db.ctryMap f l.ctry with
      | some n => n
      | none => zeroPfx f

/-- The environment of the ECS cache when GeoIP is a `geoip.File` over `db`; `data` (the per-address
look-up, `File.Data`) stays a parameter. -/
def GeoDB.env (db : GeoDB) (data : Fam → Nat → Option Loc) (fake : Nat → Bool) : Env :=
  ⟨data, fun l f => some (db.subnetByLocation l f), fake⟩

/-! ## `geoip.File.Data`: the per-address look-up and its cache

`Data` keeps an LRU of locations keyed by `ipToCacheKey`: the first three bytes of an IPv4 address,
the first seven of an IPv6 address. -/

/-- `ipToCacheKey`. -/
def blockOf (f : Fam) (a : Nat) : Nat :=
  match f with
  | .v4 => a >>> 8
  | .v6 => a >>> 72

/-- `File.Data` for an address: the cached location of its block if there is one, else the
database look-up, which is cached for the block. -/
def dataCached (lookup : Fam → Nat → Loc) (cache : Fam → Nat → Option Loc) (f : Fam) (a : Nat) :
    Loc × (Fam → Nat → Option Loc) :=
  match cache f (blockOf f a) with
  | some l => (l, cache)
  | none =>
    (lookup f a, fun f' k => if f' = f ∧ k = blockOf f a then some (lookup f a) else cache f' k)

/-! ## Request information -/

/-- The client's valid ECS prefix, if any (`ri.ECS`). -/
def clientECS (r : Req) : Option Pfx :=
  match ecsFromMsg r.extra with
  | .ok p _ => some p
  | _ => none

def ecsFamOf (r : Req) : Fam :=
  match clientECS r with
  | some p => p.fam
  | none => r.rfam

def declined (r : Req) : Bool :=
  match clientECS r with
  | some p => p.bits == 0
  | none => false

def locFromReq (cl el : Option Loc) : Loc :=
  let base : Loc := match el with
    | some l => l
    | none => ⟨0, 0, 0⟩
  match cl with
  | some c => if base.ctry = 0 then { base with ctry := c.ctry, asn := c.asn } else base
  | none => base

/-- `locFromReq(ri)`. -/
def locOf (r : Req) : Loc :=
  locFromReq r.cl
    (match clientECS r with
     | some _ => r.el
     | none => none)

/-- `ratelimitmw.location` when `geoIP.Data` is the function `env.data`: the request with its
locations looked up. -/
def locate (env : Env) (r : Req) : Req :=
  { r with
    cl := env.data r.rfam r.raddr
    el := match clientECS r with
      | some p => env.data p.fam p.addr
      | none => none }

/-- The subnet the request is mapped to (`cr.subnet`); `none` when GeoIP fails. -/
def mapped (env : Env) (r : Req) : Option Pfx :=
  if declined r then some (zeroPfx (ecsFamOf r)) else env.subnet (locOf r) (ecsFamOf r)

def nkey (r : Req) (sub : Pfx) : NKey := ⟨r.host, r.qtype, r.qclass, isDO r.extra, sub.fam, declined r⟩
def ekey (r : Req) (sub : Pfx) : EKey := ⟨r.host, r.qtype, r.qclass, isDO r.extra, sub⟩

def upScope (u : Up) : Nat :=
  match ecsFromMsg u.extra with
  | .ok _ sc => sc
  | _ => 0

def respIsECSDependent (env : Env) (scope host : Nat) : Bool := scope != 0 && !env.fake host

def dependent (env : Env) (r : Req) (u : Up) : Bool := respIsECSDependent env (upScope u) r.qn

/-! ## Outcomes -/

inductive Kind | formerr | err | ok
deriving DecidableEq, Repr

/-- Where the answer came from (ghost information; the driver does not print it). -/
inductive Src | none | noecsCache | ecsCache | upstream
deriving DecidableEq, Repr

structure Out where
  kind : Kind
  /-- OPT RRs of the query sent upstream, if the upstream was consulted. -/
  up : Option (List OptRR)
  tok : Option Nat
  /-- OPT RRs of the response written to the client. -/
  rextra : List OptRR
  src : Src
deriving DecidableEq, Repr

def errOut (up : Option (List OptRR)) : Out := ⟨.err, up, none, [], .none⟩

/-- `setECS(resp, ri.ECS, ecsFam, true)` when the client sent a valid option. -/
def respExtra (r : Req) (extra : List OptRR) : List OptRR :=
  match clientECS r with
  | some p => setECS extra p true
  | none => extra

/-- `get` + `writeCachedResponse`, else upstream + `writeUpstreamResponse` + `set`. -/
def serveCache (env : Env) (s : St) (r : Req) (u : Up) : St × Out :=
  match mapped env r with
  | none => (s, errOut none)
  | some sub =>
    match s.noecs (nkey r sub) with
    | some it => (s, ⟨.ok, none, some it.tok, respExtra r it.extra, .noecsCache⟩)
    | none =>
      match (if declined r then none else s.ecs (ekey r sub)) with
      | some it => (s, ⟨.ok, none, some it.tok, respExtra r it.extra, .ecsCache⟩)
      | none =>
        if sub.fam ≠ ecsFamOf r then (s, errOut none)
        else
          let upReq := setECS r.extra sub false
          if u.fails then (s, errOut (some upReq))
          else if ecsFromMsg u.extra = .bad then (s, errOut (some upReq))
          else
            let it : Item := ⟨u.token, rmHop u.extra⟩
            let s' : St :=
              if !u.cacheable then s
              else if dependent env r u then { s with ecs := putE s.ecs (ekey r sub) (some it) }
              else { s with noecs := putN s.noecs (nkey r (zeroPfx (ecsFamOf r))) (some it) }
            (s', ⟨.ok, some upReq, some u.token, respExtra r it.extra, .upstream⟩)

/-- `ratelimitmw`: a malformed option is answered with FORMERR at once. -/
def serve (env : Env) (s : St) (r : Req) (u : Up) : St × Out :=
  if ecsFromMsg r.extra = .bad then (s, ⟨.formerr, none, none, [], .none⟩)
  else serveCache env s r u

/-! ## Overlapping requests

`ServeDNS` runs concurrently for many requests.  Everything it computes before the upstream call
(`cr`: question, DO bit, mapped subnet, opt-out flag; `ecsFam`; the two look-ups) is local to the
call (`cacheReqPool`), the upstream call may take arbitrarily long, and the store (`mw.set`) happens
afterwards, in whatever state the caches are by then.  `finish` is that second half: the request
missed both caches at some earlier moment, now its upstream exchange completes. -/

/-- `ServeDNS` from the upstream call on, for a request mapped to `sub` that missed both caches. -/
def serveMiss (env : Env) (s : St) (r : Req) (sub : Pfx) (u : Up) : St × Out :=
  if sub.fam ≠ ecsFamOf r then (s, errOut none)
  else
    let upReq := setECS r.extra sub false
    if u.fails then (s, errOut (some upReq))
    else if ecsFromMsg u.extra = .bad then (s, errOut (some upReq))
    else
      let it : Item := ⟨u.token, rmHop u.extra⟩
      let s' : St :=
        if !u.cacheable then s
        else if dependent env r u then { s with ecs := putE s.ecs (ekey r sub) (some it) }
        else { s with noecs := putN s.noecs (nkey r (zeroPfx (ecsFamOf r))) (some it) }
      (s', ⟨.ok, some upReq, some u.token, respExtra r it.extra, .upstream⟩)

/-- Completion of a request whose look-ups (in some earlier state) missed. -/
def finish (env : Env) (s : St) (r : Req) (u : Up) : St × Out :=
  if ecsFromMsg r.extra = .bad then (s, ⟨.formerr, none, none, [], .none⟩)
  else
    match mapped env r with
    | none => (s, errOut none)
    | some sub => serveMiss env s r sub u

/-- Events of an execution with overlapping requests: a completion (of a request that started at
any earlier moment), and the cache dropping an entry.  Look-ups do not change the state. -/
inductive CEv
  | fin (r : Req) (u : Up)
  | dropN (k : NKey)
  | dropE (k : EKey)

def stepC (env : Env) (s : St) : CEv → St
  | .fin r u => (finish env s r u).1
  | .dropN k => { s with noecs := putN s.noecs k none }
  | .dropE k => { s with ecs := putE s.ecs k none }

def runC (env : Env) (s : St) : List CEv → St
  | [] => s
  | e :: es => runC env (stepC env s e) es

/-- Events of a history: requests, and the cache dropping an entry (eviction, expiry, clear). -/
inductive Ev
  | req (r : Req) (u : Up)
  | dropN (k : NKey)
  | dropE (k : EKey)

def stepEv (env : Env) (s : St) : Ev → St
  | .req r u => (serve env s r u).1
  | .dropN k => { s with noecs := putN s.noecs k none }
  | .dropE k => { s with ecs := putE s.ecs k none }

def runEv (env : Env) (s : St) : List Ev → St
  | [] => s
  | e :: es => runEv env (stepEv env s e) es

end Agd.ECS
