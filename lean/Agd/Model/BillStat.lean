/-!
# Model of `internal/billstat.RuntimeRecorder` (C16)

Core Lean only.  One `Op` per critical section of the real code (what `r.mu`
guarantees), so every interleaving of the real goroutines is a list of ops:

* `record d m`   – `Record`: under the mutex, create `{meta, Queries: 1}` or overwrite the
                   meta and `Queries++`;
* `begin`        – first half of `Refresh`: `resetRecords` swaps the pending map with an empty
                   one; the old map is the batch handed to `Uploader.Upload`;
* `endOk i`      – the `i`-th in-flight `Upload` returned `nil`: the batch is delivered;
* `endFail i`    – it returned an error: the deferred `remergeRecords` puts the batch back
                   (`!ok ⇒ r.records[id] = prev`, else `curr.Queries += prev.Queries`).

`step` is the recorder *without* serialisation of `Refresh` (the code as found: the refresh
worker, the debug-API refresher and the shutdown refresh may overlap); `stepSer` is the
recorder with `Refresh` serialised by `refreshMu` (the repaired code): a `begin` while an
upload is in flight cannot happen, which the model expresses as a no-op ("blocked").

Ghost fields (`recorded`, `delivered`, `last`, `Batch.snap`) do not influence the
non-ghost fields; they exist so that the theorems can talk about history.
-/
namespace Agd.BillStat

abbrev Dev := Nat

/-- Time (ns), country (index into the harness' pool), ASN, protocol of one query. -/
structure Meta where
  time : Int
  ctry : Nat
  asn : Nat
  proto : Nat
deriving DecidableEq, Repr

/-- `billstat.Record`: meta of the most recent query and the number of queries. -/
structure Rec where
  m : Meta
  n : Nat
deriving DecidableEq, Repr

/-- `billstat.Records` as a total function. -/
abbrev Recs := Dev → Option Rec

def Recs.empty : Recs := fun _ => none

def put (t : Recs) (d : Dev) (r : Rec) : Recs := fun k => if k = d then some r else t k

/-- Number of queries held for `d` in a table. -/
def cnt (t : Recs) (d : Dev) : Nat :=
  match t d with
  | some r => r.n
  | none => 0

/-- `RuntimeRecorder.Record` on the pending table. -/
def record (t : Recs) (d : Dev) (m : Meta) : Recs :=
  match t d with
  | none => put t d ⟨m, 1⟩
  | some r => put t d ⟨m, r.n + 1⟩

/-- `remergeRecords`: the loop body is independent per device, hence pointwise. -/
def remerge (cur prev : Recs) : Recs := fun d =>
  match prev d with
  | none => cur d
  | some p =>
    match cur d with
    | none => some p
    | some c => some ⟨c.m, c.n + p.n⟩

/-- A batch handed to `Upload`; `snap` is ghost: the latest recorded meta per device at the
moment the batch was cut. -/
structure Batch where
  recs : Recs
  snap : Dev → Option Meta

structure St where
  pending : Recs
  inflight : List Batch
  recorded : Dev → Nat
  delivered : Dev → Nat
  last : Dev → Option Meta
  /-- ghost: the batches of the successful uploads, oldest first -/
  log : List Recs := []

def St.init : St :=
  { pending := Recs.empty, inflight := [], recorded := fun _ => 0, delivered := fun _ => 0,
    last := fun _ => none, log := [] }

inductive Op where
  | record (d : Dev) (m : Meta)
  | begin
  | endOk (i : Nat)
  | endFail (i : Nat)
deriving DecidableEq, Repr

/-- One critical section of the recorder whose `Refresh` calls may overlap. -/
def step (s : St) : Op → St
  | .record d m =>
    { s with pending := record s.pending d m,
             recorded := fun k => if k = d then s.recorded k + 1 else s.recorded k,
             last := fun k => if k = d then some m else s.last k }
  | .begin =>
    { s with pending := Recs.empty, inflight := s.inflight ++ [⟨s.pending, s.last⟩] }
  | .endOk i =>
    match s.inflight[i]? with
    | none => s
    | some b =>
      { s with inflight := s.inflight.eraseIdx i,
               delivered := fun k => s.delivered k + cnt b.recs k,
               log := s.log ++ [b.recs] }
  | .endFail i =>
    match s.inflight[i]? with
    | none => s
    | some b =>
      { s with inflight := s.inflight.eraseIdx i, pending := remerge s.pending b.recs }

/-- `begin` is blocked while an upload is in flight (`refreshMu`). -/
def blocked (s : St) : Op → Bool
  | .begin => !s.inflight.isEmpty
  | _ => false

/-- One critical section of the recorder with serialised `Refresh`. -/
def stepSer (s : St) (o : Op) : St := if blocked s o then s else step s o

def run (s : St) : List Op → St
  | [] => s
  | o :: os => run (step s o) os

def runSer (s : St) : List Op → St
  | [] => s
  | o :: os => runSer (stepSer s o) os

/-- Queries of `d` held by the in-flight batches. -/
def sumIn : List Batch → Dev → Nat
  | [], _ => 0
  | b :: bs, d => cnt b.recs d + sumIn bs d

/-- Number of `record` ops for `d` in an op list. -/
def countRec (d : Dev) : List Op → Nat
  | [] => 0
  | .record k _ :: os => (if k = d then 1 else 0) + countRec d os
  | _ :: os => countRec d os

/-- Meta of the last `record` op for `d` in an op list. -/
def lastRec (d : Dev) : List Op → Option Meta
  | [] => none
  | .record k m :: os =>
    match lastRec d os with
    | some m' => some m'
    | none => if k = d then some m else none
  | _ :: os => lastRec d os

/-! ## The uploader: `backendpb.BillStat.Upload` and `recordToProtobuf`

`Record.Queries` is an `int32`; `Record` increments it and `remergeRecords` adds to it with Go's
wrapping arithmetic, and `recordToProtobuf` converts it with `uint32(r.Queries)`.  The model keeps
naturals; `wrap32 n` is what the real field holds when the model holds `n` (see
`Props/C16.lean: int32_tracks_nat`). -/

/-- The value of a Go `int32` that mathematically should hold `z`. -/
def wrap32 (z : Int) : Int := (z + 2147483648) % 4294967296 - 2147483648

/-- Go's `uint32(x)` for an `int32` `x`. -/
def toU32 (z : Int) : Nat := (z % 4294967296).toNat

/-- `DeviceBillingStat` as it goes on the wire. -/
structure Wire where
  dev : Dev
  secs : Int
  nanos : Int
  ctry : Nat
  proto : Nat
  asn : Nat
  queries : Nat
deriving DecidableEq, Repr

/-- `recordToProtobuf`: `timestamppb.New` splits the time into seconds and non-negative
nanoseconds; the count is converted from the wrapped `int32`. -/
def toWire (d : Dev) (r : Rec) : Wire :=
  { dev := d, secs := r.m.time / 1000000000, nanos := r.m.time % 1000000000, ctry := r.m.ctry,
    proto := r.m.proto, asn := r.m.asn, queries := toU32 (wrap32 r.n) }

/-- How the stream of one `Upload` call behaves. -/
inductive CloseRes where
  | ack      -- `CloseAndRecv` returns the backend's response
  | eof      -- `CloseAndRecv` returns `io.EOF` (treated as success by the code)
  | err      -- any other error
deriving DecidableEq, Repr

structure Backend where
  openFails : Bool
  sendFailsAt : Option Nat
  close : CloseRes

/-- The send loop of `Upload` from message number `i` on: (no error?, messages sent). -/
def sendAll (b : Backend) : Nat → List Wire → Bool × List Wire
  | _, [] => (true, [])
  | i, w :: ws =>
    if b.sendFailsAt = some i then (false, [])
    else ((sendAll b (i + 1) ws).1, w :: (sendAll b (i + 1) ws).2)

/-- `BillStat.Upload`: (returned nil?, messages sent).  An empty batch opens no stream. -/
def upload (b : Backend) (batch : List Wire) : Bool × List Wire :=
  if batch.isEmpty then (true, [])
  else if b.openFails then (false, [])
  else if !(sendAll b 0 batch).1 then (false, (sendAll b 0 batch).2)
  else
    match b.close with
    | .err => (false, (sendAll b 0 batch).2)
    | _ => (true, (sendAll b 0 batch).2)

/-! ## Bulk records

`n` consecutive `Record` calls of one device with the same data, in closed form (the driver uses
it for counts around 2³¹; `Props/C16.lean: bulk_eq_iterate` proves it equal to `n` single steps). -/

def recordN (t : Recs) (d : Dev) (m : Meta) (n : Nat) : Recs :=
  if n = 0 then t else put t d ⟨m, cnt t d + n⟩

def bulk (s : St) (d : Dev) (m : Meta) (n : Nat) : St :=
  if n = 0 then s else
  { s with pending := recordN s.pending d m n,
           recorded := fun k => if k = d then s.recorded k + n else s.recorded k,
           last := fun k => if k = d then some m else s.last k }

/-! ## The server's side: `mainmw.recordQueryInfo`

The only caller of `Record`.  What it knows of a handled query, and which `Record` call — if any
— it makes. -/

/-- A query the server has handled, as far as billing can see it. -/
structure Query where
  /-- the device of the profile the request was attributed to, if any (`ri.DeviceData()`) -/
  dev : Option Dev
  /-- country and ASN of the client's address if GeoIP knows it (`ri.Location`) -/
  loc : Option (Nat × Nat)
  /-- `dnsserver.RequestInfo.StartTime` -/
  start : Int
  /-- `ri.Proto`: the protocol of the server that took the request -/
  proto : Nat
  /-- the profile has query logging enabled (must not matter) -/
  qlog : Bool
  /-- the next handler succeeded and the response was written to the client; otherwise `mainmw`
  returns the error before it reaches `recordQueryInfo` -/
  answered : Bool := true
deriving DecidableEq, Repr

/-- `recordQueryInfo`'s call of `Record`: none for a request that was not answered or has no
profile; otherwise the device's id, the client's country and ASN (country "none" = index 0 and
ASN 0 without a location), the request's start time and the server's protocol. -/
def billOf (q : Query) : Option (Dev × Meta) :=
  if !q.answered then none else
  match q.dev with
  | none => none
  | some d =>
    match q.loc with
    | none => some (d, ⟨q.start, 0, 0, q.proto⟩)
    | some l => some (d, ⟨q.start, l.1, l.2, q.proto⟩)

/-! ## End to end: server → recorder → `BillStat.Upload` → backend -/

/-- The messages `BillStat.Upload` hands to the stream for a batch: Go ranges over the map in
some order `order`; devices without a record are not in the map. -/
def wireBatch (order : List Dev) (t : Recs) : List Wire :=
  order.filterMap fun d => (t d).map (toWire d)

/-- Queries reported for `d` by a list of messages. -/
def wireSum (d : Dev) : List Wire → Nat
  | [] => 0
  | w :: ws => (if w.dev = d then w.queries else 0) + wireSum d ws

/-- `order` is an iteration order of the map `t`: every key once. -/
def Covers (order : List Dev) (t : Recs) : Prop :=
  order.Nodup ∧ ∀ d, t d ≠ none → d ∈ order

inductive Ev where
  /-- the server has handled a query -/
  | query (q : Query)
  /-- a `Refresh` starts (refresh worker, debug API or shutdown) -/
  | begin
  /-- the upload in flight runs against a backend behaving as `b`; the map is ranged in `order` -/
  | finish (b : Backend) (order : List Dev)

/-- The recorder ops an event amounts to in state `s`. -/
def lowerEv (s : St) : Ev → List Op
  | .query q =>
    match billOf q with
    | none => []
    | some dm => [.record dm.1 dm.2]
  | .begin => [.begin]
  | .finish b order =>
    match s.inflight[0]? with
    | none => []
    | some batch =>
      if (upload b (wireBatch order batch.recs)).1 then [.endOk 0] else [.endFail 0]

structure E2E where
  st : St
  /-- ghost: per device, the queries the backend was told on streams it acknowledged -/
  acked : Dev → Nat
  /-- ghost: the acknowledged streams, oldest first -/
  streams : List (List Wire)

def E2E.init : E2E := { st := St.init, acked := fun _ => 0, streams := [] }

def E2E.step (e : E2E) (ev : Ev) : E2E :=
  match ev with
  | .finish b order =>
    match e.st.inflight[0]? with
    | none => e
    | some batch =>
      if (upload b (wireBatch order batch.recs)).1 then
        { st := runSer e.st (lowerEv e.st ev),
          acked := fun d => e.acked d + wireSum d (upload b (wireBatch order batch.recs)).2,
          streams := e.streams ++ [(upload b (wireBatch order batch.recs)).2] }
      else { e with st := runSer e.st (lowerEv e.st ev) }
  | _ => { e with st := runSer e.st (lowerEv e.st ev) }

def E2E.run (e : E2E) : List Ev → E2E
  | [] => e
  | ev :: evs => E2E.run (e.step ev) evs

/-- The recorder ops a list of events amounts to from state `s`. -/
def lower (s : St) : List Ev → List Op
  | [] => []
  | ev :: evs => lowerEv s ev ++ lower (runSer s (lowerEv s ev)) evs

/-- Number of handled queries attributed to device `d`. -/
def billed (d : Dev) : List Ev → Nat
  | [] => 0
  | .query q :: evs => (match billOf q with | some dm => if dm.1 = d then 1 else 0 | none => 0) + billed d evs
  | _ :: evs => billed d evs

/-- Billing data of the most recent handled query attributed to `d`. -/
def lastBilled (d : Dev) : List Ev → Option Meta
  | [] => none
  | .query q :: evs =>
    match lastBilled d evs with
    | some m => some m
    | none => match billOf q with
      | some dm => if dm.1 = d then some dm.2 else none
      | none => none
  | _ :: evs => lastBilled d evs

/-- Every upload that finishes ranges over its whole batch, each key once, and no device has
2³² or more queries in one batch. -/
def GoodRun (e : E2E) : List Ev → Prop
  | [] => True
  | ev :: evs =>
    (match ev with
     | .finish _ order => ∀ batch, e.st.inflight[0]? = some batch →
         Covers order batch.recs ∧ ∀ d, cnt batch.recs d < 4294967296
     | _ => True) ∧ GoodRun (e.step ev) evs

/-! ## An independent specification: the ledger

What the recorder is *for*, written without maps of shared records and without a merge: per
device a counter of queries that are owed to the backend, the data of its most recent query, the
counters handed to the upload in progress (at most one: refreshes are serialised), and the list
of reports the backend has acknowledged.  `Props/C16.lean` proves that the recorder refines it. -/

structure Ledger where
  owed : Dev → Nat
  lastM : Dev → Option Meta
  flying : Option (Dev → Nat) := none
  flyMeta : Dev → Option Meta := fun _ => none
  paid : Dev → Nat
  reports : List Recs := []

def Ledger.init : Ledger :=
  { owed := fun _ => 0, lastM := fun _ => none, flying := none, flyMeta := fun _ => none,
    paid := fun _ => 0, reports := [] }

/-- What is shown for a device with `n` owed queries whose most recent query had data `m`. -/
def view (n : Nat) (m : Option Meta) : Option Rec :=
  match m with
  | none => none
  | some m => if n = 0 then none else some ⟨m, n⟩

def Ledger.step (l : Ledger) : Op → Ledger
  | .record d m =>
    { l with owed := fun k => if k = d then l.owed k + 1 else l.owed k,
             lastM := fun k => if k = d then some m else l.lastM k }
  | .begin =>
    match l.flying with
    | some _ => l
    | none => { l with flying := some l.owed, flyMeta := l.lastM, owed := fun _ => 0 }
  | .endOk i =>
    match i, l.flying with
    | 0, some f =>
      { l with flying := none, paid := fun k => l.paid k + f k,
               reports := l.reports ++ [fun k => view (f k) (l.flyMeta k)] }
    | _, _ => l
  | .endFail i =>
    match i, l.flying with
    | 0, some f => { l with flying := none, owed := fun k => l.owed k + f k }
    | _, _ => l

def Ledger.run (l : Ledger) : List Op → Ledger
  | [] => l
  | o :: os => Ledger.run (l.step o) os

end Agd.BillStat
