import Agd.Model.ECS
/-!
# C05, round 4: what lies between the wire / the configuration and `ecscache`

Three pieces of glue that the structural model (`Model/ECS.lean`) takes for granted:

* **the option decoder** — `dns.Msg.Unpack` (miekg/dns 1.1.62, `EDNS0_SUBNET.unpack`) turns the option
  data into the `RawECS` that `ecsData` judges, refuses some byte strings altogether (the whole message
  then fails to unpack and `ServerBase.serveDNS` answers nothing) and silently zero-fills / truncates
  the address field;
* **the server around the handler** — `ServerBase.serveDNSMsgInternal` writes a SERVFAIL whenever the
  handler returns an error, whatever the handler has written before; plain DNS, DoT and DNSCrypt send
  every message written, DoH and DoQ answer with the last message written to their non-writer;
* **the builder** — `cmd.cacheConfig.validate/toInternal` and `dnssvc.wrapPreUpstreamMw` decide from
  `cache.type`, `cache.size` and `cache.ecs_size` whether `ecscache` is in the handler chain at all.

Core Lean only.
-/
namespace Agd.ECS

/-! ## The option decoder -/

/-- Big-endian value of a list of octets. -/
def beVal (bs : List Nat) : Nat := bs.foldl (fun a b => a * 256 + b) 0

/-- `addr := make(net.IP, n); copy(addr, b)`: the first `n` octets of `b`, zero-filled. -/
def padTake (n : Nat) (bs : List Nat) : List Nat :=
  bs.take n ++ List.replicate (n - (bs.take n).length) 0

/-- `EDNS0_SUBNET.unpack` on the option data (family, source prefix length, scope prefix length,
address octets).  `none` is an error: the message does not unpack. -/
def unpackECS : List Nat → Option RawECS
  | f1 :: f0 :: m :: sc :: rest =>
    if f1 * 256 + f0 = 0 then
      -- "dig" sends family 0 with a /0; the address becomes net.IPv4(0, 0, 0, 0)
      if m = 0 then some ⟨0, 16, 0xffff * 2 ^ 32, 0, sc⟩ else none
    else if f1 * 256 + f0 = 1 then
      if m ≤ 32 ∧ sc ≤ 32 then some ⟨1, 16, 0xffff * 2 ^ 32 + beVal (padTake 4 rest), m, sc⟩ else none
    else if f1 * 256 + f0 = 2 then
      if m ≤ 128 ∧ sc ≤ 128 then some ⟨2, 16, beVal (padTake 16 rest), m, sc⟩ else none
    else none
  | _ => none

/-- `EDNS0_SUBNET.pack` of the option `setECS` writes: family, source prefix length, scope, and the
first ⌈bits/8⌉ octets of the masked address. -/
def packECS (p : Pfx) (scope : Nat) : List Nat :=
  [0, p.fam.num, p.bits, scope] ++
    (beBytes p.fam.alen (maskAddr p.fam p.addr p.bits)).take ((p.bits + 7) / 8)

/-- What the client of a query whose only ECS option has the data `b` receives when the upstream
answers: nothing, FORMERR, or a response echoing an ECS option with these data. -/
inductive WireOut
  | dropped
  | formerr
  | echo (b : List Nat)
deriving DecidableEq, Repr

def wireAnswer (b : List Nat) : WireOut :=
  match unpackECS b with
  | none => .dropped
  | some e =>
    match ecsData e with
    | none => .formerr
    | some ps => .echo (packECS ps.1 ps.1.bits)

/-! ## The server around the handler -/

inductive Transport | udp | tcp | dnscrypt | doh | doq
deriving DecidableEq, Repr

inductive RC | noerror | formerr | servfail
deriving DecidableEq, Repr

/-- One run of the handler chain: the responses written, in order, and whether an error came back. -/
structure HandlerRun where
  writes : List RC
  err : Bool
deriving DecidableEq, Repr

/-- `serveDNSMsgInternal`: `if err != nil { … rw.WriteMsg(ctx, req, SERVFAIL) }`. -/
def serverWrites (h : HandlerRun) : List RC := h.writes ++ (if h.err then [.servfail] else [])

/-- What reaches the client. -/
def delivered (t : Transport) (ws : List RC) : List RC :=
  match t with
  | .doh | .doq => ws.getLast?.toList
  | _ => ws

/-- `processLocationErr` on a `BadECSError` whose FORMERR is written successfully: before the fix the
original error was returned as well (`errors.WithDeferred(origErr, writeErr)`), now only the write
error (nil). -/
def formerrRunOld : HandlerRun := ⟨[.formerr], true⟩
def formerrRunNew : HandlerRun := ⟨[.formerr], false⟩

/-! ## The builder -/

inductive CacheKind | none | simple | ecs
deriving DecidableEq, Repr

/-- The `cache` object of the configuration file. -/
structure CacheYAML where
  /-- 0 = "simple", 1 = "ecs", anything else = another string -/
  typ : Nat
  size : Int
  ecsSize : Int
deriving DecidableEq, Repr

/-- `cacheConfig.validate` (the `ttl_override` part aside). -/
def CacheYAML.valid (c : CacheYAML) : Bool :=
  (c.typ = 0 || c.typ = 1) && decide (0 ≤ c.size) && !(c.typ = 1 && decide (c.ecsSize ≤ 0))

/-- `cacheConfig.toInternal`. -/
def CacheYAML.kind (c : CacheYAML) : CacheKind :=
  if c.size = 0 then .none else if c.typ = 0 then .simple else .ecs

/-- The sizes handed to `ecscache.NewMiddleware` (`NoECSCount`, `ECSCount`). -/
def CacheYAML.counts (c : CacheYAML) : Int × Int := (c.size, c.ecsSize)

/-- The option lists of the query that reaches the upstream for a cache miss: with `ecscache` in the
chain, `setECS` of the mapped subnet; otherwise (`wrapPreUpstreamMw`, cases `CacheTypeNone` and
`CacheTypeSimple`) the client's own OPT RRs, untouched. -/
def upstreamExtra (k : CacheKind) (env : Env) (r : Req) : Option (List OptRR) :=
  match k with
  | .ecs => (mapped env r).map fun sub => setECS r.extra sub false
  | _ => some r.extra

end Agd.ECS
