/-!
# How a server hands a response to the client and releases it (C07, round 4)

Core Lean only.  The events of serving one request on each transport of `internal/dnsserver`, as the code
orders them: the handler stack produces the response, the transport writes it (normalise, pack into a pooled
byte buffer, write), and somebody releases it to the message pools (`Disposer.Dispose`, in production the
`dnsmsg.Cloner`, wired by `dnssvc.New`).  Plain DNS and DNS-over-TLS write inside the handler call (the UDP /
TCP response writer) and `ServerBase.dispose` releases afterwards; DoH and DoQ hand the handler a
`NonWriterResponseWriter`, write themselves after `serveDNSMsg` has returned and release then; DNSCrypt never
releases.  Second part: the question that a response echoes when the handler has rewritten the request.
-/
namespace Agd.Release

inductive Transport | udp | tcp | dot | doh | doq | dnscrypt
  deriving DecidableEq, Repr

/-- The response writer that `ServerBase.serveDNSMsg` is called with. -/
inductive Writer | udpW | tcpW | nonWriter | other
  deriving DecidableEq, Repr

def writer : Transport → Writer
  | .udp => .udpW
  | .tcp | .dot => .tcpW
  | .doh | .doq => .nonWriter
  | .dnscrypt => .other

/-- The type switch of `ServerBase.dispose`; `extra` are writer types added to its first case (none in the
code: `serverbase_dispose_cases_src`). -/
def baseReleases (extra : List Writer) (w : Writer) : Bool :=
  w == .udpW || w == .tcpW || extra.contains w

/-- The transports whose own code calls `Dispose` after it has written the response. -/
def ownRelease : Transport → Bool
  | .doh | .doq => true
  | _ => false

inductive Ev | handler | write | release
  deriving DecidableEq, Repr

/-- The events of one request that got a response, in the order of the code.  `extra`: see `baseReleases`;
`early`: the transport's own release comes before its write (not the code: `doh_release_order_src`,
`doq_release_order_src`). -/
def serve (extra : List Writer) (early : Bool) (t : Transport) : List Ev :=
  let inHandler : List Ev := if writer t == .nonWriter then [.handler] else [.handler, .write]
  let base : List Ev := if baseReleases extra (writer t) then [.release] else []
  let own : List Ev :=
    if writer t == .nonWriter then
      (if ownRelease t then (if early then [.release, .write] else [.write, .release]) else [.write])
    else []
  inHandler ++ base ++ own

/-- The code. -/
def serveCode (t : Transport) : List Ev := serve [] false t

/-- The discipline that the message pools rely on (`Agd.Pools.Disc`): a response is released at most once,
and nothing is done with it afterwards. -/
def Disciplined : List Ev → Bool
  | [] => true
  | .release :: rest => rest.isEmpty
  | _ :: rest => Disciplined rest

/-! ## The question that a response echoes -/

def classIN : Nat := 1
def classCHAOS : Nat := 3

/-- What the handler stack does with a request of class `q`: `mainmw.newFilteringContext` rewrites the class
of a CHAOS (debug) question to IN in the request itself; `restore` is the deferred assignment of the `fix:`
commit (`debug_class_restore_src`), which puts CHAOS back when the handler returns.  Result: the class in the
request when the handler has returned, and the class of the question of the response that the handler wrote
(`none`: it returned an error, e.g. the upstreams are down). -/
def handle (restore : Bool) (q : Nat) (fails : Bool) : Nat × Option Nat :=
  let isDebug := q == classCHAOS
  let rewritten := if isDebug then classIN else q
  let after := if isDebug && restore then classCHAOS else rewritten
  -- `writeDebugResponse` sets the class of the response's question to CHAOS; otherwise the response
  -- echoes the (rewritten = original) question.
  (after, if fails then none else some (if isDebug then classCHAOS else rewritten))

/-- The class of the question of what the client receives: the handler's response, or the SERVFAIL that
`ServerBase.serveDNSMsgInternal` builds from the request (`genErrorResponse(req, …)`) after an error. -/
def answeredClass (restore : Bool) (q : Nat) (fails : Bool) : Nat :=
  match (handle restore q fails).2 with
  | some c => c
  | none => (handle restore q fails).1

end Agd.Release
