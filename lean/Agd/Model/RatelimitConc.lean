import Agd.Model.Ratelimit
/-!
# C09 model, part 3: goroutines

`RequestCounter.Add` is called from many goroutines at once (one per UDP query).  Its body is three
shared-memory steps — `ring.Push(ts)`, `ring.Current()`, the comparison — bracketed by
`r.mu.Lock()` / `defer r.mu.Unlock()`.  The small-step model below interleaves any number of
goroutines under an arbitrary scheduler, with and without the mutex.

The second half models the get-or-create of the per-subnet counter in `Backoff.hasHitRateLimit`
(`reqCounters.Get`, on a miss `NewRequestCounter` + `SetDefault`, then `Add`), which is *not* atomic.
-/
namespace Agd.Ratelimit.Conc

open Agd.Ratelimit

/-- Program counter of one goroutine executing `RequestCounter.Add(ts)`. -/
inductive PC
  | start              -- before `r.mu.Lock()`
  | locked             -- inside the critical section, before `r.ring.Push(ts)`
  | pushed             -- after `Push`, before `tail := r.ring.Current()`, the comparison and `Unlock`
  | done (res : Bool)  -- returned `res`
deriving Repr, DecidableEq

structure Th where
  ts : Int
  pc : PC
deriving Repr, DecidableEq

/-- Shared state.  `order` is ghost state: the goroutines in the order in which they entered the
critical section (oldest first); no step reads it. -/
structure CSt where
  ring : Ring
  holder : Option Nat
  ths : List Th
  order : List Nat
deriving Repr, DecidableEq

def init (size : Nat) (stamps : List Int) : CSt :=
  { ring := Ring.new size, holder := none, ths := stamps.map (fun t => ⟨t, .start⟩), order := [] }

/-- One scheduler step of goroutine `i`.  With `mutex = true` a goroutine at `start` can only move
when nobody holds the mutex (otherwise it stays blocked: the step is a no-op). -/
def step (mutex : Bool) (ivl : Int) (s : CSt) (i : Nat) : CSt :=
  match s.ths[i]? with
  | none => s
  | some th =>
    match th.pc with
    | .start =>
      if mutex && s.holder.isSome then s
      else { s with holder := if mutex then some i else s.holder, order := s.order ++ [i],
                    ths := s.ths.set i { th with pc := .locked } }
    | .locked => { s with ring := s.ring.push th.ts, ths := s.ths.set i { th with pc := .pushed } }
    | .pushed =>
      { s with holder := if mutex then none else s.holder,
               ths := s.ths.set i { th with pc := .done (decide (s.ring.current > 0) &&
                                                          decide (th.ts - s.ring.current ≤ ivl)) } }
    | .done _ => s

def run (mutex : Bool) (ivl : Int) (s : CSt) (sched : List Nat) : CSt :=
  sched.foldl (step mutex ivl) s

def Th.result (t : Th) : Option Bool :=
  match t.pc with
  | .done r => some r
  | _ => none

def allDone (s : CSt) : Bool := s.ths.all (fun t => t.result.isSome)

/-- What goroutine `i` returned. -/
def resultOf (s : CSt) (i : Nat) : Option Bool := (s.ths[i]?).bind Th.result

/-- The stamp goroutine `i` was called with. -/
def stampOf (stamps : List Int) (i : Nat) : Int := stamps.getD i 0

/-! ## Get-or-create of the per-subnet counter (`Backoff.hasHitRateLimit`) -/

/-- Program counter of one goroutine executing `hasHitRateLimit` for one subnet key. -/
inductive GPC
  | get                       -- before `reqCounters.Get(key)`
  | miss                      -- `Get` found nothing: before `NewRequestCounter` + `SetDefault`
  | add (obj : Nat)           -- holds counter object `obj`, before `r.Add(now)` (atomic: see `mutex_linearizable`)
  | done (res : Bool)
deriving Repr, DecidableEq

structure GTh where
  ts : Int
  pc : GPC
deriving Repr, DecidableEq

/-- The cache slot of the key (`none` = no entry) and the heap of counter objects (histories, most
recent first), indexed by the goroutine that allocated them; object `0` is the one in a warm slot. -/
structure GSt where
  slot : Option Nat
  objs : Nat → List Int
  ths : List GTh

def ginit (warm : Bool) (stamps : List Int) : GSt :=
  { slot := if warm then some 0 else none, objs := fun _ => [], ths := stamps.map (fun t => ⟨t, .get⟩) }

/-- Goroutine `i` allocates object `i + 1`. -/
def gstep (num : Nat) (ivl : Int) (s : GSt) (i : Nat) : GSt :=
  match s.ths[i]? with
  | none => s
  | some th =>
    match th.pc with
    | .get =>
      match s.slot with
      | some o => { s with ths := s.ths.set i { th with pc := .add o } }
      | none => { s with ths := s.ths.set i { th with pc := .miss } }
    | .miss => { s with slot := some (i + 1), ths := s.ths.set i { th with pc := .add (i + 1) } }
    | .add o =>
      { s with objs := fun j => if j = o then th.ts :: s.objs o else s.objs j,
               ths := s.ths.set i { th with pc := .done (above num ivl (s.objs o) th.ts) } }
    | .done _ => s

def grun (num : Nat) (ivl : Int) (s : GSt) (sched : List Nat) : GSt :=
  sched.foldl (gstep num ivl) s

def gresults (s : GSt) : List (Option Bool) :=
  s.ths.map (fun t => match t.pc with | .done r => some r | _ => none)

/-- The order in which goroutines performed their `Add` is ghost-free here: for a warm slot every
goroutine adds to object 0, whose history is the reversed sequence of the stamps added. -/
def gAllDone (s : GSt) : Bool := (gresults s).all Option.isSome

end Agd.Ratelimit.Conc
