/-!
Executable model of `internal/filter/hashprefix` (Storage, Matcher, Filter's host
selection) and of the TXT branch of `dnssvc/internal/preservice` (C11).  Core Lean only.

Everything is over byte strings (`List UInt8`): Go strings are byte strings, host names
reach the code in presentation format and need not be UTF-8.

Parameters (never looked into by the theorems):
* `H : Bytes → Bytes` – SHA-256 (`Agd.Sha256.sum` in the driver);
* `ps : Bytes → Bytes × Bool` – `publicsuffix.PublicSuffix` (suffix, icann), supplied by the
  harness as a table.
-/
namespace Agd.HashPrefix

abbrev Bytes := List UInt8

def dot : UInt8 := 46
def sharp : UInt8 := 35
def lf : UInt8 := 10
def cr : UInt8 := 13

/-- `strings.Split(s, sep)` for a one-byte separator; never returns `[]`. -/
def splitOn (sep : UInt8) : Bytes → List Bytes
  | [] => [[]]
  | c :: r =>
    if c = sep then [] :: splitOn sep r
    else match splitOn sep r with
      | [] => [[c]]
      | l :: ls => (c :: l) :: ls

/-! ### Storage -/

/-- `bufio.dropCR`. -/
def dropCR (l : Bytes) : Bytes := if l.getLast? = some cr then l.dropLast else l

/-- `bufio.MaxScanTokenSize`: a line whose content reaches this size makes `Scan` fail. -/
def maxToken : Nat := 65536

/-- `sc.Err() != nil`: some raw line (without its `\n`) is at least `maxToken` bytes long. -/
def tooLong (text : Bytes) : Bool := (splitOn lf text).any (fun l => decide (maxToken ≤ l.length))

/-- The test in `Storage.Reset`: `len(host) == 0 || host[0] == '#'` ⇒ skipped. -/
def keepLine (l : Bytes) : Bool :=
  match l with
  | [] => false
  | c :: _ => c != sharp

/-- The names a list text contributes: lines as `bufio.ScanLines` yields them (split on `\n`,
one trailing `\r` dropped), minus blank lines and `#` comments; duplicates stay. -/
def listed (text : Bytes) : List Bytes := ((splitOn lf text).map dropCR).filter keepLine

/-- `suffixMap`: hash prefix (2 bytes) ↦ hash suffixes in insertion order. -/
abbrev Store := Bytes → List Bytes

def Store.empty : Store := fun _ => []

/-- `next[pref] = append(next[pref], suf)`. -/
def Store.add (st : Store) (h : Bytes) : Store :=
  fun p => if p = h.take 2 then st p ++ [h.drop 2] else st p

def build (H : Bytes → Bytes) (names : List Bytes) : Store :=
  names.foldl (fun st n => st.add (H n)) Store.empty

/-- `Storage.Reset`: on a scanner error the old map stays; otherwise a *fresh* map replaces it. -/
def reset (H : Bytes → Bytes) (st : Store) (text : Bytes) : Store × Option Nat :=
  if tooLong text then (st, none) else (build H (listed text), some (listed text).length)

/-- `NewStorage(hostnames)`: an empty map, reset with the text unless the text is empty; a scanner
error means no storage at all (`none`). -/
def newStorage (H : Bytes → Bytes) (text : Bytes) : Option Store × Option Nat :=
  if text = [] then (some Store.empty, some 0)
  else match (reset H Store.empty text).2 with
    | none => (none, none)
    | some n => (some (reset H Store.empty text).1, some n)

/-- `Storage.Matches` on the digest of the host. -/
def matchesSum (st : Store) (sum : Bytes) : Bool :=
  (st (sum.take 2)).any (fun suf => sum.take 2 ++ suf == sum)

def «matches» (H : Bytes → Bytes) (st : Store) (host : Bytes) : Bool := matchesSum st (H host)

/-- `Storage.Hashes` (binary digests; the hex encoding is applied by the driver). -/
def hashes (st : Store) (prefs : List Bytes) : List Bytes :=
  prefs.flatMap (fun p => (st p).map (fun suf => p ++ suf))

/-- One nibble as a lower-case hex character (`hex.Encode`). -/
def hexDigit (n : UInt8) : UInt8 := if n < 10 then 48 + n else 87 + n

/-- `hex.Encode`: the answer strings of `Storage.Hashes` are the digests in lower-case hex. -/
def hexEncode : Bytes → Bytes
  | [] => []
  | b :: r => hexDigit (b / 16) :: hexDigit (b % 16) :: hexEncode r

/-- `Storage.Hashes` as the code returns it: hex strings. -/
def hashesHex (st : Store) (prefs : List Bytes) : List Bytes := (hashes st prefs).map hexEncode

/-! ### prefixesFromStr -/

def isHex (c : UInt8) : Bool :=
  (48 ≤ c && c ≤ 57) || (97 ≤ c && c ≤ 102) || (65 ≤ c && c ≤ 70)

def hexVal (c : UInt8) : UInt8 := if c ≤ 57 then c - 48 else if c ≤ 70 then c - 55 else c - 87

/-- `hex.Decode`. -/
def decodeHex : Bytes → Option Bytes
  | [] => some []
  | [_] => none
  | a :: b :: r =>
    if isHex a && isHex b then (decodeHex r).map (fun t => (hexVal a * 16 + hexVal b) :: t) else none

/-- One dot-separated piece → the four-character string put into the set.  An eight-character
legacy piece must decode as a whole (fix a7f0f3a) and is then truncated. -/
def piece (s : Bytes) : Option Bytes :=
  if s.length = 4 then some s
  else if s.length = 8 then (if (decodeHex s).isSome then some (s.take 4) else none)
  else none

def allSome {α : Type} : List (Option α) → Option (List α)
  | [] => some []
  | none :: _ => none
  | some a :: r => (allSome r).map (a :: ·)

/-- `container.MapSet[string]`: keeps one copy of each string (iteration order is not modelled;
the harness compares sorted). -/
def dedup : List Bytes → List Bytes
  | [] => []
  | a :: r => if a ∈ r then dedup r else a :: dedup r

/-- The two loops of `prefixesFromStr`: the switch over the pieces filling the set, then the
decoding of the set's values. -/
def decodePieces (xs : List Bytes) : Option (List Bytes) :=
  match allSome (xs.map piece) with
  | none => none
  | some ps => allSome ((dedup ps).map decodeHex)

/-- `prefixesFromStr`: `none` is the error return. -/
def prefixesFromStr (s : Bytes) : Option (List Bytes) :=
  if s = [] then some [] else decodePieces (splitOn dot s)

/-! ### hashableSubdomains -/

def countDots (d : Bytes) : Nat := d.count dot

/-- `domain[i+1:]` for `i` = index of the `subDomainNum`-th dot from the end
(`strings.LastIndexFunc` with the counting closure), or the whole domain when there are fewer
dots: the longest suffix of `d` with at most three dots. -/
def cut4 : Bytes → Bytes
  | [] => []
  | c :: r => if countDots (c :: r) ≤ 3 then c :: r else cut4 r

/-- `strings.LastIndexFunc(domain, f)` with the counting closure `f`, as it runs: from the last
byte to the first (a dot is one byte and never part of a longer UTF-8 sequence, so bytes and runes
agree), `dotsNum` in `n`, the bytes already passed in `acc`.  `some acc` = `domain[i+1:]` at the
first byte where the closure returns true; `none` = the closure never did (`i == -1`). -/
def cutScan : Bytes → Nat → Bytes → Option Bytes
  | [], _, _ => none
  | c :: r, n, acc =>
    if (if c = dot then n + 1 else n) = 4 then some acc
    else cutScan r (if c = dot then n + 1 else n) (c :: acc)

/-- The cut as `hashableSubdomains` performs it; `cut4Scan_eq` proves it equal to `cut4`. -/
def cut4Scan (d : Bytes) : Bytes :=
  match cutScan d.reverse 0 [] with
  | some s => s
  | none => d

/-- The strict parents of `d`: what follows each dot, left to right. -/
def parents : Bytes → List Bytes
  | [] => []
  | c :: r => if c = dot then r :: parents r else parents r

/-- `netutil.Subdomains`. -/
def subdomains (d : Bytes) : List Bytes := if d = [] then [] else d :: parents d

/-- `_, parent, ok := strings.Cut(s, ".")`. -/
def afterDot : Bytes → Option Bytes
  | [] => none
  | c :: r => if c = dot then some r else afterDot r

/-- The loop added by fix 693a9d2: starting from `PublicSuffix(domain)`, while the suffix is
private, look up the public suffix of the private suffix's parent; no ICANN suffix ⇒ `""`.
`fuel` is a termination device only (the real suffixes shrink strictly). -/
def icannSuffix (ps : Bytes → Bytes × Bool) : Nat → Bytes × Bool → Bytes
  | 0, _ => []
  | fuel + 1, cur =>
    if cur.2 then cur.1
    else match afterDot cur.1 with
      | none => []
      | some parent => icannSuffix ps fuel (ps parent)

def effSuffix (ps : Bytes → Bytes × Bool) (d : Bytes) : Bytes :=
  icannSuffix ps (d.length + 1) (ps d)

/-- The part of `hashableSubdomains` after the suffix has been determined. -/
def hashableCore (d p : Bytes) : List Bytes := (subdomains (cut4Scan d)).takeWhile (fun s => s != p)

def hashableSubdomains (ps : Bytes → Bytes × Bool) (d : Bytes) : List Bytes :=
  hashableCore d (effSuffix ps d)

/-! ### Filter.FilterRequest: which host, if any, is the matched rule -/

/-- `isFilterable`: A (1), AAAA (28), HTTPS (65). -/
def isFilterable (qt : Nat) : Bool := qt == 65 || qt == 1 || qt == 28

/-- The first hashable subdomain whose digest is stored; `matched == ""` counts as no match. -/
def firstMatch (H : Bytes → Bytes) (st : Store) (subs : List Bytes) : Option Bytes :=
  match subs.find? (fun s => «matches» H st s) with
  | some [] => none
  | r => r

/-- The rule text of the filter's verdict, `none` = not filtered (result cache not modelled: it
is cleared by every refresh, see C12). -/
def filterRule (H : Bytes → Bytes) (ps : Bytes → Bytes × Bool) (st : Store) (host : Bytes) (qt : Nat) :
    Option Bytes :=
  if isFilterable qt then firstMatch H st (hashableSubdomains ps host) else none

/-! ### Matcher.MatchByPrefix and preservice.respondWithHashes -/

inductive MatchOut where
  | notMatched
  | err
  | ok (hashes : List Bytes)
  deriving DecidableEq, Repr

/-- The storages map as a list of (domain suffix, store index).  The harness and the theorems
only use maps where no suffix is a suffix of another one, so Go's map order cannot matter. -/
abbrev MatcherCfg := List (Bytes × Nat)

def findSuffix (cfg : MatcherCfg) (host : Bytes) : Option (Bytes × Nat) :=
  cfg.find? (fun e => decide (e.1 <:+ host))

def matchByPrefix (stores : Nat → Store) (cfg : MatcherCfg) (host : Bytes) : MatchOut :=
  match findSuffix cfg host with
  | none => .notMatched
  | some e =>
    match prefixesFromStr (host.take (host.length - e.1.length)) with
    | none => .err
    | some prefs => .ok (hashes (stores e.2) prefs)

inductive Resp where
  | pass      -- handed to the next handler
  | refused   -- REFUSED written, next handler not called
  | txt (hashes : List Bytes)
  deriving DecidableEq, Repr

/-- preservice `Wrap` as far as hash queries go: only TXT questions are looked at. -/
def respond (stores : Nat → Store) (cfg : MatcherCfg) (host : Bytes) (qt : Nat) : Resp :=
  if qt = 16 then
    match matchByPrefix stores cfg host with
    | .err => .refused
    | .notMatched => .pass
    | .ok hs => .txt hs
  else .pass

/-! ### From the question to the host, and to the lists switched on for the client -/

/-- `unicode.ToLower` on an ASCII byte (question names are ASCII in presentation format: every
other byte of a label is written as a `\DDD` escape by the DNS library). -/
def lowerByte (c : UInt8) : UInt8 := if 65 ≤ c ∧ c ≤ 90 then c + 32 else c

/-- `strings.TrimSuffix(fqdn, ".")`: one final dot. -/
def dropFinalDot (q : Bytes) : Bytes := if q.getLast? = some dot then q.dropLast else q

/-- `agdnet.NormalizeDomain`, which makes `ri.Host` of the question name (`newRequestInfo`). -/
def normalizeDomain (q : Bytes) : Bytes := (dropFinalDot q).map lowerByte

/-- The hash-prefix lists a question meets, in the order in which the composite filter asks them:
`filterstorage.setSafeBrowsing` / `setParental` put the dangerous-domains (0), adult (1) and
newly-registered (2) filters into the composite configuration, `composite.New` orders them. -/
def enabledLists (sbOn danger newReg parOn adult : Bool) : List Nat :=
  (if sbOn && danger then [0] else []) ++ (if parOn && adult then [1] else []) ++
    (if sbOn && newReg then [2] else [])

/-- The verdict on a question as the client sends it: the first enabled list whose filter claims the
normalised host, with the rule. -/
def questionVerdict (H : Bytes → Bytes) (ps : Bytes → Bytes × Bool) (stores : Nat → Store)
    (enabled : List Nat) (qname : Bytes) (qt : Nat) : Option (Nat × Bytes) :=
  enabled.findSome? (fun i => (filterRule H ps (stores i) (normalizeDomain qname) qt).map (fun r => (i, r)))

/-- The pre-service answer to a question as the client sends it. -/
def questionRespond (stores : Nat → Store) (cfg : MatcherCfg) (qname : Bytes) (qt : Nat) : Resp :=
  respond stores cfg (normalizeDomain qname) qt

/-! ### What the builder makes of the configuration (internal/cmd) -/

/-- `.sb.dns.adguard.com` and `.pc.dns.adguard.com` (Tie `sb_suffix_src`, `pc_suffix_src`). -/
def sbSuffix : Bytes := [46, 115, 98, 46, 100, 110, 115, 46, 97, 100, 103, 117, 97, 114, 100, 46, 99, 111, 109]
def pcSuffix : Bytes := [46, 112, 99, 46, 100, 110, 115, 46, 97, 100, 103, 117, 97, 114, 100, 46, 99, 111, 109]

/-- The matcher of `builder.initHashPrefixFilters`: the storage of the dangerous-domains list (0)
under the general suffix and that of the adult list (1) under the parental one, each only when its
environment switch (`SAFE_BROWSING_ENABLED`, `ADULT_BLOCKING_ENABLED`) is on; the newly-registered
list has no TXT suffix. -/
def builtCfg (sbEnv adultEnv : Bool) : MatcherCfg :=
  (if adultEnv then [(pcSuffix, 1)] else []) ++ (if sbEnv then [(sbSuffix, 0)] else [])

/-- The lists a question meets when the builder has created a filter only for the lists whose
environment switch is on: the others are nil in `filterstorage.ConfigHashPrefix`, and
`composite.New` leaves nil filters out. -/
def builtLists (sbEnv adultEnv nrdEnv : Bool) (enabled : List Nat) : List Nat :=
  enabled.filter (fun i => (i == 0 && sbEnv) || (i == 1 && adultEnv) || (i == 2 && nrdEnv))

/-- A refresh from the list's URL: `refreshable.refreshFromURL` refuses an empty body ("empty text,
not resetting"), so the list before stays; anything else goes to `Storage.Reset`. -/
def installText (H : Bytes → Bytes) (st : Store) (text : Bytes) : Store × Option Nat :=
  if text = [] then (st, none) else reset H st text

/-! ### Histories of resets -/

/-- `Storage.Reset` applied to storage number `i`. -/
def resetAt (H : Bytes → Bytes) (stores : Nat → Store) (i : Nat) (text : Bytes) : Nat → Store :=
  fun j => if j = i then (reset H (stores i) text).1 else stores j

def runResets (H : Bytes → Bytes) (stores : Nat → Store) : List (Nat × Bytes) → (Nat → Store)
  | [] => stores
  | (i, t) :: r => runResets H (resetAt H stores i t) r

/-! ### `Storage.Hashes` next to concurrent `Reset`s

`Reset` swaps the shared map atomically while lookups run.  The functions above describe a lookup
on one map; what ties them to a lookup that overlaps resets is that the code reads the shared
pointer once.  `hashesLoads` is `Storage.Hashes` as it computes its answer, with the map every
single look-up goes to made explicit, so that "once" can be stated and its negation refuted. -/

/-- The counting loop: `l += len(hashSufs)`, the `k`-th prefix looked up in the `k`-th map. -/
def countLoop (maps : List Store) (prefs : List Bytes) : Nat :=
  ((maps.zip prefs).map (fun sp => (sp.1 sp.2).length)).sum

/-- The encoding loop: the digests written to the buffer, the `k`-th prefix looked up in the
`k`-th map. -/
def encodeLoop (maps : List Store) (prefs : List Bytes) : List Bytes :=
  (maps.zip prefs).flatMap (fun sp => (sp.1 sp.2).map (fun suf => sp.2 ++ suf))

/-- `Storage.Hashes`: count, encode into one buffer, cut the buffer into `l` digests.  `cnt` are
the maps the counting loop sees and `enc` those the encoding loop sees, one per requested prefix
(a `Reset` may replace the shared map between any two look-ups).  `none` is the panic of
`str[i*hashEncLen:(i+1)*hashEncLen]` when the buffer holds fewer than `l` digests.  The code loads
the pointer once, before both loops (Tie `hashes_loads_src`): it is the instance with the same
map everywhere, which is `hashes` (`hashesLoads_snapshot`). -/
def hashesLoads (cnt enc : List Store) (prefs : List Bytes) : Option (List Bytes) :=
  if prefs = [] then some []
  else if (encodeLoop enc prefs).length < countLoop cnt prefs then none
  else some ((encodeLoop enc prefs).take (countLoop cnt prefs))

/-- The candidate loop of `Filter.FilterRequest` with the map every single look-up goes to made
explicit: candidate number `k` is looked up in `maps[k]`.  Before `Storage.MatchesAny` the loop
called `Storage.Matches` per candidate and every call loaded the shared pointer anew, so the maps
could differ (`filter_reload_counterexample`); `MatchesAny` loads it once, before the loop (Tie
`matches_any_calls_src`, `filter_match_call_src`): the instance with the same map everywhere, which
is `firstMatch` (`firstMatchLoads_snapshot`). -/
def firstMatchLoads (H : Bytes → Bytes) : List Store → List Bytes → Option Bytes
  | st :: maps, s :: subs =>
    if «matches» H st s then (if s = [] then none else some s) else firstMatchLoads H maps subs
  | _, _ => none

/-- `FilterRequest` with the maps of its look-ups explicit. -/
def filterRuleLoads (H : Bytes → Bytes) (ps : Bytes → Bytes × Bool) (maps : List Store) (host : Bytes)
    (qt : Nat) : Option Bytes :=
  if isFilterable qt then firstMatchLoads H maps (hashableSubdomains ps host) else none

/-- The map in force after the first `k` resets of a history: what a lookup that loads the
pointer at that moment works on, whatever the later resets do meanwhile. -/
def storeAt (H : Bytes → Bytes) (stores : Nat → Store) (ops : List (Nat × Bytes)) (k i : Nat) : Store :=
  runResets H stores (ops.take k) i

end Agd.HashPrefix
