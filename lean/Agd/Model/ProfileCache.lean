/-!
# Model of the profile file cache (C14): `filecachepb.toProtobuf` / `toInternal`,
`Storage.Load`'s version check, `loadFileCache`'s empty-cache rule, and the write-then-rename
protocol of `renameio.WriteFile`.

Opaque values (identifiers, names, rule texts, time-zone names) are natural numbers and are carried
unchanged, which is what the converters do with them.  IP addresses of devices (linked, dedicated)
and of the custom blocking mode are NOT opaque: the cache stores their binary form
(`netip.Addr.MarshalBinary` / `UnmarshalBinary`), modelled below with the zero address, the two
address lengths and the IPv6 zone.  Core Lean only.
-/
namespace Agd.ProfileCache

/-! ### `netip.Addr` and its binary form

A byte is a natural number (the codec only moves bytes around). -/

/-- `netip.Addr`: the zero value, an IPv4 address (4 bytes) or an IPv6 address (16 bytes; the
IPv4-mapped ones are IPv6 addresses) with its zone; the empty zone is "no zone", as in `netip`. -/
inductive Addr
  | zero
  | v4 (b : List Nat)
  | v6 (b : List Nat) (zone : List Nat)
deriving DecidableEq, Repr

/-- The invariant of `netip.Addr`: 4 or 16 address bytes. -/
def Addr.WF : Addr → Prop
  | .zero => True
  | .v4 b => b.length = 4
  | .v6 b _ => b.length = 16

instance (a : Addr) : Decidable a.WF := by
  cases a <;> unfold Addr.WF <;> infer_instance

/-- `netip.Addr.MarshalBinary`: nothing, 4 bytes, or 16 bytes followed by the zone. -/
def Addr.marshal : Addr → List Nat
  | .zero => []
  | .v4 b => b
  | .v6 b z => b ++ z

/-- `(*netip.Addr).UnmarshalBinary` (`n == 0`, `n == 4`, `n == 16`, `n > 16`, else an error);
`none` is the error. -/
def Addr.unmarshal (b : List Nat) : Option Addr :=
  if b.length = 0 then some .zero
  else if b.length = 4 then some (.v4 b)
  else if b.length = 16 then some (.v6 b [])
  else if 16 < b.length then some (.v6 (b.take 16) (b.drop 16))
  else none

/-- `netip.Addr.AsSlice`: the address bytes WITHOUT the zone.  Not what the cache writes; it is
here to state that the zone is part of the value the cache has to keep (`Props/C14.lean`). -/
def Addr.asSlice : Addr → List Nat
  | .zero => []
  | .v4 b => b
  | .v6 b _ => b

/-- `agdprotobuf.ByteSlicesToIPs`: every element through `UnmarshalBinary`, the first error fails
the whole list. -/
def addrsFromPb : List (List Nat) → Option (List Addr)
  | [] => some []
  | b :: r =>
    match Addr.unmarshal b, addrsFromPb r with
    | some a, some as => some (a :: as)
    | _, _ => none

/-- `ipsToByteSlices`. -/
def addrsToPb (l : List Addr) : List (List Nat) := l.map Addr.marshal

/-- All elements of a list of fallible conversions, or the first failure (the `for … { if err != nil
{ return nil, err } }` loops of `toInternal`). -/
def optAll {α : Type} : List (Option α) → Option (List α)
  | [] => some []
  | x :: r =>
    match x, optAll r with
    | some a, some as => some (a :: as)
    | _, _ => none

/-! ### Internal side (`agd.Profile`, `agd.Device`, …) -/

/-- `agdpasswd.Authenticator`.  `nilHash` is a nil interface value: never produced by the backend
converter, but produced by the file-cache reader as it was on the pinned tree. -/
inductive PwHash
  | allow
  | bcrypt (h : Nat)
  | nilHash
deriving DecidableEq, Repr

structure Auth where
  enabled : Bool
  dohOnly : Bool
  pw : PwHash
deriving DecidableEq, Repr

structure Device where
  auth : Auth
  id : Nat
  linked : Addr
  name : Nat
  human : Nat
  dedicated : List Addr
  filtering : Bool
deriving DecidableEq, Repr

structure DayIvl where
  start : UInt16
  stop : UInt16
deriving DecidableEq, Repr

/-- `filter.WeeklySchedule` (array indexed by `time.Weekday`) + time-zone name. -/
structure Schedule where
  sun : Option DayIvl
  mon : Option DayIvl
  tue : Option DayIvl
  wed : Option DayIvl
  thu : Option DayIvl
  fri : Option DayIvl
  sat : Option DayIvl
  tz : Nat
deriving DecidableEq, Repr

/-- `access.ProfileConfig`; prefixes are (address, bits). -/
structure AccessCfg where
  allowedNets : List (Nat × Nat)
  blockedNets : List (Nat × Nat)
  allowedASN : List Nat
  blockedASN : List Nat
  rules : List Nat
deriving DecidableEq, Repr

inductive BlockingMode
  | customIP (v4 v6 : List Addr)
  | nxdomain
  | nullIP
  | refused
deriving DecidableEq, Repr

/-- `agd.Ratelimiter`: what `Config()` reports and, for the custom limiter, the response-size
estimate it was BUILT with (`NewDefaultRatelimiter(conf, respSzEst)`), which `Config()` does not
report and the cache file therefore does not hold. -/
inductive Ratelimiter
  | global
  /-- `*agd.DefaultRatelimiter`: it keeps subnets, RPS and the estimate, `NewDefaultRatelimiter`
  ignores `RatelimitConfig.Enabled` and `Config()` always reports `Enabled: true` -/
  | default (subnets : List (Nat × Nat)) (rps : Nat) (est : Nat)
deriving DecidableEq, Repr

/-- `(*DefaultRatelimiter).CountResponses`: a response of `len` bytes is counted as
`len / respSzEst` requests (`none`: the division by a zero estimate panics); the global limiter
counts nothing. -/
def Ratelimiter.countedAs : Ratelimiter → Nat → Option Nat
  | .global, _ => some 0
  | .default _ _ est, len => if est = 0 then none else some (len / est)

/-- What the probe of the harness observes on a fresh second: a response of `len` bytes is counted,
then `tries` requests are checked; the custom limiter lets `rps` requests per second pass. -/
def Ratelimiter.passesAfter : Ratelimiter → Nat → Nat → Option Nat
  | .global, _, _ => some 0
  | .default sn rps est, len, tries =>
    ((Ratelimiter.default sn rps est).countedAs len).map fun k => min tries (rps - k)

/-- The estimate of every custom limiter is `est`. -/
def Ratelimiter.EstIs (est : Nat) : Ratelimiter → Prop
  | .global => True
  | .default _ _ e => e = est

structure Profile where
  -- FilterConfig.Custom
  customId : Nat
  customUpdSec : Int
  customUpdNsec : Nat
  customRules : List Nat
  customEnabled : Bool
  -- FilterConfig.Parental
  schedule : Option Schedule
  blockedServices : List Nat
  parentalEnabled : Bool
  adultBlocking : Bool
  safeSearchGeneral : Bool
  safeSearchYouTube : Bool
  -- FilterConfig.RuleList
  ruleListIds : List Nat
  ruleListEnabled : Bool
  -- FilterConfig.SafeBrowsing
  sbEnabled : Bool
  sbDangerous : Bool
  sbNewlyRegistered : Bool
  /-- `none` is `access.EmptyProfile` -/
  access : Option AccessCfg
  blockingMode : BlockingMode
  ratelimiter : Ratelimiter
  id : Nat
  devIds : List Nat
  /-- `FilteredResponseTTL` in nanoseconds -/
  ttl : Int
  autoDevices : Bool
  blockChromePrefetch : Bool
  blockFirefoxCanary : Bool
  blockPrivateRelay : Bool
  deleted : Bool
  filtering : Bool
  ipLog : Bool
  queryLog : Bool
deriving DecidableEq, Repr

structure Cache where
  syncSec : Int
  syncNsec : Nat
  profiles : List Profile
  devices : List Device
  version : Nat
deriving DecidableEq, Repr

/-! ### Protobuf side -/

inductive PbPw
  | unset
  | bcrypt (h : Nat)
deriving DecidableEq, Repr

structure PbAuth where
  dohOnly : Bool
  pw : PbPw
deriving DecidableEq, Repr

structure PbDevice where
  auth : Option PbAuth
  id : Nat
  /-- `bytes linked_ip` -/
  linked : List Nat
  human : Nat
  name : Nat
  /-- `repeated bytes dedicated_ips` -/
  dedicated : List (List Nat)
  filtering : Bool
deriving DecidableEq, Repr

/-- The `blocking_mode` oneof; the custom IPs are `repeated bytes`. -/
inductive PbBlockingMode
  | customIP (v4 v6 : List (List Nat))
  | nxdomain
  | nullIP
  | refused
deriving DecidableEq, Repr

structure PbDayIvl where
  start : UInt32
  stop : UInt32
deriving DecidableEq, Repr

structure PbSchedule where
  sun : Option PbDayIvl
  mon : Option PbDayIvl
  tue : Option PbDayIvl
  wed : Option PbDayIvl
  thu : Option PbDayIvl
  fri : Option PbDayIvl
  sat : Option PbDayIvl
  tz : Nat
deriving DecidableEq, Repr

structure PbRatelimiter where
  cidr : List (Nat × Nat)
  rps : Nat
  enabled : Bool
deriving DecidableEq, Repr

/-- `durationpb.Duration` -/
structure PbDuration where
  secs : Int
  nanos : Int
deriving DecidableEq, Repr

structure PbProfile where
  customId : Nat
  customUpdSec : Int
  customUpdNsec : Nat
  customRules : List Nat
  customEnabled : Bool
  schedule : Option PbSchedule
  blockedServices : List Nat
  parentalEnabled : Bool
  adultBlocking : Bool
  safeSearchGeneral : Bool
  safeSearchYouTube : Bool
  ruleListIds : List Nat
  ruleListEnabled : Bool
  sbEnabled : Bool
  sbDangerous : Bool
  sbNewlyRegistered : Bool
  access : Option AccessCfg
  blockingMode : PbBlockingMode
  ratelimiter : Option PbRatelimiter
  id : Nat
  devIds : List Nat
  ttl : PbDuration
  autoDevices : Bool
  blockChromePrefetch : Bool
  blockFirefoxCanary : Bool
  blockPrivateRelay : Bool
  deleted : Bool
  filtering : Bool
  ipLog : Bool
  queryLog : Bool
deriving DecidableEq, Repr

structure PbCache where
  syncSec : Int
  syncNsec : Nat
  profiles : List PbProfile
  devices : List PbDevice
  version : Nat
deriving DecidableEq, Repr

/-! ### `toProtobuf` -/

/-- `authToProtobuf` + `dohPasswordToProtobuf` (the Go code panics on a nil hash; `unset` here). -/
def authToPb (a : Auth) : Option PbAuth :=
  if a.enabled then
    some { dohOnly := a.dohOnly,
           pw := match a.pw with
             | .allow => .unset
             | .bcrypt h => .bcrypt h
             | .nilHash => .unset }
  else none

/-- `devicesToProtobuf`: the addresses through `ipToBytes` / `ipsToByteSlices`
(`netip.Addr.MarshalBinary`). -/
def deviceToPb (d : Device) : PbDevice :=
  { auth := authToPb d.auth, id := d.id, linked := d.linked.marshal, human := d.human, name := d.name,
    dedicated := addrsToPb d.dedicated, filtering := d.filtering }

/-- `blockingModeToProtobuf`. -/
def bmToPb : BlockingMode → PbBlockingMode
  | .customIP v4 v6 => .customIP (addrsToPb v4) (addrsToPb v6)
  | .nxdomain => .nxdomain
  | .nullIP => .nullIP
  | .refused => .refused

def dayToPb (i : DayIvl) : PbDayIvl := { start := i.start.toUInt32, stop := i.stop.toUInt32 }

def scheduleToPb (c : Schedule) : PbSchedule :=
  { sun := c.sun.map dayToPb, mon := c.mon.map dayToPb, tue := c.tue.map dayToPb,
    wed := c.wed.map dayToPb, thu := c.thu.map dayToPb, fri := c.fri.map dayToPb,
    sat := c.sat.map dayToPb, tz := c.tz }

/-- `ratelimiterToProtobuf(p.Ratelimiter.Config())`: the global limiter's config is the zero
`RatelimitConfig`, the default limiter's config always has `Enabled: true`. -/
def ratelimiterToPb : Ratelimiter → Option PbRatelimiter
  | .global => some { cidr := [], rps := 0, enabled := false }
  | .default subnets rps _ => some { cidr := subnets, rps := rps, enabled := true }

/-- `durationpb.New`. -/
def durationToPb (d : Int) : PbDuration :=
  { secs := d.tdiv 1000000000, nanos := d - d.tdiv 1000000000 * 1000000000 }

def profileToPb (p : Profile) : PbProfile :=
  { customId := p.customId, customUpdSec := p.customUpdSec, customUpdNsec := p.customUpdNsec,
    customRules := p.customRules, customEnabled := p.customEnabled,
    schedule := p.schedule.map scheduleToPb, blockedServices := p.blockedServices,
    parentalEnabled := p.parentalEnabled, adultBlocking := p.adultBlocking,
    safeSearchGeneral := p.safeSearchGeneral, safeSearchYouTube := p.safeSearchYouTube,
    ruleListIds := p.ruleListIds, ruleListEnabled := p.ruleListEnabled,
    sbEnabled := p.sbEnabled, sbDangerous := p.sbDangerous, sbNewlyRegistered := p.sbNewlyRegistered,
    access := p.access, blockingMode := bmToPb p.blockingMode,
    ratelimiter := ratelimiterToPb p.ratelimiter, id := p.id, devIds := p.devIds,
    ttl := durationToPb p.ttl, autoDevices := p.autoDevices,
    blockChromePrefetch := p.blockChromePrefetch, blockFirefoxCanary := p.blockFirefoxCanary,
    blockPrivateRelay := p.blockPrivateRelay, deleted := p.deleted, filtering := p.filtering,
    ipLog := p.ipLog, queryLog := p.queryLog }

def toPb (c : Cache) : PbCache :=
  { syncSec := c.syncSec, syncNsec := c.syncNsec, profiles := c.profiles.map profileToPb,
    devices := c.devices.map deviceToPb, version := c.version }

/-! ### `toInternal` -/

/-- `(*AuthenticationSettings).toInternal` + `dohPasswordToInternal`, as repaired: an unset
password hash is the allow-all authenticator, as in `backendpb`. -/
def authFromPb : Option PbAuth → Auth
  | none => { enabled := false, dohOnly := false, pw := .allow }
  | some x => { enabled := true, dohOnly := x.dohOnly,
                pw := match x.pw with
                  | .unset => .allow
                  | .bcrypt h => .bcrypt h }

/-- The same on the pinned tree: an unset password hash became a nil `Authenticator`. -/
def authFromPbOld : Option PbAuth → Auth
  | none => { enabled := false, dohOnly := false, pw := .allow }
  | some x => { enabled := true, dohOnly := x.dohOnly,
                pw := match x.pw with
                  | .unset => .nilHash
                  | .bcrypt h => .bcrypt h }

/-- `(*Device).toInternal`: `UnmarshalBinary` for the linked IP, `ByteSlicesToIPs` for the
dedicated ones; `none` is the error return (the whole cache is then unusable). -/
def deviceFromPb (x : PbDevice) : Option Device :=
  match Addr.unmarshal x.linked, addrsFromPb x.dedicated with
  | some l, some de =>
    some { auth := authFromPb x.auth, id := x.id, linked := l, name := x.name, human := x.human,
           dedicated := de, filtering := x.filtering }
  | _, _ => none

def deviceFromPbOld (x : PbDevice) : Option Device :=
  (deviceFromPb x).map fun d => { d with auth := authFromPbOld x.auth }

/-- `blockingModeToInternal`. -/
def bmFromPb : PbBlockingMode → Option BlockingMode
  | .customIP v4 v6 =>
    match addrsFromPb v4, addrsFromPb v6 with
    | some a, some b => some (.customIP a b)
    | _, _ => none
  | .nxdomain => some .nxdomain
  | .nullIP => some .nullIP
  | .refused => some .refused

def dayFromPb (x : PbDayIvl) : DayIvl := { start := x.start.toUInt16, stop := x.stop.toUInt16 }

def scheduleFromPb (x : PbSchedule) : Schedule :=
  { sun := x.sun.map dayFromPb, mon := x.mon.map dayFromPb, tue := x.tue.map dayFromPb,
    wed := x.wed.map dayFromPb, thu := x.thu.map dayFromPb, fri := x.fri.map dayFromPb,
    sat := x.sat.map dayFromPb, tz := x.tz }

/-- `(*Ratelimiter).toInternal(respSzEst)`: the estimate is the one the file-cache storage was
created with (`filecachepb.New(logger, path, respSzEst)`). -/
def ratelimiterFromPb (est : Nat) : Option PbRatelimiter → Ratelimiter
  | none => .global
  | some x => if x.enabled then .default x.cidr x.rps est else .global

/-- `(*durationpb.Duration).AsDuration` (its overflow saturation cannot trigger on values
produced by `durationpb.New` from an int64). -/
def durationFromPb (x : PbDuration) : Int := x.secs * 1000000000 + x.nanos

def profileFromPb (est : Nat) (x : PbProfile) : Option Profile :=
  (bmFromPb x.blockingMode).map fun bm =>
  { customId := x.customId, customUpdSec := x.customUpdSec, customUpdNsec := x.customUpdNsec,
    customRules := x.customRules, customEnabled := x.customEnabled,
    schedule := x.schedule.map scheduleFromPb, blockedServices := x.blockedServices,
    parentalEnabled := x.parentalEnabled, adultBlocking := x.adultBlocking,
    safeSearchGeneral := x.safeSearchGeneral, safeSearchYouTube := x.safeSearchYouTube,
    ruleListIds := x.ruleListIds, ruleListEnabled := x.ruleListEnabled,
    sbEnabled := x.sbEnabled, sbDangerous := x.sbDangerous, sbNewlyRegistered := x.sbNewlyRegistered,
    access := x.access, blockingMode := bm,
    ratelimiter := ratelimiterFromPb est x.ratelimiter, id := x.id, devIds := x.devIds,
    ttl := durationFromPb x.ttl, autoDevices := x.autoDevices,
    blockChromePrefetch := x.blockChromePrefetch, blockFirefoxCanary := x.blockFirefoxCanary,
    blockPrivateRelay := x.blockPrivateRelay, deleted := x.deleted, filtering := x.filtering,
    ipLog := x.ipLog, queryLog := x.queryLog }

/-- `toInternal` of the whole cache; `none` if any profile or device fails to convert. -/
def fromPb (est : Nat) (x : PbCache) : Option Cache :=
  match optAll (x.profiles.map (profileFromPb est)), optAll (x.devices.map deviceFromPb) with
  | some ps, some ds =>
    some { syncSec := x.syncSec, syncNsec := x.syncNsec, profiles := ps, devices := ds,
           version := x.version }
  | _, _ => none

/-! ### `backendpb`: where the internal values come from

The converters of `internal/backendpb` for the three setting groups whose internal form is not
free: authentication (`(*AuthenticationSettings).toInternal`, `dohPasswordToInternal`), rate limit
(`(*RateLimitSettings).toInternal`) and access (`(*AccessSettings).toInternal`). -/

/-- Wire `RateLimitSettings`. -/
structure WireRate where
  enabled : Bool
  rps : Nat
  cidr : List (Nat × Nat)
deriving DecidableEq, Repr

/-- Wire `AccessSettings`. -/
structure WireAccess where
  enabled : Bool
  cfg : AccessCfg
deriving DecidableEq, Repr

/-- `backendpb.(*AuthenticationSettings).toInternal`; the wire message has the same shape as the
cache's. -/
def backendAuth : Option PbAuth → Auth
  | none => { enabled := false, dohOnly := false, pw := .allow }
  | some x => { enabled := true, dohOnly := x.dohOnly,
                pw := match x.pw with
                  | .unset => .allow
                  | .bcrypt h => .bcrypt h }

/-- `backendpb.(*RateLimitSettings).toInternal(…, respSzEst)`: the estimate is the one the profile
storage was created with (`ProfileStorageConfig.ResponseSizeEstimate`). -/
def backendRate (est : Nat) : Option WireRate → Ratelimiter
  | none => .global
  | some x => if x.enabled then .default x.cidr x.rps est else .global

/-- `backendpb.(*AccessSettings).toInternal`; `none` is `access.EmptyProfile`. -/
def backendAccess : Option WireAccess → Option AccessCfg
  | none => none
  | some x => if x.enabled then some x.cfg else none

/-! ### `backendpb.(*ScheduleSettings).toInternal`: the optional parts of the wire schedule

Every message-typed field of a proto3 message may be absent.  `ParentalSettings.schedule` absent
means "no schedule"; inside a present schedule `weekly_range`, every day of it and both bounds of a
day (`google.protobuf.Duration`) may be absent as well. -/

/-- Wire `DayRange` in whole minutes (`AsDuration` of an absent duration is 0; the end is
inclusive on the wire). -/
structure WireDay where
  start : Option Nat
  stop : Option Nat
deriving DecidableEq, Repr

/-- Wire `ScheduleSettings`: `tz = none` when `agdtime.LoadLocation(tmz)` fails; `weekly = none`
when `weekly_range` is absent, else the seven optional days Sunday … Saturday. -/
structure WireSchedule where
  tz : Option Nat
  weekly : Option (List (Option WireDay))
deriving DecidableEq, Repr

/-- How a converter call ends: a value, an error (the profile is skipped by the receive loop), or
a run-time panic (nothing of the response is applied and the caller's goroutine unwinds). -/
inductive Conv (α : Type)
  | ok (a : α)
  | reject
  | panic
deriving DecidableEq, Repr

/-- One day: `Start = uint16(minutes)`, `End = uint16(minutes + 1)`, then `DayInterval.Validate`
(the zero interval is valid; otherwise `Start ≤ End`, `Start ≤ 1439`, `End ≤ 1440`). -/
def dayConv (d : WireDay) : Option DayIvl :=
  let i : DayIvl := ⟨UInt16.ofNat (d.start.getD 0), UInt16.ofNat (d.stop.getD 0 + 1)⟩
  if i = ⟨0, 0⟩ then some i
  else if i.stop < i.start ∨ i.start > 1439 ∨ i.stop > 1440 then none
  else some i

/-- The loop over the seven days: an absent day stays `nil`, the first invalid day fails the whole
schedule. -/
def weekConv : List (Option WireDay) → Option (List (Option DayIvl))
  | [] => some []
  | none :: r => (weekConv r).map (none :: ·)
  | some d :: r =>
    match dayConv d, weekConv r with
    | some i, some w => some (some i :: w)
    | _, _ => none

def mkSchedule (tz : Nat) (w : List (Option DayIvl)) : Schedule :=
  { sun := w.getD 0 none, mon := w.getD 1 none, tue := w.getD 2 none, wed := w.getD 3 none,
    thu := w.getD 4 none, fri := w.getD 5 none, sat := w.getD 6 none, tz := tz }

/-- The default `WeeklyRange` message: no day set. -/
def emptyWeek : List (Option WireDay) := List.replicate 7 none

/-- `(*ScheduleSettings).toInternal` as repaired: the days are read with the generated nil-safe
getters, so an absent `weekly_range` is the default message. -/
def backendSchedule : Option WireSchedule → Conv (Option Schedule)
  | none => .ok none
  | some x =>
    match x.tz with
    | none => .reject
    | some tz =>
      match weekConv (x.weekly.getD emptyWeek) with
      | none => .reject
      | some w => .ok (some (mkSchedule tz w))

/-- The converter before the repair: after the time zone was loaded it read `w.Sun … w.Sat` of the
`weekly_range` pointer directly — a nil dereference when the message is absent. -/
def backendScheduleOld : Option WireSchedule → Conv (Option Schedule)
  | some { tz := some _, weekly := none } => .panic
  | x => backendSchedule x

/-! ### Load decisions -/

def fileCacheVersion : Nat := 15

inductive LoadDecision
  | loaded
  | versionIgnored
  | emptyIgnored
deriving DecidableEq, Repr

/-- `Storage.Load`'s version check followed by `loadFileCache`'s empty-cache rule. -/
def loadDecision (version nProfiles nDevices : Nat) : LoadDecision :=
  if version ≠ fileCacheVersion then .versionIgnored
  else if nProfiles = 0 ∨ nDevices = 0 then .emptyIgnored
  else .loaded

/-! ### `renameio.WriteFile`: write a temporary file, then rename it over the target -/

structure Fs where
  target : Option (List Nat)
  temp : Option (List Nat)
deriving DecidableEq, Repr

inductive FsOp
  | createTemp
  | write (chunk : List Nat)
  | sync
  | rename
deriving DecidableEq, Repr

def fsStep (fs : Fs) : FsOp → Fs
  | .createTemp => { fs with temp := some [] }
  | .write chunk => { fs with temp := fs.temp.map (· ++ chunk) }
  | .sync => fs
  | .rename => match fs.temp with
    | some t => { target := some t, temp := none }
    | none => fs

/-- The operations of one `Store`, the content being written in arbitrary chunks. -/
def storeOps (chunks : List (List Nat)) : List FsOp :=
  .createTemp :: (chunks.map FsOp.write ++ [.sync, .rename])

/-- File system after the process was killed having completed `k` operations of the store. -/
def killedAfter (fs : Fs) (chunks : List (List Nat)) (k : Nat) : Fs :=
  ((storeOps chunks).take k).foldl fsStep fs

end Agd.ProfileCache
