/-!
# Model of the profile file cache (C14): `filecachepb.toProtobuf` / `toInternal`,
`Storage.Load`'s version check, `loadFileCache`'s empty-cache rule, and the write-then-rename
protocol of `renameio.WriteFile`.

Opaque values (identifiers, names, rule texts, IP addresses and their binary form, time-zone
names) are natural numbers and are carried unchanged, which is what the converters do with them.
Core Lean only.
-/
namespace Agd.ProfileCache

/-! ### Internal side (`agd.Profile`, `agd.Device`, …) -/

/-- `agdpasswd.Authenticator`.  `nilHash` is a nil interface value: never produced by the backend
converter, but produced by the file-cache reader as it was on the pinned tree. -/
inductive PwHash
  | allow
  | bcrypt (h : Nat)
  | nilHash
deriving DecidableEq, Repr

structure Auth where
  enabled : Bool
  dohOnly : Bool
  pw : PwHash
deriving DecidableEq, Repr

structure Device where
  auth : Auth
  id : Nat
  linked : Nat
  name : Nat
  human : Nat
  dedicated : List Nat
  filtering : Bool
deriving DecidableEq, Repr

structure DayIvl where
  start : UInt16
  stop : UInt16
deriving DecidableEq, Repr

/-- `filter.WeeklySchedule` (array indexed by `time.Weekday`) + time-zone name. -/
structure Schedule where
  sun : Option DayIvl
  mon : Option DayIvl
  tue : Option DayIvl
  wed : Option DayIvl
  thu : Option DayIvl
  fri : Option DayIvl
  sat : Option DayIvl
  tz : Nat
deriving DecidableEq, Repr

/-- `access.ProfileConfig`; prefixes are (address, bits). -/
structure AccessCfg where
  allowedNets : List (Nat × Nat)
  blockedNets : List (Nat × Nat)
  allowedASN : List Nat
  blockedASN : List Nat
  rules : List Nat
deriving DecidableEq, Repr

inductive BlockingMode
  | customIP (v4 v6 : List Nat)
  | nxdomain
  | nullIP
  | refused
deriving DecidableEq, Repr

/-- `agd.Ratelimiter` as observable through `Config()`. -/
inductive Ratelimiter
  | global
  /-- `*agd.DefaultRatelimiter`: it keeps subnets and RPS only, `NewDefaultRatelimiter` ignores
  `RatelimitConfig.Enabled` and `Config()` always reports `Enabled: true` -/
  | default (subnets : List (Nat × Nat)) (rps : Nat)
deriving DecidableEq, Repr

structure Profile where
  -- FilterConfig.Custom
  customId : Nat
  customUpdSec : Int
  customUpdNsec : Nat
  customRules : List Nat
  customEnabled : Bool
  -- FilterConfig.Parental
  schedule : Option Schedule
  blockedServices : List Nat
  parentalEnabled : Bool
  adultBlocking : Bool
  safeSearchGeneral : Bool
  safeSearchYouTube : Bool
  -- FilterConfig.RuleList
  ruleListIds : List Nat
  ruleListEnabled : Bool
  -- FilterConfig.SafeBrowsing
  sbEnabled : Bool
  sbDangerous : Bool
  sbNewlyRegistered : Bool
  /-- `none` is `access.EmptyProfile` -/
  access : Option AccessCfg
  blockingMode : BlockingMode
  ratelimiter : Ratelimiter
  id : Nat
  devIds : List Nat
  /-- `FilteredResponseTTL` in nanoseconds -/
  ttl : Int
  autoDevices : Bool
  blockChromePrefetch : Bool
  blockFirefoxCanary : Bool
  blockPrivateRelay : Bool
  deleted : Bool
  filtering : Bool
  ipLog : Bool
  queryLog : Bool
deriving DecidableEq, Repr

structure Cache where
  syncSec : Int
  syncNsec : Nat
  profiles : List Profile
  devices : List Device
  version : Nat
deriving DecidableEq, Repr

/-! ### Protobuf side -/

inductive PbPw
  | unset
  | bcrypt (h : Nat)
deriving DecidableEq, Repr

structure PbAuth where
  dohOnly : Bool
  pw : PbPw
deriving DecidableEq, Repr

structure PbDevice where
  auth : Option PbAuth
  id : Nat
  linked : Nat
  human : Nat
  name : Nat
  dedicated : List Nat
  filtering : Bool
deriving DecidableEq, Repr

structure PbDayIvl where
  start : UInt32
  stop : UInt32
deriving DecidableEq, Repr

structure PbSchedule where
  sun : Option PbDayIvl
  mon : Option PbDayIvl
  tue : Option PbDayIvl
  wed : Option PbDayIvl
  thu : Option PbDayIvl
  fri : Option PbDayIvl
  sat : Option PbDayIvl
  tz : Nat
deriving DecidableEq, Repr

structure PbRatelimiter where
  cidr : List (Nat × Nat)
  rps : Nat
  enabled : Bool
deriving DecidableEq, Repr

/-- `durationpb.Duration` -/
structure PbDuration where
  secs : Int
  nanos : Int
deriving DecidableEq, Repr

structure PbProfile where
  customId : Nat
  customUpdSec : Int
  customUpdNsec : Nat
  customRules : List Nat
  customEnabled : Bool
  schedule : Option PbSchedule
  blockedServices : List Nat
  parentalEnabled : Bool
  adultBlocking : Bool
  safeSearchGeneral : Bool
  safeSearchYouTube : Bool
  ruleListIds : List Nat
  ruleListEnabled : Bool
  sbEnabled : Bool
  sbDangerous : Bool
  sbNewlyRegistered : Bool
  access : Option AccessCfg
  blockingMode : BlockingMode
  ratelimiter : Option PbRatelimiter
  id : Nat
  devIds : List Nat
  ttl : PbDuration
  autoDevices : Bool
  blockChromePrefetch : Bool
  blockFirefoxCanary : Bool
  blockPrivateRelay : Bool
  deleted : Bool
  filtering : Bool
  ipLog : Bool
  queryLog : Bool
deriving DecidableEq, Repr

structure PbCache where
  syncSec : Int
  syncNsec : Nat
  profiles : List PbProfile
  devices : List PbDevice
  version : Nat
deriving DecidableEq, Repr

/-! ### `toProtobuf` -/

/-- `authToProtobuf` + `dohPasswordToProtobuf` (the Go code panics on a nil hash; `unset` here). -/
def authToPb (a : Auth) : Option PbAuth :=
  if a.enabled then
    some { dohOnly := a.dohOnly,
           pw := match a.pw with
             | .allow => .unset
             | .bcrypt h => .bcrypt h
             | .nilHash => .unset }
  else none

def deviceToPb (d : Device) : PbDevice :=
  { auth := authToPb d.auth, id := d.id, linked := d.linked, human := d.human, name := d.name,
    dedicated := d.dedicated, filtering := d.filtering }

def dayToPb (i : DayIvl) : PbDayIvl := { start := i.start.toUInt32, stop := i.stop.toUInt32 }

def scheduleToPb (c : Schedule) : PbSchedule :=
  { sun := c.sun.map dayToPb, mon := c.mon.map dayToPb, tue := c.tue.map dayToPb,
    wed := c.wed.map dayToPb, thu := c.thu.map dayToPb, fri := c.fri.map dayToPb,
    sat := c.sat.map dayToPb, tz := c.tz }

/-- `ratelimiterToProtobuf(p.Ratelimiter.Config())`: the global limiter's config is the zero
`RatelimitConfig`, the default limiter's config always has `Enabled: true`. -/
def ratelimiterToPb : Ratelimiter → Option PbRatelimiter
  | .global => some { cidr := [], rps := 0, enabled := false }
  | .default subnets rps => some { cidr := subnets, rps := rps, enabled := true }

/-- `durationpb.New`. -/
def durationToPb (d : Int) : PbDuration :=
  { secs := d.tdiv 1000000000, nanos := d - d.tdiv 1000000000 * 1000000000 }

def profileToPb (p : Profile) : PbProfile :=
  { customId := p.customId, customUpdSec := p.customUpdSec, customUpdNsec := p.customUpdNsec,
    customRules := p.customRules, customEnabled := p.customEnabled,
    schedule := p.schedule.map scheduleToPb, blockedServices := p.blockedServices,
    parentalEnabled := p.parentalEnabled, adultBlocking := p.adultBlocking,
    safeSearchGeneral := p.safeSearchGeneral, safeSearchYouTube := p.safeSearchYouTube,
    ruleListIds := p.ruleListIds, ruleListEnabled := p.ruleListEnabled,
    sbEnabled := p.sbEnabled, sbDangerous := p.sbDangerous, sbNewlyRegistered := p.sbNewlyRegistered,
    access := p.access, blockingMode := p.blockingMode,
    ratelimiter := ratelimiterToPb p.ratelimiter, id := p.id, devIds := p.devIds,
    ttl := durationToPb p.ttl, autoDevices := p.autoDevices,
    blockChromePrefetch := p.blockChromePrefetch, blockFirefoxCanary := p.blockFirefoxCanary,
    blockPrivateRelay := p.blockPrivateRelay, deleted := p.deleted, filtering := p.filtering,
    ipLog := p.ipLog, queryLog := p.queryLog }

def toPb (c : Cache) : PbCache :=
  { syncSec := c.syncSec, syncNsec := c.syncNsec, profiles := c.profiles.map profileToPb,
    devices := c.devices.map deviceToPb, version := c.version }

/-! ### `toInternal` -/

/-- `(*AuthenticationSettings).toInternal` + `dohPasswordToInternal`, as repaired: an unset
password hash is the allow-all authenticator, as in `backendpb`. -/
def authFromPb : Option PbAuth → Auth
  | none => { enabled := false, dohOnly := false, pw := .allow }
  | some x => { enabled := true, dohOnly := x.dohOnly,
                pw := match x.pw with
                  | .unset => .allow
                  | .bcrypt h => .bcrypt h }

/-- The same on the pinned tree: an unset password hash became a nil `Authenticator`. -/
def authFromPbOld : Option PbAuth → Auth
  | none => { enabled := false, dohOnly := false, pw := .allow }
  | some x => { enabled := true, dohOnly := x.dohOnly,
                pw := match x.pw with
                  | .unset => .nilHash
                  | .bcrypt h => .bcrypt h }

def deviceFromPb (x : PbDevice) : Device :=
  { auth := authFromPb x.auth, id := x.id, linked := x.linked, name := x.name, human := x.human,
    dedicated := x.dedicated, filtering := x.filtering }

def deviceFromPbOld (x : PbDevice) : Device :=
  { deviceFromPb x with auth := authFromPbOld x.auth }

def dayFromPb (x : PbDayIvl) : DayIvl := { start := x.start.toUInt16, stop := x.stop.toUInt16 }

def scheduleFromPb (x : PbSchedule) : Schedule :=
  { sun := x.sun.map dayFromPb, mon := x.mon.map dayFromPb, tue := x.tue.map dayFromPb,
    wed := x.wed.map dayFromPb, thu := x.thu.map dayFromPb, fri := x.fri.map dayFromPb,
    sat := x.sat.map dayFromPb, tz := x.tz }

/-- `(*Ratelimiter).toInternal`. -/
def ratelimiterFromPb : Option PbRatelimiter → Ratelimiter
  | none => .global
  | some x => if x.enabled then .default x.cidr x.rps else .global

/-- `(*durationpb.Duration).AsDuration` (its overflow saturation cannot trigger on values
produced by `durationpb.New` from an int64). -/
def durationFromPb (x : PbDuration) : Int := x.secs * 1000000000 + x.nanos

def profileFromPb (x : PbProfile) : Profile :=
  { customId := x.customId, customUpdSec := x.customUpdSec, customUpdNsec := x.customUpdNsec,
    customRules := x.customRules, customEnabled := x.customEnabled,
    schedule := x.schedule.map scheduleFromPb, blockedServices := x.blockedServices,
    parentalEnabled := x.parentalEnabled, adultBlocking := x.adultBlocking,
    safeSearchGeneral := x.safeSearchGeneral, safeSearchYouTube := x.safeSearchYouTube,
    ruleListIds := x.ruleListIds, ruleListEnabled := x.ruleListEnabled,
    sbEnabled := x.sbEnabled, sbDangerous := x.sbDangerous, sbNewlyRegistered := x.sbNewlyRegistered,
    access := x.access, blockingMode := x.blockingMode,
    ratelimiter := ratelimiterFromPb x.ratelimiter, id := x.id, devIds := x.devIds,
    ttl := durationFromPb x.ttl, autoDevices := x.autoDevices,
    blockChromePrefetch := x.blockChromePrefetch, blockFirefoxCanary := x.blockFirefoxCanary,
    blockPrivateRelay := x.blockPrivateRelay, deleted := x.deleted, filtering := x.filtering,
    ipLog := x.ipLog, queryLog := x.queryLog }

def fromPb (x : PbCache) : Cache :=
  { syncSec := x.syncSec, syncNsec := x.syncNsec, profiles := x.profiles.map profileFromPb,
    devices := x.devices.map deviceFromPb, version := x.version }

/-! ### `backendpb`: where the internal values come from

The converters of `internal/backendpb` for the three setting groups whose internal form is not
free: authentication (`(*AuthenticationSettings).toInternal`, `dohPasswordToInternal`), rate limit
(`(*RateLimitSettings).toInternal`) and access (`(*AccessSettings).toInternal`). -/

/-- Wire `RateLimitSettings`. -/
structure WireRate where
  enabled : Bool
  rps : Nat
  cidr : List (Nat × Nat)
deriving DecidableEq, Repr

/-- Wire `AccessSettings`. -/
structure WireAccess where
  enabled : Bool
  cfg : AccessCfg
deriving DecidableEq, Repr

/-- `backendpb.(*AuthenticationSettings).toInternal`; the wire message has the same shape as the
cache's. -/
def backendAuth : Option PbAuth → Auth
  | none => { enabled := false, dohOnly := false, pw := .allow }
  | some x => { enabled := true, dohOnly := x.dohOnly,
                pw := match x.pw with
                  | .unset => .allow
                  | .bcrypt h => .bcrypt h }

/-- `backendpb.(*RateLimitSettings).toInternal`. -/
def backendRate : Option WireRate → Ratelimiter
  | none => .global
  | some x => if x.enabled then .default x.cidr x.rps else .global

/-- `backendpb.(*AccessSettings).toInternal`; `none` is `access.EmptyProfile`. -/
def backendAccess : Option WireAccess → Option AccessCfg
  | none => none
  | some x => if x.enabled then some x.cfg else none

/-! ### Load decisions -/

def fileCacheVersion : Nat := 15

inductive LoadDecision
  | loaded
  | versionIgnored
  | emptyIgnored
deriving DecidableEq, Repr

/-- `Storage.Load`'s version check followed by `loadFileCache`'s empty-cache rule. -/
def loadDecision (version nProfiles nDevices : Nat) : LoadDecision :=
  if version ≠ fileCacheVersion then .versionIgnored
  else if nProfiles = 0 ∨ nDevices = 0 then .emptyIgnored
  else .loaded

/-! ### `renameio.WriteFile`: write a temporary file, then rename it over the target -/

structure Fs where
  target : Option (List Nat)
  temp : Option (List Nat)
deriving DecidableEq, Repr

inductive FsOp
  | createTemp
  | write (chunk : List Nat)
  | sync
  | rename
deriving DecidableEq, Repr

def fsStep (fs : Fs) : FsOp → Fs
  | .createTemp => { fs with temp := some [] }
  | .write chunk => { fs with temp := fs.temp.map (· ++ chunk) }
  | .sync => fs
  | .rename => match fs.temp with
    | some t => { target := some t, temp := none }
    | none => fs

/-- The operations of one `Store`, the content being written in arbitrary chunks. -/
def storeOps (chunks : List (List Nat)) : List FsOp :=
  .createTemp :: (chunks.map FsOp.write ++ [.sync, .rename])

/-- File system after the process was killed having completed `k` operations of the store. -/
def killedAfter (fs : Fs) (chunks : List (List Nat)) (k : Nat) : Fs :=
  ((storeOps chunks).take k).foldl fsStep fs

end Agd.ProfileCache
