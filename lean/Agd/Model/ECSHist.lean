import Agd.Model.ECS
/-!
# The ECS cache as the code has it: hashed keys, host check, expiry, a GeoIP that changes (C05)

`Model/ECS.lean` keeps the two caches as tables over structural keys, for one GeoIP environment, with
eviction and expiry as arbitrary drop events.  This file removes the three idealisations:

* **hash**: the tables are indexed by a number `H host bytes` (`toCacheKey`: `maphash` over the host
  name followed by `ekeyBytes` / `nkeyBytes`), for an *arbitrary* function `H` — collisions included;
  a hit must pass the host comparison of `itemFromCache`;
* **time**: an entry carries the moment it was stored and its expiry stamp (`SetWithExpire(key, item,
  exp)`), and `gcache.Get` does not return it after that stamp;
* **refresh**: every call brings the GeoIP environment it ran under (`geoip.File.Refresh` replaces
  the subnet maps and the readers at any moment), so a history may change `SubnetByLocation` and
  `Data` between any two requests, while the two caches live on.

Core Lean only.
-/
namespace Agd.ECS

structure HItem where
  tok : Nat
  extra : List OptRR
  /-- `cacheItem.host` -/
  host : Nat
  /-- `cacheItem.when` -/
  at_ : Nat
  /-- expiry stamp of the LRU entry -/
  expAt : Nat
deriving DecidableEq, Repr

structure HSt where
  noecs : Nat → Option HItem
  ecs : Nat → Option HItem

def HSt.empty : HSt := ⟨fun _ => none, fun _ => none⟩

def putH (m : Nat → Option HItem) (k : Nat) (v : Option HItem) : Nat → Option HItem :=
  fun k' => if k' = k then v else m k'

/-- `itemFromCache` on top of `gcache.Get`: the slot holds an item, the item has not expired, and it
was stored for the same host name. -/
def hget (m : Nat → Option HItem) (k now host : Nat) : Option HItem :=
  match m k with
  | some it => if now ≤ it.expAt ∧ it.host = host then some it else none
  | none => none

/-- The seeded 64-bit hash: any function of the host name and the bytes that follow it. -/
abbrev HashFn := Nat → List Nat → Nat

def hkN (H : HashFn) (r : Req) (sub : Pfx) : Nat := H r.host (nkeyBytes (nkey r sub))
def hkE (H : HashFn) (r : Req) (sub : Pfx) : Nat := H r.host (ekeyBytes (ekey r sub))

/-- One call of `ServeDNS` with everything it depends on: the GeoIP environment in force when it
mapped its request, the clock, the request with its attributed locations, the upstream's behaviour
and the lifetime `set` computes for the answer (`FindLowestTTL`, `MinTTL` override; C04). -/
structure Call where
  env : Env
  now : Nat
  r : Req
  u : Up
  life : Nat

/-- `ServeDNS` from the upstream call on. -/
def serveMissH (H : HashFn) (s : HSt) (c : Call) (sub : Pfx) : HSt × Out :=
  if sub.fam ≠ ecsFamOf c.r then (s, errOut none)
  else
    let upReq := setECS c.r.extra sub false
    if c.u.fails then (s, errOut (some upReq))
    else if ecsFromMsg c.u.extra = .bad then (s, errOut (some upReq))
    else
      let it : HItem := ⟨c.u.token, rmHop c.u.extra, c.r.host, c.now, c.now + c.life⟩
      let s' : HSt :=
        if !c.u.cacheable then s
        else if dependent c.env c.r c.u then { s with ecs := putH s.ecs (hkE H c.r sub) (some it) }
        else { s with noecs := putH s.noecs (hkN H c.r (zeroPfx (ecsFamOf c.r))) (some it) }
      (s', ⟨.ok, some upReq, some c.u.token, respExtra c.r it.extra, .upstream⟩)

/-- Completion (at `c.now`) of a call whose look-ups missed at some earlier moment. -/
def finishH (H : HashFn) (s : HSt) (c : Call) : HSt × Out :=
  if ecsFromMsg c.r.extra = .bad then (s, ⟨.formerr, none, none, [], .none⟩)
  else
    match mapped c.env c.r with
    | none => (s, errOut none)
    | some sub => serveMissH H s c sub

/-- A whole call at one moment: FORMERR, GeoIP, the two look-ups, else the upstream. -/
def serveH (H : HashFn) (s : HSt) (c : Call) : HSt × Out :=
  if ecsFromMsg c.r.extra = .bad then (s, ⟨.formerr, none, none, [], .none⟩)
  else
    match mapped c.env c.r with
    | none => (s, errOut none)
    | some sub =>
      match hget s.noecs (hkN H c.r sub) c.now c.r.host with
      | some it => (s, ⟨.ok, none, some it.tok, respExtra c.r it.extra, .noecsCache⟩)
      | none =>
        match (if declined c.r then none else hget s.ecs (hkE H c.r sub) c.now c.r.host) with
        | some it => (s, ⟨.ok, none, some it.tok, respExtra c.r it.extra, .ecsCache⟩)
        | none => serveMissH H s c sub

/-- Events of an execution: completions of calls (each under its own GeoIP environment, at its own
time) and slots being emptied (LRU eviction, the cache manager clearing a cache).  Expiry needs no
event: it is in `hget`. -/
inductive HEv
  | fin (c : Call)
  | dropN (k : Nat)
  | dropE (k : Nat)

def stepH (H : HashFn) (s : HSt) : HEv → HSt
  | .fin c => (finishH H s c).1
  | .dropN k => { s with noecs := putH s.noecs k none }
  | .dropE k => { s with ecs := putH s.ecs k none }

def runH (H : HashFn) (s : HSt) : List HEv → HSt
  | [] => s
  | e :: es => runH H (stepH H s e) es

def callsOf : List HEv → List Call
  | [] => []
  | .fin c :: es => c :: callsOf es
  | _ :: es => callsOf es

/-! ## `geoip.File.Refresh`

`resetSubnetMappings` swaps the location maps and the country maps in two critical sections of their
own (in either order), `Refresh` swaps the readers and clears the `Data` cache in a third.  Between
them `SubnetByLocation` runs over the location maps of one database pair and the country maps of
the other. -/

/-- The maps a look-up can observe while `Refresh` replaces `old` by `new`: location maps and
country maps each from either version (the configuration tables are not touched by a refresh). -/
def GeoDB.mix (locFrom ctryFrom : GeoDB) : GeoDB :=
  { locFrom with ctryNets := ctryFrom.ctryNets }

end Agd.ECS
