import Agd.Model.ConnLimit
/-!
# Model of the start-up configuration validation of AdGuard DNS (`internal/cmd`)

`Config` is the post-YAML value of every numeric / duration / size / enum / cross-referenced
field of `config.dist.yaml` that the harness mutates (durations in ns, sizes in bytes), plus a
presence flag per section.  `validate legacy` mirrors `configuration.validate` and the
per-section `validate` methods in their order; `legacy = true` is the tree as found
(`validatePositive` ignores integers, no upper bound on key lengths, `ecs_size: 0` accepted,
`resume: 0` accepted), `legacy = false` the tree after the `fix:` commits.  `build`/`handle` model
the constructors and per-query code that consume the values.  Core Lean only.
-/
namespace Agd.Config

/-- Identifier of a configuration property or section (dotted YAML path in `F.name`). -/
inductive F
  | rl | rlAl | rlAlType | rlAlRefresh
  | rlCl | rlClStop | rlClResume
  | rlV4 | rlV4Count | rlV4Ivl | rlV4Len
  | rlV6 | rlV6Count | rlV6Ivl | rlV6Len
  | rlQuic | rlQuicMax | rlTcp | rlTcpMax
  | rlBkCount | rlBkDur | rlBkPeriod | rlEst
  | up | upS0 | upS1 | upFb | upF0 | upF1 | upHc | upHcIvl | upHcTimeout | upHcBackoff
  | ca | caType | caSize | caEcs | caTtl | caTtlMin
  | db | dbMax
  | dns | dnsRead | dnsIdle | dnsWrite | dnsHandle | dnsUdp
  | be | beTimeout | beRefresh | beFull | beRetry | beBill
  | geo | geoHost | geoIp | geoRefresh
  | ck | ckKv | ckKvType | ckKvTtl
  | webTimeout
  | sb | sbSize | sbTtl | sbRefresh | sbTimeout
  | ab | abSize | abTtl | abRefresh | abTimeout
  | fl | flCustom | flSafe | flRespTtl | flRefresh | flRefreshTo | flIndexTo | flRuleTo | flMax
  | flSde | flRlc | flRlcSize
  | ilBuf
  | nw | nwSnd | nwRcv
  -- second wave: list sections, strings, ports, groups
  | upSrv | upFbSrv | upHcTmpl
  | ql | qlFile
  | ckLoc | ckName
  | fg | fg0Par | fg0Rl | fg0Sb
  | sg | sgDdr | sgSrvs | sgTls
  | ddrDev | ddrDevHttps | ddrPub | ddrPubHttps
  | cc | ac
  | ilList | ilPort0 | ilPort1
  -- third wave: cross-references, server protocols
  | sgFgRef | fg0Id | fg1Id | fg2Id | fg0List0 | bi0Id
  | sgProto1 | sgProto2 | sgProto3 | sgDc1 | sgDc2 | sgDc3
  deriving DecidableEq, Repr

def F.name : F → String
  | .rl => "ratelimit" | .rlAl => "ratelimit.allowlist" | .rlAlType => "ratelimit.allowlist.type"
  | .rlAlRefresh => "ratelimit.allowlist.refresh_interval"
  | .rlCl => "ratelimit.connection_limit" | .rlClStop => "ratelimit.connection_limit.stop"
  | .rlClResume => "ratelimit.connection_limit.resume"
  | .rlV4 => "ratelimit.ipv4" | .rlV4Count => "ratelimit.ipv4.count" | .rlV4Ivl => "ratelimit.ipv4.interval"
  | .rlV4Len => "ratelimit.ipv4.subnet_key_len"
  | .rlV6 => "ratelimit.ipv6" | .rlV6Count => "ratelimit.ipv6.count" | .rlV6Ivl => "ratelimit.ipv6.interval"
  | .rlV6Len => "ratelimit.ipv6.subnet_key_len"
  | .rlQuic => "ratelimit.quic" | .rlQuicMax => "ratelimit.quic.max_streams_per_peer"
  | .rlTcp => "ratelimit.tcp" | .rlTcpMax => "ratelimit.tcp.max_pipeline_count"
  | .rlBkCount => "ratelimit.backoff_count" | .rlBkDur => "ratelimit.backoff_duration"
  | .rlBkPeriod => "ratelimit.backoff_period" | .rlEst => "ratelimit.response_size_estimate"
  | .up => "upstream" | .upS0 => "upstream.servers.0.timeout" | .upS1 => "upstream.servers.1.timeout"
  | .upFb => "upstream.fallback" | .upF0 => "upstream.fallback.servers.0.timeout"
  | .upF1 => "upstream.fallback.servers.1.timeout"
  | .upHc => "upstream.healthcheck" | .upHcIvl => "upstream.healthcheck.interval"
  | .upHcTimeout => "upstream.healthcheck.timeout" | .upHcBackoff => "upstream.healthcheck.backoff_duration"
  | .ca => "cache" | .caType => "cache.type" | .caSize => "cache.size" | .caEcs => "cache.ecs_size"
  | .caTtl => "cache.ttl_override" | .caTtlMin => "cache.ttl_override.min"
  | .db => "dnsdb" | .dbMax => "dnsdb.max_size"
  | .dns => "dns" | .dnsRead => "dns.read_timeout" | .dnsIdle => "dns.tcp_idle_timeout"
  | .dnsWrite => "dns.write_timeout" | .dnsHandle => "dns.handle_timeout" | .dnsUdp => "dns.max_udp_response_size"
  | .be => "backend" | .beTimeout => "backend.timeout" | .beRefresh => "backend.refresh_interval"
  | .beFull => "backend.full_refresh_interval" | .beRetry => "backend.full_refresh_retry_interval"
  | .beBill => "backend.bill_stat_interval"
  | .geo => "geoip" | .geoHost => "geoip.host_cache_size" | .geoIp => "geoip.ip_cache_size"
  | .geoRefresh => "geoip.refresh_interval"
  | .ck => "check" | .ckKv => "check.kv" | .ckKvType => "check.kv.type" | .ckKvTtl => "check.kv.ttl"
  | .webTimeout => "web.timeout"
  | .sb => "safe_browsing" | .sbSize => "safe_browsing.cache_size" | .sbTtl => "safe_browsing.cache_ttl"
  | .sbRefresh => "safe_browsing.refresh_interval" | .sbTimeout => "safe_browsing.refresh_timeout"
  | .ab => "adult_blocking" | .abSize => "adult_blocking.cache_size" | .abTtl => "adult_blocking.cache_ttl"
  | .abRefresh => "adult_blocking.refresh_interval" | .abTimeout => "adult_blocking.refresh_timeout"
  | .fl => "filters" | .flCustom => "filters.custom_filter_cache_size" | .flSafe => "filters.safe_search_cache_size"
  | .flRespTtl => "filters.response_ttl" | .flRefresh => "filters.refresh_interval"
  | .flRefreshTo => "filters.refresh_timeout" | .flIndexTo => "filters.index_refresh_timeout"
  | .flRuleTo => "filters.rule_list_refresh_timeout" | .flMax => "filters.max_size"
  | .flSde => "filters.sde_enabled" | .flRlc => "filters.rule_list_cache" | .flRlcSize => "filters.rule_list_cache.size"
  | .ilBuf => "interface_listeners.channel_buffer_size"
  | .nw => "network" | .nwSnd => "network.so_sndbuf" | .nwRcv => "network.so_rcvbuf"
  | .upSrv => "upstream.servers" | .upFbSrv => "upstream.fallback.servers"
  | .upHcTmpl => "upstream.healthcheck.domain_template"
  | .ql => "query_log" | .qlFile => "query_log.file"
  | .ckLoc => "check.node_location" | .ckName => "check.node_name"
  | .fg => "filtering_groups" | .fg0Par => "filtering_groups.0.parental"
  | .fg0Rl => "filtering_groups.0.rule_lists" | .fg0Sb => "filtering_groups.0.safe_browsing"
  | .sg => "server_groups" | .sgDdr => "server_groups.0.ddr" | .sgSrvs => "server_groups.0.servers"
  | .sgTls => "server_groups.0.tls"
  | .ddrDev => "server_groups.0.ddr.device_records"
  | .ddrDevHttps => "server_groups.0.ddr.device_records.https_port"
  | .ddrPub => "server_groups.0.ddr.public_records"
  | .ddrPubHttps => "server_groups.0.ddr.public_records.https_port"
  | .cc => "connectivity_check" | .ac => "access"
  | .ilList => "interface_listeners.list"
  | .ilPort0 => "interface_listeners.list.eth0_plain_dns.port"
  | .ilPort1 => "interface_listeners.list.eth0_plain_dns_secondary.port"
  | .sgFgRef => "server_groups.0.filtering_group"
  | .fg0Id => "filtering_groups.0.id" | .fg1Id => "filtering_groups.1.id" | .fg2Id => "filtering_groups.2.id"
  | .fg0List0 => "filtering_groups.0.rule_lists.0"
  | .bi0Id => "server_groups.0.servers.0.bind_interfaces.0.id"
  | .sgProto1 => "server_groups.0.servers.1.protocol" | .sgProto2 => "server_groups.0.servers.2.protocol"
  | .sgProto3 => "server_groups.0.servers.3.protocol"
  | .sgDc1 => "server_groups.0.servers.1.dnscrypt" | .sgDc2 => "server_groups.0.servers.2.dnscrypt"
  | .sgDc3 => "server_groups.0.servers.3.dnscrypt"

/-- What the error message says about the property. -/
inductive Kind | notPositive | negative | range | enum | noValue | cross | empty | allZero | dup | badId
  deriving DecidableEq, Repr

def Kind.name : Kind → String
  | .notPositive => "notpositive" | .negative => "negative" | .range => "range"
  | .enum => "enum" | .noValue => "novalue" | .cross => "cross"
  | .empty => "empty" | .allZero => "allzero" | .dup => "dup" | .badId => "badid"

abbrev Err := F × Kind

/-- The parsed configuration (only the mutated fields; everything else is as distributed). -/
structure Config where
  -- ratelimit
  pRl : Bool := true
  pAl : Bool := true
  alType : String := "consul"
  alRefresh : Int := 3600000000000
  pCl : Bool := true
  clEnabled : Bool := true
  clStop : Int := 1000
  clResume : Int := 800
  pV4 : Bool := true
  v4Count : Int := 300
  v4Ivl : Int := 10000000000
  v4Len : Int := 24
  pV6 : Bool := true
  v6Count : Int := 3000
  v6Ivl : Int := 10000000000
  v6Len : Int := 48
  pQuic : Bool := true
  quicEnabled : Bool := true
  quicMax : Int := 100
  pTcp : Bool := true
  tcpEnabled : Bool := true
  tcpMax : Int := 100
  bkCount : Int := 1000
  bkDur : Int := 1800000000000
  bkPeriod : Int := 600000000000
  est : Int := 1024
  -- upstream
  pUp : Bool := true
  upS0 : Int := 2000000000
  upS1 : Int := 2000000000
  pFb : Bool := true
  upF0 : Int := 1000000000
  upF1 : Int := 1000000000
  pHc : Bool := true
  hcEnabled : Bool := true
  hcIvl : Int := 2000000000
  hcTimeout : Int := 1000000000
  hcBackoff : Int := 30000000000
  -- cache
  pCa : Bool := true
  caType : String := "simple"
  caSize : Int := 10000
  caEcs : Int := 10000
  pTtl : Bool := true
  ttlEnabled : Bool := true
  ttlMin : Int := 60000000000
  -- dnsdb
  pDb : Bool := true
  dbEnabled : Bool := true
  dbMax : Int := 500000
  -- dns
  pDns : Bool := true
  dnsRead : Int := 2000000000
  dnsIdle : Int := 30000000000
  dnsWrite : Int := 2000000000
  dnsHandle : Int := 1000000000
  dnsUdp : Int := 1024
  -- backend
  pBe : Bool := true
  beTimeout : Int := 10000000000
  beRefresh : Int := 15000000000
  beFull : Int := 86400000000000
  beRetry : Int := 3600000000000
  beBill : Int := 15000000000
  -- geoip
  pGeo : Bool := true
  geoHost : Int := 100000
  geoIp : Int := 100000
  geoRefresh : Int := 3600000000000
  -- check
  pCk : Bool := true
  pKv : Bool := true
  kvType : String := "cache"
  kvTtl : Int := 30000000000
  -- web
  pWeb : Bool := true
  webTimeout : Int := 60000000000
  -- safe_browsing / adult_blocking
  pSb : Bool := true
  sbSize : Int := 1024
  sbTtl : Int := 3600000000000
  sbRefresh : Int := 3600000000000
  sbTimeout : Int := 60000000000
  pAb : Bool := true
  abSize : Int := 1024
  abTtl : Int := 3600000000000
  abRefresh : Int := 3600000000000
  abTimeout : Int := 60000000000
  -- filters
  pFl : Bool := true
  flCustom : Int := 1024
  flSafe : Int := 1024
  flRespTtl : Int := 300000000000
  flRefresh : Int := 3600000000000
  flRefreshTo : Int := 300000000000
  flIndexTo : Int := 60000000000
  flRuleTo : Int := 60000000000
  flMax : Int := 268435456
  flEde : Bool := true
  flSde : Bool := true
  pRlc : Bool := true
  rlcEnabled : Bool := true
  rlcSize : Int := 10000
  -- interface_listeners
  pIl : Bool := true
  ilBuf : Int := 1000
  -- network
  pNw : Bool := true
  nwSnd : Int := 0
  nwRcv : Int := 0
  -- second wave
  pUpSrv : Bool := true          -- `upstream.servers` is a non-empty list
  pFbSrv : Bool := true
  hcTmpl : String := "${RANDOM}.neverssl.com"
  pQl : Bool := true
  pQlFile : Bool := true
  ckLoc : String := "ams"
  ckName : String := "eu-1.dns.example.com"
  pFg : Bool := true             -- `filtering_groups` is a non-empty list
  pFg0Par : Bool := true
  pFg0Rl : Bool := true
  pFg0Sb : Bool := true
  pSg : Bool := true             -- `server_groups` is a non-empty list
  pDdr : Bool := true
  pSrvs : Bool := true
  pTls : Bool := true
  devHttps : Int := 443
  devQuic : Int := 853
  devTls : Int := 853
  pubHttps : Int := 443
  pubQuic : Int := 853
  pubTls : Int := 853
  pCc : Bool := true
  pAc : Bool := true
  pIlList : Bool := true
  ilPort0 : Int := 53
  ilPort1 : Int := 5353
  -- third wave: cross-references and the protocols of the servers with `bind_addresses`
  sgFg : String := "default"                 -- server_groups.0.filtering_group
  fg0Id : String := "default"                -- filtering_groups.0.id (1: "family", 2: "non_filtering")
  fg0List0 : String := "adguard_dns_filter"  -- filtering_groups.0.rule_lists.ids.0
  bi0Id : String := "eth0_plain_dns"         -- server_groups.0.servers.0.bind_interfaces.0.id
  proto1 : String := "tls"                   -- servers 1, 2 (one address each), 3 (two addresses)
  proto2 : String := "https"
  proto3 : String := "quic"

/-- The distributed example. -/
def dist : Config := {}

/-! ## Validation -/

def pos (f : F) (v : Int) : List Err := if v ≤ 0 then [(f, .notPositive)] else []

/-- `validatePositive` applied to an integer: a no-op on the tree as found. -/
def posInt (legacy : Bool) (f : F) (v : Int) : List Err := if legacy then [] else pos f v

def nonNeg (f : F) (v : Int) : List Err := if v < 0 then [(f, .negative)] else []

def atMost (f : F) (v hi : Int) : List Err := if v > hi then [(f, .range)] else []

/-- First non-empty result wins (`cmp.Or`, `switch`, early `return`). -/
def firstOf : List (List Err) → List Err
  | [] => []
  | [] :: r => firstOf r
  | (e :: es) :: _ => e :: es

/-- A missing section is reported as `no value`; otherwise its checks run. -/
def sect (present : Bool) (f : F) (checks : List (List Err)) : List Err :=
  if present then firstOf checks else [(f, .noValue)]

def maxIdle : Int := 6553500000000
def maxMsg : Int := 65535
def maxBuf : Int := 2147483647
def consulMin : Int := 10000000000
def consulMax : Int := 86400000000000
def redisMin : Int := 1000000

/-- An empty or absent list (`len(x) == 0`) is reported as `empty value`. -/
def missing (present : Bool) (f : F) : List Err := if present then [] else [(f, .empty)]

def valAllow (c : Config) : List Err :=
  sect c.pAl .rlAl
    [ if c.alType = "backend" ∨ c.alType = "consul" then [] else [(.rlAlType, .enum)],
      pos .rlAlRefresh c.alRefresh ]

def valConn (legacy : Bool) (c : Config) : List Err :=
  sect c.pCl .rlCl
    [ if c.clEnabled then
        firstOf [ pos .rlClStop c.clStop,
                  (if legacy then [] else pos .rlClResume c.clResume),
                  (if c.clResume > c.clStop then [(.rlClResume, .cross)] else []) ]
      else [] ]

def valOpts (legacy : Bool) (p : Bool) (s fc fi fk : F) (count ivl len : Int) : List Err :=
  sect p s [ posInt legacy fc count, pos fi ivl, posInt legacy fk len ]

/-- The key-length bound added by the fix (skipped on a missing section). -/
def valKeyLen (legacy : Bool) (p : Bool) (fk : F) (len bits : Int) : List Err :=
  if legacy ∨ ¬ p then [] else atMost fk len bits

def valRatelimit (legacy : Bool) (c : Config) : List Err :=
  sect c.pRl .rl
    [ valAllow c,
      valConn legacy c,
      valOpts legacy c.pV4 .rlV4 .rlV4Count .rlV4Ivl .rlV4Len c.v4Count c.v4Ivl c.v4Len,
      valKeyLen legacy c.pV4 .rlV4Len c.v4Len 32,
      valOpts legacy c.pV6 .rlV6 .rlV6Count .rlV6Ivl .rlV6Len c.v6Count c.v6Ivl c.v6Len,
      valKeyLen legacy c.pV6 .rlV6Len c.v6Len 128,
      sect c.pQuic .rlQuic [ posInt legacy .rlQuicMax c.quicMax ],
      sect c.pTcp .rlTcp [ posInt legacy .rlTcpMax c.tcpMax ],
      posInt legacy .rlBkCount c.bkCount,
      pos .rlBkDur c.bkDur,
      pos .rlBkPeriod c.bkPeriod,
      posInt legacy .rlEst c.est ]

def valUpstream (c : Config) : List Err :=
  sect c.pUp .up
    [ missing c.pUpSrv .upSrv, pos .upS0 c.upS0, pos .upS1 c.upS1,
      sect c.pFb .upFb [ missing c.pFbSrv .upFbSrv, pos .upF0 c.upF0, pos .upF1 c.upF1 ],
      sect c.pHc .upHc
        [ if c.hcEnabled then
            firstOf [ (if c.hcTmpl = "" then [(.upHcTmpl, .empty)] else []),
                      pos .upHcIvl c.hcIvl, pos .upHcTimeout c.hcTimeout, pos .upHcBackoff c.hcBackoff ]
          else [] ] ]

def valCache (legacy : Bool) (c : Config) : List Err :=
  sect c.pCa .ca
    [ if c.caType = "simple" ∨ c.caType = "ecs" then [] else [(.caType, .enum)],
      nonNeg .caSize c.caSize,
      if c.caType = "ecs" then (if legacy then nonNeg .caEcs c.caEcs else pos .caEcs c.caEcs) else [],
      sect c.pTtl .caTtl [ pos .caTtlMin c.ttlMin ] ]

def valDnsdb (c : Config) : List Err :=
  sect c.pDb .db [ if c.dbEnabled then pos .dbMax c.dbMax else [] ]

def valDns (c : Config) : List Err :=
  sect c.pDns .dns
    [ pos .dnsRead c.dnsRead, pos .dnsIdle c.dnsIdle, atMost .dnsIdle c.dnsIdle maxIdle,
      pos .dnsWrite c.dnsWrite, pos .dnsHandle c.dnsHandle,
      pos .dnsUdp c.dnsUdp, atMost .dnsUdp c.dnsUdp maxMsg ]

def valBackend (c : Config) : List Err :=
  sect c.pBe .be
    [ nonNeg .beTimeout c.beTimeout, pos .beRefresh c.beRefresh, pos .beFull c.beFull,
      pos .beRetry c.beRetry, pos .beBill c.beBill ]

def valGeo (c : Config) : List Err :=
  sect c.pGeo .geo [ pos .geoHost c.geoHost, pos .geoIp c.geoIp, pos .geoRefresh c.geoRefresh ]

def valKv (c : Config) : List Err :=
  sect c.pKv .ckKv
    [ if c.kvType = "backend" then pos .ckKvTtl c.kvTtl
      else if c.kvType = "cache" then []
      else if c.kvType = "consul" then
        (if c.kvTtl < consulMin ∨ c.kvTtl > consulMax then [(.ckKvTtl, .range)] else [])
      else if c.kvType = "redis" then
        (if c.kvTtl < redisMin then [(.ckKvTtl, .range)] else [])
      else [(.ckKvType, .enum)] ]

def valCheck (c : Config) : List Err :=
  sect c.pCk .ck
    [ (if c.ckLoc = "" then [(.ckLoc, .empty)] else []),
      (if c.ckName = "" then [(.ckName, .empty)] else []),
      valKv c ]

def valQueryLog (c : Config) : List Err := sect c.pQl .ql [ sect c.pQlFile .qlFile [] ]

/-- `filter.NewID`: 1…128 printable non-blank ASCII characters without a slash (the harness only
produces identifiers of such characters, so emptiness is what can go wrong). -/
def badListId (s : String) : Bool := s = ""

/-- `filteringGroups.validate`: the sub-sections, the identifier and the first rule-list identifier of
the first group, then the uniqueness of the identifiers of the three distributed groups. -/
def valFltGroups (c : Config) : List Err :=
  firstOf [ missing c.pFg .fg,
            sect c.pFg0Par .fg0Par [], sect c.pFg0Rl .fg0Rl [], sect c.pFg0Sb .fg0Sb [],
            (if c.fg0Id = "" then [(.fg0Id, .empty)] else []),
            (if badListId c.fg0List0 then [(.fg0List0, .badId)] else []),
            (if c.fg0Id = "family" then [(.fg1Id, .dup)] else []),
            (if c.fg0Id = "non_filtering" then [(.fg2Id, .dup)] else []) ]

/-- `ddrRecord.validatePorts`. -/
def valPorts (fRec fHttps : F) (https quic tls : Int) : List Err :=
  if https ≠ 0 ∧ https = tls then [(fHttps, .cross)]
  else if https = 0 ∧ quic = 0 ∧ tls = 0 then [(fRec, .allZero)]
  else []

def knownProto (p : String) : Bool :=
  p = "dns" ∨ p = "dnscrypt" ∨ p = "https" ∨ p = "quic" ∨ p = "tls"

/-- `serverProto.needsTLS`. -/
def protoNeedsTls (p : String) : Bool := p = "https" ∨ p = "quic" ∨ p = "tls"

/-- `server.validate` for a server with `bind_addresses` and no `dnscrypt` section. -/
def valSrvProto (fp fd : F) (p : String) : List Err :=
  if ¬ knownProto p then [(fp, .enum)] else if p = "dnscrypt" then [(fd, .cross)] else []

/-- `servers.validate` also reports whether a TLS section is needed (servers 0, 4 and 5 are plain DNS
and DNSCrypt). -/
def needsTls (c : Config) : Bool :=
  protoNeedsTls c.proto1 || protoNeedsTls c.proto2 || protoNeedsTls c.proto3

/-- `tlsConfig.validate needsTLS`: required exactly when some server needs it. -/
def valTls (c : Config) : List Err :=
  if needsTls c then sect c.pTls .sgTls [] else if c.pTls then [(.sgTls, .cross)] else []

/-- `serverGroups.validate` for the single distributed group: the filtering-group reference, DDR
records, the server list (bind data of server 0, protocols of servers 1–3), TLS. -/
def valSrvGroups (c : Config) : List Err :=
  firstOf [ missing c.pSg .sg,
            (if c.sgFg = "" then [(.sgFgRef, .empty)] else []),
            sect c.pDdr .sgDdr
              [ valPorts .ddrDev .ddrDevHttps c.devHttps c.devQuic c.devTls,
                valPorts .ddrPub .ddrPubHttps c.pubHttps c.pubQuic c.pubTls ],
            missing c.pSrvs .sgSrvs,
            (if c.bi0Id = "" then [(.bi0Id, .empty)] else []),
            valSrvProto .sgProto1 .sgDc1 c.proto1,
            valSrvProto .sgProto2 .sgDc2 c.proto2,
            valSrvProto .sgProto3 .sgDc3 c.proto3,
            valTls c ]

/-- `serverGroups.streamAddrNum`: the addresses on which stream connections are accepted — two
interface subnets of server 0, servers 1–3 unless DNS-over-QUIC, the two DNSCrypt servers. -/
def streamN (c : Config) : Int :=
  2 + (if c.proto1 = "quic" then 0 else 1) + (if c.proto2 = "quic" then 0 else 1) +
    (if c.proto3 = "quic" then 0 else 2) + 2

/-- `configuration.validateConnLimit` (absent on the tree as found). -/
def valConnN (legacy : Bool) (c : Config) : List Err :=
  if legacy ∨ ¬ c.clEnabled then [] else if c.clResume < streamN c then [(.rlClResume, .range)] else []

def valConnCheck (c : Config) : List Err := sect c.pCc .cc []
def valAccess (c : Config) : List Err := sect c.pAc .ac []

/-- A missing `web` section is accepted. -/
def valWeb (c : Config) : List Err := if c.pWeb then pos .webTimeout c.webTimeout else []

def valSb (p : Bool) (s fs ft fr fo : F) (size ttl refresh timeout : Int) : List Err :=
  sect p s [ pos fs size, pos ft ttl, pos fr refresh, pos fo timeout ]

/-- `filtersConfig.validate` joins all its errors instead of stopping at the first. -/
def valFilters (legacy : Bool) (c : Config) : List Err :=
  if c.pFl then
    posInt legacy .flCustom c.flCustom ++ posInt legacy .flSafe c.flSafe ++
    pos .flRespTtl c.flRespTtl ++ pos .flRefresh c.flRefresh ++ pos .flRefreshTo c.flRefreshTo ++
    pos .flIndexTo c.flIndexTo ++ pos .flRuleTo c.flRuleTo ++ posInt legacy .flMax c.flMax ++
    (if !c.flEde && c.flSde then [(.flSde, .cross)] else []) ++
    sect c.pRlc .flRlc [ pos .flRlcSize c.rlcSize ]
  else [(.fl, .noValue)]

/-- A missing `interface_listeners` section is accepted. -/
def valIface (c : Config) : List Err :=
  if c.pIl then
    firstOf [ pos .ilBuf c.ilBuf, missing c.pIlList .ilList,
              (if c.ilPort0 = 0 then [(.ilPort0, .empty)] else []),
              (if c.ilPort1 = 0 then [(.ilPort1, .empty)] else []) ]
  else []

def valNetwork (c : Config) : List Err :=
  sect c.pNw .nw [ atMost .nwSnd c.nwSnd maxBuf, atMost .nwRcv c.nwRcv maxBuf ]

/-- `configuration.validate`: sections in the order of its `validators` list. -/
def validate (legacy : Bool) (c : Config) : List Err :=
  firstOf
    [ valRatelimit legacy c, valUpstream c, valCache legacy c, valDnsdb c, valDns c, valBackend c,
      valQueryLog c, valGeo c, valCheck c, valWeb c,
      valSb c.pSb .sb .sbSize .sbTtl .sbRefresh .sbTimeout c.sbSize c.sbTtl c.sbRefresh c.sbTimeout,
      valSb c.pAb .ab .abSize .abTtl .abRefresh .abTimeout c.abSize c.abTtl c.abRefresh c.abTimeout,
      valFilters legacy c, valFltGroups c, valSrvGroups c, valConnCheck c, valIface c, valNetwork c,
      valAccess c, valConnN legacy c ]

/-! ## Documented constraints (the specification side) -/

/-- `violates c f`: the value of property `f` in `c` breaks its documented constraint (or the
required section `f` is missing). -/
def violates (c : Config) : F → Bool
  | .rl => !c.pRl | .rlAl => !c.pAl | .rlCl => !c.pCl | .rlV4 => !c.pV4 | .rlV6 => !c.pV6
  | .rlQuic => !c.pQuic | .rlTcp => !c.pTcp | .up => !c.pUp | .upFb => !c.pFb | .upHc => !c.pHc
  | .ca => !c.pCa | .caTtl => !c.pTtl | .db => !c.pDb | .dns => !c.pDns | .be => !c.pBe
  | .geo => !c.pGeo | .ck => !c.pCk | .ckKv => !c.pKv | .sb => !c.pSb | .ab => !c.pAb
  | .fl => !c.pFl | .flRlc => !c.pRlc | .nw => !c.pNw
  | .rlAlType => !(c.alType = "backend" ∨ c.alType = "consul")
  | .rlAlRefresh => c.alRefresh ≤ 0
  | .rlClStop => c.clEnabled && c.clStop ≤ 0
  | .rlClResume => c.clEnabled && (c.clResume ≤ 0 || c.clResume > c.clStop || c.clResume < streamN c)
  | .rlV4Count => c.v4Count ≤ 0 | .rlV4Ivl => c.v4Ivl ≤ 0
  | .rlV4Len => c.v4Len ≤ 0 || c.v4Len > 32
  | .rlV6Count => c.v6Count ≤ 0 | .rlV6Ivl => c.v6Ivl ≤ 0
  | .rlV6Len => c.v6Len ≤ 0 || c.v6Len > 128
  | .rlQuicMax => c.quicMax ≤ 0 | .rlTcpMax => c.tcpMax ≤ 0
  | .rlBkCount => c.bkCount ≤ 0 | .rlBkDur => c.bkDur ≤ 0 | .rlBkPeriod => c.bkPeriod ≤ 0
  | .rlEst => c.est ≤ 0
  | .upS0 => c.upS0 ≤ 0 | .upS1 => c.upS1 ≤ 0 | .upF0 => c.upF0 ≤ 0 | .upF1 => c.upF1 ≤ 0
  | .upHcIvl => c.hcEnabled && c.hcIvl ≤ 0
  | .upHcTimeout => c.hcEnabled && c.hcTimeout ≤ 0
  | .upHcBackoff => c.hcEnabled && c.hcBackoff ≤ 0
  | .caType => !(c.caType = "simple" ∨ c.caType = "ecs")
  | .caSize => c.caSize < 0
  | .caEcs => c.caType = "ecs" && c.caEcs ≤ 0
  | .caTtlMin => c.ttlMin ≤ 0
  | .dbMax => c.dbEnabled && c.dbMax ≤ 0
  | .dnsRead => c.dnsRead ≤ 0 | .dnsIdle => c.dnsIdle ≤ 0 || c.dnsIdle > maxIdle
  | .dnsWrite => c.dnsWrite ≤ 0 | .dnsHandle => c.dnsHandle ≤ 0
  | .dnsUdp => c.dnsUdp ≤ 0 || c.dnsUdp > maxMsg
  | .beTimeout => c.beTimeout < 0 | .beRefresh => c.beRefresh ≤ 0 | .beFull => c.beFull ≤ 0
  | .beRetry => c.beRetry ≤ 0 | .beBill => c.beBill ≤ 0
  | .geoHost => c.geoHost ≤ 0 | .geoIp => c.geoIp ≤ 0 | .geoRefresh => c.geoRefresh ≤ 0
  | .ckKvType => !(c.kvType = "backend" ∨ c.kvType = "cache" ∨ c.kvType = "consul" ∨ c.kvType = "redis")
  | .ckKvTtl => (c.kvType = "backend" && c.kvTtl ≤ 0) ||
      (c.kvType = "consul" && (c.kvTtl < consulMin || c.kvTtl > consulMax)) ||
      (c.kvType = "redis" && c.kvTtl < redisMin)
  | .webTimeout => c.pWeb && c.webTimeout ≤ 0
  | .sbSize => c.sbSize ≤ 0 | .sbTtl => c.sbTtl ≤ 0 | .sbRefresh => c.sbRefresh ≤ 0 | .sbTimeout => c.sbTimeout ≤ 0
  | .abSize => c.abSize ≤ 0 | .abTtl => c.abTtl ≤ 0 | .abRefresh => c.abRefresh ≤ 0 | .abTimeout => c.abTimeout ≤ 0
  | .flCustom => c.flCustom ≤ 0 | .flSafe => c.flSafe ≤ 0 | .flRespTtl => c.flRespTtl ≤ 0
  | .flRefresh => c.flRefresh ≤ 0 | .flRefreshTo => c.flRefreshTo ≤ 0 | .flIndexTo => c.flIndexTo ≤ 0
  | .flRuleTo => c.flRuleTo ≤ 0 | .flMax => c.flMax ≤ 0
  | .flSde => !c.flEde && c.flSde
  | .flRlcSize => c.rlcSize ≤ 0
  | .ilBuf => c.pIl && c.ilBuf ≤ 0
  | .nwSnd => c.nwSnd > maxBuf | .nwRcv => c.nwRcv > maxBuf
  | .upSrv => !c.pUpSrv | .upFbSrv => !c.pFbSrv
  | .upHcTmpl => c.hcEnabled && c.hcTmpl = ""
  | .ql => !c.pQl | .qlFile => !c.pQlFile
  | .ckLoc => c.ckLoc = "" | .ckName => c.ckName = ""
  | .fg => !c.pFg | .fg0Par => !c.pFg0Par | .fg0Rl => !c.pFg0Rl | .fg0Sb => !c.pFg0Sb
  | .sg => !c.pSg | .sgDdr => !c.pDdr | .sgSrvs => !c.pSrvs
  | .sgTls => if needsTls c then !c.pTls else c.pTls
  | .ddrDev => c.devHttps = 0 && c.devQuic = 0 && c.devTls = 0
  | .ddrDevHttps => c.devHttps ≠ 0 && c.devHttps = c.devTls
  | .ddrPub => c.pubHttps = 0 && c.pubQuic = 0 && c.pubTls = 0
  | .ddrPubHttps => c.pubHttps ≠ 0 && c.pubHttps = c.pubTls
  | .cc => !c.pCc | .ac => !c.pAc
  | .ilList => c.pIl && !c.pIlList
  | .ilPort0 => c.pIl && c.ilPort0 = 0
  | .ilPort1 => c.pIl && c.ilPort1 = 0
  | .sgFgRef => c.sgFg = ""
  | .fg0Id => c.fg0Id = "" | .fg1Id => c.fg0Id = "family" | .fg2Id => c.fg0Id = "non_filtering"
  | .fg0List0 => badListId c.fg0List0
  | .bi0Id => c.bi0Id = ""
  | .sgProto1 => !knownProto c.proto1 | .sgProto2 => !knownProto c.proto2 | .sgProto3 => !knownProto c.proto3
  | .sgDc1 => c.proto1 = "dnscrypt" | .sgDc2 => c.proto2 = "dnscrypt" | .sgDc3 => c.proto3 = "dnscrypt"

/-! ## The consumers: constructors run at start-up and the per-query code -/

/-- `makeslice` panics above `maxAlloc / 8` elements; `count + 1` wraps to 0 at 2^64. -/
def allocLimit : Int := 35184372088832
def uintRange : Int := 18446744073709551616
def maxInt : Int := 9223372036854775807
/-- `makechan` panics when `elemsize * n > maxAlloc - hchanSize` (2^48 - 96 on linux/amd64); the
channels of the interface listeners carry pointers (8 bytes). -/
def chanAllocLimit : Int := 281474976710560

inductive Panic
  | lruSize (what : F)      -- `gcache.New(n)` with `n ≤ 0`
  | connLimiter             -- `connLimitConfig.toInternal` panics on `connlimiter.New` error
  | idleTimeout             -- `newServerDNS` panics on an out-of-range TCP idle timeout
  | chanSize                -- `make(chan _, n)` with `n < 0`
  | divZero                 -- `ByteSize(resp.Len()) / respSzEst`
  | badPrefix               -- `subnetKey` panics when `ip.Prefix(len)` fails
  | makeslice               -- `NewRequestCounter(count, _)` allocates `count + 1` stamps
  | makechan                -- `NewChanSemaphore(n)` with `n` beyond the `int` range
  | chanAlloc               -- `make(chan *T, n)` in `bindtodevice.Manager.Add` with `8n` beyond `maxAlloc`
  deriving DecidableEq, Repr

deriving instance DecidableEq for Except

/-- Result of handling one query. -/
inductive Outcome
  | served (weight : Nat)   -- answered; the response counted as `weight` events
  | stuck (what : F)        -- the limit can never be satisfied: no query is ever served
  deriving DecidableEq, Repr

inductive CacheType | none | simple | ecs deriving DecidableEq, Repr

/-- `cacheConfig.toInternal`. -/
def cacheType (c : Config) : CacheType :=
  if c.caSize = 0 then .none else if c.caType = "simple" then .simple else .ecs

def lru (f : F) (n : Int) : Except Panic Unit := if n ≤ 0 then .error (.lruSize f) else .ok ()

/-- The start-up constructors that receive configuration values. -/
def build (c : Config) : Except Panic Unit := do
  -- connLimitConfig.toInternal → connlimiter.New
  if c.clEnabled ∧ (c.clStop = 0 ∨ c.clResume > c.clStop) then throw .connLimiter
  -- DNS cache middleware
  match cacheType c with
  | .none => pure ()
  | .simple => lru .caSize c.caSize
  | .ecs => do lru .caSize c.caSize; lru .caEcs c.caEcs
  -- filter storage, hash-prefix filters, GeoIP
  lru .flCustom c.flCustom
  lru .flSafe c.flSafe
  lru .flRlcSize c.rlcSize
  lru .sbSize c.sbSize
  lru .abSize c.abSize
  lru .geoHost c.geoHost
  lru .geoIp c.geoIp
  -- bindtodevice channels
  if c.pIl ∧ c.ilBuf < 0 then throw .chanSize
  if c.pIl ∧ c.ilBuf * 8 > chanAllocLimit then throw .chanAlloc
  -- newServerDNS: zero means default; negative or too large panics
  if c.dnsIdle < 0 ∨ c.dnsIdle > maxIdle then throw .idleTimeout

/-- A query as far as the configuration-dependent code is concerned. -/
structure Query where
  is4 : Bool
  tcp : Bool
  respLen : Nat

/-- Per-query code fed by the configuration: TCP pipeline semaphore, `subnetKey`, the window
limit, and `CountResponses`. -/
def handle (c : Config) (q : Query) : Except Panic Outcome := do
  if q.tcp ∧ c.tcpEnabled ∧ c.tcpMax = 0 then return .stuck .rlTcpMax
  if q.tcp ∧ c.tcpEnabled ∧ c.tcpMax > maxInt then throw .makechan
  let len := if q.is4 then c.v4Len else c.v6Len
  let bits : Int := if q.is4 then 32 else 128
  if len < 0 ∨ len > bits then throw .badPrefix
  let count := if q.is4 then c.v4Count else c.v6Count
  if count = 0 then return .stuck (if q.is4 then .rlV4Count else .rlV6Count)
  if count + 1 > allocLimit ∧ count + 1 ≠ uintRange then throw .makeslice
  if c.est = 0 then throw .divZero
  return .served (q.respLen / c.est.toNat)

/-- Start the server with `c`, then handle `q`. -/
def run (c : Config) (q : Query) : Except Panic Outcome := do
  build c
  handle c q

/-- What every constructor and the per-query code require of the values. -/
structure Safe (c : Config) : Prop where
  conn : c.clEnabled = true → 0 < c.clStop ∧ 0 < c.clResume ∧ c.clResume ≤ c.clStop
  v4Count : 0 < c.v4Count
  v4Ivl : 0 < c.v4Ivl
  v4Len : 0 < c.v4Len ∧ c.v4Len ≤ 32
  v6Count : 0 < c.v6Count
  v6Ivl : 0 < c.v6Ivl
  v6Len : 0 < c.v6Len ∧ c.v6Len ≤ 128
  quic : 0 < c.quicMax
  tcp : 0 < c.tcpMax
  bkCount : 0 < c.bkCount
  bkDur : 0 < c.bkDur
  bkPeriod : 0 < c.bkPeriod
  est : 0 < c.est
  upTimeouts : 0 < c.upS0 ∧ 0 < c.upS1 ∧ 0 < c.upF0 ∧ 0 < c.upF1
  hc : c.hcEnabled = true → 0 < c.hcIvl ∧ 0 < c.hcTimeout ∧ 0 < c.hcBackoff
  caSize : 0 ≤ c.caSize
  caEcs : c.caType = "ecs" → 0 < c.caEcs
  caType : c.caType = "simple" ∨ c.caType = "ecs"
  ttlMin : 0 < c.ttlMin
  db : c.dbEnabled = true → 0 < c.dbMax
  dnsTimeouts : 0 < c.dnsRead ∧ 0 < c.dnsIdle ∧ c.dnsIdle ≤ maxIdle ∧ 0 < c.dnsWrite ∧ 0 < c.dnsHandle
  dnsUdp : 0 < c.dnsUdp ∧ c.dnsUdp ≤ maxMsg
  geo : 0 < c.geoHost ∧ 0 < c.geoIp ∧ 0 < c.geoRefresh
  sb : 0 < c.sbSize ∧ 0 < c.sbTtl ∧ 0 < c.sbRefresh ∧ 0 < c.sbTimeout
  ab : 0 < c.abSize ∧ 0 < c.abTtl ∧ 0 < c.abRefresh ∧ 0 < c.abTimeout
  flSizes : 0 < c.flCustom ∧ 0 < c.flSafe ∧ 0 < c.rlcSize ∧ 0 < c.flMax
  flTimes : 0 < c.flRespTtl ∧ 0 < c.flRefresh ∧ 0 < c.flRefreshTo ∧ 0 < c.flIndexTo ∧ 0 < c.flRuleTo
  il : c.pIl = true → 0 < c.ilBuf
  nw : c.nwSnd ≤ maxBuf ∧ c.nwRcv ≤ maxBuf
  ilPorts : c.pIl = true → c.ilPort0 ≠ 0 ∧ c.ilPort1 ≠ 0
  ddrDev : ¬ (c.devHttps = 0 ∧ c.devQuic = 0 ∧ c.devTls = 0) ∧ (c.devHttps ≠ 0 → c.devHttps ≠ c.devTls)
  ddrPub : ¬ (c.pubHttps = 0 ∧ c.pubQuic = 0 ∧ c.pubTls = 0) ∧ (c.pubHttps ≠ 0 → c.pubHttps ≠ c.pubTls)
  hcTmpl : c.hcEnabled = true → c.hcTmpl ≠ ""
  connN : c.clEnabled = true → streamN c ≤ c.clResume

/-! ## Cross-references resolved by the conversions, and the stream listeners -/

/-- The start-up errors of the `toInternal` conversions that resolve cross-references. -/
inductive XErr
  | dupPort        -- `bindtodevice.Manager.Add`: two interface listeners on one device and port
  | unknownList    -- `filteringGroups.toInternal`: rule-list id not in the filter index
  | unknownFg      -- `serverGroups.toInternal`: `filtering_group` names no filtering group
  | noIface        -- `server.bindData`: `bind_interfaces` without `interface_listeners`
  | unknownIface   -- `Manager.ListenConfig`: `bind_interfaces.*.id` names no interface listener
  | dupBind        -- `connIndex.addListener`: the same subnet bound twice on one interface listener
  deriving DecidableEq, Repr

def XErr.name : XErr → String
  | .dupPort => "interface_listeners:duplicate-port"
  | .unknownList => "filtering_groups:unknown-list"
  | .unknownFg => "server_groups:unknown-filtering-group"
  | .noIface => "server_groups:no-interface-listeners"
  | .unknownIface => "server_groups:unknown-interface"
  | .dupBind => "server_groups:duplicate-bind"

/-- The identifier of the only rule list in the filter index the harness offers. -/
def indexListId : String := "adguard_dns_filter"

/-- `interfaceListenersConfig.toInternal`, `filteringGroups.toInternal`, `serverGroups.toInternal` in
the builder's order; the answer is the number of stream listeners of the converted servers. -/
def xconv (c : Config) : Except XErr Int :=
  if c.pIl ∧ c.ilPort0 = c.ilPort1 then .error .dupPort
  else if c.fg0List0 ≠ indexListId then .error .unknownList
  else if ¬ (c.sgFg = c.fg0Id ∨ c.sgFg = "family" ∨ c.sgFg = "non_filtering") then .error .unknownFg
  else if ¬ c.pIl then .error .noIface
  else if ¬ (c.bi0Id = "eth0_plain_dns" ∨ c.bi0Id = "eth0_plain_dns_secondary") then .error .unknownIface
  else if c.bi0Id = "eth0_plain_dns_secondary" then .error .dupBind
  else .ok (streamN c)

/-- One goroutine per stream listener calls `Accept` on the fresh limiter (C18's model of
`limitListener`): how many reach the underlying `Accept`, how many are parked. -/
def limStart (stop resume n : Nat) : Nat × Nat :=
  let s := ConnLimit.run ConnLimit.repaired (ConnLimit.init stop resume)
    ((List.range n).map ConnLimit.Op.accept)
  (s.pending.length, s.waitq.length)

/-- The listeners of the configured servers right after start-up. -/
def startListeners (c : Config) : Nat × Nat :=
  if c.clEnabled then limStart c.clStop.toNat c.clResume.toNat (streamN c).toNat
  else ((streamN c).toNat, 0)


/-! ## Enumerations that refer to the process environment (round 4)

`check.kv.type` and `ratelimit.allowlist.type` select which environment variables the builder
dereferences: `environment.validateFromValidConfig` must reject what `remoteKVConfig.newRemoteKV`
(`builder.initDNSCheck`) and `builder.initRateLimiter` cannot work with. -/

/-- State of a URL-valued variable. -/
inductive UrlSt | absent | badScheme | good deriving DecidableEq, Repr

structure Env where
  kvUrl : UrlSt := .absent          -- DNSCHECK_REMOTEKV_URL (gRPC)
  rlUrl : UrlSt := .absent          -- BACKEND_RATELIMIT_URL (gRPC)
  consulUrl : UrlSt := .good        -- CONSUL_ALLOWLIST_URL (HTTP)
  kvSize : Int := 0                 -- DNSCHECK_CACHE_KV_SIZE
  redisAddr : Bool := false         -- REDIS_ADDR is not empty
  redisIdle : Int := 30000000000    -- REDIS_IDLE_TIMEOUT
  redisMaxActive : Int := 10
  redisMaxIdle : Int := 3

inductive EnvVar | kvUrl | kvSize | redisAddr | redisIdle | redisMaxActive | redisMaxIdle | rlUrl | consulUrl
  deriving DecidableEq, Repr

def EnvVar.name : EnvVar → String
  | .kvUrl => "DNSCHECK_REMOTEKV_URL" | .kvSize => "DNSCHECK_CACHE_KV_SIZE" | .redisAddr => "REDIS_ADDR"
  | .redisIdle => "REDIS_IDLE_TIMEOUT" | .redisMaxActive => "REDIS_MAX_ACTIVE" | .redisMaxIdle => "REDIS_MAX_IDLE"
  | .rlUrl => "BACKEND_RATELIMIT_URL" | .consulUrl => "CONSUL_ALLOWLIST_URL"

def needUrl (v : EnvVar) (u : UrlSt) : List EnvVar := if u = .good then [] else [v]

/-- `environment.validateFromValidConfig` (errors are joined; the profile URLs are always set here). -/
def envCheck (c : Config) (e : Env) : List EnvVar :=
  (if c.kvType = "backend" then needUrl .kvUrl e.kvUrl
   else if c.kvType = "cache" then (if e.kvSize ≤ 0 then [.kvSize] else [])
   else if c.kvType = "redis" then
     (if e.redisAddr then [] else [.redisAddr]) ++ (if e.redisIdle ≤ 0 then [.redisIdle] else []) ++
     (if e.redisMaxActive < 0 then [.redisMaxActive] else []) ++ (if e.redisMaxIdle < 0 then [.redisMaxIdle] else [])
   else []) ++
  (if c.alType = "consul" then needUrl .consulUrl e.consulUrl else needUrl .rlUrl e.rlUrl)

inductive EnvPanic
  | kvLru                   -- `agdcache.NewLRU` with a count ≤ 0
  | nilUrl (v : EnvVar)     -- `&envs.X.URL` with the variable unset
  | kvEnum                  -- `newRemoteKV` / `newRemoveKVPrefix` default branch
  deriving DecidableEq, Repr

/-- `builder.initDNSCheck` (→ `remoteKVConfig.newRemoteKV`) and `builder.initRateLimiter` as far as
they touch the environment; a URL with a wrong scheme is a reported start-up error, not a panic. -/
def kvBuild (c : Config) (e : Env) : Except EnvPanic Unit :=
  if c.kvType = "backend" then (if e.kvUrl = .absent then .error (.nilUrl .kvUrl) else .ok ())
  else if c.kvType = "cache" then (if e.kvSize ≤ 0 then .error .kvLru else .ok ())
  else if c.kvType = "redis" ∨ c.kvType = "consul" then .ok ()
  else .error .kvEnum

def rlBuild (c : Config) (e : Env) : Except EnvPanic Unit :=
  if c.alType = "backend" then (if e.rlUrl = .absent then .error (.nilUrl .rlUrl) else .ok ())
  else if e.consulUrl = .absent then .error (.nilUrl .consulUrl) else .ok ()

def envBuild (c : Config) (e : Env) : Except EnvPanic Unit :=
  match kvBuild c e with
  | .error p => .error p
  | .ok _ => rlBuild c e

/-- Declarative reading: the configuration needs variable `v` and the environment does not provide
a usable value. -/
def envViolates (c : Config) (e : Env) : EnvVar → Bool
  | .kvUrl => c.kvType = "backend" && e.kvUrl ≠ .good
  | .kvSize => c.kvType = "cache" && e.kvSize ≤ 0
  | .redisAddr => c.kvType = "redis" && !e.redisAddr
  | .redisIdle => c.kvType = "redis" && e.redisIdle ≤ 0
  | .redisMaxActive => c.kvType = "redis" && e.redisMaxActive < 0
  | .redisMaxIdle => c.kvType = "redis" && e.redisMaxIdle < 0
  | .rlUrl => c.alType ≠ "consul" && e.rlUrl ≠ .good
  | .consulUrl => c.alType = "consul" && e.consulUrl ≠ .good

/-! ## Parsing stage (YAML → typed value) -/

/-- Go type of a scalar field. -/
inductive Ty | uint | int | dur | size | u16 deriving DecidableEq, Repr

/-- Values outside the Go type are rejected by the YAML decoder before validation. -/
def Ty.inRange : Ty → Int → Bool
  | .uint, v | .size, v => 0 ≤ v && v ≤ 18446744073709551615
  | .int, v | .dur, v => -9223372036854775808 ≤ v && v ≤ 9223372036854775807
  | .u16, v => 0 ≤ v && v ≤ 65535

end Agd.Config
