/-!
# Model of `internal/connlimiter` and of the TCP pipeline semaphore (C18)

Core Lean only.  Goroutines are explicit scheduler choices in `Op`:

* an *acceptor* is a goroutine inside `limitListener.Accept`; acceptors of the same listener are
  interchangeable, so an acceptor is identified by the id of its listener;
* `waitq`  – acceptors parked in `counterCond.Wait()` (FIFO, as the Go runtime's notify list);
* `woken`  – acceptors that were signalled and still have to re-run the loop test of `increment`;
* `pending` – acceptors that passed the limiter and are blocked in the underlying `Listener.Accept`;
* `open_`  – ids of connections handed out by `Accept` and not yet closed.

The two places where the pinned tree differed from the repaired one are parameters (`Variant`), so
that the counter-examples for the original code and the theorems for the repaired code talk about
the same definitions; `Agd/Tie/C18.lean` pins which variant the source is.
-/
namespace Agd.ConnLimit

/-- 2^64: `counter.current` is a `uint64`. -/
def two64 : Nat := 18446744073709551616

/-- `connlimiter.counter`. -/
structure Counter where
  current : Nat
  stop : Nat
  resume : Nat
  accepting : Bool
deriving DecidableEq, Repr

/-- `counter.increment`: `if !c.isAccepting { return false }; c.current++;
c.isAccepting = c.current < c.stop; return true`. -/
def Counter.increment (c : Counter) : Counter × Bool :=
  if c.accepting then
    ({ c with current := (c.current + 1) % two64,
              accepting := decide ((c.current + 1) % two64 < c.stop) }, true)
  else (c, false)

/-- `counter.decrement`: `c.current--; c.isAccepting = c.isAccepting || c.current <= c.resume`
(uint64 wrap-around included). -/
def Counter.decrement (c : Counter) : Counter :=
  { c with current := (c.current + two64 - 1) % two64,
           accepting := c.accepting || decide ((c.current + two64 - 1) % two64 ≤ c.resume) }

/-- What `limitListener.decrement` calls on the condition variable. -/
inductive Wake | signal | broadcast
deriving DecidableEq, Repr

/-- The two source-dependent choices. -/
structure Variant where
  /-- `counterCond.Signal()` or `counterCond.Broadcast()` in `limitListener.decrement`. -/
  wake : Wake
  /-- loop test of `limitListener.increment`: `true` = `!l.isClosed && !l.counter.increment()`
  (closed listeners never touch the counter), `false` = `!l.counter.increment() && !l.isClosed`. -/
  closedFirst : Bool
deriving DecidableEq, Repr

/-- The pinned tree before the repairs. -/
def original : Variant := { wake := .signal, closedFirst := false }
/-- The repaired tree (what `Tie/C18.lean` pins). -/
def repaired : Variant := { wake := .broadcast, closedFirst := true }

structure St where
  c : Counter
  closed : List Nat
  waitq : List Nat
  woken : List Nat
  pending : List Nat
  open_ : List Nat
  nextConn : Nat
  /-- ghost: successful `counter.increment`s whose acceptor returned `net.ErrClosed` without a
  matching decrement (only the `closedFirst = false` variant ever makes one). -/
  leaked : Nat
deriving DecidableEq, Repr

inductive Op
  /-- a new goroutine calls `Accept` on listener `l` -/
  | accept (l : Nat)
  /-- a woken acceptor of listener `l` re-acquires the lock and re-runs the loop test -/
  | recheck (l : Nat)
  /-- the underlying listener `l` hands a connection to one pending acceptor -/
  | deliver (l : Nat)
  /-- the underlying `Accept` of one pending acceptor of `l` returns an error -/
  | fail (l : Nat)
  /-- `limitConn.Close` on connection `k` (any number of times) -/
  | close (k : Nat)
  /-- `limitListener.Close` on listener `l` -/
  | lclose (l : Nat)
deriving DecidableEq, Repr

inductive Out
  | pending      -- passed the limiter, now in the underlying Accept
  | wait         -- parked in cond.Wait
  | closed       -- Accept returned net.ErrClosed
  | conn (k : Nat)
  | ok
  | errClosed
  | none         -- op not enabled in this state
deriving DecidableEq, Repr

def init (stop resume : Nat) : St :=
  { c := { current := 0, stop := stop, resume := resume, accepting := true },
    closed := [], waitq := [], woken := [], pending := [], open_ := [], nextConn := 0, leaked := 0 }

/-- `Signal` moves the longest waiter to `woken`, `Broadcast` all of them. -/
def wake (w : Wake) (s : St) : St :=
  match w with
  | .signal =>
    match s.waitq with
    | [] => s
    | t :: r => { s with waitq := r, woken := s.woken ++ [t] }
  | .broadcast => { s with waitq := [], woken := s.woken ++ s.waitq }

/-- One evaluation of the loop test of `limitListener.increment`, under the lock, by an acceptor
of listener `l`. -/
def attempt (v : Variant) (s : St) (l : Nat) : St × Out :=
  if v.closedFirst then
    if l ∈ s.closed then (s, .closed)
    else if s.c.increment.2 then
      ({ s with c := s.c.increment.1, pending := s.pending ++ [l] }, .pending)
    else ({ s with waitq := s.waitq ++ [l] }, .wait)
  else
    if s.c.increment.2 then
      if l ∈ s.closed then ({ s with c := s.c.increment.1, leaked := s.leaked + 1 }, .closed)
      else ({ s with c := s.c.increment.1, pending := s.pending ++ [l] }, .pending)
    else if l ∈ s.closed then (s, .closed)
    else ({ s with waitq := s.waitq ++ [l] }, .wait)

/-- `limitListener.decrement`: counter decrement, then wake. -/
def release (v : Variant) (s : St) : St :=
  wake v.wake { s with c := s.c.decrement }

def step (v : Variant) (s : St) : Op → St × Out
  | .accept l => attempt v s l
  | .recheck l =>
    if l ∈ s.woken then attempt v { s with woken := s.woken.erase l } l else (s, .none)
  | .deliver l =>
    if l ∈ s.pending ∧ l ∉ s.closed then
      ({ s with pending := s.pending.erase l, open_ := s.open_ ++ [s.nextConn],
                nextConn := s.nextConn + 1 }, .conn s.nextConn)
    else (s, .none)
  | .fail l =>
    if l ∈ s.pending then (release v { s with pending := s.pending.erase l }, .ok) else (s, .none)
  | .close k =>
    if k ∈ s.open_ then (release v { s with open_ := s.open_.erase k }, .ok) else (s, .errClosed)
  | .lclose l =>
    if l ∈ s.closed then (s, .errClosed)
    else (wake .broadcast { s with closed := l :: s.closed }, .ok)

def run (v : Variant) (s : St) : List Op → St
  | [] => s
  | o :: r => run v (step v s o).1 r

/-- All goroutines are blocked: nobody is between a wake-up and its re-check. -/
def Quiescent (s : St) : Prop := s.woken = []

/-- A quiescent state in which an acceptor of an open listener is parked although the counter
accepts: nothing will ever wake it unless some other connection is closed. -/
def Stuck (s : St) : Prop :=
  s.woken = [] ∧ s.c.accepting = true ∧ ∃ l ∈ s.waitq, l ∉ s.closed

instance (s : St) : Decidable (Stuck s) := by unfold Stuck; infer_instance

/-- The number the property talks about: accepted-and-open connections plus pending accepts. -/
def count (s : St) : Nat := s.open_.length + s.pending.length

/-! ## Pipeline semaphore (`acceptTCPMsg`) -/

/-- One TCP/TLS connection: `n` = `MaxPipelineCount`; `inflight` = workers between `Submit` and
`msgSema.Release`; `blocked` = the reading goroutine sits in `msgSema.Acquire` holding one message;
`queued` = messages still in the socket buffer. -/
structure Pipe where
  n : Nat
  inflight : Nat
  blocked : Bool
  queued : Nat
deriving DecidableEq, Repr

inductive POp
  | query   -- the client writes one more query
  | done    -- one worker finishes (deferred Release)
deriving DecidableEq, Repr

def Pipe.init (n : Nat) : Pipe := { n := n, inflight := 0, blocked := false, queued := 0 }

/-- The reader loop runs until it blocks: read a message, `Acquire`, `Submit`. -/
def Pipe.pump : Nat → Pipe → Pipe
  | 0, p => p
  | fuel + 1, p =>
    if p.blocked then
      if p.inflight < p.n then Pipe.pump fuel { p with blocked := false, inflight := p.inflight + 1 }
      else p
    else if p.queued = 0 then p
    else Pipe.pump fuel { p with queued := p.queued - 1, blocked := true }

def Pipe.step (p : Pipe) : POp → Pipe
  | .query => Pipe.pump (2 * (p.queued + 1) + 2) { p with queued := p.queued + 1 }
  | .done =>
    if p.inflight = 0 then p
    else Pipe.pump (2 * p.queued + 2) { p with inflight := p.inflight - 1 }

def Pipe.run (p : Pipe) : List POp → Pipe
  | [] => p
  | o :: r => Pipe.run (p.step o) r

end Agd.ConnLimit
