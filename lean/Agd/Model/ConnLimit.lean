/-!
# Model of `internal/connlimiter` and of the TCP pipeline semaphore (C18)

Core Lean only.  Goroutines are explicit scheduler choices in `Op`:

* an *acceptor* is a goroutine inside `limitListener.Accept`; acceptors of the same listener are
  interchangeable, so an acceptor is identified by the id of its listener;
* `waitq`  – acceptors parked in `counterCond.Wait()` (FIFO, as the Go runtime's notify list);
* `woken`  – acceptors that were signalled and still have to re-run the loop test of `increment`;
* `pending` – acceptors that passed the limiter and are blocked in the underlying `Listener.Accept`;
* `open_`  – ids of connections handed out by `Accept` and not yet closed.

The two places where the pinned tree differed from the repaired one are parameters (`Variant`), so
that the counter-examples for the original code and the theorems for the repaired code talk about
the same definitions; `Agd/Tie/C18.lean` pins which variant the source is.
-/
namespace Agd.ConnLimit

/-- 2^64: `counter.current` is a `uint64`. -/
def two64 : Nat := 18446744073709551616

/-- `connlimiter.counter`. -/
structure Counter where
  current : Nat
  stop : Nat
  resume : Nat
  accepting : Bool
deriving DecidableEq, Repr

/-- `counter.increment`: `if !c.isAccepting { return false }; c.current++;
c.isAccepting = c.current < c.stop; return true`. -/
def Counter.increment (c : Counter) : Counter × Bool :=
  if c.accepting then
    ({ c with current := (c.current + 1) % two64,
              accepting := decide ((c.current + 1) % two64 < c.stop) }, true)
  else (c, false)

/-- `counter.decrement`: `c.current--; c.isAccepting = c.isAccepting || c.current <= c.resume`
(uint64 wrap-around included). -/
def Counter.decrement (c : Counter) : Counter :=
  { c with current := (c.current + two64 - 1) % two64,
           accepting := c.accepting || decide ((c.current + two64 - 1) % two64 ≤ c.resume) }

/-- Saturating load (every serve loop always has a client waiting, so an acceptor that got past the
limiter is back at once for the next connection): as many `increment`s as succeed. -/
def Counter.refill : Nat → Counter → Counter
  | 0, c => c
  | fuel + 1, c => if c.increment.2 then Counter.refill fuel c.increment.1 else c

/-- Declarative reading of one release under saturating load, from the property statement alone: the
number falls by one; if that is at or below `resume` the limiter reopens and fills up to `stop` again,
otherwise it stays where it is (a sawtooth). -/
def sawNext (stop resume n : Nat) : Nat := if n - 1 ≤ resume then stop else n - 1

/-- What `limitListener.decrement` calls on the condition variable. -/
inductive Wake | signal | broadcast
deriving DecidableEq, Repr

/-- The two source-dependent choices. -/
structure Variant where
  /-- `counterCond.Signal()` or `counterCond.Broadcast()` in `limitListener.decrement`. -/
  wake : Wake
  /-- loop test of `limitListener.increment`: `true` = `!l.isClosed && !l.counter.increment()`
  (closed listeners never touch the counter), `false` = `!l.counter.increment() && !l.isClosed`. -/
  closedFirst : Bool
deriving DecidableEq, Repr

/-- The pinned tree before the repairs. -/
def original : Variant := { wake := .signal, closedFirst := false }
/-- The repaired tree (what `Tie/C18.lean` pins). -/
def repaired : Variant := { wake := .broadcast, closedFirst := true }

structure St where
  c : Counter
  closed : List Nat
  waitq : List Nat
  woken : List Nat
  pending : List Nat
  open_ : List Nat
  nextConn : Nat
  /-- ghost: successful `counter.increment`s whose acceptor returned `net.ErrClosed` without a
  matching decrement (only the `closedFirst = false` variant ever makes one). -/
  leaked : Nat
deriving DecidableEq, Repr

inductive Op
  /-- a new goroutine calls `Accept` on listener `l` -/
  | accept (l : Nat)
  /-- a woken acceptor of listener `l` re-acquires the lock and re-runs the loop test -/
  | recheck (l : Nat)
  /-- the underlying listener `l` hands a connection to one pending acceptor (also when `l` has been
  closed meanwhile: the inner `Accept` runs outside the lock and may win the race) -/
  | deliver (l : Nat)
  /-- the underlying `Accept` of one pending acceptor of `l` returns an error -/
  | fail (l : Nat)
  /-- `limitConn.Close` on connection `k` (any number of times); `innerErr`: the wrapped
  `net.Conn.Close` returns an error (the slot is given back all the same) -/
  | close (k : Nat) (innerErr : Bool)
  /-- `limitListener.Close` on listener `l`; `innerErr`: the wrapped `net.Listener.Close` returns an
  error (the listener counts as closed and its waiters are released all the same) -/
  | lclose (l : Nat) (innerErr : Bool)
deriving DecidableEq, Repr

inductive Out
  | pending      -- passed the limiter, now in the underlying Accept
  | wait         -- parked in cond.Wait
  | closed       -- Accept returned net.ErrClosed
  | conn (k : Nat)
  | ok
  | errClosed
  | innerErr     -- the release / close took place, the wrapped object's own Close error is returned
  | none         -- op not enabled in this state
deriving DecidableEq, Repr

def init (stop resume : Nat) : St :=
  { c := { current := 0, stop := stop, resume := resume, accepting := true },
    closed := [], waitq := [], woken := [], pending := [], open_ := [], nextConn := 0, leaked := 0 }

/-- `Signal` moves the longest waiter to `woken`, `Broadcast` all of them. -/
def wake (w : Wake) (s : St) : St :=
  match w with
  | .signal =>
    match s.waitq with
    | [] => s
    | t :: r => { s with waitq := r, woken := s.woken ++ [t] }
  | .broadcast => { s with waitq := [], woken := s.woken ++ s.waitq }

/-- One evaluation of the loop test of `limitListener.increment`, under the lock, by an acceptor
of listener `l`. -/
def attempt (v : Variant) (s : St) (l : Nat) : St × Out :=
  if v.closedFirst then
    if l ∈ s.closed then (s, .closed)
    else if s.c.increment.2 then
      ({ s with c := s.c.increment.1, pending := s.pending ++ [l] }, .pending)
    else ({ s with waitq := s.waitq ++ [l] }, .wait)
  else
    if s.c.increment.2 then
      if l ∈ s.closed then ({ s with c := s.c.increment.1, leaked := s.leaked + 1 }, .closed)
      else ({ s with c := s.c.increment.1, pending := s.pending ++ [l] }, .pending)
    else if l ∈ s.closed then (s, .closed)
    else ({ s with waitq := s.waitq ++ [l] }, .wait)

/-- `limitListener.decrement`: counter decrement, then wake. -/
def release (v : Variant) (s : St) : St :=
  wake v.wake { s with c := s.c.decrement }

/-- What a `Close` that took effect returns: the wrapped object's error, if any. -/
def closeOut (innerErr : Bool) : Out := if innerErr then .innerErr else .ok

def step (v : Variant) (s : St) : Op → St × Out
  | .accept l => attempt v s l
  | .recheck l =>
    if l ∈ s.woken then attempt v { s with woken := s.woken.erase l } l else (s, .none)
  | .deliver l =>
    if l ∈ s.pending then
      ({ s with pending := s.pending.erase l, open_ := s.open_ ++ [s.nextConn],
                nextConn := s.nextConn + 1 }, .conn s.nextConn)
    else (s, .none)
  | .fail l =>
    if l ∈ s.pending then (release v { s with pending := s.pending.erase l }, .ok) else (s, .none)
  | .close k e =>
    if k ∈ s.open_ then (release v { s with open_ := s.open_.erase k }, closeOut e)
    else (s, .errClosed)
  | .lclose l e =>
    if l ∈ s.closed then (s, .errClosed)
    else (wake .broadcast { s with closed := l :: s.closed }, closeOut e)

def run (v : Variant) (s : St) : List Op → St
  | [] => s
  | o :: r => run v (step v s o).1 r

/-- All goroutines are blocked: nobody is between a wake-up and its re-check. -/
def Quiescent (s : St) : Prop := s.woken = []

/-- A quiescent state in which an acceptor of an open listener is parked although the counter
accepts: nothing will ever wake it unless some other connection is closed. -/
def Stuck (s : St) : Prop :=
  s.woken = [] ∧ s.c.accepting = true ∧ ∃ l ∈ s.waitq, l ∉ s.closed

instance (s : St) : Decidable (Stuck s) := by unfold Stuck; infer_instance

/-- The number the property talks about: accepted-and-open connections plus pending accepts. -/
def count (s : St) : Nat := s.open_.length + s.pending.length

/-- The log of `count` after every step, most recent first (`log` is what has been recorded so far).
Only the observable number enters the log, not the counter's `isAccepting` flag. -/
def hist (v : Variant) (s : St) (log : List Nat) : List Op → List Nat
  | [] => log
  | o :: r => hist v (step v s o).1 (count (step v s o).1 :: log) r

/-- Declarative reading of "the limiter is stopped", over the log alone: at some moment the number was
`stop`, and at every later moment (the current one included) it was above `resume`. -/
def StoppedLog (stop resume : Nat) (log : List Nat) : Prop :=
  ∃ recent older, log = recent ++ stop :: older ∧ ∀ n ∈ recent, resume < n

/-! ## Pipeline semaphore (`acceptTCPMsg`) -/

/-- One TCP/TLS connection.  `n` = `MaxPipelineCount` = capacity of the `ChanSemaphore` made in
`serveTCPConn`; `tokens` = values sitting in the semaphore's channel; `running` = workers between
`Submit` and the end of `serveTCPMessage` (the deferred `Release` follows); `blocked` = the reading
goroutine sits in `msgSema.Acquire` holding one message; `queued` = messages still in the socket
buffer; `dead` = `acceptTCPMsg` returned an error (`Acquire` gave up on the request context), the
read loop of this connection is over. -/
structure Pipe where
  n : Nat
  tokens : Nat
  running : Nat
  blocked : Bool
  queued : Nat
  dead : Bool
deriving DecidableEq, Repr

inductive POp
  | query    -- the client writes one more query
  | done     -- one worker finishes (deferred Release)
  | timeout  -- the request context of the message held in `Acquire` expires
deriving DecidableEq, Repr

def Pipe.init (n : Nat) : Pipe :=
  { n := n, tokens := 0, running := 0, blocked := false, queued := 0, dead := false }

/-- The reader loop runs until it blocks: read a message, `Acquire` (channel send, possible while
fewer than `n` tokens are in the channel), `Submit`. -/
def Pipe.pump : Nat → Pipe → Pipe
  | 0, p => p
  | fuel + 1, p =>
    if p.dead then p
    else if p.blocked then
      if p.tokens < p.n then
        Pipe.pump fuel { p with blocked := false, tokens := p.tokens + 1, running := p.running + 1 }
      else p
    else if p.queued = 0 then p
    else Pipe.pump fuel { p with queued := p.queued - 1, blocked := true }

def Pipe.step (p : Pipe) : POp → Pipe
  | .query => Pipe.pump (2 * p.queued + 4) { p with queued := p.queued + 1 }
  | .done =>
    if p.running = 0 then p
    else Pipe.pump (2 * p.queued + 4) { p with running := p.running - 1, tokens := p.tokens - 1 }
  | .timeout =>
    if p.blocked ∧ ¬ p.dead then { p with blocked := false, dead := true } else p

def Pipe.run (p : Pipe) : List POp → Pipe
  | [] => p
  | o :: r => Pipe.run (p.step o) r

/-- The reader has done all it can: it is gone, or it holds a message and the semaphore is full, or
the socket buffer is empty. -/
def Pipe.Settled (p : Pipe) : Prop :=
  p.dead = true ∨ (p.blocked = true ∧ p.n ≤ p.tokens) ∨ (p.blocked = false ∧ p.queued = 0)


/-! ## Configuration wiring (`internal/cmd`, `dnssvc.NewListener`) — round 4

How the numbers of the YAML file become the `stop` / `resume` of the shared counter and the capacity
of the per-connection semaphore.  `none` stands for an absent section (a nil pointer in `cmd`). -/

/-- `ratelimit.connection_limit` (`cmd.connLimitConfig`; both thresholds are `uint64`). -/
structure ConnLimitYaml where
  enabled : Bool
  stop : Nat
  resume : Nat
deriving DecidableEq, Repr

/-- What a conversion in `cmd` ends in. -/
inductive Wired (α : Type) where
  | rejected          -- `configuration.validate` returns an error
  | panic             -- the conversion panics (`toInternal` on an error from `New`)
  | off               -- nil limiter / `EmptySemaphore`: nothing is limited
  | on (a : α)
deriving DecidableEq, Repr

/-- `connlimiter.New`: `if c == nil || c.Stop == 0 || c.Resume > c.Stop { return nil, err }`. -/
def newLimiter (stop resume : Nat) : Option Counter :=
  if stop = 0 ∨ resume > stop then none
  else some { current := 0, stop := stop, resume := resume, accepting := true }

/-- `connLimitConfig.validate` followed by `configuration.validateConnLimit` (`addrs` = the number of
bound stream addresses, `serverGroups.streamAddrNum`). -/
def ConnLimitYaml.validate (c : Option ConnLimitYaml) (addrs : Nat) : Bool :=
  match c with
  | none => false
  | some c =>
    if !c.enabled then true
    else if c.stop = 0 then false
    else if c.resume = 0 then false
    else if c.resume > c.stop then false
    else decide (addrs ≤ c.resume)

/-- `connLimitConfig.toInternal`: nil when disabled, otherwise `New` with `Stop: c.Stop, Resume:
c.Resume`, panicking on its error. -/
def ConnLimitYaml.toInternal (c : ConnLimitYaml) : Wired Counter :=
  if !c.enabled then .off
  else match newLimiter c.stop c.resume with
    | none => .panic
    | some k => .on k

/-- Validation, then conversion: what `cmd` does with the section at start-up. -/
def ConnLimitYaml.wire (c : Option ConnLimitYaml) (addrs : Nat) : Wired Counter :=
  match c with
  | none => .rejected
  | some k => if ConnLimitYaml.validate (some k) addrs then k.toInternal else .rejected

/-- `ratelimit.tcp` (`cmd.ratelimitTCPConfig`). -/
structure TcpYaml where
  enabled : Bool
  count : Nat
deriving DecidableEq, Repr

/-- `ratelimitTCPConfig.validate`: `validatePositive("max_pipeline_count", …)`, enabled or not. -/
def TcpYaml.validate (c : Option TcpYaml) : Bool :=
  match c with
  | none => false
  | some c => decide (0 < c.count)

/-- `cmd.serverProto`. -/
inductive Proto | dns | dnscrypt | doh | doq | dot
deriving DecidableEq, Repr

/-- `servers.toInternal`: the `switch dnsSrv.Protocol` gives every server but DNSCrypt ones the
`agd.TCPConfig{MaxPipelineCount: ratelimitConf.TCP.MaxPipelineCount, MaxPipelineEnabled:
ratelimitConf.TCP.Enabled}`. -/
def Proto.tcpConf (p : Proto) (t : TcpYaml) : Option TcpYaml :=
  match p with
  | .dnscrypt => none
  | _ => some t

/-- `dnssvc.NewListener` copies the two fields into `ConfigDNS` for plain DNS and DoT (the servers
whose stream connections run `serveTCPConn`); there `MaxPipelineEnabled` chooses between
`NewChanSemaphore(MaxPipelineCount)` and `EmptySemaphore`.  Other protocols never make one. -/
def Proto.wireTcp (p : Proto) (c : Option TcpYaml) : Wired Nat :=
  match c with
  | none => .rejected
  | some t =>
    if !TcpYaml.validate (some t) then .rejected
    else match p with
      | .dns | .dot =>
        match p.tcpConf t with
        | some k => if k.enabled then .on k.count else .off
        | none => .off
      | _ => .off

end Agd.ConnLimit
