import Agd.Model.RatelimitHist
/-!
# C09 model, part 3: what `ratelimitmw.Middleware.Wrap` does in front of the limiter

`serveWithRatelimiting` (`serve`, `mwStep`) is entered from the handler closure of `Wrap`
(`internal/dnssvc/internal/ratelimitmw/ratelimitmw.go`).  Before it, `Wrap` sorts the request into
one of six classes:

* `spoofed` — the remote address has port 0: dropped, nothing else happens;
* `blocked` — the access manager blocks the client or the question: dropped;
* `unknownDedicated` — `DeviceResultUnknownDedicated`: dropped;
* `devErr` — `DeviceResultError` (e.g. a malformed device id in the dnsmasq EDNS option of a plain-DNS
  query): the error goes back to the server, which answers SERVFAIL;
* `badECS` — a malformed EDNS Client Subnet option: the middleware answers FORMERR itself;
* `ok` — the request goes on to the handler behind the limiter.

In the code as found (`frontStepOld`) the SERVFAIL and the FORMERR were given *before* the limiter
was asked: any number of them per subnet.  The repaired code (`frontStep`) hands both to
`serveWithRatelimiting` with a `next` handler that returns the error / writes the FORMERR, so they are
judged, counted and weighed like every other response.
-/
namespace Agd.Ratelimit

inductive Front
  | ok | badECS | devErr | spoofed | blocked | unknownDedicated
deriving DecidableEq, Repr

/-- What the client receives. -/
inductive Seen
  | silent | upstream | formerr | servfail
deriving DecidableEq, Repr

/-- The request gets past the access and device checks of `Wrap`. -/
def Front.reaches : Front → Bool
  | .ok | .badECS | .devErr => true
  | _ => false

/-- A request in front of the middleware: its class, the request as the limiter will see it (`req.resp`
is what the handler behind the limiter would write) and the length of the FORMERR message the
middleware would build for it. -/
structure FReq where
  front : Front
  req : MReq
  flen : Nat
deriving Repr

/-- The request as `serveWithRatelimiting` sees it in the repaired code: for a malformed ECS option the
`next` handler writes the FORMERR (`flen` bytes); for a device error it returns the error and writes
nothing, and there is no profile (`RequestInfo.DeviceData` is empty for an error result). -/
def FReq.inner (f : FReq) : MReq :=
  match f.front with
  | .badECS => { f.req with resp := some f.flen }
  | .devErr => { f.req with resp := none, prof := none }
  | _ => f.req

/-- Who answers a request that is not dropped. -/
def FReq.answer (f : FReq) : Seen :=
  match f.front with
  | .ok => if f.req.resp.isSome then .upstream else .silent
  | .badECS => .formerr
  | .devErr => .servfail
  | _ => .silent

def FReq.seen (f : FReq) (e : Effect) : Seen :=
  match e with
  | .dropped => .silent
  | _ => f.answer

/-- The repaired `Wrap`. -/
def frontStep (c : Cfg) (h : HSt) (f : FReq) : HSt × Seen :=
  if f.front.reaches then ((mwStep c h f.inner).1, f.seen (mwStep c h f.inner).2)
  else (h, .silent)

/-- `Wrap` as found: device errors and malformed ECS options are answered without the limiter. -/
def frontStepOld (c : Cfg) (h : HSt) (f : FReq) : HSt × Seen :=
  match f.front with
  | .devErr => (h, .servfail)
  | .badECS => (h, .formerr)
  | _ => frontStep c h f

def frontRun (c : Cfg) : HSt → List FReq → List Seen
  | _, [] => []
  | h, f :: rest => (frontStep c h f).2 :: frontRun c (frontStep c h f).1 rest

def frontRunOld (c : Cfg) : HSt → List FReq → List Seen
  | _, [] => []
  | h, f :: rest => (frontStepOld c h f).2 :: frontRunOld c (frontStepOld c h f).1 rest

/-! ## Specification: every response the client receives on a limited protocol is a counted event -/

/-- A request that does not get past `Wrap`'s own checks leaves no trace; every other request —
whoever would answer it — is one request of the declarative middleware specification. -/
def frontSpecStep (c : Cfg) (h : HSpec) (f : FReq) : HSpec × Seen :=
  if f.front.reaches then ((mwSpecStep c h f.inner).1, f.seen (mwSpecStep c h f.inner).2)
  else (h, .silent)

def frontSpecRun (c : Cfg) : HSpec → List FReq → List Seen
  | _, [] => []
  | h, f :: rest => (frontSpecStep c h f).2 :: frontSpecRun c (frontSpecStep c h f).1 rest

/-- Clock discipline (`MChain`) over the requests that reach the limiter; the others are not
constrained (they never read the clock). -/
def FChain : Int → List FReq → Prop
  | _, [] => True
  | T, f :: rest =>
    if f.front.reaches then
      0 < f.inner.now ∧ T ≤ f.inner.now ∧ 0 ≤ f.inner.tick ∧
        FChain (f.inner.now + f.inner.tick * ((f.inner.resp.getD 0 : Nat) : Int)) rest
    else FChain T rest

end Agd.Ratelimit
