/-!
# Model of the accept path of `internal/dnsserver` (property C01)

`ServerBase.serveDNS / serveDNSMsg / serveDNSMsgInternal / acceptMsg`, the
per-transport treatment of "nothing written", the DoQ framing and protocol
check, the DoH JSON front end, and the lifetime of the response object (when
each transport reads it and when it goes back to the `Disposer`).  Core Lean only.

What is a parameter (not modelled): `dns.Msg.Unpack` beyond the 12-byte header
(the driver is told whether unpacking succeeded and what it produced), the
handler (its outcome is an input), OPT/padding/keep-alive decoration and
truncation (property C08), TLS/QUIC/DNSCrypt cryptography.
-/
namespace Agd.Serve

structure Question where
  name : String
  qtype : Nat
  qclass : Nat
deriving DecidableEq, Repr

/-- What `Unpack` produced, restricted to the fields the accept path reads. -/
structure Msg where
  id : Nat
  qr : Bool
  opcode : Nat
  rd : Bool
  cd : Bool
  questions : List Question
  nAn : Nat
  nNs : Nat
  /-- the request carries an OPT record -/
  edns : Bool
  /-- the OPT record carries an edns-tcp-keepalive option -/
  keepalive : Bool
deriving DecidableEq, Repr

inductive Action | ignore | notimp | formerr | accept
deriving DecidableEq, Repr

/-- `ServerBase.acceptMsg`, clause by clause. -/
def acceptMsg (m : Msg) : Action :=
  if m.qr then .ignore
  else if m.opcode ≠ 0 ∧ m.opcode ≠ 4 then .notimp
  else if m.questions.length ≠ 1 then .formerr
  else if m.nAn > 1 then .formerr
  else if m.nNs > 1 then .formerr
  else .accept

/-- A response as the client can tell it apart: header fields, question,
records (opaque identities), and the extended error code if any. -/
structure Resp where
  id : Nat
  opcode : Nat
  rcode : Nat
  rd : Bool
  cd : Bool
  questions : List Question
  answers : List Nat
  ede : Option Nat
deriving DecidableEq, Repr

/-- `genErrorResponse` = `(&dns.Msg{}).SetRcode(req, code)`: same id and opcode,
RD/CD copied for opcode QUERY only, the first question only. -/
def setRcode (m : Msg) (code : Nat) : Resp :=
  { id := m.id, opcode := m.opcode, rcode := code,
    rd := m.opcode == 0 && m.rd, cd := m.opcode == 0 && m.cd,
    questions := m.questions.take 1, answers := [], ede := none }

def rcFormErr : Nat := 1
def rcServFail : Nat := 2
def rcNotImp : Nat := 4
def edeNetworkError : Nat := 23

/-- SERVFAIL after a handler error; the network-error EDE is attached only
when the error is a timeout and the request had an OPT record (`addEDE`). -/
def servFail (m : Msg) (netErr : Bool) : Resp :=
  { setRcode m rcServFail with ede := if netErr && m.edns then some edeNetworkError else none }

/-- What the handler did with an accepted request. -/
inductive Outcome
  | silent
  | wrote (r : Resp)
  | failed (netErr : Bool)
  | wroteFailed (r : Resp) (netErr : Bool)
deriving DecidableEq, Repr

/-- The sequence of `WriteMsg` calls that reach the transport's response writer
(`serveDNSMsgInternal`). -/
def serveCore (m : Msg) (o : Outcome) : List Resp :=
  match acceptMsg m with
  | .ignore => []
  | .formerr => [setRcode m rcFormErr]
  | .notimp => [setRcode m rcNotImp]
  | .accept =>
    match o with
    | .silent => []
    | .wrote r => [r]
    | .failed ne => [servFail m ne]
    | .wroteFailed r ne => [r, servFail m ne]

inductive Transport
  | udp | tcp | dot | dohPost | dohGet | dohJSON | doq | dnscryptUDP | dnscryptTCP
deriving DecidableEq, Repr

/-- Transports whose writer only stores the last response (`NonWriterResponseWriter`). -/
def Transport.nonWriter : Transport → Bool
  | .udp | .tcp | .dot => false
  | _ => true

def Transport.isHTTP : Transport → Bool
  | .dohPost | .dohGet | .dohJSON => true
  | _ => false

/-- Status codes of `Sees`. -/
def stNone : Nat := 0        -- datagram transport: nothing else observable
def stOpen : Nat := 1        -- stream transport: connection left open
def stClosed : Nat := 2      -- stream transport: server closed the connection
def stProtoErr : Nat := 3    -- DoQ: connection closed with DOQ_PROTOCOL_ERROR
def stHTTP200 : Nat := 200
def stHTTP400 : Nat := 400
def stHTTP500 : Nat := 500

/-- What the client observes for one request. -/
structure Sees where
  status : Nat
  msgs : List Resp
  /-- DoQ only: the server closed its side of the stream (STREAM FIN), which is
  what tells a DoQ client that the response is complete. -/
  fin : Bool := false
deriving DecidableEq, Repr

def lastOr (d : Resp) : List Resp → Resp
  | [] => d
  | [r] => r
  | _ :: rs => lastOr d rs

/-- Per-transport delivery of the writes of one unpacked request.  `wok` says
whether socket writes succeed (only the directly writing transports can fail). -/
def deliver (t : Transport) (m : Msg) (ws : List Resp) (wok : Bool) : Sees :=
  match t with
  | .udp => { status := stNone, msgs := if wok then ws else [] }
  | .tcp | .dot =>
    { status := if ws.isEmpty then stClosed else stOpen, msgs := if wok then ws else [] }
  | .dohPost | .dohGet | .dohJSON =>
    if ws.isEmpty then { status := stHTTP500, msgs := [] }
    else { status := stHTTP200, msgs := [lastOr (setRcode m rcServFail) ws] }
  | .doq => { status := stOpen, msgs := [lastOr (setRcode m rcServFail) ws], fin := true }
  | .dnscryptUDP | .dnscryptTCP => { status := stNone, msgs := [lastOr (setRcode m rcServFail) ws] }

/-- `validQUICMsg`: a request with an edns-tcp-keepalive option is a protocol error. -/
def validQUICMsg (m : Msg) : Bool := !(m.edns && m.keepalive)

/-- One unpacked request on one transport. -/
def serveMsg (t : Transport) (m : Msg) (o : Outcome) (wok : Bool) : Sees :=
  if t = .doq ∧ validQUICMsg m = false then { status := stProtoErr, msgs := [], fin := true }
  else deliver t m (serveCore m o) wok

/-- What the client observes when the bytes did not reach `serveDNSMsg`
(too short, bad length prefix, `Unpack` error). -/
def dropped (t : Transport) : Sees :=
  match t with
  | .udp | .dnscryptUDP | .dnscryptTCP => { status := stNone, msgs := [] }
  | .tcp | .dot => { status := stClosed, msgs := [] }
  | .dohPost | .dohGet | .dohJSON => { status := stHTTP500, msgs := [] }
  | .doq => { status := stProtoErr, msgs := [], fin := true }

/-- Wire input: `unpacked = none` when `Unpack` failed (or the framing rejected the bytes). -/
def serveWire (t : Transport) (unpacked : Option Msg) (o : Outcome) (wok : Bool) : Sees :=
  match unpacked with
  | none => dropped t
  | some m => serveMsg t m o wok

/-! ## Byte-level front end: the 12-byte header -/

structure Hdr where
  id : Nat
  qr : Bool
  opcode : Nat
  rd : Bool
  cd : Bool
  rcode : Nat
  qd : Nat
  an : Nat
  ns : Nat
  ar : Nat
deriving DecidableEq, Repr

def parseHdr : List Nat → Option Hdr
  | i0 :: i1 :: f0 :: f1 :: q0 :: q1 :: a0 :: a1 :: n0 :: n1 :: r0 :: r1 :: _ =>
    some { id := i0 * 256 + i1, qr := f0 / 128 % 2 == 1, opcode := f0 / 8 % 16, rd := f0 % 2 == 1,
           cd := f1 / 16 % 2 == 1, rcode := f1 % 16,
           qd := q0 * 256 + q1, an := a0 * 256 + a1, ns := n0 * 256 + n1, ar := r0 * 256 + r1 }
  | _ => none

/-- The contract assumed of `Unpack` (checked on every correspondence line): the
message agrees with the header bytes on id, QR, opcode, RD, CD. -/
def HdrAgrees (b : List Nat) (m : Msg) : Prop :=
  ∃ h, parseHdr b = some h ∧ h.id = m.id ∧ h.qr = m.qr ∧ h.opcode = m.opcode ∧ h.rd = m.rd ∧ h.cd = m.cd

/-! ## DoQ framing over a pooled read buffer

`readQUICMsg` reads the stream into a pooled 64 KiB buffer and unpacks a slice
of it.  `pool` is the previous content of the buffer. -/

/-- Buffer after reading `stream` (n = stream.length bytes overwritten). -/
def bufAfterRead (pool stream : List Nat) : List Nat :=
  stream ++ pool.drop stream.length

/-- Bytes handed to `Unpack` by the repaired code: `buf[2:n]`. -/
def quicPayload (pool stream : List Nat) : Option (List Nat) :=
  let n := stream.length
  if n < 12 then none
  else
    let buf := bufAfterRead pool stream
    if buf.getD 0 0 * 256 + buf.getD 1 0 ≠ n - 2 then none
    else some ((buf.drop 2).take (n - 2))

/-- The bytes the original code handed to `Unpack`: `buf[2:]`, i.e. including
whatever an earlier, longer message left in the pooled buffer. -/
def quicPayloadOrig (pool stream : List Nat) : Option (List Nat) :=
  let n := stream.length
  if n < 12 then none
  else
    let buf := bufAfterRead pool stream
    if buf.getD 0 0 * 256 + buf.getD 1 0 ≠ n - 2 then none
    else some (buf.drop 2)

/-! ## How the bytes of a DoQ stream arrive: `readAll`

`readQUICMsg` does not receive a byte string but the results of successive
`stream.Read` calls: some data and possibly an error next to it.  `io.EOF` is the
client's STREAM FIN — it may come together with the last data (FIN piggybacked on
the last frame) or in a call of its own; any other error is the read deadline
(the client never sent FIN), a stream reset, a closed connection.  The reader
stops at the first error and when the buffer is full. -/

/-- Size of the pooled DoQ read buffer, `quicBytePoolSize = dns.MaxMsgSize + 2`:
the two length octets and the largest message they can announce fit together. -/
def quicBufSize : Nat := 65537

/-- The buffer before the fix (`quicBytePoolSize = dns.MaxMsgSize`): no room for the
length octets next to a message of 65534 or 65535 octets. -/
def quicBufSizeLegacy : Nat := 65535

inductive ReadErr
  | eof                      -- STREAM FIN
  | other                    -- deadline exceeded, stream reset, connection closed …
deriving DecidableEq, Repr

/-- The result of one `stream.Read` call. -/
structure QRead where
  data : List Nat
  err : Option ReadErr
deriving DecidableEq, Repr

/-- What `readAll` returns next to the byte count. -/
inductive ReadAllErr
  | nil                      -- the stream ended with `io.EOF`
  | shortBuffer              -- `io.ErrShortBuffer`: the buffer is full and no `io.EOF` was seen
  | other
deriving DecidableEq, Repr

/-- `readAll(stream, buf)` with `len(buf) = cap`; `acc` is what has been read so
far.  A script that runs out of results is a client that sends nothing more: the
read deadline fires.  A `Read` result larger than the room left is handed over
only as far as it fits (without its error, which belongs to the end of the data),
and the next turn of the loop finds the buffer full. -/
def readAll (cap : Nat) : List QRead → List Nat → List Nat × ReadAllErr
  | [], acc => if acc.length = cap then (acc, .shortBuffer) else (acc, .other)
  | r :: rs, acc =>
    if acc.length = cap then (acc, .shortBuffer)
    else if cap - acc.length < r.data.length then (acc ++ r.data.take (cap - acc.length), .shortBuffer)
    else match r.err with
      | none => readAll cap rs (acc ++ r.data)
      | some .eof => (acc ++ r.data, .nil)
      | some .other => (acc ++ r.data, .other)

/-- The bytes a read script delivers before its first error. -/
def delivered : List QRead → List Nat
  | [] => []
  | r :: rs => match r.err with
    | none => r.data ++ delivered rs
    | some _ => r.data

/-- `readQUICMsg` on a read script: the error of `readAll` is consulted only when
fewer than 12 octets arrived (and then the stream is rejected either way); with a
whole header in the buffer the length prefix alone decides. -/
def quicRead (cap : Nat) (pool : List Nat) (reads : List QRead) : Option (List Nat) :=
  quicPayload pool (readAll cap reads []).1

/-- A reader that gives up on every error of `readAll` (not the code): it loses
complete queries whose stream does not end in a FIN of its own before the buffer
is full or the deadline fires. -/
def quicReadStrict (cap : Nat) (pool : List Nat) (reads : List QRead) : Option (List Nat) :=
  match (readAll cap reads []).2 with
  | .nil => quicPayload pool (readAll cap reads []).1
  | _ => none

/-! ## DoH JSON front end (`httpRequestToMsgJSON`) -/

/-- A `type` / `qc` parameter after table lookup (the mnemonic tables are miekg's). -/
inductive NumParam
  | absent
  | num (n : Nat)          -- decimal that fits 16 bits, or a known mnemonic
  | bad
deriving DecidableEq, Repr

/-- A boolean parameter: "", one of the accepted spellings, or anything else. -/
inductive BoolParam | absent | val (b : Bool) | bad
deriving DecidableEq, Repr

structure JSONReq where
  name : String            -- already made fully qualified
  nameEmpty : Bool
  qtype : NumParam
  qclass : NumParam
  cd : BoolParam
  do_ : BoolParam
  sde : BoolParam
deriving DecidableEq, Repr

def NumParam.get (d : Nat) : NumParam → Option Nat
  | .absent => some d | .num n => some n | .bad => none

def BoolParam.get : BoolParam → Option Bool
  | .absent => some false | .val b => some b | .bad => none

/-- The query built from the URL parameters (the id is invented by the server and
is an input here); `none` = HTTP 400. -/
def jsonToMsg (j : JSONReq) (id : Nat) : Option Msg :=
  if j.nameEmpty then none else
  match j.qtype.get 1, j.qclass.get 1, j.cd.get, j.do_.get, j.sde.get with
  | some qt, some qc, some cd, some d, some sde =>
    some { id := id, qr := false, opcode := 0, rd := true, cd := cd,
           questions := [{ name := j.name, qtype := qt, qclass := qc }], nAn := 0, nNs := 0,
           edns := d || sde, keepalive := false }
  | _, _, _, _, _ => none

/-- The members of `JSONMsg` that identify the answer (no id, no class in the question). -/
structure JSONView where
  status : Nat
  rd : Bool
  cd : Bool
  questions : List (String × Nat)
  answers : List Nat
deriving DecidableEq, Repr

def jsonView (r : Resp) : JSONView :=
  { status := r.rcode, rd := r.rd, cd := r.cd,
    questions := r.questions.map (fun q => (q.name, q.qtype)), answers := r.answers }

/-- The JSON API end to end. -/
def serveJSON (j : JSONReq) (id : Nat) (o : Outcome) : Nat × List JSONView :=
  match jsonToMsg j id with
  | none => (stHTTP400, [])
  | some m =>
    let s := serveMsg .dohJSON m o true
    (s.status, s.msgs.map jsonView)

/-! ## Response lifetime: when the response object goes back to the `Disposer`

Production (`dnssvc`) sets `ConfigBase.Disposer` to the `dnsmsg.Cloner` whose
pools also feed the responses of every other request that is being served at the
same time (the cache middlewares answer with `cloner.Clone(cached)`).  A response
object that is disposed of while a transport still has to normalise, pack or
send it is therefore overwritten by a concurrent request's `Clone`, and the
client receives a well-formed answer with that other request's id, question and
records.  The model below records, per transport, the program order of "the
transport reads the recorded response object" (`send`) and "the object is given
to the Disposer" (`dispose`), and runs it against the worst concurrent
schedule: a foreign `Clone` immediately after every `Dispose`. -/

/-- The concrete `ResponseWriter` a transport hands to `serveDNSMsg`. -/
inductive WriterKind | udpWriter | tcpWriter | nonWriter
deriving DecidableEq, Repr

def Transport.writerKind : Transport → WriterKind
  | .udp => .udpWriter
  | .tcp | .dot => .tcpWriter
  | _ => .nonWriter

/-- The `case` list of the type switch in `ServerBase.dispose`: the writer kinds
whose response `serveDNSMsg` disposes of itself. -/
def disposeKinds : List WriterKind := [.tcpWriter, .udpWriter]

inductive LifeEv | send | dispose
deriving DecidableEq, Repr

/-- `ServerBase.dispose` at the end of `serveDNSMsg` (a nil response is not an object). -/
def inServe (ks : List WriterKind) (t : Transport) (recorded : Bool) : List LifeEv :=
  if recorded && ks.contains t.writerKind then [.dispose] else []

/-- Program order of the events on the response object that the client finally
gets.  `recorded` = `serveDNSMsg` recorded a response (`written`).  UDP/TCP/DoT
normalise, pack and send inside the handler's `WriteMsg`, i.e. before
`serveDNSMsg` disposes; DoH (`serveDoH` → `writeResponse`), DoQ
(`serveQUICStream`) and DNSCrypt (`dnsCryptHandler.ServeDNS`) do so after
`serveDNSMsg` returned; DoH and DoQ then dispose themselves (DoQ also of the
SERVFAIL it synthesises), DNSCrypt never does. -/
def lifeOf (ks : List WriterKind) (t : Transport) (recorded : Bool) : List LifeEv :=
  match t with
  | .udp | .tcp | .dot => if recorded then .send :: inServe ks t recorded else []
  | .dohPost | .dohGet | .dohJSON => if recorded then inServe ks t recorded ++ [.send, .dispose] else []
  | .doq => inServe ks t recorded ++ [.send, .dispose]
  | .dnscryptUDP | .dnscryptTCP => inServe ks t recorded ++ [.send]

/-- `content = none`: the object still holds what the pipeline produced;
`some k`: it now belongs to the k-th concurrent request. -/
structure LifeState where
  content : Option Nat
  disposes : Nat
  sent : List (Option Nat)
  /-- an object owned by a concurrent request was disposed of (double disposal) -/
  clobbered : Bool
deriving DecidableEq, Repr

def lifeInit : LifeState := { content := none, disposes := 0, sent := [], clobbered := false }

/-- Worst schedule: every `Dispose` is followed at once by a foreign `Clone`
that takes the object out of the pool and overwrites it. -/
def lifeStep (s : LifeState) : LifeEv → LifeState
  | .send => { s with sent := s.sent ++ [s.content] }
  | .dispose => { s with content := some s.disposes, disposes := s.disposes + 1,
                         clobbered := s.clobbered || s.content.isSome }

def runLife (evs : List LifeEv) : LifeState := evs.foldl lifeStep lifeInit

def replaceLast (rs : List Resp) (x : Resp) : List Resp :=
  match rs with
  | [] => []
  | _ => rs.dropLast ++ [x]

/-- What the client observes when the Disposer's pools are shared with
concurrent requests (`foreign k` is what the k-th of them puts into the object
it takes from the pool), for a `dispose` switch `ks`. -/
def serveMsgShared (ks : List WriterKind) (t : Transport) (m : Msg) (o : Outcome) (wok : Bool)
    (foreign : Nat → Resp) : Sees :=
  let s := serveMsg t m o wok
  match (runLife (lifeOf ks t (!(serveCore m o).isEmpty))).sent.getLast? with
  | some (some k) => { s with msgs := replaceLast s.msgs (foreign k) }
  | _ => s

/-- Number of (non-nil) `Dispose` calls one wire input causes. -/
def disposeCount (ks : List WriterKind) (t : Transport) (unpacked : Option Msg) (o : Outcome) : Nat :=
  match unpacked with
  | none => 0
  | some m =>
    if t = .doq ∧ validQUICMsg m = false then 0
    else (runLife (lifeOf ks t (!(serveCore m o).isEmpty))).disposes


/-! ## Byte-level front end, part 2: the first question

`dns.Msg.Unpack` for the part the accept path depends on: after the header the
first question is a sequence of labels (`UnpackDomainName`), a type and a class
(`unpackQuestion`, including its lenient treatment of a message that ends early).
A compression pointer in the question name is left to the parameter. -/

def hexDigit (n : Nat) : Char :=
  if n < 10 then Char.ofNat ('0'.toNat + n) else Char.ofNat ('a'.toNat + n - 10)

/-- Names are tokens: the hex of their wire form (labels with length octets, root included). -/
def hexStr (bs : List Nat) : String :=
  String.ofList (bs.flatMap fun b => [hexDigit (b / 16 % 16), hexDigit (b % 16)])

inductive NameParse
  | ok (name rest : List Nat)
  | ptr
  | bad
deriving DecidableEq, Repr

/-- `UnpackDomainName` without pointers: `budget` starts at 255 wire octets; a
label type of `0x40`/`0x80` is an error, `0xC0` a pointer; a label that runs
past the end of the message is an error. -/
def parseName : Nat → Nat → List Nat → List Nat → NameParse
  | 0, _, _, _ => .bad
  | _ + 1, _, [], _ => .bad
  | fuel + 1, budget, c :: r, acc =>
    if c = 0 then .ok (acc ++ [0]) r
    else if c ≥ 192 then .ptr
    else if c ≥ 64 then .bad
    else if r.length < c then .bad
    else if budget ≤ c + 1 then .bad
    else parseName fuel (budget - (c + 1)) (r.drop c) (acc ++ c :: r.take c)

inductive QParse
  | ok (q : Question)
  | ptr
  | bad
deriving DecidableEq, Repr

/-- `unpackQuestion` on the bytes that follow the header.  A message that ends
right after the name, or after the type, yields a question with the missing
fields zero; a single dangling octet after the name is an error, after the type
it is swallowed. -/
def parseQuestion (b : List Nat) : QParse :=
  match parseName 130 255 b [] with
  | .bad => .bad
  | .ptr => .ptr
  | .ok nm rest =>
    match rest with
    | [] => .ok ⟨hexStr nm, 0, 0⟩
    | [_] => .bad
    | [t0, t1] => .ok ⟨hexStr nm, t0 * 256 + t1, 0⟩
    | [t0, t1, _] => .ok ⟨hexStr nm, t0 * 256 + t1, 0⟩
    | t0 :: t1 :: c0 :: c1 :: _ => .ok ⟨hexStr nm, t0 * 256 + t1, c0 * 256 + c1⟩

/-- The contract assumed of `Unpack`, checked on every correspondence line: the
message agrees with the header octets, a bare header has no questions, and
when the header announces a question and the name is not compressed the first
question is the one `parseQuestion` finds — in particular `Unpack` fails when
`parseQuestion` does. -/
def wireAgreesB (b : List Nat) (m : Msg) : Bool :=
  match parseHdr b with
  | none => false
  | some h =>
    h.id == m.id && h.qr == m.qr && h.opcode == m.opcode && h.rd == m.rd && h.cd == m.cd &&
    (if b.length ≤ 12 || h.qd == 0 then m.questions.isEmpty
     else match parseQuestion (b.drop 12) with
       | .ok q => m.questions.head? == some q
       | .ptr => true
       | .bad => false)

def WireAgrees (b : List Nat) (m : Msg) : Prop := wireAgreesB b m = true

/-- `unpack` is a sound decoder for the header and the first question. -/
def UnpackOK (unpack : List Nat → Option Msg) : Prop :=
  ∀ b m, unpack b = some m → WireAgrees b m

/-! ## Per-transport framing: which bytes reach `Unpack` -/

/-- Default `ConfigDNS.UDPSize`: the size of the pooled UDP read buffer. -/
def udpBufSize : Nat := 512

/-- A DoQ stream carrying `b`: two length octets, then the message. -/
def frameDoQ (b : List Nat) : List Nat := [b.length / 256 % 256, b.length % 256] ++ b

/-- The bytes transport `t` hands to `Unpack` for the wire message `b` (`none`: the
framing drops it first), and one wire message end to end.  `pool` is whatever an
earlier request left in the pooled DoQ read buffer; `unpack` stands for
`dns.Msg.Unpack`.  UDP: datagrams shorter than a header are dropped before
`Unpack` (`readUDPMsg`) and longer ones are cut to the read buffer; DoQ: the
stream goes through `readQUICMsg` — the read buffer has room for every message a
length prefix can announce (a longer `b` has no DoQ framing at all and is dropped
here); for every `b` a prefix can announce this is `quicRead quicBufSize` on any
read script that delivers the stream (`unpackInput_doq_is_read`); TCP/DoT frames, DoH bodies and DNSCrypt payloads
reach `Unpack` as they are. -/
def unpackInput (t : Transport) (pool b : List Nat) : Option (List Nat) :=
  match t with
  | .udp => if b.length < 12 then none else some (b.take udpBufSize)
  | .doq => if quicBufSize < b.length + 2 then none else quicPayload pool (frameDoQ b)
  | _ => some b

def serveBytes (t : Transport) (pool b : List Nat) (unpack : List Nat → Option Msg)
    (o : Outcome) (wok : Bool) : Sees :=
  match unpackInput t pool b with
  | none => dropped t
  | some p => serveWire t (unpack p) o wok

/-! ## A TCP/DoT connection: a sequence of length-prefixed frames -/

/-- `readTCPMsg` repeatedly: two length octets, then exactly that many octets; a
short read ends the connection (the remaining bytes are never served). -/
def tcpFrames : Nat → List Nat → List (List Nat)
  | 0, _ => []
  | fuel + 1, l0 :: l1 :: rest =>
    let n := l0 * 256 + l1
    if rest.length < n then [] else rest.take n :: tcpFrames fuel (rest.drop n)
  | _ + 1, _ => []

/-- The frames of one connection served in order (`MaxPipelineCount = 1`): each
frame is answered on its own; the first frame for which nothing is written
makes the server close the connection, and what follows is not served. -/
def serveConn (t : Transport) (unpack : List Nat → Option Msg) (wok : Bool) :
    List (List Nat × Outcome) → List Sees
  | [] => []
  | (b, o) :: rest =>
    let s := serveWire t (unpack b) o wok
    if s.status = stClosed then [s] else s :: serveConn t unpack wok rest

/-! ## The UDP accept loop (`serveUDP` / `acceptUDPMsg`)

The loop ends — and the listener is gone — as soon as `acceptUDPMsg` returns an
error.  What a client can cause is a datagram; the other read results are the
socket's. -/

inductive UdpRead
  | critErr                  -- a read error that is not "non-critical" (closed socket …)
  | softErr                  -- timeout and the like (`isNonCriticalNetError`)
  | dgram (b : List Nat)
deriving DecidableEq, Repr

/-- Does `acceptUDPMsg` return a non-nil error?  `swallowShort` is whether the
error filter lets `dns.ErrShortRead` (a datagram shorter than a header) through. -/
def udpAcceptFails (swallowShort : Bool) : UdpRead → Bool
  | .critErr => true
  | .softErr => false
  | .dgram b => b.length < 12 && !swallowShort

/-- The loop: what each datagram's client sees, and whether the loop is still running. -/
def udpLoop (swallowShort : Bool) (unpack : List Nat → Option Msg) (handler : Msg → Outcome) (wok : Bool) :
    List UdpRead → List Sees × Bool
  | [] => ([], true)
  | r :: rest =>
    let out : List Sees := match r with
      | .dgram b => [serveBytes .udp [] b unpack
          (match unpack (b.take udpBufSize) with | some m => handler m | none => .silent) wok]
      | _ => []
    if udpAcceptFails swallowShort r then (out, false)
    else
      let rec' := udpLoop swallowShort unpack handler wok rest
      (out ++ rec'.1, rec'.2)

/-! ## Pooled byte buffers (`udpPool`, `tcpPool`, `reqPool`, `respPool`)

The request bytes live in a pooled buffer until `Unpack` has copied them out;
the packed response lives in a pooled buffer until the socket write returns.
Program order of "the transport reads the buffer" (`send`) and "the buffer goes
back to its pool" (`dispose`), run against the same worst schedule as the
response objects: a concurrent request takes and overwrites the buffer right
after every `Put`. -/

/-- Request buffer.  UDP and TCP/DoT: `serve…` (which unpacks) and then `Put`;
DoQ: `Unpack` inside `readQUICMsg`, whose deferred `Put` runs at its return;
DoH and DNSCrypt have no pooled request buffer in this package. -/
def reqBufLife : Transport → List LifeEv
  | .udp | .tcp | .dot | .doq => [.send, .dispose]
  | _ => []

/-- Response buffer.  `werr` = packing or the socket write failed.  UDP and
TCP/DoT writers give the buffer back only on error (after the failed write);
DoQ packs, writes to the stream, and its deferred `Put` runs at return. -/
def respBufLife (t : Transport) (werr : Bool) : List LifeEv :=
  match t with
  | .udp | .tcp | .dot => if werr then [.send, .dispose] else [.send]
  | .doq => [.send, .dispose]
  | _ => []

/-! ## The JSON API with `ct=application/dns-message`: JSON front end, wire answer -/

def serveJSONWire (j : JSONReq) (id : Nat) (o : Outcome) : Sees :=
  match jsonToMsg j id with
  | none => { status := stHTTP400, msgs := [] }
  | some m => serveMsg .dohJSON m o true

/-- The handler used by the correspondence harness: `SetReply(req)`, an rcode and
`n` answer records. -/
def handlerResp (m : Msg) (rcode n : Nat) : Resp :=
  { setRcode m rcode with answers := List.range n }

/-! ## DoH: the HTTP front end (`isDoH`, `httpRequestToMsg`, `httpHandler.remoteAddr`, `serveDoH`)

What decides whether an HTTP request reaches the DNS path at all: its URL path, its
method, the `dns` parameter or the body — and the client's address, which the DoH
server (unlike every other transport, which passes the socket's `net.Addr` on) has to
parse back from the text `http.Request.RemoteAddr`. -/

inductive PathKind | other | doh | json
deriving DecidableEq, Repr

def pathDoH : String := "/dns-query"
def pathJSON : String := "/resolve"

/-- `path.Clean` of a rooted path, on its "/"-separated elements (`acc` reversed): empty and
"." elements vanish, ".." removes the element before it (nothing at the root). -/
def cleanSegs : List String → List String → List String
  | [], acc => acc.reverse
  | s :: r, acc =>
    if s = "" ∨ s = "." then cleanSegs r acc
    else if s = ".." then cleanSegs r acc.tail
    else cleanSegs r (s :: acc)

/-- `isDoH` on `strings.Split(path.Clean(p), "/")`: a leading empty element (rooted path)
is skipped and the first element decides — it counts when it is a *suffix* of the
well-known path (`strings.HasSuffix(PathDoH, parts[0])`), so `/query` and `/y` are DoH
paths and `/solve` is a JSON path; whatever follows the first element is ignored. -/
def pathKindOf (parts : List String) : PathKind :=
  let parts := match parts with | "" :: r => r | ps => ps
  match parts with
  | [] => .other
  | p :: _ =>
    if p = "" then .other
    else if p.toList.isSuffixOf pathDoH.toList then .doh
    else if p.toList.isSuffixOf pathJSON.toList then .json
    else .other

/-- The kind of a raw rooted URL path given by its "/"-separated elements. -/
def pathKind (rawParts : List String) : PathKind := pathKindOf ("" :: cleanSegs rawParts [])

inductive Method | get | post | other
deriving DecidableEq, Repr

/-- What `httpRequestToMsg` makes of a request on a DoH path. -/
inductive Front
  | notFound                    -- HTTP 404 (or the NonDNSHandler)
  | badRequest                  -- HTTP 400
  | wire (b : List Nat)         -- these octets go to `serveDNS`
  | json                        -- the JSON API builds the query from the parameters
deriving DecidableEq, Repr

/-- `dns`: the values of the `dns` query parameter, `none` = not base64url.  The JSON
API does not look at the method; the wire format takes GET with exactly one decodable
`dns` value or POST with the body (no check of the Content-Type). -/
def dohFront (k : PathKind) (meth : Method) (dns : List (Option (List Nat))) (body : List Nat) : Front :=
  match k with
  | .other => .notFound
  | .json => .json
  | .doh =>
    match meth with
    | .get => (match dns with | [some b] => .wire b | _ => .badRequest)
    | .post => .wire body
    | .other => .badRequest

/-- The client's address as `net/http` reports it: an IPv4 or IPv6 literal and a port,
an IPv6 link-local one with its zone (`[fe80::1%eth0]:443`). -/
structure RAddr where
  v6 : Bool
  zone : Option String
deriving DecidableEq, Repr

/-- Does `httpHandler.remoteAddr` return (instead of panicking)?  `zoneAware = true` is
the repaired code, which cuts the zone off before `netutil.ParseIP`; the original
handed `fe80::1%eth0` to `ParseIP`, which knows no zones. -/
def remoteParses (zoneAware : Bool) (a : RAddr) : Bool := zoneAware || a.zone.isNone

def stHTTP404 : Nat := 404

/-- A panic in `ServeHTTP` is recovered (`handlePanicAndRecover`) and nothing has been
written: `net/http` completes the exchange with an empty 200. -/
def panicked : Sees := { status := stHTTP200, msgs := [] }

structure DohReq where
  parts : List String            -- "/"-separated elements of the raw rooted URL path
  meth : Method
  dns : List (Option (List Nat))
  body : List Nat
  raddr : RAddr
deriving DecidableEq, Repr

/-- One HTTP request on the wire-format path end to end (`ServeHTTP` → `serveDoH`).
Requests on the JSON path are `serveJSON` / `serveJSONWire` after the same address step. -/
def serveDoHReq (zoneAware : Bool) (r : DohReq) (unpack : List Nat → Option Msg) (o : Outcome) : Sees :=
  match dohFront (pathKind r.parts) r.meth r.dns r.body with
  | .notFound => { status := stHTTP404, msgs := [] }
  | .badRequest => { status := stHTTP400, msgs := [] }
  | .json => { status := stHTTP400, msgs := [] }
  | .wire b =>
    if remoteParses zoneAware r.raddr then
      serveWire (if r.meth = .get then .dohGet else .dohPost) (unpack b) o true
    else panicked

/-- The JSON API from the HTTP request: path, parameters and the client's address
(the method is not looked at). -/
def serveJSONReq (zoneAware : Bool) (parts : List String) (a : RAddr) (j : JSONReq) (id : Nat) (o : Outcome) :
    Nat × List JSONView :=
  if pathKind parts ≠ .json then (stHTTP404, [])
  else match jsonToMsg j id with
    | none => (stHTTP400, [])
    | some _ => if remoteParses zoneAware a then serveJSON j id o else (stHTTP200, [])

/-! ## DNSCrypt end to end: the library's own filter

`dnsCryptHandler.ServeDNS` is reached through `dnscrypt.Server.serveDNS`, which drops a
decrypted message that is a response or does not carry exactly one question before the
handler is called (UDP: nothing is sent; TCP: the connection is closed), exactly like
one that does not decrypt or unpack. -/

def dnscryptLibPasses (m : Msg) : Bool := !m.qr && m.questions.length == 1

def Transport.isDNSCrypt : Transport → Bool
  | .dnscryptUDP | .dnscryptTCP => true
  | _ => false

/-- What a DNSCrypt client observes for one decrypted message (`stClosed` on TCP when the
library gives the connection up). -/
def droppedDC (t : Transport) : Sees :=
  { status := if t = .dnscryptTCP then stClosed else stNone, msgs := [] }

def serveDNSCryptE2E (t : Transport) (um : Option Msg) (o : Outcome) : Sees :=
  match um with
  | none => droppedDC t
  | some m =>
    if dnscryptLibPasses m then
      let s := serveMsg t m o true
      { s with status := if t = .dnscryptTCP then stOpen else stNone }
    else droppedDC t

/-! ## Round 4: fault and life-cycle paths

### A handler that panics

Every per-request entry point defers `handlePanicAndRecover` (`serveUDPPacket`,
`serveTCPMessage`, `ServeHTTP`, `serveQUICStreamAsync`) — and, since `fix: dnsserver:
recover from handler panics in the dnscrypt server`, `dnsCryptHandler.ServeDNS`, which the
ameshkov/dnscrypt library calls on goroutines of its own without any recovery.  What the
client sees after a recovered panic differs per transport because the code that follows the
handler (`!written` ⇒ close, SERVFAIL for non-writers, `http.Error`) is skipped. -/

/-- How a call of the handler ends: it returns, or it panics — possibly after it has
already handed a response to the writer. -/
inductive HRun
  | returns (o : Outcome)
  | panics (w : Option Resp)
deriving DecidableEq, Repr

/-- One request as its client sees it, and whether the process still runs afterwards. -/
structure SeesF where
  sees : Sees
  up : Bool
deriving DecidableEq, Repr

/-- Is the handler consulted at all for this unpacked request on this transport? -/
def handlerRuns (t : Transport) (m : Msg) : Bool :=
  decide (acceptMsg m = .accept) && !(decide (t = .doq) && !validQUICMsg m)

/-- After a recovered panic: the directly writing transports have delivered what the handler
wrote before it panicked and leave the connection open (`serveTCPMessage`'s close is skipped);
DoH ends in the empty HTTP 200 of `panicked`; the DoQ stream is closed by the deferred
`stream.Close` without data; DNSCrypt sends nothing. -/
def afterPanic (t : Transport) (w : Option Resp) (wok : Bool) : Sees :=
  match t with
  | .udp => { status := stNone, msgs := if wok then w.toList else [] }
  | .tcp | .dot => { status := stOpen, msgs := if wok then w.toList else [] }
  | .dohPost | .dohGet | .dohJSON => panicked
  | .doq => { status := stOpen, msgs := [], fin := true }
  | .dnscryptUDP | .dnscryptTCP => { status := stNone, msgs := [] }

/-- `dcRecovers = true` is the repaired `dnsCryptHandler.ServeDNS`; before the fix a panic
on a DNSCrypt goroutine was nobody's to recover and ended the process. -/
def serveMsgF (dcRecovers : Bool) (t : Transport) (m : Msg) (h : HRun) (wok : Bool) : SeesF :=
  match h with
  | .returns o => { sees := serveMsg t m o wok, up := true }
  | .panics w =>
    if handlerRuns t m then { sees := afterPanic t w wok, up := dcRecovers || !t.isDNSCrypt }
    else { sees := serveMsg t m .silent wok, up := true }

structure Req where
  t : Transport
  m : Msg
  h : HRun
  wok : Bool
deriving DecidableEq, Repr

/-- Requests (of any clients, on any transports) served by one process, in the order in which
they are completed; `none` = the process is gone. -/
def serveProc (dc : Bool) : Bool → List Req → List (Option Sees)
  | _, [] => []
  | false, _ :: rs => none :: serveProc dc false rs
  | true, r :: rs =>
    some (serveMsgF dc r.t r.m r.h r.wok).sees :: serveProc dc (serveMsgF dc r.t r.m r.h r.wok).up rs

/-! ### Start, Shutdown, Start again

`ServerDNS`, `ServerTLS` and `ServerQUIC` hand every datagram / connection / stream to an
ants worker pool.  `Shutdown` releases the pool; a released pool refuses every task with
`ErrPoolClosed`, which the accept loops treat as fatal (the loop ends, its deferred `Close`
shuts the socket) after `wg.Add(1)` has already been done.  Since `fix: dnsserver: reopen the
worker pool when a server is started again` `Start` calls `Reboot` (`reboot = true`). -/

inductive LOp | start | shutdown | arrive
deriving DecidableEq, Repr

inductive LObs | ok | errAlreadyStarted | errNotStarted | hung | served | unanswered | refused
deriving DecidableEq, Repr

structure LState where
  started : Bool
  /-- the accept loop runs on an open socket -/
  listening : Bool
  poolOpen : Bool
  /-- `wg.Add(1)` without a matching `Done` -/
  leaked : Nat
deriving DecidableEq, Repr

def lInit : LState := { started := false, listening := false, poolOpen := true, leaked := 0 }

/-- `pooled = false`: `ServerHTTPS`, `ServerDNSCrypt` (no worker pool of their own). -/
def lStep (reboot pooled : Bool) (s : LState) : LOp → LState × LObs
  | .start =>
    if s.started then (s, .errAlreadyStarted)
    else ({ s with started := true, listening := true, poolOpen := s.poolOpen || reboot }, .ok)
  | .shutdown =>
    if !s.started then (s, .errNotStarted)
    else ({ s with started := false, listening := false, poolOpen := !pooled },
          if s.leaked = 0 then .ok else .hung)
  | .arrive =>
    if !s.listening then (s, .refused)
    else if s.poolOpen then (s, .served)
    else ({ s with listening := false, leaked := s.leaked + 1 }, .unanswered)

def lRun (reboot pooled : Bool) : LState → List LOp → LState × List LObs
  | s, [] => (s, [])
  | s, op :: ops =>
    ((lRun reboot pooled (lStep reboot pooled s op).1 ops).1,
     (lStep reboot pooled s op).2 :: (lRun reboot pooled (lStep reboot pooled s op).1 ops).2)

/-- The invariant of the repaired life cycle. -/
def LGood (s : LState) : Prop := s.leaked = 0 ∧ (s.started = true → s.listening = true ∧ s.poolOpen = true) ∧
  (s.started = false → s.listening = false)


/-! ## The life cycle of one TCP/DoT connection under real pipelining (`serveTCPConn`)

`serveTCPConn` reads frames in a loop; every frame read is counted in the connection's wait group
(`wg.Add(1)` in `acceptTCPMsg`) and handed to a worker (`serveTCPMessage`, which ends with
`wg.Done()`), so several frames of one connection are inside the handler at the same time and finish
in any order.  When the read loop ends — the client half-closed the stream (EOF), a read error, the idle
time-out, `Shutdown` (which expires the read deadline), or the connection was closed under the reader —
the deferred clean-up first waits for the workers (`wg.Wait()`) and only then closes the connection.
A worker whose frame produced no response (undecodable octets, an ignored message, a silent handler)
closes the connection itself (`serveTCPMessage`, "nothing has been written").

The model is a transition system over the events an arbitrary scheduler can produce; `waitFirst` is the
order of `wg.Wait()` and `Close` in the clean-up (`true`: the code as it is). -/

inductive CEv
  /-- the read loop read the frame `id`; `drop`: its processing will end without a response -/
  | recv (id : Nat) (drop : Bool)
  /-- the worker of frame `id` reaches its end: it writes the response (or closes, for a drop frame) -/
  | finish (id : Nat)
  /-- the read loop ends (EOF, read error, idle time-out, `Shutdown`) -/
  | endRead
deriving DecidableEq, Repr

/-- What the client side of the connection can observe, in order. -/
inductive CObs
  | wrote (id : Nat)   -- the response to frame `id` went out
  | lost (id : Nat)    -- the response to frame `id` was written to a connection the server had closed
  | closed             -- the server called `Close`
deriving DecidableEq, Repr

structure CState where
  /-- the read loop is running -/
  reading : Bool
  /-- number of `Close` calls so far; the connection is closed iff it is positive -/
  closes : Nat
  /-- frames inside their worker that will write a response -/
  inflight : List Nat
  /-- frames inside their worker that will write nothing -/
  dropping : List Nat
  /-- the deferred clean-up has closed the connection -/
  finalDone : Bool
  /-- answerable frames read so far / answered / answer lost, in order -/
  received : List Nat
  answered : List Nat
  lost : List Nat
  log : List CObs
deriving DecidableEq, Repr

def cInit : CState :=
  { reading := true, closes := 0, inflight := [], dropping := [], finalDone := false,
    received := [], answered := [], lost := [], log := [] }

/-- The deferred clean-up of `serveTCPConn`, enabled once the read loop has ended: with `waitFirst`
the connection is closed only when no worker of this connection is left. -/
def cSettle (waitFirst : Bool) (s : CState) : CState :=
  if !s.reading && !s.finalDone && (!waitFirst || (s.inflight.isEmpty && s.dropping.isEmpty)) then
    { s with closes := s.closes + 1, finalDone := true, log := s.log ++ [.closed] }
  else s

def cStep (waitFirst : Bool) (s : CState) : CEv → CState
  | .recv id drop =>
    if s.reading then
      if drop then { s with dropping := id :: s.dropping }
      else { s with inflight := id :: s.inflight, received := s.received ++ [id] }
    else s
  | .finish id =>
    if s.inflight.contains id then
      if s.closes = 0 then
        cSettle waitFirst { s with inflight := s.inflight.erase id, answered := s.answered ++ [id],
                                    log := s.log ++ [.wrote id] }
      else
        cSettle waitFirst { s with inflight := s.inflight.erase id, lost := s.lost ++ [id],
                                    log := s.log ++ [.lost id] }
    else if s.dropping.contains id then
      -- nothing was written: the worker closes the connection, the reader's next Read fails
      cSettle waitFirst { s with dropping := s.dropping.erase id, closes := s.closes + 1, reading := false,
                                  log := s.log ++ [.closed] }
    else s
  | .endRead => if s.reading then cSettle waitFirst { s with reading := false } else s

def cRun (waitFirst : Bool) (s : CState) (evs : List CEv) : CState := evs.foldl (cStep waitFirst) s

end Agd.Serve
