/-!
# Model of the accept path of `internal/dnsserver` (property C01)

`ServerBase.serveDNS / serveDNSMsg / serveDNSMsgInternal / acceptMsg`, the
per-transport treatment of "nothing written", the DoQ framing and protocol
check, the DoH JSON front end, and the lifetime of the response object (when
each transport reads it and when it goes back to the `Disposer`).  Core Lean only.

What is a parameter (not modelled): `dns.Msg.Unpack` beyond the 12-byte header
(the driver is told whether unpacking succeeded and what it produced), the
handler (its outcome is an input), OPT/padding/keep-alive decoration and
truncation (property C08), TLS/QUIC/DNSCrypt cryptography.
-/
namespace Agd.Serve

structure Question where
  name : String
  qtype : Nat
  qclass : Nat
deriving DecidableEq, Repr

/-- What `Unpack` produced, restricted to the fields the accept path reads. -/
structure Msg where
  id : Nat
  qr : Bool
  opcode : Nat
  rd : Bool
  cd : Bool
  questions : List Question
  nAn : Nat
  nNs : Nat
  /-- the request carries an OPT record -/
  edns : Bool
  /-- the OPT record carries an edns-tcp-keepalive option -/
  keepalive : Bool
deriving DecidableEq, Repr

inductive Action | ignore | notimp | formerr | accept
deriving DecidableEq, Repr

/-- `ServerBase.acceptMsg`, clause by clause. -/
def acceptMsg (m : Msg) : Action :=
  if m.qr then .ignore
  else if m.opcode ≠ 0 ∧ m.opcode ≠ 4 then .notimp
  else if m.questions.length ≠ 1 then .formerr
  else if m.nAn > 1 then .formerr
  else if m.nNs > 1 then .formerr
  else .accept

/-- A response as the client can tell it apart: header fields, question,
records (opaque identities), and the extended error code if any. -/
structure Resp where
  id : Nat
  opcode : Nat
  rcode : Nat
  rd : Bool
  cd : Bool
  questions : List Question
  answers : List Nat
  ede : Option Nat
deriving DecidableEq, Repr

/-- `genErrorResponse` = `(&dns.Msg{}).SetRcode(req, code)`: same id and opcode,
RD/CD copied for opcode QUERY only, the first question only. -/
def setRcode (m : Msg) (code : Nat) : Resp :=
  { id := m.id, opcode := m.opcode, rcode := code,
    rd := m.opcode == 0 && m.rd, cd := m.opcode == 0 && m.cd,
    questions := m.questions.take 1, answers := [], ede := none }

def rcFormErr : Nat := 1
def rcServFail : Nat := 2
def rcNotImp : Nat := 4
def edeNetworkError : Nat := 23

/-- SERVFAIL after a handler error; the network-error EDE is attached only
when the error is a timeout and the request had an OPT record (`addEDE`). -/
def servFail (m : Msg) (netErr : Bool) : Resp :=
  { setRcode m rcServFail with ede := if netErr && m.edns then some edeNetworkError else none }

/-- What the handler did with an accepted request. -/
inductive Outcome
  | silent
  | wrote (r : Resp)
  | failed (netErr : Bool)
  | wroteFailed (r : Resp) (netErr : Bool)
deriving DecidableEq, Repr

/-- The sequence of `WriteMsg` calls that reach the transport's response writer
(`serveDNSMsgInternal`). -/
def serveCore (m : Msg) (o : Outcome) : List Resp :=
  match acceptMsg m with
  | .ignore => []
  | .formerr => [setRcode m rcFormErr]
  | .notimp => [setRcode m rcNotImp]
  | .accept =>
    match o with
    | .silent => []
    | .wrote r => [r]
    | .failed ne => [servFail m ne]
    | .wroteFailed r ne => [r, servFail m ne]

inductive Transport
  | udp | tcp | dot | dohPost | dohGet | dohJSON | doq | dnscryptUDP | dnscryptTCP
deriving DecidableEq, Repr

/-- Transports whose writer only stores the last response (`NonWriterResponseWriter`). -/
def Transport.nonWriter : Transport → Bool
  | .udp | .tcp | .dot => false
  | _ => true

def Transport.isHTTP : Transport → Bool
  | .dohPost | .dohGet | .dohJSON => true
  | _ => false

/-- Status codes of `Sees`. -/
def stNone : Nat := 0        -- datagram transport: nothing else observable
def stOpen : Nat := 1        -- stream transport: connection left open
def stClosed : Nat := 2      -- stream transport: server closed the connection
def stProtoErr : Nat := 3    -- DoQ: connection closed with DOQ_PROTOCOL_ERROR
def stHTTP200 : Nat := 200
def stHTTP400 : Nat := 400
def stHTTP500 : Nat := 500

/-- What the client observes for one request. -/
structure Sees where
  status : Nat
  msgs : List Resp
deriving DecidableEq, Repr

def lastOr (d : Resp) : List Resp → Resp
  | [] => d
  | [r] => r
  | _ :: rs => lastOr d rs

/-- Per-transport delivery of the writes of one unpacked request.  `wok` says
whether socket writes succeed (only the directly writing transports can fail). -/
def deliver (t : Transport) (m : Msg) (ws : List Resp) (wok : Bool) : Sees :=
  match t with
  | .udp => { status := stNone, msgs := if wok then ws else [] }
  | .tcp | .dot =>
    { status := if ws.isEmpty then stClosed else stOpen, msgs := if wok then ws else [] }
  | .dohPost | .dohGet | .dohJSON =>
    if ws.isEmpty then { status := stHTTP500, msgs := [] }
    else { status := stHTTP200, msgs := [lastOr (setRcode m rcServFail) ws] }
  | .doq => { status := stOpen, msgs := [lastOr (setRcode m rcServFail) ws] }
  | .dnscryptUDP | .dnscryptTCP => { status := stNone, msgs := [lastOr (setRcode m rcServFail) ws] }

/-- `validQUICMsg`: a request with an edns-tcp-keepalive option is a protocol error. -/
def validQUICMsg (m : Msg) : Bool := !(m.edns && m.keepalive)

/-- One unpacked request on one transport. -/
def serveMsg (t : Transport) (m : Msg) (o : Outcome) (wok : Bool) : Sees :=
  if t = .doq ∧ validQUICMsg m = false then { status := stProtoErr, msgs := [] }
  else deliver t m (serveCore m o) wok

/-- What the client observes when the bytes did not reach `serveDNSMsg`
(too short, bad length prefix, `Unpack` error). -/
def dropped (t : Transport) : Sees :=
  match t with
  | .udp | .dnscryptUDP | .dnscryptTCP => { status := stNone, msgs := [] }
  | .tcp | .dot => { status := stClosed, msgs := [] }
  | .dohPost | .dohGet | .dohJSON => { status := stHTTP500, msgs := [] }
  | .doq => { status := stProtoErr, msgs := [] }

/-- Wire input: `unpacked = none` when `Unpack` failed (or the framing rejected the bytes). -/
def serveWire (t : Transport) (unpacked : Option Msg) (o : Outcome) (wok : Bool) : Sees :=
  match unpacked with
  | none => dropped t
  | some m => serveMsg t m o wok

/-! ## Byte-level front end: the 12-byte header -/

structure Hdr where
  id : Nat
  qr : Bool
  opcode : Nat
  rd : Bool
  cd : Bool
  rcode : Nat
  qd : Nat
  an : Nat
  ns : Nat
  ar : Nat
deriving DecidableEq, Repr

def parseHdr : List Nat → Option Hdr
  | i0 :: i1 :: f0 :: f1 :: q0 :: q1 :: a0 :: a1 :: n0 :: n1 :: r0 :: r1 :: _ =>
    some { id := i0 * 256 + i1, qr := f0 / 128 % 2 == 1, opcode := f0 / 8 % 16, rd := f0 % 2 == 1,
           cd := f1 / 16 % 2 == 1, rcode := f1 % 16,
           qd := q0 * 256 + q1, an := a0 * 256 + a1, ns := n0 * 256 + n1, ar := r0 * 256 + r1 }
  | _ => none

/-- The contract assumed of `Unpack` (checked on every correspondence line): the
message agrees with the header bytes on id, QR, opcode, RD, CD. -/
def HdrAgrees (b : List Nat) (m : Msg) : Prop :=
  ∃ h, parseHdr b = some h ∧ h.id = m.id ∧ h.qr = m.qr ∧ h.opcode = m.opcode ∧ h.rd = m.rd ∧ h.cd = m.cd

/-! ## DoQ framing over a pooled read buffer

`readQUICMsg` reads the stream into a pooled 64 KiB buffer and unpacks a slice
of it.  `pool` is the previous content of the buffer. -/

/-- Buffer after reading `stream` (n = stream.length bytes overwritten). -/
def bufAfterRead (pool stream : List Nat) : List Nat :=
  stream ++ pool.drop stream.length

/-- Bytes handed to `Unpack` by the repaired code: `buf[2:n]`. -/
def quicPayload (pool stream : List Nat) : Option (List Nat) :=
  let n := stream.length
  if n < 12 then none
  else
    let buf := bufAfterRead pool stream
    if buf.getD 0 0 * 256 + buf.getD 1 0 ≠ n - 2 then none
    else some ((buf.drop 2).take (n - 2))

/-- The bytes the original code handed to `Unpack`: `buf[2:]`, i.e. including
whatever an earlier, longer message left in the pooled buffer. -/
def quicPayloadOrig (pool stream : List Nat) : Option (List Nat) :=
  let n := stream.length
  if n < 12 then none
  else
    let buf := bufAfterRead pool stream
    if buf.getD 0 0 * 256 + buf.getD 1 0 ≠ n - 2 then none
    else some (buf.drop 2)

/-! ## DoH JSON front end (`httpRequestToMsgJSON`) -/

/-- A `type` / `qc` parameter after table lookup (the mnemonic tables are miekg's). -/
inductive NumParam
  | absent
  | num (n : Nat)          -- decimal that fits 16 bits, or a known mnemonic
  | bad
deriving DecidableEq, Repr

/-- A boolean parameter: "", one of the accepted spellings, or anything else. -/
inductive BoolParam | absent | val (b : Bool) | bad
deriving DecidableEq, Repr

structure JSONReq where
  name : String            -- already made fully qualified
  nameEmpty : Bool
  qtype : NumParam
  qclass : NumParam
  cd : BoolParam
  do_ : BoolParam
  sde : BoolParam
deriving DecidableEq, Repr

def NumParam.get (d : Nat) : NumParam → Option Nat
  | .absent => some d | .num n => some n | .bad => none

def BoolParam.get : BoolParam → Option Bool
  | .absent => some false | .val b => some b | .bad => none

/-- The query built from the URL parameters (the id is invented by the server and
is an input here); `none` = HTTP 400. -/
def jsonToMsg (j : JSONReq) (id : Nat) : Option Msg :=
  if j.nameEmpty then none else
  match j.qtype.get 1, j.qclass.get 1, j.cd.get, j.do_.get, j.sde.get with
  | some qt, some qc, some cd, some d, some sde =>
    some { id := id, qr := false, opcode := 0, rd := true, cd := cd,
           questions := [{ name := j.name, qtype := qt, qclass := qc }], nAn := 0, nNs := 0,
           edns := d || sde, keepalive := false }
  | _, _, _, _, _ => none

/-- The members of `JSONMsg` that identify the answer (no id, no class in the question). -/
structure JSONView where
  status : Nat
  rd : Bool
  cd : Bool
  questions : List (String × Nat)
  answers : List Nat
deriving DecidableEq, Repr

def jsonView (r : Resp) : JSONView :=
  { status := r.rcode, rd := r.rd, cd := r.cd,
    questions := r.questions.map (fun q => (q.name, q.qtype)), answers := r.answers }

/-- The JSON API end to end. -/
def serveJSON (j : JSONReq) (id : Nat) (o : Outcome) : Nat × List JSONView :=
  match jsonToMsg j id with
  | none => (stHTTP400, [])
  | some m =>
    let s := serveMsg .dohJSON m o true
    (s.status, s.msgs.map jsonView)

/-! ## Response lifetime: when the response object goes back to the `Disposer`

Production (`dnssvc`) sets `ConfigBase.Disposer` to the `dnsmsg.Cloner` whose
pools also feed the responses of every other request that is being served at the
same time (the cache middlewares answer with `cloner.Clone(cached)`).  A response
object that is disposed of while a transport still has to normalise, pack or
send it is therefore overwritten by a concurrent request's `Clone`, and the
client receives a well-formed answer with that other request's id, question and
records.  The model below records, per transport, the program order of "the
transport reads the recorded response object" (`send`) and "the object is given
to the Disposer" (`dispose`), and runs it against the worst concurrent
schedule: a foreign `Clone` immediately after every `Dispose`. -/

/-- The concrete `ResponseWriter` a transport hands to `serveDNSMsg`. -/
inductive WriterKind | udpWriter | tcpWriter | nonWriter
deriving DecidableEq, Repr

def Transport.writerKind : Transport → WriterKind
  | .udp => .udpWriter
  | .tcp | .dot => .tcpWriter
  | _ => .nonWriter

/-- The `case` list of the type switch in `ServerBase.dispose`: the writer kinds
whose response `serveDNSMsg` disposes of itself. -/
def disposeKinds : List WriterKind := [.tcpWriter, .udpWriter]

inductive LifeEv | send | dispose
deriving DecidableEq, Repr

/-- `ServerBase.dispose` at the end of `serveDNSMsg` (a nil response is not an object). -/
def inServe (ks : List WriterKind) (t : Transport) (recorded : Bool) : List LifeEv :=
  if recorded && ks.contains t.writerKind then [.dispose] else []

/-- Program order of the events on the response object that the client finally
gets.  `recorded` = `serveDNSMsg` recorded a response (`written`).  UDP/TCP/DoT
normalise, pack and send inside the handler's `WriteMsg`, i.e. before
`serveDNSMsg` disposes; DoH (`serveDoH` → `writeResponse`), DoQ
(`serveQUICStream`) and DNSCrypt (`dnsCryptHandler.ServeDNS`) do so after
`serveDNSMsg` returned; DoH and DoQ then dispose themselves (DoQ also of the
SERVFAIL it synthesises), DNSCrypt never does. -/
def lifeOf (ks : List WriterKind) (t : Transport) (recorded : Bool) : List LifeEv :=
  match t with
  | .udp | .tcp | .dot => if recorded then .send :: inServe ks t recorded else []
  | .dohPost | .dohGet | .dohJSON => if recorded then inServe ks t recorded ++ [.send, .dispose] else []
  | .doq => inServe ks t recorded ++ [.send, .dispose]
  | .dnscryptUDP | .dnscryptTCP => inServe ks t recorded ++ [.send]

/-- `content = none`: the object still holds what the pipeline produced;
`some k`: it now belongs to the k-th concurrent request. -/
structure LifeState where
  content : Option Nat
  disposes : Nat
  sent : List (Option Nat)
  /-- an object owned by a concurrent request was disposed of (double disposal) -/
  clobbered : Bool
deriving DecidableEq, Repr

def lifeInit : LifeState := { content := none, disposes := 0, sent := [], clobbered := false }

/-- Worst schedule: every `Dispose` is followed at once by a foreign `Clone`
that takes the object out of the pool and overwrites it. -/
def lifeStep (s : LifeState) : LifeEv → LifeState
  | .send => { s with sent := s.sent ++ [s.content] }
  | .dispose => { s with content := some s.disposes, disposes := s.disposes + 1,
                         clobbered := s.clobbered || s.content.isSome }

def runLife (evs : List LifeEv) : LifeState := evs.foldl lifeStep lifeInit

def replaceLast (rs : List Resp) (x : Resp) : List Resp :=
  match rs with
  | [] => []
  | _ => rs.dropLast ++ [x]

/-- What the client observes when the Disposer's pools are shared with
concurrent requests (`foreign k` is what the k-th of them puts into the object
it takes from the pool), for a `dispose` switch `ks`. -/
def serveMsgShared (ks : List WriterKind) (t : Transport) (m : Msg) (o : Outcome) (wok : Bool)
    (foreign : Nat → Resp) : Sees :=
  let s := serveMsg t m o wok
  match (runLife (lifeOf ks t (!(serveCore m o).isEmpty))).sent.getLast? with
  | some (some k) => { s with msgs := replaceLast s.msgs (foreign k) }
  | _ => s

/-- Number of (non-nil) `Dispose` calls one wire input causes. -/
def disposeCount (ks : List WriterKind) (t : Transport) (unpacked : Option Msg) (o : Outcome) : Nat :=
  match unpacked with
  | none => 0
  | some m =>
    if t = .doq ∧ validQUICMsg m = false then 0
    else (runLife (lifeOf ks t (!(serveCore m o).isEmpty))).disposes

/-- The handler used by the correspondence harness: `SetReply(req)`, an rcode and
`n` answer records. -/
def handlerResp (m : Msg) (rcode n : Nat) : Resp :=
  { setRcode m rcode with answers := List.range n }

end Agd.Serve
