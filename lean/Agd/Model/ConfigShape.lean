/-!
# Shape of the server groups and of the optional sections (`internal/cmd`, round 5)

`Model/Config.lean` looks at the scalars of one fixed tree.  This file looks at the *structure*:
any number of server groups, each with any list of servers and with its `ddr` / `tls` sections
present or not, plus the optional top-level sections that the start-up steps touch.

* `validate` mirrors `serverGroups.validate` → `serverGroup.validate` → `ddrConfig.validate`,
  `servers.validate`, `tlsConfig.validate(needsTLS)` (first error wins, groups in file order).
* `collect legacy` is `serverGroups.collectSessTicketPaths`, called by `builder.initTLSManager`:
  `none` is the nil-pointer panic of the tree as found (`g.TLS.SessionKeys` with `g.TLS == nil`),
  `legacy = false` the repaired function that skips groups without a section.
* `startup legacy` is the sequence of builder steps of `Main` that the harness runs
  (`initTLSManager`, `initServerGroups`, `initTicketRotator`, `initWeb`, `queryLog`).

Session-ticket files are numbered (`k<n>`); the set the code builds is sorted and free of
duplicates.  Core Lean only.
-/
namespace Agd.Config.Shape

/-- Kind of a server: plain DNS bound to addresses, plain DNS bound to interface listeners, the three
encrypted protocols, DNSCrypt. -/
inductive Srv | dns | dnsIf | tls | https | quic | dnscrypt
  deriving DecidableEq, Repr

/-- `serverProto.needsTLS`. -/
def Srv.needsTls : Srv → Bool
  | .tls | .https | .quic => true
  | _ => false

/-- A `tls` section as decoded: number of certificate entries, whether one of them is `null`,
the session-key files, whether device-ID wildcards are listed. -/
structure Tls where
  certs : Nat := 1
  nilCert : Bool := false
  keys : List Nat := []
  wild : Bool := true
  deriving DecidableEq, Repr

structure Group where
  /-- `ddr` section present (not absent, not `null`). -/
  ddr : Bool := true
  /-- `tls` section; `none` = absent or `null`, i.e. a nil `*tlsConfig`. -/
  tls : Option Tls := none
  srvs : List Srv := []
  profiles : Bool := false
  deriving DecidableEq, Repr

structure Shape where
  groups : List Group := []
  /-- `interface_listeners` present. -/
  ifaces : Bool := true
  /-- `web` present. -/
  web : Bool := true
  /-- `web.linked_ip` present. -/
  linkedIp : Bool := true
  /-- environment variable `LINKED_IP_TARGET_URL` set. -/
  linkedUrl : Bool := true
  /-- `query_log.file.enabled`. -/
  qlog : Bool := true
  deriving DecidableEq, Repr

/-- Offending part of a group. -/
inductive Part | groups | ddr | servers | tls | certs | cert0
  deriving DecidableEq, Repr

inductive Kind | empty | noValue | cross
  deriving DecidableEq, Repr

/-- An error: index of the group, part, kind. -/
abbrev Err := Nat × Part × Kind

def Group.needsTls (g : Group) : Bool := g.srvs.any Srv.needsTls

/-- `tlsConfig.validate(needsTLS)`. -/
def valTls (needs : Bool) : Option Tls → Option (Part × Kind)
  | none => if needs then some (.tls, .noValue) else none
  | some t =>
    if !needs then some (.tls, .cross)
    else if t.certs = 0 then some (.certs, .empty)
    else if t.nilCert then some (.cert0, .noValue)
    else none

/-- `serverGroup.validate`. -/
def valGroup (g : Group) : Option (Part × Kind) :=
  if !g.ddr then some (.ddr, .noValue)
  else if g.srvs.isEmpty then some (.servers, .empty)
  else valTls g.needsTls g.tls

/-- Groups from index `i` on: the first error wins. -/
def valFrom : Nat → List Group → Option Err
  | _, [] => none
  | i, g :: gs =>
    match valGroup g with
    | some e => some (i, e)
    | none => valFrom (i + 1) gs

/-- `serverGroups.validate`. -/
def validate (s : Shape) : Option Err :=
  if s.groups.isEmpty then some (0, .groups, .empty) else valFrom 0 s.groups

/-- Insertion into a sorted list without duplicates (`container.SortedSliceSet.Add`). -/
def insert (k : Nat) : List Nat → List Nat
  | [] => [k]
  | x :: xs => if k < x then k :: x :: xs else if k = x then x :: xs else x :: insert k xs

def insertAll (ks : List Nat) (acc : List Nat) : List Nat := ks.foldl (fun a k => insert k a) acc

/-- `serverGroups.collectSessTicketPaths`.  `legacy`: the tree as found dereferences `g.TLS` of
every group; `none` is the resulting panic. -/
def collectFrom (legacy : Bool) : List Group → List Nat → Option (List Nat)
  | [], acc => some acc
  | g :: gs, acc =>
    match g.tls with
    | some t => collectFrom legacy gs (insertAll t.keys acc)
    | none => if legacy then none else collectFrom legacy gs acc

def collect (legacy : Bool) (gs : List Group) : Option (List Nat) := collectFrom legacy gs []

/-- Start-up steps that can fail. -/
inductive Stage | tlsManager | serverGroups | web
  deriving DecidableEq, Repr

/-- What the started program holds. -/
structure Started where
  tickets : List Nat
  /-- servers that got a TLS configuration from the manager -/
  tlsSrvs : Nat
  web : Bool
  qlog : Bool
  profiles : Bool
  groups : Nat
  deriving DecidableEq, Repr

inductive Result
  | ok (st : Started)
  | xerr (stage : Stage)
  | panic (stage : Stage)
  deriving DecidableEq, Repr

def usesIfaces (s : Shape) : Bool := s.groups.any fun g => g.srvs.any (· = .dnsIf)

def tlsSrvs (s : Shape) : Nat := (s.groups.map fun g => (g.srvs.filter Srv.needsTls).length).sum

/-- `initTLSManager`, `initServerGroups`, `initTicketRotator`, `initWeb`, `queryLog` in the order of `Main`. -/
def startup (legacy : Bool) (s : Shape) : Result :=
  match collect legacy s.groups with
  | none => .panic .tlsManager
  | some ts =>
    if usesIfaces s && !s.ifaces then .xerr .serverGroups
    else if s.web && s.linkedIp && !s.linkedUrl then .xerr .web
    else .ok { tickets := ts, tlsSrvs := tlsSrvs s, web := s.web, qlog := s.qlog,
               profiles := s.groups.any (·.profiles), groups := s.groups.length }

end Agd.Config.Shape
