/-!
# C02 model: rule-list precedence, request/response filtering, blocked-answer shape

Mirrors
* `internal/filter/internal/rulelist/{rulelist,result,dnsrewrite}.go` (one urlfilter engine per
  list, `URLFilterResult.ToInternal`, `ProcessDNSRewrites`),
* `internal/filter/internal/composite/composite.go` (`FilterRequest`, `FilterResponse`),
* `internal/filter/filterstorage/default.go` (`ForConfig`: which slots are filled),
* `internal/dnssvc/internal/mainmw/{mainmw,filter}.go` (`Middleware.filter`,
  `setFilteredResponse`, `setFilteredResponseNoReq`),
* `internal/dnsmsg/{response,constructor}.go` (`NewBlockedResp` per blocking mode).

A host name is its list of labels (leftmost first).  The rule grammar is the one the property
names; its *meaning* (`Rule.isMatch`) is the parameter that stands for urlfilter's parser/matcher and
is validated by the correspondence run only.  The order in which one engine returns the matching
rules of one list is not specified by urlfilter; the model uses source order and the driver flags
the (few) results that depend on it.
-/
namespace Agd.Filter

abbrev Host := List String
abbrev QType := Nat

def qtA : QType := 1
def qtAAAA : QType := 28
def qtCNAME : QType := 5
def qtHTTPS : QType := 65
def qtSOA : QType := 6

/-- Identity of a filter as it is reported in a verdict. -/
inductive ListId where
  | custom
  | shared (n : Nat)
  | svc (n : Nat)
  | safeBrowsing
  | adult
  | genSS
  | ytSS
  | newReg
deriving DecidableEq, Repr

/-- `$dnstype` selector of a network rule. -/
inductive TypeSel where
  | any
  | only (t : QType)
  | except (t : QType)
deriving DecidableEq, Repr

def TypeSel.ok : TypeSel → QType → Bool
  | .any, _ => true
  | .only t, q => q == t
  | .except t, q => q != t

/-- Number of modifiers, as counted by `NetworkRule.IsHigherPriority`. -/
def TypeSel.count : TypeSel → Nat
  | .any => 0
  | _ => 1

inductive Rewrite where
  | ip4 (v : String)
  | ip6 (v : String)
  | cname (t : Host)
  | rcode (rc : Nat)      -- a non-NOERROR code
  /-- `$dnsrewrite=NOERROR;<TYPE>;<value>` for the remaining record types (TXT, MX, PTR, SRV, HTTPS,
  SVCB); the bare keyword `NOERROR` is `other 0 ""`.  The value is opaque text. -/
  | other (t : QType) (v : String)
deriving DecidableEq, Repr

def qtPTR : QType := 12
def qtMX : QType := 15
def qtTXT : QType := 16
def qtSRV : QType := 33
def qtSVCB : QType := 64

/-- The record types `filterDNSRewriteResponse` can synthesise besides A/AAAA; a value of any other
type is skipped. -/
def synthesizable (t : QType) : Bool :=
  t == qtPTR || t == qtTXT || t == qtMX || t == qtHTTPS || t == qtSVCB || t == qtSRV

inductive Rule where
  /-- `||dom^`, `@@||dom^`, optionally `$dnstype=…` -/
  | net (dom : Host) (allow : Bool) (ts : TypeSel)
  /-- `||dom^$dnsrewrite=…` -/
  | rewrite (dom : Host) (rw : Rewrite)
  /-- `ip dom` (hosts style); `v6` tells the family of the address -/
  | hosts (v6 : Bool) (dom : Host)
deriving DecidableEq, Repr

/-- `||dom^` matches the name itself and every subdomain. -/
def domMatch (dom host : Host) : Bool := dom != [] && dom.isSuffixOf host

/-- Verdict of a filter. -/
inductive Verdict where
  | none
  | allowed (l : ListId)
  | blocked (l : ListId)
  | modReq (l : ListId) (target : Host)
  /-- rewritten response: rcode and synthesised A/AAAA values -/
  | modResp (l : ListId) (rc : Nat) (vals : List String)
  /-- a hash-prefix filter configured with a replacement *address* matched: the answer is built from
  the requester's message constructor (`hashprefix.Filter.respForFamily`) -/
  | hashResp (l : ListId) (v4 : Bool) (ip : String)
deriving DecidableEq, Repr

def Verdict.isNone : Verdict → Bool
  | .none => true
  | _ => false

def Verdict.isRewrite : Verdict → Bool
  | .modReq .. => true
  | .modResp .. => true
  | .hashResp .. => true
  | _ => false

/-! ## One list = one urlfilter engine (`rulelist.filter.DNSResult`) -/

/-- A matched basic network rule: (list, allow, modifier count). -/
abbrev NetHit := ListId × Bool × Nat

/-- Basic (non-rewrite) network rules of one list that match, in source order. -/
def netHits (id : ListId) (rs : List Rule) (host : Host) (qt : QType) : List NetHit :=
  rs.filterMap fun
    | .net d a ts => if domMatch d host && ts.ok qt then some (id, a, ts.count) else none
    | _ => none

/-- `$dnsrewrite` rules of one list that match (`DNSResult.DNSRewrites`; the grammar has no
rewrite exceptions). -/
def rewriteHits (rs : List Rule) (host : Host) : List Rewrite :=
  rs.filterMap fun
    | .rewrite d rw => if domMatch d host then some rw else none
    | _ => none

/-- Hosts-style rules of family `v6` for exactly this name.  The engine consults them only when the
same list has no matching basic network rule (`DNSEngine.MatchRequest`). -/
def hostsHits (id : ListId) (rs : List Rule) (host : Host) (qt : QType) (v6 : Bool) : List ListId :=
  if (netHits id rs host qt).isEmpty then
    rs.filterMap fun
      | .hosts f d => if f == v6 && d == host then some id else none
      | _ => none
  else []

/-! ## `rules.GetDNSBasicRule` -/

/-- `f.IsHigherPriority(r)` on the grammar: allow beats block, then more modifiers. -/
def higher (f r : NetHit) : Bool :=
  if f.2.1 && !r.2.1 then true
  else if r.2.1 && !f.2.1 then false
  else decide (f.2.2 > r.2.2)

def basicFrom : Option NetHit → List NetHit → Option NetHit
  | b, [] => b
  | Option.none, r :: rs => basicFrom (some r) rs
  | some b, r :: rs => basicFrom (some (if higher r b then r else b)) rs

def basicRule (hits : List NetHit) : Option NetHit := basicFrom Option.none hits

/-- `URLFilterResult.ToInternal`. -/
def toInternal (nets : List NetHit) (h4 h6 : List ListId) (qt : QType) : Verdict :=
  match basicRule nets with
  | some (id, allow, _) => if allow then .allowed id else .blocked id
  | Option.none =>
    match h4, h6 with
    | [], [] => .none
    | a :: _, [] => .blocked a
    | [], b :: _ => .blocked b
    | a :: _, b :: _ => if qt == qtAAAA then .blocked b else .blocked a

/-! ## `rulelist.ProcessDNSRewrites` -/

/-- First rule that ends `processDNSRewriteRules` early: a CNAME or a non-NOERROR code. -/
def terminal : List Rewrite → Option Rewrite
  | [] => Option.none
  | .cname t :: _ => some (.cname t)
  | .rcode rc :: _ => some (.rcode rc)
  | _ :: rs => terminal rs

def rewriteVals (rws : List Rewrite) (qt : QType) : List String :=
  rws.filterMap fun
    | .ip4 v => if qt == qtA then some v else Option.none
    | .ip6 v => if qt == qtAAAA then some v else Option.none
    | .other t v => if qt == t && synthesizable t then some v else Option.none
    | _ => Option.none

def processRewrites (host : Host) (qt : QType) (rws : List Rewrite) (id : ListId) : Verdict :=
  if rws.isEmpty then .none
  else match terminal rws with
    | some (.cname t) => if t == host then .none else .modReq id t
    | some (.rcode rc) => .modResp id rc []
    | _ => .modResp id 0 (rewriteVals rws qt)

/-! ## Composite filter -/

structure HashFilter where
  hosts : List Host
  repl : Host
  /-- `some (isIPv4, text)` when the replacement host is an IP address (`repIP`), in which case
  `repl` is unused -/
  replIP : Option (Bool × String) := Option.none
deriving Repr

/-- What `filterstorage.Default.ForConfig` assembled. -/
structure Cfg where
  custom : Option (List Rule) := Option.none
  lists : List (Nat × List Rule) := []
  svcs : List (Nat × List Rule) := []
  sb : Option HashFilter := Option.none
  adult : Option HashFilter := Option.none
  genSS : Option (List Rule) := Option.none
  ytSS : Option (List Rule) := Option.none
  newReg : Option HashFilter := Option.none
deriving Repr

/-- Custom list (if any) followed by the shared lists in configured order: the sources whose
`$dnsrewrite` rules are honoured, in the order they are consulted. -/
def Cfg.rewriteSources (c : Cfg) : List (ListId × List Rule) :=
  (match c.custom with | some rs => [(ListId.custom, rs)] | Option.none => []) ++
    c.lists.map fun p => (ListId.shared p.1, p.2)

def Cfg.svcSources (c : Cfg) : List (ListId × List Rule) :=
  c.svcs.map fun p => (ListId.svc p.1, p.2)

/-- The first source whose rewrites produce a result. -/
def firstRewrite (host : Host) (qt : QType) : List (ListId × List Rule) → Verdict
  | [] => .none
  | (id, rs) :: rest =>
    match processRewrites host qt (rewriteHits rs host) id with
    | .none => firstRewrite host qt rest
    | v => v

def allNets (srcs : List (ListId × List Rule)) (host : Host) (qt : QType) : List NetHit :=
  srcs.flatMap fun p => netHits p.1 p.2 host qt

def allHosts (srcs : List (ListId × List Rule)) (host : Host) (qt : QType) (v6 : Bool) : List ListId :=
  srcs.flatMap fun p => hostsHits p.1 p.2 host qt v6

def combined (srcs : List (ListId × List Rule)) (host : Host) (qt : QType) : Verdict :=
  toInternal (allNets srcs host qt) (allHosts srcs host qt false) (allHosts srcs host qt true) qt

/-- `filterReqWithRuleLists`. -/
def ruleListVerdict (c : Cfg) (host : Host) (qt : QType) : Verdict :=
  match firstRewrite host qt c.rewriteSources with
  | .none => combined (c.rewriteSources ++ c.svcSources) host qt
  | v => v

def filterableQT (qt : QType) : Bool := qt == qtA || qt == qtAAAA || qt == qtHTTPS

def hashVerdict (id : ListId) (f : HashFilter) (host : Host) (qt : QType) : Verdict :=
  if filterableQT qt && f.hosts.any (fun h => domMatch h host) then
    match f.replIP with
    | some (v4, ip) => .hashResp id v4 ip
    | Option.none => .modReq id f.repl
  else .none

def ssVerdict (id : ListId) (rs : List Rule) (host : Host) (qt : QType) : Verdict :=
  if filterableQT qt then processRewrites host qt (rewriteHits rs host) id else .none

def optV {α : Type} (o : Option α) (f : α → Verdict) : List Verdict :=
  match o with | some a => [f a] | Option.none => []

/-- Verdicts of the request filters in the order `composite.New` appends them. -/
def reqFilterVerdicts (c : Cfg) (host : Host) (qt : QType) : List Verdict :=
  optV c.sb (fun f => hashVerdict .safeBrowsing f host qt) ++
  optV c.adult (fun f => hashVerdict .adult f host qt) ++
  optV c.genSS (fun rs => ssVerdict .genSS rs host qt) ++
  optV c.ytSS (fun rs => ssVerdict .ytSS rs host qt) ++
  optV c.newReg (fun f => hashVerdict .newReg f host qt)

def firstSome : List Verdict → Verdict
  | [] => .none
  | .none :: vs => firstSome vs
  | v :: _ => v

/-- `composite.Filter.FilterRequest`.  (The rule lists never yield `hashResp`; the case is listed
only to keep the match total in the obvious way.) -/
def filterRequest (c : Cfg) (host : Host) (qt : QType) : Verdict :=
  let rl := ruleListVerdict c host qt
  match rl with
  | .allowed .custom => rl
  | .blocked _ => rl
  | .modReq .. => rl
  | .modResp .. => rl
  | .hashResp .. => rl
  | _ =>
    match firstSome (reqFilterVerdicts c host qt) with
    | .none => rl
    | v => v

/-- An answer record as far as `parseRespAnswer` looks at it. -/
inductive Ans where
  | a (ip : Host)
  | aaaa (ip : Host)
  | cname (t : Host)
  /-- an HTTPS record: its `ipv4hint`/`ipv6hint` addresses in record order -/
  | https (hints : List Host)
  | other
deriving DecidableEq, Repr

/-- Sources in the order `filterRespWithRuleLists` adds them: shared lists, custom, services. -/
def Cfg.respSources (c : Cfg) : List (ListId × List Rule) :=
  (c.lists.map fun p => (ListId.shared p.1, p.2)) ++
  (match c.custom with | some rs => [(ListId.custom, rs)] | Option.none => []) ++ c.svcSources

def answerVerdict (c : Cfg) : Ans → Verdict
  | .a ip => combined c.respSources ip qtA
  | .aaaa ip => combined c.respSources ip qtAAAA
  | .cname t => combined c.respSources t qtCNAME
  | .https hints => firstSome (hints.map fun h => combined c.respSources h qtHTTPS)
  | .other => .none

/-- `composite.Filter.FilterResponse`: the first answer with a verdict decides. -/
def filterResponse (c : Cfg) (answers : List Ans) : Verdict :=
  firstSome (answers.map (answerVerdict c))

/-! ## Messages -/

structure RR where
  name : Host
  typ : QType
  val : String
  ttl : Nat
  /-- provenance: `true` = obtained from upstream -/
  up : Bool
  /-- the address hints of an HTTPS record, in record order -/
  hints : List Host := []
  /-- the target of a CNAME record as it is spelled on the wire: its labels, letter case kept -/
  target : Host := []
deriving DecidableEq, Repr

structure Msg where
  rcode : Nat
  ans : List RR
  /-- TTL of the synthesised SOA in the authority section, if any -/
  soa : Option Nat
  /-- authority records obtained from upstream -/
  upNs : Nat := 0
  /-- records of the additional section obtained from upstream (OPT pseudo-records not counted);
  every message the constructor builds (`Constructor.NewResp`) starts without any -/
  upExtra : Nat := 0
deriving DecidableEq, Repr

inductive Mode where
  | nullIP
  | customIP (v4 v6 : List (Bool × String))   -- (is IPv4, text)
  | nxdomain
  | refused
deriving DecidableEq, Repr

/-- What `backendpb`/the configuration are meant to guarantee: the lists hold their own family. -/
def Mode.WF : Mode → Bool
  | .customIP v4 v6 => v4.all (fun p => p.1) && v6.all (fun p => !p.1)
  | _ => true

def synthRR (host : Host) (typ : QType) (ttl : Nat) (v : String) : RR :=
  { name := host, typ := typ, val := v, ttl := ttl, up := false }

def nodata (ttl : Nat) : Msg := { rcode := 0, ans := [], soa := some ttl }

/-- `Constructor.NewBlockedResp`; `none` = the constructor returned an error. -/
def blockedResp (m : Mode) (ttl : Nat) (host : Host) (qt : QType) : Option Msg :=
  match m with
  | .nullIP =>
    if qt == qtA then some { rcode := 0, ans := [synthRR host qtA ttl "0.0.0.0"], soa := Option.none }
    else if qt == qtAAAA then some { rcode := 0, ans := [synthRR host qtAAAA ttl "::"], soa := Option.none }
    else some (nodata ttl)
  | .customIP v4 v6 =>
    if qt == qtA && !v4.isEmpty then
      if v4.all (fun p => p.1) then
        some { rcode := 0, ans := v4.map (fun p => synthRR host qtA ttl p.2), soa := Option.none }
      else Option.none
    else if qt == qtAAAA && !v6.isEmpty then
      if v6.all (fun p => !p.1) then
        some { rcode := 0, ans := v6.map (fun p => synthRR host qtAAAA ttl p.2), soa := Option.none }
      else Option.none
    else some (nodata ttl)
  | .nxdomain => some { rcode := 3, ans := [], soa := some ttl }
  | .refused => some { rcode := 5, ans := [], soa := some ttl }

/-- What is written when `NewBlockedResp` fails (after the fix: SERVFAIL without records). -/
def blockedFallback : Msg := { rcode := 2, ans := [], soa := Option.none }

/-! ### Letter case: `agdnet.NormalizeDomain`

On the wire a name is a list of labels in which letter case is kept but carries no meaning.  The rule
lists are matched against lower-case names, so every name must be folded before it reaches them:
the question name is (`ratelimitmw.newRequestInfo`), and — since the `fix:` commit — so is the target
of a CNAME answer (`composite.parseRespAnswer`).  Addresses are rendered by `netip`/`net.IP` and are
lower-case by construction. -/

def lowerChar (c : Char) : Char :=
  if 'A' ≤ c ∧ c ≤ 'Z' then Char.ofNat (c.toNat + 32) else c

/-- `strings.ToLower` on ASCII. -/
def lower (s : String) : String := String.ofList (s.toList.map lowerChar)

/-- `agdnet.NormalizeDomain` on a name given by its labels (the trailing dot of the text form is the
empty root label, which the label list does not contain). -/
def normName (n : Host) : Host := n.map lower

/-- `parseRespAnswer` + `filterHTTPSAnswer`: what of an answer record reaches the rule lists.  `norm`
is what is done to the target of a CNAME. -/
def ansOfWith (norm : Host → Host) (r : RR) : Ans :=
  if r.typ == qtA then .a (r.val.splitOn ".")
  else if r.typ == qtAAAA then .aaaa (r.val.splitOn ".")
  else if r.typ == qtCNAME then .cname (norm r.target)
  else if r.typ == qtHTTPS then .https r.hints
  else .other

/-- The code as it is now: the CNAME target is normalised. -/
def ansOf (r : RR) : Ans := ansOfWith normName r

/-- The code before the `fix:` commit: only the trailing dot was removed. -/
def ansOfUnfixed (r : RR) : Ans := ansOfWith id r

/-- Profile/device switches of `Middleware.filter`. -/
structure Switches where
  hasProfile : Bool
  profOn : Bool
  devOn : Bool
deriving Repr

/-- `Middleware.filter`: `none` is `filter.Empty`. -/
def selectFilter (sw : Switches) (prof grp : Cfg) : Option Cfg :=
  if !sw.hasProfile then some grp
  else if sw.profOn && sw.devOn then some prof
  else Option.none

structure Env where
  sw : Switches
  prof : Cfg
  grp : Cfg
  mode : Mode
  ttl : Nat
  upstream : Host → QType → Msg

def rewriteMsg (host : Host) (qt : QType) (ttl : Nat) (rc : Nat) (vals : List String) : Msg :=
  { rcode := rc, ans := vals.map (synthRR host qt ttl), soa := Option.none }

/-- `hashprefix.Filter.respForFamily` with a replacement address: an HTTPS query gets the blocked
response of the requester's blocking mode, an A/AAAA query of the address's family gets the address,
anything else NODATA with the synthesised SOA; all with the requester's TTL. -/
def hashRespMsg (m : Mode) (ttl : Nat) (host : Host) (qt : QType) (v4 : Bool) (ip : String) : Msg :=
  if qt == qtHTTPS then (blockedResp m ttl host qt).getD blockedFallback
  else if qt == qtA && v4 then { rcode := 0, ans := [synthRR host qtA ttl ip], soa := Option.none }
  else if qt == qtAAAA && !v4 then { rcode := 0, ans := [synthRR host qtAAAA ttl ip], soa := Option.none }
  else nodata ttl

/-- The main middleware for one query: request filter, upstream, response filter,
`setFilteredResponse`.  `fb` is what is written when `NewBlockedResp` fails, as a function of the
upstream reply; `rd` is how an answer record is read for response filtering. -/
def serveWith (fb : Msg → Msg) (rd : RR → Ans) (e : Env) (host : Host) (qt : QType) : Msg :=
  let flt := selectFilter e.sw e.prof e.grp
  let rv := match flt with | some c => filterRequest c host qt | Option.none => Verdict.none
  match rv with
  | .modReq _ t =>
    let r := e.upstream t qt
    { r with ans := synthRR host qtCNAME e.ttl (".".intercalate t) :: r.ans }
  | .blocked _ => (blockedResp e.mode e.ttl host qt).getD (fb (e.upstream host qt))
  | .allowed _ => e.upstream host qt
  | .modResp _ rc vals => rewriteMsg host qt e.ttl rc vals
  | .hashResp _ v4 ip => hashRespMsg e.mode e.ttl host qt v4 ip
  | .none =>
    let orig := e.upstream host qt
    let pv := match flt with | some c => filterResponse c (orig.ans.map rd) | Option.none => Verdict.none
    match pv with
    | .blocked _ => (blockedResp e.mode e.ttl host qt).getD (fb orig)
    | _ => orig

/-- The code as it is now (with the `fix:` commit): fail closed with SERVFAIL. -/
def serve (e : Env) (host : Host) (qt : QType) : Msg :=
  serveWith (fun _ => blockedFallback) ansOf e host qt

/-- The code before the fix: the upstream reply is written when `NewBlockedResp` fails. -/
def serveUnfixed (e : Env) (host : Host) (qt : QType) : Msg := serveWith id ansOf e host qt

/-- The code before the second `fix:` commit: the target of a CNAME answer reached the rule lists in
its wire spelling. -/
def serveCaseSensitive (e : Env) (host : Host) (qt : QType) : Msg :=
  serveWith (fun _ => blockedFallback) ansOfUnfixed e host qt

/-! ### Debug queries (`writeDebugResponse`, `filteringData`)

A question asked in the CHAOS class is filtered exactly like the same question in the INET class (the
class is reset before filtering and none of the filters looks at it); the answer is the same message
with TXT records appended that report the verdict: the request's if there is one, otherwise the
response's. -/

/-- `(fromRequest, verdict)` as reported. -/
def reportedVerdict (e : Env) (host : Host) (qt : QType) : Bool × Verdict :=
  match selectFilter e.sw e.prof e.grp with
  | Option.none => (false, .none)
  | some c =>
    match filterRequest c host qt with
    | .none => (false, filterResponse c ((e.upstream host qt).ans.map ansOf))
    | v => (true, v)

/-- The message part of the answer to a debug query: the ordinary answer. -/
def serveDebug (e : Env) (host : Host) (qt : QType) : Msg := serve e host qt

/-! ## `filterstorage.Default.ForConfig`: from the configured switches to the composite filter -/

/-! ### The pause schedule: `filter.ConfigSchedule.Contains` -/

/-- One period of a time zone: the offset `off` (seconds east of UTC) is in force for the instants
`start ≤ u < stop` (Unix seconds). -/
structure Period where
  start : Int
  stop : Int
  off : Int
deriving Repr, DecidableEq

/-- A `time.Location`: its periods, and the offset that is in force (without bounds) where no listed
period applies — a fixed-offset zone has no periods at all. -/
structure Zone where
  periods : List Period := []
  base : Int := 0
deriving Repr

def Zone.find (z : Zone) (u : Int) : Option Period :=
  z.periods.find? fun p => decide (p.start ≤ u) && decide (u < p.stop)

/-- Offset in force at the instant `u` (`Location.lookup`). -/
def Zone.off (z : Zone) (u : Int) : Int :=
  match z.find u with
  | some p => p.off
  | Option.none => z.base

/-- `time.Date(y, m, d, 0, 0, 0, 0, loc)` as Go computes it, for the civil day whose midnight read as
UTC is `lu`: look the *local* reading up as if it were an instant, subtract that period's offset, and
if the result falls outside that period use the offset in force at the result instead. -/
def goMidnight (z : Zone) (lu : Int) : Int :=
  match z.find lu with
  | some p =>
    if p.off == 0 then lu
    else
      let utc := lu - p.off
      if decide (utc < p.start) || decide (utc ≥ p.stop) then lu - z.off utc else lu - p.off
  | Option.none => lu - z.base

/-- `filter.DayInterval` in minutes: inclusive start, exclusive end. -/
structure DayIv where
  start : Nat
  stop : Nat
deriving Repr, DecidableEq

/-- `filter.ConfigSchedule`: one optional interval per weekday (index 0 = Sunday) and the zone. -/
structure Sched where
  week : List (Option DayIv)
  zone : Zone
deriving Repr

def secPerDay : Int := 86400

/-- `ConfigSchedule.Contains` at the instant `t` (Unix seconds): convert to the zone, take that civil
day's interval (none or the zero interval: not contained), build local midnight with `time.Date`, add
the minutes as *elapsed* time, compare `start ≤ t < end`. -/
def Sched.contains (s : Sched) (t : Int) : Bool :=
  let lt := t + s.zone.off t
  let dayNo := lt / secPerDay
  let wd := ((dayNo + 4) % 7).toNat
  match (s.week.getD wd Option.none) with
  | Option.none => false
  | some iv =>
    if iv.start == 0 && iv.stop == 0 then false
    else
      let mid := goMidnight s.zone (dayNo * secPerDay)
      decide (mid + (iv.start : Int) * 60 ≤ t) && decide (t < mid + (iv.stop : Int) * 60)

/-- What the filter storage holds (after a refresh); `now` is what its clock says. -/
structure Storage where
  lists : List (Nat × List Rule) := []
  svcs : List (Nat × List Rule) := []
  sb : HashFilter := { hosts := [], repl := [] }
  adult : HashFilter := { hosts := [], repl := [] }
  newReg : HashFilter := { hosts := [], repl := [] }
  genSS : List Rule := []
  ytSS : List Rule := []
  now : Int := 0
deriving Repr

/-- `filter.ConfigClient` / `filter.ConfigGroup` (a group has no custom part: `isClient = false`). -/
structure PCfg where
  isClient : Bool := true
  customOn : Bool := false
  customRules : List Rule := []
  parentalOn : Bool := false
  /-- the pause schedule of parental control, if any -/
  pause : Option Sched := Option.none
  adultOn : Bool := false
  gssOn : Bool := false
  yssOn : Bool := false
  svcIds : List Nat := []
  ruleListOn : Bool := false
  listIds : List Nat := []
  sbOn : Bool := false
  dangerousOn : Bool := false
  nrdOn : Bool := false
deriving Repr

/-- `pause != nil && pause.Contains(s.clock.Now())`. -/
def PCfg.paused (p : PCfg) (now : Int) : Bool :=
  match p.pause with
  | some s => s.contains now
  | Option.none => false

/-- Known IDs in configured order; unknown IDs are skipped (`setRuleLists`, `serviceblock.RuleLists`). -/
def pickKnown (tbl : List (Nat × List Rule)) (ids : List Nat) : List (Nat × List Rule) :=
  ids.filterMap fun i => (tbl.lookup i).map fun rs => (i, rs)

def onlyIf {α : Type} (b : Bool) (a : α) : Option α := if b then some a else Option.none

/-- `forClient` / `forGroup`: `setParental`, `setRuleLists`, `setSafeBrowsing`, `custom.Get`. -/
def assemble (st : Storage) (p : PCfg) : Cfg :=
  let par := p.parentalOn && !p.paused st.now
  { custom := if p.isClient && p.customOn && !p.customRules.isEmpty then some p.customRules else Option.none
    lists := if p.ruleListOn then pickKnown st.lists p.listIds else []
    svcs := if par then pickKnown st.svcs p.svcIds else []
    sb := onlyIf (p.sbOn && p.dangerousOn) st.sb
    adult := onlyIf (par && p.adultOn) st.adult
    genSS := onlyIf (par && p.gssOn) st.genSS
    ytSS := onlyIf (par && p.yssOn) st.ytSS
    newReg := onlyIf (p.sbOn && p.nrdOn) st.newReg }

/-! ## Whose message constructor: `ratelimitmw.newRequestInfo` -/

def nsPerSec : Int := 1000000000

/-- `uint32(c.fltRespTTL.Seconds())` (`Constructor.newHdrWithClass`): the TTL of every synthesised
record is the number of *whole* seconds of the configured duration (nanoseconds).  (Durations of 2^32
seconds and more have no DNS TTL; Go leaves that conversion implementation-defined.) -/
def durSecs (d : Int) : Nat := (d / nsPerSec).toNat

/-- A profile as far as this property looks at it.  `ttl` is `FilteredResponseTTL`, a
`time.Duration` in nanoseconds; a negative one makes `dnsmsg.NewConstructor` fail, in which case — as
for a nil blocking mode — the server's constructor stays in place. -/
structure Profile where
  conf : PCfg
  /-- `none` = a nil `BlockingMode`, the other way `NewConstructor` fails -/
  mode : Option Mode
  ttl : Int
  filteringOn : Bool
  devFilteringOn : Bool
deriving Repr

/-- The server: its own constructor settings and the filtering group's configuration. -/
structure Server where
  st : Storage
  mode : Mode
  ttl : Nat
  grp : PCfg
deriving Repr

/-- The message constructor of a request: the profile's own when there is a profile (and a
constructor can be made from it), the server's otherwise. -/
def ctorOf (srv : Server) : Option Profile → Mode × Nat
  | some p =>
    match p.mode with
    | some m => if p.ttl < 0 then (srv.mode, srv.ttl) else (m, durSecs p.ttl)
    | Option.none => (srv.mode, srv.ttl)
  | Option.none => (srv.mode, srv.ttl)

def envOf (srv : Server) (who : Option Profile) (upstream : Host → QType → Msg) : Env :=
  { sw := match who with
      | some p => { hasProfile := true, profOn := p.filteringOn, devOn := p.devFilteringOn }
      | Option.none => { hasProfile := false, profOn := false, devOn := false }
    prof := match who with | some p => assemble srv.st p.conf | Option.none => {}
    grp := assemble srv.st srv.grp
    mode := (ctorOf srv who).1
    ttl := (ctorOf srv who).2
    upstream := upstream }

/-- One query of one requester through the whole stack. -/
def serveReq (srv : Server) (who : Option Profile) (upstream : Host → QType → Msg)
    (host : Host) (qt : QType) : Msg :=
  serve (envOf srv who upstream) host qt

/-! ## Faults on the way (`Middleware.Wrap`)

The next handler is called for EVERY request verdict (a blocked or rewritten query is still resolved:
the query log wants the country of the real answer), and only after the request has been filtered and
the context has been found alive.  When the context is dead at that point, or when the next handler
returns an error, `Wrap` returns that error and nothing has been written: the server itself then
answers SERVFAIL without records.  `none` below is that outcome. -/

/-- The name the next handler is asked for: the rewritten one after a CNAME rewrite (or a safety
filter's replacement host), the original one otherwise. -/
def askedName (e : Env) (host : Host) (qt : QType) : Host :=
  match (match selectFilter e.sw e.prof e.grp with
         | some c => filterRequest c host qt | Option.none => Verdict.none) with
  | .modReq _ t => t
  | _ => host

/-- What the client gets from the main middleware when the context may have been cancelled while the
request was being filtered and the upstream may fail (`up … = none`). -/
def serveFaulty (e : Env) (cancelled : Bool) (up : Host → QType → Option Msg)
    (host : Host) (qt : QType) : Option Msg :=
  if cancelled then Option.none
  else
    match up (askedName e host qt) qt with
    | Option.none => Option.none
    | some _ =>
      some (serve { e with upstream := fun h q => (up h q).getD { rcode := 2, ans := [], soa := Option.none } } host qt)

/-! ## Production wiring: environment, configuration file, server groups

`internal/cmd`: `builder.initHashPrefixFilters`, `initFilterStorage`, `initFilteringGroups`,
`initMsgConstructor`; `dnssvc.newHandlersForServers`. -/

/-- The `*_ENABLED` switches of the process environment. -/
structure EnvSw where
  adult : Bool := true
  sb : Bool := true
  nrd : Bool := true
  svc : Bool := true
  gss : Bool := true
  yss : Bool := true
deriving Repr, DecidableEq

def emptyHash (f : HashFilter) : HashFilter := { f with hosts := [] }

/-- The filter storage the builder creates from what the URLs serve (`st`): a filter that is
switched off in the environment is not created at all (a nil filter is skipped by
`composite.New`, a nil service index by `setParental`), which is the same as one that holds nothing;
the dangerous-domain AND the newly-registered filter get `safe_browsing.block_host`, the adult filter
gets `adult_blocking.block_host`. -/
def builtStorage (sw : EnvSw) (sbHost adHost : Host × Option (Bool × String)) (st : Storage) : Storage :=
  { st with
    sb := if sw.sb then { hosts := st.sb.hosts, repl := sbHost.1, replIP := sbHost.2 } else emptyHash st.sb
    newReg := if sw.nrd then { hosts := st.newReg.hosts, repl := sbHost.1, replIP := sbHost.2 } else emptyHash st.newReg
    adult := if sw.adult then { hosts := st.adult.hosts, repl := adHost.1, replIP := adHost.2 } else emptyHash st.adult
    svcs := if sw.svc then st.svcs else []
    genSS := if sw.gss then st.genSS else []
    ytSS := if sw.yss then st.ytSS else [] }

/-- A configuration in which everything the environment switches off is switched off. -/
def maskPCfg (sw : EnvSw) (p : PCfg) : PCfg :=
  { p with
    adultOn := p.adultOn && sw.adult
    dangerousOn := p.dangerousOn && sw.sb
    nrdOn := p.nrdOn && sw.nrd
    svcIds := if sw.svc then p.svcIds else []
    gssOn := p.gssOn && sw.gss
    yssOn := p.yssOn && sw.yss }

/-- One entry of `filtering_groups` in the configuration file, field by field. -/
structure GroupYaml where
  rlEnabled : Bool := false
  rlIds : List Nat := []
  parEnabled : Bool := false
  blockAdult : Bool := false
  generalSafeSearch : Bool := false
  youtubeSafeSearch : Bool := false
  sbEnabled : Bool := false
  blockDangerous : Bool := false
  blockNewlyRegistered : Bool := false
deriving Repr

/-- `filteringGroups.toInternal`: a group has no custom rules, no blocked services and no pause
schedule. -/
def GroupYaml.toPCfg (g : GroupYaml) : PCfg :=
  { isClient := false, customOn := false, customRules := []
    parentalOn := g.parEnabled, pause := Option.none
    adultOn := g.blockAdult, gssOn := g.generalSafeSearch, yssOn := g.youtubeSafeSearch
    svcIds := []
    ruleListOn := g.rlEnabled, listIds := g.rlIds
    sbOn := g.sbEnabled, dangerousOn := g.blockDangerous, nrdOn := g.blockNewlyRegistered }

/-- Filtering groups by ID and, for every server group, the ID it names. -/
structure Wiring where
  groups : List (String × GroupYaml) := []
  serverGroups : List (String × String) := []
deriving Repr

/-- `newHandlersForServers`: `c.FilteringGroups[srvGrp.FilteringGroup]`. -/
def Wiring.groupOf (w : Wiring) (sg : String) : Option PCfg :=
  (w.serverGroups.lookup sg).bind fun id => (w.groups.lookup id).map GroupYaml.toPCfg

/-- The server a request to a server of group `sg` meets: the common storage, the common message
constructor (`initMsgConstructor`: always null IP, `filters.response_ttl`) and the group's own
configuration. -/
def Wiring.server (w : Wiring) (st : Storage) (respTtl : Int) (sg : String) : Option Server :=
  (w.groupOf sg).map fun g => { st := st, mode := .nullIP, ttl := durSecs respTtl, grp := g }

/-- Replace the settings of one filtering group. -/
def Wiring.setGroup (w : Wiring) (id : String) (g : GroupYaml) : Wiring :=
  { w with groups := w.groups.map fun p => if p.1 == id then (p.1, g) else p }

/-! ## The backend's profile message: `backendpb.DNSProfile.toInternal` (round 5)

What a synchronisation makes of one profile message, as far as this property reads it.  Sub-messages
may be absent (`nil`): absent parental / rule-list / safe-browsing settings are disabled settings, an
absent blocking mode is null IP, an absent TTL is zero.  The custom rules are in force iff there are
any.  A bytes field of the custom-IP mode is empty or an address of 4 / 16 bytes
(`netip.Addr.UnmarshalBinary`: the ipv4 field does NOT insist on 4 bytes). -/

def nsPerMin : Int := 60 * nsPerSec

/-- `DayRange`: two `google.protobuf.Duration`s (here nanoseconds) since local midnight; `end` names
the LAST minute of the pause. -/
structure PbDayRange where
  startNs : Int
  endNs : Int
deriving Repr

/-- `uint16(d.Start.AsDuration().Minutes())`, `uint16(d.End.AsDuration().Minutes() + 1)`, then
`DayInterval.Validate` (the zero interval is valid; end before start, start after 23:59 or end after
24:00 reject the whole profile).  For a start above -64000 min, an end from -1 min, both below
65535 min (beyond, the 16-bit conversion wraps: run on the real code and counted). -/
def PbDayRange.toIv (d : PbDayRange) : Option DayIv :=
  let iv : DayIv := { start := (d.startNs / nsPerMin).toNat, stop := (d.endNs / nsPerMin + 1).toNat }
  if d.startNs ≤ -nsPerMin then Option.none   -- `uint16` of a negative number of minutes: far beyond 23:59
  else if iv.start == 0 && iv.stop == 0 then some iv
  else if iv.stop < iv.start || iv.start > 1439 || iv.stop > 1440 then Option.none
  else some iv

/-- `ScheduleSettings`: the zone (loaded by name) and the days, Sunday first (`toInternal` reorders
the message's Monday-first fields). -/
structure PbSchedule where
  zone : Zone
  days : List (Option PbDayRange)
deriving Repr

def pbDays : List (Option PbDayRange) → Option (List (Option DayIv))
  | [] => some []
  | Option.none :: ds => (pbDays ds).map fun w => Option.none :: w
  | some r :: ds =>
    match r.toIv, pbDays ds with
    | some iv, some w => some (some iv :: w)
    | _, _ => Option.none

def PbSchedule.toSched (s : PbSchedule) : Option Sched :=
  (pbDays s.days).map fun w => { week := w, zone := s.zone }

structure PbParental where
  enabled : Bool := false
  blockAdult : Bool := false
  generalSafeSearch : Bool := false
  youtubeSafeSearch : Bool := false
  blockedServices : List Nat := []
  schedule : Option PbSchedule := Option.none
deriving Repr

structure PbRuleLists where
  enabled : Bool := false
  ids : List Nat := []
deriving Repr

structure PbSafeBrowsing where
  enabled : Bool := false
  blockDangerous : Bool := false
  blockNrd : Bool := false
deriving Repr

/-- The `blocking_mode` oneof; a custom-IP field is empty (`none`) or one address `(is IPv4, text)`. -/
inductive PbMode where
  | unset
  | nullIP
  | nxdomain
  | refused
  | customIP (v4 v6 : Option (Bool × String))
deriving Repr

/-- `blockingModeToInternal` / `BlockingModeCustomIP.toInternal`: no address at all is an error. -/
def PbMode.toMode : PbMode → Option Mode
  | .unset => some .nullIP
  | .nullIP => some .nullIP
  | .nxdomain => some .nxdomain
  | .refused => some .refused
  | .customIP v4 v6 => if v4.isNone && v6.isNone then Option.none else some (.customIP v4.toList v6.toList)

structure PbProfile where
  filteringEnabled : Bool := false
  customRules : List Rule := []
  parental : Option PbParental := Option.none
  ruleLists : Option PbRuleLists := Option.none
  safeBrowsing : Option PbSafeBrowsing := Option.none
  mode : PbMode := .unset
  /-- `filtered_response_ttl` in nanoseconds -/
  ttl : Option Int := Option.none
deriving Repr

def PbProfile.pause (x : PbProfile) : Option (Option Sched) :=
  match x.parental.bind (·.schedule) with
  | Option.none => some Option.none
  | some s => s.toSched.map some

/-- `DNSProfile.toInternal`; `none` = the message is rejected (the profile is not stored).
`devOn` is the requesting device's own `filtering_enabled`. -/
def PbProfile.toProfile (x : PbProfile) (devOn : Bool) : Option Profile :=
  match x.pause, x.mode.toMode with
  | some sched, some m =>
    let par := x.parental.getD {}
    let rl := x.ruleLists.getD {}
    let sb := x.safeBrowsing.getD {}
    some
      { conf :=
          { isClient := true, customOn := !x.customRules.isEmpty, customRules := x.customRules
            parentalOn := par.enabled, pause := sched, adultOn := par.blockAdult
            gssOn := par.generalSafeSearch, yssOn := par.youtubeSafeSearch, svcIds := par.blockedServices
            ruleListOn := rl.enabled, listIds := rl.ids
            sbOn := sb.enabled, dangerousOn := sb.blockDangerous, nrdOn := sb.blockNrd }
        mode := some m, ttl := x.ttl.getD 0
        filteringOn := x.filteringEnabled, devFilteringOn := devOn }
  | _, _ => Option.none

/-! ## Special domains: `initial.Middleware.specialDomainHandler` (round 5)

Three switches of the profile (or, for anonymous requesters, of the filtering group) make the initial
middleware answer address queries for five fixed names itself — before the main middleware, without
asking the upstream and without looking at the rules or the filtering switches: NXDOMAIN for the
Apple Private Relay names and the Chrome prefetch name, REFUSED for the Firefox canary name
(`Constructor.NewRespRCode`: no answer, the constructor's SOA). -/

structure SpecialSw where
  relay : Bool := false
  prefetch : Bool := false
  canary : Bool := false
deriving Repr, DecidableEq

def relayHosts : List Host :=
  [["mask", "icloud", "com"], ["mask-h2", "icloud", "com"], ["mask-canary", "icloud", "com"]]
def prefetchHost : Host := ["dns-tunnel-check", "googlezip", "net"]
def canaryHost : Host := ["use-application-dns", "net"]

/-- The rcode the initial middleware answers with, if it answers itself. -/
def specialRcode (sw : SpecialSw) (host : Host) (qt : QType) : Option Nat :=
  if !(qt == qtA || qt == qtAAAA) then Option.none
  else if relayHosts.contains host then onlyIf sw.relay 3
  else if host == prefetchHost then onlyIf sw.prefetch 3
  else if host == canaryHost then onlyIf sw.canary 5
  else Option.none

/-- The stack with the initial middleware in front of the main middleware. -/
def serveSpecial (sw : SpecialSw) (e : Env) (host : Host) (qt : QType) : Msg :=
  match specialRcode sw host qt with
  | some rc => { rcode := rc, ans := [], soa := some e.ttl }
  | Option.none => serve e host qt

end Agd.Filter
