/-!
# Model of `internal/dnsserver/normalize.go` and of the write paths that call it (C08)

Sizes, not bytes.  A handler response is described by the lengths `miekg/dns` itself
computes for it: `q` is header + question, the three lists hold the *incremental compressed
lengths* of the records in wire order (exactly what `truncateLoop` accumulates), `unc` is the
uncompressed length of everything except the OPT record, and `ns2`/`extra2` are the
incremental lengths of the authority/additional records once the answer section is gone
(AdGuard's `truncate` removes the answers of a truncated message, which changes what later
records can be compressed against).  The library's length accounting is an input measured on
the real message by the harness, not something modelled here.

Core Lean only.
-/
namespace Agd.Normalize

/-- The seven (transport, network) combinations the servers produce. -/
inductive Transport | udp | tcp | dot | doh | doq | dcUdp | dcTcp
  deriving DecidableEq, Repr

/-- `NetworkUDP`? -/
def Transport.isUdp : Transport → Bool
  | .udp | .dcUdp => true
  | _ => false

/-- `Protocol.HasPaddingSupport` = `IsStdEncrypted`: DoT, DoH, DoQ. -/
def Transport.hasPadding : Transport → Bool
  | .dot | .doh | .doq => true
  | _ => false

/-- Written through `tcpResponseWriter` (which calls `addTCPKeepAlive`). -/
def Transport.hasKeepAlive : Transport → Bool
  | .tcp | .dot => true
  | _ => false

/-- Packed with `packWithPrefix`, whose guard refuses more than 65535 bytes. -/
def Transport.guarded : Transport → Bool
  | .tcp | .dot | .doq => true
  | _ => false

def maxMsgSize : Nat := 65535
def minMsgSize : Nat := 512

/-- The `maxMsgSize` argument each write path hands to `normalize`: the configured
`MaxUDPRespSize` on plain UDP and — since the `fix:` commit that wires
`dns.max_udp_response_size` into the DNSCrypt server — on DNSCrypt (where only the UDP network
looks at it), `dns.MaxMsgSize` everywhere else. -/
def Transport.cap (t : Transport) (cfgMax : Nat) : Nat :=
  match t with
  | .udp | .dcUdp => cfgMax
  | _ => maxMsgSize

/-- The same before that commit (`legacy`): the DNSCrypt handler passed the constant
`dns.MaxMsgSize`, so the configured maximum never reached DNSCrypt/UDP. -/
def Transport.capG (legacy : Bool) (t : Transport) (cfgMax : Nat) : Nat :=
  if legacy then (match t with
    | .udp => cfgMax
    | _ => maxMsgSize)
  else t.cap cfgMax

@[simp] theorem Transport.capG_false (t : Transport) (cfgMax : Nat) :
    t.capG false cfgMax = t.cap cfgMax := rfl

/-- One EDNS option: code and payload length. -/
structure EOpt where
  code : Nat
  len : Nat
  deriving DecidableEq, Repr

def codeNSID : Nat := 3
def codeEXPIRE : Nat := 9
def codeKeepAlive : Nat := 11
def codePadding : Nat := 12

/-- An OPT record: the class field (UDP size), the three parts of the TTL field and options. -/
structure Opt where
  udpSize : Nat
  extRcode : Nat
  version : Nat
  dobit : Bool
  z : Nat
  opts : List EOpt
  deriving DecidableEq, Repr

def sum : List Nat → Nat
  | [] => 0
  | x :: xs => x + sum xs

def optsLen : List EOpt → Nat
  | [] => 0
  | e :: es => 4 + e.len + optsLen es

/-- Wire length of an OPT record: root name, fixed header, options. -/
def optLen (o : Opt) : Nat := 11 + optsLen o.opts

def optLen? : Option Opt → Nat
  | none => 0
  | some o => optLen o

/-- A handler response, as lengths. -/
structure Resp where
  tc : Bool
  q : Nat
  unc : Nat
  ans : List Nat
  ns : List Nat
  extra : List Nat
  ns2 : List Nat
  extra2 : List Nat
  opt : Option Opt
  /-- `Msg.Rcode >> 4`: `Msg.Pack` writes it into the extended-rcode byte of the OPT record -/
  rcodeHi : Nat := 0
  /-- the last additional record of the handler's response is a TSIG record (it is counted in
  `extra` like any other record) -/
  tsig : Bool := false
  deriving Repr

/-- `maxDNSSize`. -/
def maxDNSSize (isUdp : Bool) (ednsUDPSize cap : Nat) : Nat :=
  if !isUdp then maxMsgSize else max (min ednsUDPSize cap) minMsgSize

/-- `truncateLoop`, with `l` and `size` both shifted by the reserved OPT length (the Go code
subtracts it from `size`, which may go negative; adding it to `l` keeps everything in `Nat`).
Returns the new `l` and the number of records kept. -/
def truncLoop (size : Nat) : Nat → List Nat → Nat × Nat
  | l, [] => (l, 0)
  | l, r :: rs =>
    if l + r > size then (size, 0)
    else if l + r = size then (size, 1)
    else ((truncLoop size (l + r) rs).1, (truncLoop size (l + r) rs).2 + 1)

/-- What `Msg.Truncate` followed by AdGuard's `truncate` leave behind. -/
structure Cut where
  ka : Nat
  kn : Nat
  ke : Nat
  tc : Bool
  deriving DecidableEq, Repr

/-- The truncating branch of `Msg.Truncate`: the three section loops. -/
def cutOver (size ol : Nat) (r : Resp) : Cut :=
  let l0 := r.q + ol
  let a := if l0 < size then truncLoop size l0 r.ans else (l0, 0)
  let n := if a.1 < size then truncLoop size a.1 r.ns else (a.1, 0)
  let e := if n.1 < size then truncLoop size n.1 r.extra else (n.1, 0)
  { ka := a.2, kn := n.2, ke := e.2,
    tc := r.tc || decide (a.2 < r.ans.length) || decide (n.2 < r.ns.length)
            || decide (e.2 < r.extra.length) }

/-- `dns.Msg.Truncate(size)` on a response whose OPT record (if any) is `opt`.  `exempt` is
`Msg.IsTsig() != nil`: the library does not touch a message whose last record is a TSIG. -/
def msgTruncate (exempt : Bool) (size0 : Nat) (r : Resp) (opt : Option Opt) : Cut :=
  if exempt || decide (r.unc + optLen? opt ≤ max size0 minMsgSize) then
    { ka := r.ans.length, kn := r.ns.length, ke := r.extra.length, tc := r.tc }
  else cutOver (max size0 minMsgSize) (optLen? opt) r

/-- AdGuard's `truncate`: a truncated message loses its answer section. -/
def truncate (exempt : Bool) (size : Nat) (r : Resp) (opt : Option Opt) : Cut :=
  let c := msgTruncate exempt size r opt
  if c.tc then { c with ka := 0 } else c

def hasCode (c : Nat) (os : List EOpt) : Bool := os.any (·.code == c)

/-- `filterUnsupportedOptions`. -/
def filterSupported (os : List EOpt) : List EOpt :=
  os.filter (fun e => e.code == codeNSID || e.code == codeEXPIRE)

/-- The OPT record `normalize` tacks onto a response that has none.  `legacy = true` is the
record the pinned tree built (class field left 0); `false` is the repaired code. -/
def synthOpt (legacy : Bool) (ro : Opt) : Opt :=
  { udpSize := if legacy then 0 else ro.udpSize, extRcode := 0, version := 0, dobit := false,
    z := 0, opts := filterSupported ro.opts }

/-- The rewrite of a response's own OPT record: class := client's size, version := 0,
`Ttl &= 0xff00` (keeps DO and Z bits 8..14), DO copied from the request. -/
def rewriteOpt (ro o : Opt) : Opt :=
  { o with udpSize := ro.udpSize, extRcode := 0, version := 0, z := o.z / 256 * 256,
           dobit := o.dobit || ro.dobit }

/-- Set the payload length of the first option with `code`, or append one. -/
def setOpt (code len : Nat) : List EOpt → List EOpt
  | [] => [{ code := code, len := len }]
  | e :: es => if e.code == code then { e with len := len } :: es else e :: setOpt code len es

/-- `rand.Intn(responsePaddingMaxSize-1) + 1` for an arbitrary draw. -/
def padLenOf (draw : Nat) : Nat := draw % 31 + 1

/-- `padAnswer`. -/
def padAnswer (ro o : Opt) (draw : Nat) : Opt :=
  if hasCode codePadding ro.opts then { o with opts := setOpt codePadding (padLenOf draw) o.opts } else o

/-- Payload of the keep-alive option: `uint16(idle ms / 100)`, packed as 2 bytes unless zero. -/
def keepAliveLen (idleMs : Nat) : Nat := if idleMs / 100 % 65536 > 0 then 2 else 0

/-- `tcpResponseWriter.addTCPKeepAlive`. -/
def addKeepAlive (req : Option Opt) (o : Option Opt) (idleMs : Nat) : Option Opt :=
  match req, o with
  | some ro, some o =>
    if hasCode codeKeepAlive ro.opts then
      some { o with opts := setOpt codeKeepAlive (keepAliveLen idleMs) o.opts }
    else some o
  | _, o => o

/-- Result of `normalize`: what was kept, TC, and the final OPT record. -/
structure Norm where
  cut : Cut
  opt : Option Opt
  deriving DecidableEq, Repr

/-- The OPT record of the response when `Truncate` runs: untouched without a request OPT,
otherwise the rewritten own record or the synthesised one. -/
def baseOpt (legacy : Bool) (req : Option Opt) (r : Resp) : Option Opt :=
  match req with
  | none => r.opt
  | some ro =>
    match r.opt with
    | some o => some (rewriteOpt ro o)
    | none => some (synthOpt legacy ro)

/-- The client's advertised size (`0` is what `normalize` passes without a request OPT). -/
def advertised : Option Opt → Nat
  | none => 0
  | some ro => ro.udpSize

/-- Padding step of `normalize`. -/
def padStep (t : Transport) (req o : Option Opt) (draw : Nat) : Option Opt :=
  match req, o with
  | some ro, some o => some (if t.hasPadding then padAnswer ro o draw else o)
  | _, o => o

/-- `Msg.IsTsig() != nil` at the moment `Truncate` runs: the handler's response ends in a TSIG
record and `normalize` has not appended a synthesised OPT record after it. -/
def tsigAtTruncate (req : Option Opt) (r : Resp) : Bool :=
  r.tsig && !(req.isSome && r.opt.isNone)

/-- `Len()` of the message left by `cut` with OPT record `opt`. -/
def finalLen (r : Resp) (c : Cut) (opt : Option Opt) : Nat :=
  if c.tc then r.q + sum (r.ns2.take c.kn) + sum (r.extra2.take c.ke) + optLen? opt
  else r.q + sum (r.ans.take c.ka) + sum (r.ns.take c.kn) + sum (r.extra.take c.ke) + optLen? opt

/-- The end of the repaired `truncate`: when nothing but the OPT record is left
(`len(Answer)+len(Ns)+len(Extra) == 1`), the record has options and `resp.Len()` still exceeds
`size`, the options are removed (`opt.Option = nil`). -/
def dropOpts (size : Nat) (r : Resp) (c : Cut) : Option Opt → Option Opt
  | none => none
  | some o =>
    if !o.opts.isEmpty && c.ka == 0 && c.kn == 0 && c.ke == 0
        && decide (finalLen r c (some o) > size) then
      some { o with opts := [] }
    else some o

/-- The `truncate(resp, maxDNSSize(...))` call of `normalize`: what is kept. -/
def truncCut (legacy : Bool) (t : Transport) (cfgMax : Nat) (req : Option Opt) (r : Resp) : Cut :=
  truncate (tsigAtTruncate req r) (maxDNSSize t.isUdp (advertised req) (t.capG legacy cfgMax)) r
    (baseOpt legacy req r)

/-- The OPT record after that call.  The pinned tree (`legacy`) has no option removal. -/
def truncOpt (legacy : Bool) (t : Transport) (cfgMax : Nat) (req : Option Opt) (r : Resp) :
    Option Opt :=
  if legacy then baseOpt legacy req r
  else dropOpts (maxDNSSize t.isUdp (advertised req) (t.capG legacy cfgMax)) r (truncCut legacy t cfgMax req r)
    (baseOpt legacy req r)

/-- `normalize(network, proto, req, resp, maxMsgSize)`. -/
def normalizeG (legacy : Bool) (t : Transport) (cfgMax : Nat) (req : Option Opt) (r : Resp)
    (draw : Nat) : Norm :=
  { cut := truncCut legacy t cfgMax req r,
    opt := padStep t req (truncOpt legacy t cfgMax req r) draw }

/-- The code as repaired by the `fix:` commits. -/
def normalize := normalizeG false

/-- What leaves the server. -/
structure Out where
  cut : Cut
  opt : Option Opt
  /-- `Len()` of the final message (compression on). -/
  len : Nat
  /-- bytes of the packed message: `len` minus what `Pack` saved over `Len()` -/
  wire : Nat
  /-- `false` when `packWithPrefix` refused the message (nothing is sent) -/
  emitted : Bool
  deriving DecidableEq, Repr

/-- `Msg.Pack` overwrites the extended-rcode byte of the OPT record with `Msg.Rcode >> 4`. -/
def packOpt (hi : Nat) : Option Opt → Option Opt
  | none => none
  | some o => some { o with extRcode := hi }

/-- A whole write path: `normalize`, keep-alive on TCP/DoT, pack, length guard. -/
def serveG (legacy : Bool) (t : Transport) (cfgMax idleMs : Nat) (req : Option Opt) (r : Resp)
    (draw slack : Nat) : Out :=
  let n := normalizeG legacy t cfgMax req r draw
  let opt := packOpt r.rcodeHi (if t.hasKeepAlive then addKeepAlive req n.opt idleMs else n.opt)
  let len := finalLen r n.cut opt
  let wire := len - slack
  { cut := n.cut, opt := opt, len := len, wire := wire,
    emitted := !(t.guarded && decide (wire > maxMsgSize)) }

def serve := serveG false

/-! ## The server around the write path: which message is handed to the writer at all -/

/-- The header facts of the incoming message `ServerBase.acceptMsg` looks at. -/
structure QHdr where
  response : Bool
  opcode : Nat
  nq : Nat
  nans : Nat
  nns : Nat
  deriving DecidableEq, Repr

inductive Accept | accept | reject | notImp | ignore
  deriving DecidableEq, Repr

/-- `ServerBase.acceptMsg`. -/
def acceptMsg (h : QHdr) : Accept :=
  if h.response then .ignore
  else if h.opcode != 0 && h.opcode != 4 then .notImp
  else if h.nq != 1 then .reject
  else if h.nans > 1 then .reject
  else if h.nns > 1 then .reject
  else .accept

/-- What the handler did with an accepted query. -/
inductive Handler
  /-- called `WriteMsg` once with this response and returned the writer's error -/
  | wrote (r : Resp)
  /-- returned `nil` without writing (e.g. a rate-limited query) -/
  | silent
  /-- returned an error without writing; `timeout` = `isNonCriticalNetError` -/
  | failed (timeout : Bool)
  deriving Repr

/-- `genErrorResponse`: header + first question (`qe` bytes), nothing else. -/
def errResp (qe : Nat) (opt : Option Opt) : Resp :=
  { tc := false, q := qe, unc := qe, ans := [], ns := [], extra := [], ns2 := [], extra2 := [],
    opt := opt }

def codeEDE : Nat := 15

/-- `addEDE(req, resp, NetworkError, "")`: `SetEdns0(client's size, client's DO)` and one
extended-error option with an empty text (2 bytes), only for a query that carries OPT. -/
def edeOpt : Option Opt → Option Opt
  | none => none
  | some ro => some { udpSize := ro.udpSize, extRcode := 0, version := 0, dobit := ro.dobit, z := 0,
                      opts := [{ code := codeEDE, len := 2 }] }

/-- `serveDNSMsgInternal`: the response handed to the transport's writer, if any. -/
def serverResp (hdr : QHdr) (qe : Nat) (req : Option Opt) (h : Handler) : Option Resp :=
  match acceptMsg hdr with
  | .ignore => none
  | .reject | .notImp => some (errResp qe none)
  | .accept =>
    match h with
    | .wrote r => some r
    | .silent => none
    | .failed timeout => some (errResp qe (if timeout then edeOpt req else none))

/-- The response came from the handler's own `WriteMsg` call, so a writer error travels back
through the handler to `serveDNSMsgInternal`, which then writes a SERVFAIL. -/
def handlerWrote (hdr : QHdr) (h : Handler) : Bool :=
  match acceptMsg hdr, h with
  | .accept, .wrote _ => true
  | _, _ => false

def emittedOnly (o : Out) : Option Out := if o.emitted then some o else none

/-- The SERVFAIL the DNSCrypt handler of the pinned tree sent for a silent handler: not
normalised at all. -/
def rawServfail (qe : Nat) : Out :=
  { cut := { ka := 0, kn := 0, ke := 0, tc := false }, opt := none, len := qe, wire := qe,
    emitted := true }

/-- `validQUICMsg`: a DoQ query that carries the edns-tcp-keepalive option is a protocol error
(RFC 9250, 5.5.2).  `serveQUICStream` then closes the connection with DOQ_PROTOCOL_ERROR before
the handler is called: nothing is written. -/
def validQUICMsg : Option Opt → Bool
  | none => true
  | some ro => !hasCode codeKeepAlive ro.opts

/-- The DNS message (if any) one query causes on the wire.  `draw`/`slack` belong to the first
write, `draw2` to the SERVFAIL that TCP/DoT send when `packWithPrefix` refused the first one.
Nothing written: plain UDP sends nothing, TCP/DoT close the connection, DoH answers HTTP 500;
DoQ and DNSCrypt send a SERVFAIL (`legacy`: DNSCrypt skipped `normalize` for it). -/
def respondG (legacy : Bool) (t : Transport) (cfgMax idleMs : Nat) (hdr : QHdr) (qe : Nat)
    (req : Option Opt) (h : Handler) (draw slack draw2 : Nat) : Option Out :=
  if t = .doq ∧ validQUICMsg req = false then none else
  match serverResp hdr qe req h with
  | some r =>
    let o := serveG legacy t cfgMax idleMs req r draw slack
    if o.emitted then some o
    else if t.hasKeepAlive && handlerWrote hdr h then
      emittedOnly (serveG legacy t cfgMax idleMs req (errResp qe none) draw2 0)
    else none
  | none =>
    match t with
    | .doq => emittedOnly (serveG legacy .doq cfgMax idleMs req (errResp qe none) draw 0)
    | .dcUdp | .dcTcp =>
      if legacy then some (rawServfail qe)
      else some (serveG legacy t cfgMax idleMs req (errResp qe none) draw 0)
    | _ => none

def respond := respondG false

/-! ## The DNSCrypt envelope (`ameshkov/dnscrypt` v2.3.0) around `dnsCryptHandler`

What the library does with the message `dnsCryptHandler.ServeDNS` hands to `rw.WriteMsg`: a
second truncation (`normalize` of the library), ISO 7816-4 padding, encryption, and on TCP a
2-byte length prefix. -/

/-- `Server.serveDNS`: the queries that reach the handler at all (anything else gets no answer). -/
def dcAccepts (h : QHdr) : Bool := h.nq == 1 && !h.response

/-- The size the library truncates to: `dnsSize(proto, req) - 64`. -/
def dcSize (isUdp : Bool) (adv : Nat) : Nat :=
  (if isUdp then max adv minMsgSize else maxMsgSize) - 64

/-- `pad`: the next multiple of 64 above `len + 1`, at least `minUDPQuestionSize` = 256. -/
def dcPadded (len : Nat) : Nat := max 256 (len + 1 + (64 - (len + 1) % 64))

/-- Encrypted response: resolver magic (8) + nonce (24) + Poly1305 tag (16) + padded message. -/
def dcEncLen (len : Nat) : Nat := 48 + dcPadded len

/-- The length prefix `writePrefixed` computes on TCP: `uint16(len(b))`. -/
def dcPrefix (len : Nat) : Nat := dcEncLen len % 65536

/-- The TCP frame is well-formed: the prefix equals the number of bytes that follow. -/
def dcFrameOk (len : Nat) : Bool := decide (dcEncLen len < 65536)

/-- The library's second truncation of a message described by `r1` (the message `normalize` of
AdGuard DNS left, as lengths).  UDP: `Truncate`, then answers removed when TC is set — the same
function as AdGuard's `truncate`.  TCP: `Truncate` only, answers stay. -/
def dcTruncate (isUdp : Bool) (exempt : Bool) (adv : Nat) (r1 : Resp) (opt : Option Opt) : Cut :=
  if isUdp then truncate exempt (dcSize true adv) r1 opt
  else msgTruncate exempt (dcSize false adv) r1 opt

/-- The advertised size the library reads from the request when it truncates: the client's own
(`legacy`: before the round-5 `fix:` commit), or — since `dnsCryptHandler.ServeDNS` lowers the
request's UDP size after `normalize` — the smaller of that and the configured maximum.  Without a
request OPT the library takes 512 whatever the configuration says (`advertised none = 0`). -/
def dcAdvSeen (legacy : Bool) (adv cfgMax : Nat) : Nat :=
  if legacy then adv else min adv cfgMax

/-- The length of the message the DNSCrypt client decrypts.  `Msg.Truncate` of the library first
looks at the *uncompressed* length: a message that fits `size` that way is left alone **with
compression switched off** and is packed at its uncompressed length `r1.unc` (+ OPT); otherwise it is
cut and packed compressed. -/
def dcVisible (isUdp exempt : Bool) (advSeen : Nat) (r1 : Resp) (opt : Option Opt) : Nat :=
  if !exempt && decide (r1.unc + optLen? opt ≤ max (dcSize isUdp advSeen) minMsgSize) then
    r1.unc + optLen? opt
  else finalLen r1 (dcTruncate isUdp exempt advSeen r1 opt) opt

/-! ### Shared record objects (round 6)

A handler may answer with the OPT record *object* of the request (`resp.Extra = req.Extra`).  The
values are those of any own OPT record, but whatever the write path later writes into the request's
record then shows in the response.  The one such write is DNSCrypt/UDP's lowering of the size the
library reads.  A three-cell store of UDP-size fields is enough to say it. -/

/-- Identity of an OPT record object: the request's, one only the response holds, the copy
`replaceOPT` allocates. -/
inductive OptCell where
  | reqRec | ownRec | copyRec
deriving DecidableEq, Repr

/-- The UDP-size (class) field of each record object. -/
structure OptStore where
  reqRec : Nat
  ownRec : Nat
  copyRec : Nat
deriving DecidableEq, Repr

def OptStore.get (s : OptStore) : OptCell → Nat
  | .reqRec => s.reqRec
  | .ownRec => s.ownRec
  | .copyRec => s.copyRec

def OptStore.set (s : OptStore) (c : OptCell) (v : Nat) : OptStore :=
  match c with
  | .reqRec => { s with reqRec := v }
  | .ownRec => { s with ownRec := v }
  | .copyRec => { s with copyRec := v }

/-- `dnsCryptHandler.ServeDNS` on UDP for a query with an OPT record, as writes to size fields in
source order.  `respCell` is the object the response's OPT record is.  `normalize` reads the
client's size from the request's record and writes it into the response's
(`respOpt.SetUDPSize(ednsUDPSize)`); then the size the library will read is lowered to
`min(size, configured)` — `inPlace = true`: in the request's record itself (the round-5 code),
otherwise in the copy `replaceOPT` puts in the request's place.  Result: (the size the library reads
from the request, the size in the response's OPT record when it is packed). -/
def dcLowerRun (inPlace : Bool) (respCell : OptCell) (adv ownSize cfgMax : Nat) : Nat × Nat :=
  let s0 : OptStore := { reqRec := adv, ownRec := ownSize, copyRec := 0 }
  let s1 := s0.set respCell (s0.get .reqRec)
  let reqCell : OptCell := if inPlace then .reqRec else .copyRec
  let s2 := if inPlace then s1 else s1.set .copyRec (s1.get .reqRec)
  let s3 := s2.set reqCell (min (s1.get .reqRec) cfgMax)
  (s3.get reqCell, s3.get respCell)

/-- The DNSCrypt bootstrap answer the library itself gives to a plain (unencrypted) TXT query for
the provider name (`Server.handleHandshake`): `SetReply` + one TXT record owned by the query name,
packed without compression and without an OPT record — 12 + (n+4) + (n+10) + 1 + 124 bytes for a
provider name of `n` wire bytes and the 124-byte certificate. -/
def dcCertRespLen (nameLen : Nat) : Nat := 12 + (nameLen + 4) + (nameLen + 10) + 1 + 124

end Agd.Normalize
