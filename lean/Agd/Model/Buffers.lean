/-!
# Model of the pooled receive buffers (C06)

Every receive path of the server takes a buffer from a `sync.Pool`, reads the next
message into a prefix of it and hands a *slice* of the buffer to `dns.Msg.Unpack`.
The buffer keeps whatever earlier messages left in it (the residue).  The model is
the function from (buffer contents, bytes on the wire) to the slice handed to
`Unpack` (or the reason the message was rejected before `Unpack`) plus the buffer
contents afterwards; a server is a free list of buffers per path, and a history is
a fold of `step`.

`dns.Msg.Unpack` itself is a parameter (trusted base): it is an arbitrary function
of the slice it is given.  Core Lean only.
-/
namespace Agd.Buffers

abbrev Bytes := List UInt8

/-- A fresh buffer as made by `syncutil.NewSlicePool[byte](n)`. -/
def zeros (n : Nat) : Bytes := List.replicate n 0

/-- `Read`/`copy` of `data` into `buf`: a prefix is overwritten, the length of the buffer
never changes, bytes that do not fit are dropped (datagram truncation). -/
def overwrite (buf data : Bytes) : Bytes := data.take buf.length ++ buf.drop data.length

/-- `binary.BigEndian.Uint16(b[:2])` (missing bytes read as 0; callers guard the length). -/
def be16 : Bytes → Nat
  | a :: b :: _ => a.toNat * 256 + b.toNat
  | [a] => a.toNat * 256
  | [] => 0

/-- `DNSHeaderSize`. -/
def dnsHeaderSize : Nat := 12
/-- `forward.minDNSMessageSize = 12 + 5`. -/
def minUpstreamSize : Nat := 17

/-- Why a message is dropped before `Unpack` is called. -/
inductive Why
  | short      -- fewer bytes than the minimum size
  | badsize    -- DoQ: length prefix does not match the number of bytes read
  | readerr    -- the 2-byte length prefix could not be read
  | readfull   -- the stream ended before the announced length
  | oversize   -- announced length exceeds the buffer (Go would panic; unreachable with 65535-byte buffers)
deriving DecidableEq, Repr

/-- What a receive path does with a message: drop it, or call `Unpack` on `bs`. -/
inductive Outcome
  | reject (why : Why)
  | view (bs : Bytes)
deriving DecidableEq, Repr

/-! ## Server side -/

/-- Plain DNS over UDP: `readUDPMsg` + `acceptUDPMsg` pass `(*bufPtr)[:n]` to `serveDNS`. -/
def recvUDP (buf wire : Bytes) : Outcome × Bytes :=
  let b := overwrite buf wire
  let n := min wire.length buf.length
  if n < dnsHeaderSize then (.reject .short, b) else (.view (b.take n), b)

/-- `getTCPBuffer`: the pooled buffer is grown (zero-filled) to the announced length. -/
def growTo (buf : Bytes) (len : Nat) : Bytes := buf ++ zeros (len - buf.length)

/-- Plain DNS over TCP / DoT: `readTCPMsg` reads the 2-byte length, re-slices the pooled buffer
to exactly that length and `io.ReadFull`s it.  `stream` is what the connection delivers before
EOF.  Third component: number of stream bytes consumed. -/
def recvTCP (buf stream : Bytes) : Outcome × Bytes × Nat :=
  if stream.length < 2 then (.reject .readerr, buf, stream.length)
  else
    let len := be16 stream
    let body := stream.drop 2
    let g := growTo buf len
    if body.length < len then (.reject .readfull, overwrite g body, stream.length)
    else (.view ((overwrite g (body.take len)).take len), overwrite g (body.take len), 2 + len)

/-- DoQ: `readQUICMsg` reads the stream until FIN (or until the buffer is full), compares the
2-byte prefix with the number of bytes read and unpacks `buf[2:n]`. -/
def recvDoQ (buf stream : Bytes) : Outcome × Bytes :=
  let b := overwrite buf stream
  let n := min stream.length buf.length
  if n < dnsHeaderSize then (.reject .short, b)
  else if be16 b = (n - 2) % 65536 then (.view ((b.take n).drop 2), b)
  else (.reject .badsize, b)

/-- The code before the fix: `m.Unpack(buf[2:])` — the whole pooled buffer. -/
def recvDoQOld (buf stream : Bytes) : Outcome × Bytes :=
  let b := overwrite buf stream
  let n := min stream.length buf.length
  if n < dnsHeaderSize then (.reject .short, b)
  else if be16 b = (n - 2) % 65536 then (.view (b.drop 2), b)
  else (.reject .badsize, b)

/-- DoH POST body / GET parameter: a freshly allocated slice, no pool (as a `Path` it has a
pool of size 0 that is never touched, so that histories may contain DoH requests). -/
def recvDoH (body : Bytes) : Outcome := .view body

/-! ## Upstream side (`forward.UpstreamPlain`) -/

/-- UDP reply: `conn.Read(buf)`, `n < minDNSMessageSize` guard, `Unpack(buf[:n])`.
`buf` already holds the packed request (see `recvOn`). -/
def recvUpsUDP (buf reply : Bytes) : Outcome × Bytes :=
  let b := overwrite buf reply
  let n := min reply.length buf.length
  if n < minUpstreamSize then (.reject .short, b) else (.view (b.take n), b)

/-- The code before the fix: `ret.Unpack(buf)`. -/
def recvUpsUDPOld (buf reply : Bytes) : Outcome × Bytes :=
  let b := overwrite buf reply
  let n := min reply.length buf.length
  if n < minUpstreamSize then (.reject .short, b) else (.view b, b)

/-- TCP reply: 2-byte length, `io.ReadFull(conn, buf[:length])`, guard, `Unpack(buf[:n])`. -/
def recvUpsTCP (buf stream : Bytes) : Outcome × Bytes :=
  if stream.length < 2 then (.reject .readerr, buf)
  else
    let len := be16 stream
    let body := stream.drop 2
    if buf.length < len then (.reject .oversize, buf)
    else if body.length < len then (.reject .readfull, overwrite buf body)
    else
      let b := overwrite buf (body.take len)
      if len < minUpstreamSize then (.reject .short, b) else (.view (b.take len), b)

/-- The code before the fix: `ret.Unpack(buf)`. -/
def recvUpsTCPOld (buf stream : Bytes) : Outcome × Bytes :=
  if stream.length < 2 then (.reject .readerr, buf)
  else
    let len := be16 stream
    let body := stream.drop 2
    if buf.length < len then (.reject .oversize, buf)
    else if body.length < len then (.reject .readfull, overwrite buf body)
    else
      let b := overwrite buf (body.take len)
      if len < minUpstreamSize then (.reject .short, b) else (.view b, b)

/-! ## Pools and histories -/

inductive Path
  | udp | tcp | doq | upsUdp | upsTcp | doh
deriving DecidableEq, Repr

/-- Buffer sizes of the five pools (`UDPSize`, `TCPSize`, `quicBytePoolSize`, `udpBufSize`,
`tcpBufSize`). -/
structure Cfg where
  udp : Nat
  tcp : Nat
  doq : Nat
  upsUdp : Nat
  upsTcp : Nat
deriving Repr

def Cfg.size (c : Cfg) : Path → Nat
  | .udp => c.udp | .tcp => c.tcp | .doq => c.doq | .upsUdp => c.upsUdp | .upsTcp => c.upsTcp
  | .doh => 0

/-- The production sizes (defaults for the plain-DNS server). -/
def Cfg.prod : Cfg := { udp := 512, tcp := 512, doq := 65537, upsUdp := 4096, upsTcp := 65535 }

/-- One receive on `path` with buffer `buf`.  On the upstream paths the request `pre` has been
packed into the same buffer before the reply is read. -/
def recvOn (p : Path) (buf pre wire : Bytes) : Outcome × Bytes :=
  match p with
  | .udp => recvUDP buf wire
  | .tcp => ((recvTCP buf wire).1, (recvTCP buf wire).2.1)
  | .doq => recvDoQ buf wire
  | .upsUdp => recvUpsUDP (overwrite buf pre) wire
  | .upsTcp => recvUpsTCP (overwrite buf pre) wire
  | .doh => (recvDoH wire, buf)

/-- The same with the pre-fix DoQ and upstream code (used only for the counter-examples). -/
def recvOnOld (p : Path) (buf pre wire : Bytes) : Outcome × Bytes :=
  match p with
  | .udp => recvUDP buf wire
  | .tcp => ((recvTCP buf wire).1, (recvTCP buf wire).2.1)
  | .doq => recvDoQOld buf wire
  | .upsUdp => recvUpsUDPOld (overwrite buf pre) wire
  | .upsTcp => recvUpsTCPOld (overwrite buf pre) wire
  | .doh => (recvDoH wire, buf)

/-- Free lists of the five pools. -/
structure Server where
  cfg : Cfg
  free : Path → List Bytes

def Server.init (c : Cfg) : Server := { cfg := c, free := fun _ => [] }

/-- One received message: which pooled buffer `sync.Pool.Get` hands out (`none`, or an index
past the free list: a new one), the request packed first (upstream only), the wire bytes. -/
structure Op where
  path : Path
  pick : Option Nat
  pre : Bytes
  wire : Bytes

/-- `Pool.Get`: an arbitrary pooled buffer or a new zeroed one. -/
def takeBuf (size : Nat) (fl : List Bytes) (pick : Option Nat) : Bytes × List Bytes :=
  match pick with
  | none => (zeros size, fl)
  | some i =>
    match fl[i]? with
    | some b => (b, fl.eraseIdx i)
    | none => (zeros size, fl)

/-- Get, receive, Put. -/
def stepWith (recv : Path → Bytes → Bytes → Bytes → Outcome × Bytes) (s : Server) (op : Op) :
    Server × Outcome :=
  let tb := takeBuf (s.cfg.size op.path) (s.free op.path) op.pick
  let r := recv op.path tb.1 op.pre op.wire
  ({ s with free := fun q => if q = op.path then tb.2 ++ [r.2] else s.free q }, r.1)

def step : Server → Op → Server × Outcome := stepWith recvOn
def stepOld : Server → Op → Server × Outcome := stepWith recvOnOld

def run (s : Server) : List Op → Server
  | [] => s
  | op :: rest => run (step s op).1 rest

def runOld (s : Server) : List Op → Server
  | [] => s
  | op :: rest => runOld (stepOld s op).1 rest

/-! ## What a message means by its own bytes alone (the specification) -/

/-- The outcome as a function of the wire bytes and the configured buffer size only. -/
def spec (p : Path) (size : Nat) (wire : Bytes) : Outcome :=
  match p with
  | .udp =>
    if min wire.length size < dnsHeaderSize then .reject .short else .view (wire.take size)
  | .tcp =>
    if wire.length < 2 then .reject .readerr
    else if (wire.drop 2).length < be16 wire then .reject .readfull
    else .view ((wire.drop 2).take (be16 wire))
  | .doq =>
    if min wire.length size < dnsHeaderSize then .reject .short
    else if be16 wire = (min wire.length size - 2) % 65536 then .view ((wire.take size).drop 2)
    else .reject .badsize
  | .upsUdp =>
    if min wire.length size < minUpstreamSize then .reject .short else .view (wire.take size)
  | .upsTcp =>
    if wire.length < 2 then .reject .readerr
    else if size < be16 wire then .reject .oversize
    else if (wire.drop 2).length < be16 wire then .reject .readfull
    else if be16 wire < minUpstreamSize then .reject .short
    else .view ((wire.drop 2).take (be16 wire))
  | .doh => .view wire

/-! ## Buffers in flight: reading and decoding are separate events

On every pooled path the buffer stays out of the pool from `Get` until the message has been
decoded: `acceptUDPMsg`/`acceptTCPMsg` read the message and hand `(*bufPtr)[:n]` to a worker
goroutine that decodes it *later* and only then calls `Put`; `readQUICMsg` and `exchangeNet` hold
the buffer (`defer Put`) while other goroutines receive their own messages.  The model below has a
heap of buffers addressed by identity, a pool (`own … = none`: available) and the set of
requests whose buffer is in flight.  `accept` is `Get` + read + the pre-`Unpack` guards and records
only the *slice bounds*; `serve` computes the slice from whatever the heap holds at that moment,
calls `Unpack` on it and `Put`s the buffer back.  Any number of other `accept`/`serve` events may
happen in between. -/

/-- `lo`, `hi` of the slice expression handed to `Unpack` (`buf[:n]`, `*bufPtr` re-sliced to
`length`, `buf[2:n]`), as a function of what was read. -/
def bounds (p : Path) (size : Nat) (wire : Bytes) : Nat × Nat :=
  match p with
  | .udp => (0, min wire.length size)
  | .tcp => (0, be16 wire)
  | .doq => (2, min wire.length size)
  | .upsUdp => (0, min wire.length size)
  | .upsTcp => (0, be16 wire)
  | .doh => (0, wire.length)

/-- A request whose message sits in pooled buffer `bid` of `path`, waiting to be decoded. -/
structure Pending where
  path : Path
  bid : Nat
  lo : Nat
  hi : Nat
deriving DecidableEq, Repr

/-- Two-level function table update. -/
def upd2 {α : Type} (f : Path → Nat → α) (p : Path) (i : Nat) (a : α) : Path → Nat → α :=
  fun q j => if q = p ∧ j = i then a else f q j

structure Sys where
  cfg : Cfg
  /-- contents of every buffer (never-used identities hold a new zeroed buffer) -/
  heap : Path → Nat → Bytes
  /-- `none`: in the pool (or not yet allocated); `some rid`: taken by request `rid` -/
  own : Path → Nat → Option Nat
  pend : Nat → Option Pending

def Sys.init (c : Cfg) : Sys :=
  { cfg := c, heap := fun p _ => zeros (c.size p), own := fun _ _ => none, pend := fun _ => none }

/-- DoH has no pooled buffer: the body is its own freshly allocated slice. -/
def landing (p : Path) (buf wire : Bytes) : Bytes :=
  match p with
  | .doh => wire
  | _ => buf

/-- `Get` of buffer `bid` (any buffer that is not held; `sync.Pool` may return any of them or a
new one), read, guards.  A rejected message releases the buffer at once and reports the reason;
otherwise the request becomes pending.  A `Get` of a held buffer cannot happen and is ignored, as
is the reuse of a live request identifier. -/
def Sys.accept (s : Sys) (rid : Nat) (p : Path) (bid : Nat) (pre wire : Bytes) : Sys × Option Outcome :=
  if (s.pend rid).isSome then (s, none)
  else if (s.own p bid).isSome then (s, none)
  else
    match (recvOn p (s.heap p bid) pre wire).1 with
    | .reject w =>
      ({ s with heap := upd2 s.heap p bid (landing p (recvOn p (s.heap p bid) pre wire).2 wire) },
       some (.reject w))
    | .view _ =>
      ({ s with heap := upd2 s.heap p bid (landing p (recvOn p (s.heap p bid) pre wire).2 wire),
                own := upd2 s.own p bid (some rid),
                pend := fun r' => if r' = rid then
                    some ⟨p, bid, (bounds p (s.heap p bid).length wire).1, (bounds p (s.heap p bid).length wire).2⟩
                  else s.pend r' }, none)

/-- The same with the pool discipline broken: the buffer goes back to the pool when `accept`
returns (e.g. `defer pool.Put(bufPtr)` in `acceptUDPMsg`), before the worker has decoded it.  Used
only for the counter-example. -/
def Sys.acceptEarlyPut (s : Sys) (rid : Nat) (p : Path) (bid : Nat) (pre wire : Bytes) : Sys × Option Outcome :=
  if (s.pend rid).isSome then (s, none)
  else if (s.own p bid).isSome then (s, none)
  else
    match (recvOn p (s.heap p bid) pre wire).1 with
    | .reject w =>
      ({ s with heap := upd2 s.heap p bid (landing p (recvOn p (s.heap p bid) pre wire).2 wire) },
       some (.reject w))
    | .view _ =>
      ({ s with heap := upd2 s.heap p bid (landing p (recvOn p (s.heap p bid) pre wire).2 wire),
                pend := fun r' => if r' = rid then
                    some ⟨p, bid, (bounds p (s.heap p bid).length wire).1, (bounds p (s.heap p bid).length wire).2⟩
                  else s.pend r' }, none)

/-- The worker: `Unpack` of the recorded slice of the buffer *as it is now*, then `Put`. -/
def Sys.serve (s : Sys) (rid : Nat) : Sys × Option Outcome :=
  match s.pend rid with
  | none => (s, none)
  | some pd =>
    ({ s with own := upd2 s.own pd.path pd.bid none,
              pend := fun r' => if r' = rid then none else s.pend r' },
     some (.view (((s.heap pd.path pd.bid).take pd.hi).drop pd.lo)))

inductive Ev
  | accept (rid : Nat) (p : Path) (bid : Nat) (pre wire : Bytes)
  | serve (rid : Nat)

def Ev.rid : Ev → Nat
  | .accept r _ _ _ _ => r
  | .serve r => r

def Sys.step (s : Sys) : Ev → Sys × Option Outcome
  | .accept rid p bid pre wire => s.accept rid p bid pre wire
  | .serve rid => s.serve rid

def Sys.run (s : Sys) : List Ev → Sys
  | [] => s
  | e :: rest => Sys.run (s.step e).1 rest

/-- Schedules of the variant with the broken pool discipline. -/
def Sys.stepEarly (s : Sys) : Ev → Sys × Option Outcome
  | .accept rid p bid pre wire => s.acceptEarlyPut rid p bid pre wire
  | .serve rid => s.serve rid

def Sys.runEarly (s : Sys) : List Ev → Sys
  | [] => s
  | e :: rest => Sys.runEarly (s.stepEarly e).1 rest

/-! ## Response side: `packWithPrefix` into a pooled buffer

`PackBuffer(buf)` writes the packed message `msg` into the array of the pooled buffer when it fits
(`len(buf) ≥ len(msg)`), otherwise into a new array; `packWithPrefix` then makes room for the
2-byte length (`slices.Grow(buf, 2)[:l+2]`, a new array when the capacity is exhausted), shifts the
message by two (`copy(packed[2:], buf)`, a `memmove`) and stores the length.  `arr` is the whole
capacity of the pooled array, `len` the length of the pooled slice. -/

/-- Write `data` into `arr` at offset `off` (bytes that do not fit are dropped). -/
def writeAt (arr : Bytes) (off : Nat) (data : Bytes) : Bytes :=
  arr.take off ++ overwrite (arr.drop off) data

/-- Big-endian 2-byte length. -/
def be16Bytes (n : Nat) : Bytes := [UInt8.ofNat (n / 256), UInt8.ofNat (n % 256)]

/-- `PackBuffer`: the array that now holds the message in its first `msg.length` bytes. -/
def packBuffer (arr : Bytes) (len : Nat) (msg : Bytes) : Bytes :=
  if msg.length ≤ min len arr.length then overwrite arr msg else msg

/-- `slices.Grow(b, 2)` for `b = arr[:l]`: same array if two more bytes fit, else a copy of the
whole capacity followed by zeroes. -/
def grow2 (arr : Bytes) (l : Nat) : Bytes :=
  if l + 2 ≤ arr.length then arr else arr ++ zeros (l + 2 - arr.length)

/-- The bytes `packWithPrefix` returns (and the transport writes), and the array afterwards. -/
def packWithPrefix (arr : Bytes) (len : Nat) (msg : Bytes) : Bytes × Bytes :=
  let a1 := packBuffer arr len msg
  let l := msg.length
  let a2 := grow2 a1 l
  let shifted := writeAt a2 2 (a1.take l)
  let a3 := overwrite shifted (be16Bytes l)
  (a3.take (l + 2), a3)

/-- UDP: `b := PackBuffer(*bufPtr)`, `WriteToSession(conn, b, …)`. -/
def packUDP (arr : Bytes) (len : Nat) (msg : Bytes) : Bytes × Bytes :=
  ((packBuffer arr len msg).take msg.length, packBuffer arr len msg)

/-! ## Request side of an upstream exchange: `packReq`, the write, and the retry

`exchangeNet` packs the request into the very buffer the reply is read into afterwards
(`packReq`), writes `buf[:bufReqLen]` to the connection and, when the attempt fails with a network
error, writes again on a new connection.  `dns.Msg.PackBuffer(b)` packs in place only when `b` has
`spare` bytes to spare (miekg: `len(b) ≥ Len()+1`, i.e. `spare = 1`); otherwise it returns a newly
allocated slice and leaves `b` untouched.  `spare` stays a parameter: the theorems hold for every
value.  `packed` is `req.Pack()` (trusted base: `Len()` is the packed length). -/

/-- The array `b` after `PackBuffer(b)`. -/
def packBufferInto (spare : Nat) (b packed : Bytes) : Bytes :=
  if packed.length + spare ≤ b.length then overwrite b packed else b

/-- What the upstream has to receive: the packed request, over TCP after its 2-byte length. -/
def frameReq (tcp : Bool) (packed : Bytes) : Bytes :=
  if tcp then be16Bytes packed.length ++ packed else packed

/-- `packReq` (after the fix): guard `reqLen > len(buf)[-2]`, `packed := PackBuffer(msgBuf)`,
`n = copy(msgBuf, packed)`, length prefix.  Result: `bufReqLen` and the buffer afterwards; `none`:
`dns.ErrBuf`. -/
def packReq (spare : Nat) (tcp : Bool) (buf packed : Bytes) : Option (Nat × Bytes) :=
  if buf.length < packed.length + (if tcp then 2 else 0) then none
  else
    some (packed.length + (if tcp then 2 else 0),
      (if tcp then be16Bytes packed.length else []) ++
        overwrite (packBufferInto spare (buf.drop (if tcp then 2 else 0)) packed) packed)

/-- `packReq` before the fix: the slice `PackBuffer` returns is dropped (`_, err = …`). -/
def packReqOld (spare : Nat) (tcp : Bool) (buf packed : Bytes) : Option (Nat × Bytes) :=
  if buf.length < packed.length + (if tcp then 2 else 0) then none
  else
    some (packed.length + (if tcp then 2 else 0),
      (if tcp then be16Bytes packed.length else []) ++
        packBufferInto spare (buf.drop (if tcp then 2 else 0)) packed)

/-- `conn.Write(buf[:bufReqLen])`. -/
def sentReq (r : Nat × Bytes) : Bytes := r.2.take r.1

/-- Both writes of an exchange whose first attempt broke after `part` bytes of a reply had been
read into the buffer (`conn.Read(buf)` / `io.ReadFull(conn, buf[:length])` write at offset 0):
after the fix the request is packed again before the second write. -/
def retryWrites (spare : Nat) (tcp : Bool) (buf packed part : Bytes) : Option (Bytes × Bytes) :=
  match packReq spare tcp buf packed with
  | none => none
  | some r =>
    match packReq spare tcp (overwrite r.2 part) packed with
    | none => none
    | some r2 => some (sentReq r, sentReq r2)

/-- Before the fix the second attempt wrote `buf[:bufReqLen]` as the failed read left it. -/
def retryWritesOld (spare : Nat) (tcp : Bool) (buf packed part : Bytes) : Option (Bytes × Bytes) :=
  match packReqOld spare tcp buf packed with
  | none => none
  | some r => some (sentReq r, (overwrite r.2 part).take r.1)

/-! ## The second receive buffer of the UDP path: control data (round 4)

`netext.sessionPacketConn.ReadFromSession` takes a pooled 40-byte buffer `oob`, lets
`ReadMsgUDP(b, oob)` write the control messages of the datagram into a prefix of it (`oobn` bytes)
and parses `oob[:oobn]` for the original destination address: the local address the response is
sent from and dedicated-address profiles are found by. -/

/-- The slice handed to `origLAddr`, and the pooled control buffer afterwards. -/
def recvOOB (oob ctrl : Bytes) : Bytes × Bytes :=
  ((overwrite oob ctrl).take (min ctrl.length oob.length), overwrite oob ctrl)

/-- A variant that parses the whole pooled buffer (used only for the counter-example). -/
def recvOOBWhole (oob ctrl : Bytes) : Bytes × Bytes :=
  (overwrite oob ctrl, overwrite oob ctrl)

/-- The pool of control buffers after a history of datagrams (`Get`, read, `Put`; with one buffer
in circulation this is the worst case for residue). -/
def runOOB (oob : Bytes) : List Bytes → Bytes
  | [] => oob
  | c :: rest => runOOB (recvOOB oob c).2 rest

/-! ## The whole forwarding chain for one client message (round 4)

A client message is received on path `p`, decoded, turned into an upstream request, packed into the
pooled upstream buffer (`packReq`), written, and the upstream's reply is read into that very buffer
and decoded.  `toReq` (decode the slice, repack the request; `none`: the slice does not decode) and
`ups` (the upstream: a function of the bytes it receives) are parameters. -/

inductive ChainResult
  | dropped (why : Why)          -- rejected before `Unpack`
  | undecodable                  -- `Unpack` of the slice failed
  | errbuf                       -- `packReq` refused the request
  | exchanged (sent : Bytes) (reply : Outcome)  -- bytes written to the upstream, decode of its reply
deriving DecidableEq, Repr

def upsPath (tcp : Bool) : Path := if tcp then .upsTcp else .upsUdp

def chain (toReq : Bytes → Option Bytes) (ups : Bytes → Bytes) (spare : Nat) (tcp : Bool)
    (s : Server) (p : Path) (pickC pickU : Option Nat) (wire : Bytes) : ChainResult :=
  match (step s ⟨p, pickC, [], wire⟩).2 with
  | .reject w => .dropped w
  | .view v =>
    match toReq v with
    | none => .undecodable
    | some packed =>
      let s1 := (step s ⟨p, pickC, [], wire⟩).1
      match packReq spare tcp (takeBuf (s1.cfg.size (upsPath tcp)) (s1.free (upsPath tcp)) pickU).1 packed with
      | none => .errbuf
      | some r => .exchanged (sentReq r) (recvOn (upsPath tcp) r.2 [] (ups (sentReq r))).1

/-- The chain as a function of the client's bytes and the configured sizes alone. -/
def chainSpec (toReq : Bytes → Option Bytes) (ups : Bytes → Bytes) (tcp : Bool)
    (c : Cfg) (p : Path) (wire : Bytes) : ChainResult :=
  match spec p (c.size p) wire with
  | .reject w => .dropped w
  | .view v =>
    match toReq v with
    | none => .undecodable
    | some packed =>
      if packed.length + (if tcp then 2 else 0) ≤ c.size (upsPath tcp)
      then .exchanged (frameReq tcp packed) (spec (upsPath tcp) (c.size (upsPath tcp)) (ups (frameReq tcp packed)))
      else .errbuf

/-! ## Response writers and their pools (round 5)

`udpResponseWriter.WriteMsg` and `tcpResponseWriter.WriteMsg` take a buffer from the pool the writer
was constructed with (`respPool: s.respPool`), pack the response into it, **re-slice the pooled
slice to the packed length** (`*bufPtr = b`), write `b`, and give the buffer back to that pool only
when the write failed (`defer func() { if err != nil { r.respPool.Put(bufPtr) } }()`);
`serveQUICStream` always gives it back (`defer s.respPool.Put(bufPtr)`).  So a pool that a writer
uses holds slices of arbitrary (short) lengths.  That is harmless for the writers (`PackBuffer` moves
to a new array when the slice is too short: `resp_udp_own_bytes` holds for every array and length)
and for the TCP receive pool (`getTCPBuffer` re-slices every buffer to the announced length), but a
fixed-size receive pool (UDP, DoQ, upstream) must never see such a slice: `readUDPMsg` reads into
`*bufPtr` as it comes out of the pool.  The model below has all pools of a server side by side and
the *wiring* (which pool a path's writer is constructed with) as a parameter; the production wiring
is `realWiring`.  A pooled buffer is the slice visible through `*bufPtr`.  A response that cannot
be packed (`PackBuffer` error: the buffer goes back as it was) is not modelled: `msg` is the packed
response.  In the code a write happens while the request's receive buffer is still held; here the
receive (`Get`, read, `Put`) and the write (`Get`, pack, write, `Put`) are consecutive events, which
is the same thing whenever writer and receive path use different pools. -/

inductive PoolId
  | recv (p : Path)   -- `udpPool`, `tcpPool`, `reqPool` (DoQ), the upstream buffer pools
  | respDNS           -- `ServerDNS.respPool`
  | respDoQ           -- `ServerQUIC.respPool`
deriving DecidableEq, Repr

/-- `dns.MinMsgSize`: the size of a new `ServerDNS.respPool` buffer. -/
def minMsgSize : Nat := 512

/-- Length of a buffer made by the pool's `New`. -/
def Cfg.poolSize (c : Cfg) : PoolId → Nat
  | .recv p => c.size p
  | .respDNS => minMsgSize
  | .respDoQ => c.doq

/-- All pools of a server: the receive pools of `Server` and the response pools. -/
structure ServerW where
  cfg : Cfg
  free : PoolId → List Bytes

def ServerW.init (c : Cfg) : ServerW := { cfg := c, free := fun _ => [] }

/-- The receive pools alone. -/
def ServerW.recvView (s : ServerW) : Server := { cfg := s.cfg, free := fun p => s.free (.recv p) }

/-- Replace the receive pools. -/
def ServerW.withRecv (s : ServerW) (r : Server) : ServerW :=
  { s with free := fun q => match q with
      | .recv p => r.free p
      | .respDNS => s.free .respDNS
      | .respDoQ => s.free .respDoQ }

/-- The pool a path's response writer is constructed with (`none`: no pooled writer — DoH packs
into a new slice, the upstream paths write requests, see `packReq`). -/
abbrev Wiring := Path → Option PoolId

/-- `serveUDPPacket`: `respPool: s.respPool`; `serveTCPMessage`: `respPool: s.respPool`;
`serveQUICStream`: `s.respPool.Get()`. -/
def realWiring : Wiring
  | .udp => some .respDNS
  | .tcp => some .respDNS
  | .doq => some .respDoQ
  | _ => none

/-- One response write: the transport, the buffer `sync.Pool.Get` hands out, the packed response
and whether the transport's write fails (EPERM, connection closed, deadline passed). -/
structure Write where
  path : Path
  pick : Option Nat
  msg : Bytes
  fail : Bool

/-- The slice `b` that is written and stored back into `*bufPtr`. -/
def writerSlice (p : Path) (buf msg : Bytes) : Bytes :=
  match p with
  | .udp => (packUDP buf buf.length msg).1
  | _ => (packWithPrefix buf buf.length msg).1

/-- UDP, TCP/DoT: `Put` only when the write failed; DoQ: always. -/
def writerPuts (p : Path) (fail : Bool) : Bool :=
  match p with
  | .doq => true
  | _ => fail

/-- `WriteMsg`: `Get`, pack, `*bufPtr = b`, write `b`, `Put` (on error).  Second component: the
bytes handed to the transport. -/
def writeW (w : Wiring) (s : ServerW) (x : Write) : ServerW × Bytes :=
  match w x.path with
  | none => (s, x.msg)
  | some pool =>
    let tb := takeBuf (s.cfg.poolSize pool) (s.free pool) x.pick
    let b := writerSlice x.path tb.1 x.msg
    ({ s with free := fun q =>
        if q = pool then (if writerPuts x.path x.fail then tb.2 ++ [b] else tb.2) else s.free q }, b)

/-- A message received by a server that also has writers: `step` on the receive pools. -/
def recvW (s : ServerW) (op : Op) : ServerW × Outcome :=
  (s.withRecv (step s.recvView op).1, (step s.recvView op).2)

inductive EvW
  | recv (op : Op)
  | write (x : Write)

def stepW (w : Wiring) (s : ServerW) : EvW → ServerW
  | .recv op => (recvW s op).1
  | .write x => (writeW w s x).1

def runW (w : Wiring) (s : ServerW) : List EvW → ServerW
  | [] => s
  | e :: rest => runW w (stepW w s e) rest

/-- A wiring under which no fixed-size receive pool is shared with a writer. -/
def SafeWiring (w : Wiring) : Prop := ∀ p q, w p = some (.recv q) → q = .tcp

/-- The seeded defect class: the UDP writer constructed with the UDP receive pool. -/
def udpWriterOnUdpPool : Wiring
  | .udp => some (.recv .udp)
  | p => realWiring p

/-- The TCP/DoT writer constructed with the UDP receive pool. -/
def tcpWriterOnUdpPool : Wiring
  | .tcp => some (.recv .udp)
  | p => realWiring p

/-! ## A tiny DNS reader, used only to exhibit witnesses -/

/-- QDCOUNT of a message. -/
def qdcount (m : Bytes) : Nat := be16 (m.drop 4)

/-- Uncompressed labels starting at the head of `b`. -/
def labels : Nat → Bytes → Option (List Bytes)
  | 0, _ => none
  | _, [] => none
  | fuel + 1, l :: rest =>
    if l = 0 then some []
    else if 64 ≤ l.toNat then none
    else if rest.length < l.toNat then none
    else (labels fuel (rest.drop l.toNat)).map (fun ls => rest.take l.toNat :: ls)

/-- Name of the first question of a message, if it declares and carries one. -/
def firstQuestion (m : Bytes) : Option (List Bytes) :=
  if m.length < dnsHeaderSize ∨ qdcount m = 0 then none else labels 128 (m.drop 12)

end Agd.Buffers
