/-!
# Model of the pooled per-request context structs.  Core Lean only.

`internal/dnsserver`, `internal/dnssvc`, `internal/filter` keep `RequestInfo`, `filteringContext`,
`filter.Request`, `filter.Response`, `cacheRequest` in `sync.Pool`s.  A request handler does
`x := pool.Get()`, fills fields of `x` from its own request, reads them while it handles the request and
finally `pool.Put(x)`.  Many handlers run interleaved.

* A **record** `Rec` is the field table of one struct: field id → value.
* The **heap** maps object ids to records; ids `≥ next` are unused.
* The **pool** is the list of free object ids.  `Get` by request `r` takes the entry at index
  `k % pool.length` (`k` is chosen by the adversary: `sync.Pool` promises nothing about which object comes
  back) *with whatever values its last user left in it*, or makes a fresh zero object when the pool is empty.
* `held r` is the object request `r` holds; `defd r` is a ghost: the fields `r` wrote since its `Get`;
  `out r` is everything `r` has read so far, newest first.
-/
namespace Agd.PoolCtx

abbrev Rec := Nat → Nat

structure St where
  heap : Nat → Rec
  next : Nat
  pool : List Nat
  held : Nat → Option Nat
  defd : Nat → List Nat
  out : Nat → List (List Nat)

def St.init : St :=
  { heap := fun _ _ => 0, next := 0, pool := [], held := fun _ => none, defd := fun _ => [],
    out := fun _ => [] }

/-- Table update. -/
def upd {α : Type} (t : Nat → α) (k : Nat) (v : α) : Nat → α := fun x => if x = k then v else t x

inductive Op where
  | get (r k : Nat)
  | set (r f v : Nat)
  | read (r : Nat) (fs : List Nat)
  | put (r : Nat)

/-- The request that performs the operation. -/
def Op.req : Op → Nat
  | .get r _ => r
  | .set r _ _ => r
  | .read r _ => r
  | .put r => r

/-- `x := pool.Get()` by request `r`; `k` selects the pool entry. -/
def doGet (s : St) (r k : Nat) : St :=
  match s.held r with
  | some _ => s
  | none =>
    if s.pool.length = 0 then
      { s with heap := upd s.heap s.next (fun _ => 0), next := s.next + 1,
               held := upd s.held r (some s.next), defd := upd s.defd r [] }
    else
      { s with pool := s.pool.eraseIdx (k % s.pool.length),
               held := upd s.held r (some (s.pool.getD (k % s.pool.length) 0)),
               defd := upd s.defd r [] }

/-- `x.f = v` by request `r`. -/
def doSet (s : St) (r f v : Nat) : St :=
  match s.held r with
  | none => s
  | some id => { s with heap := upd s.heap id (upd (s.heap id) f v), defd := upd s.defd r (f :: s.defd r) }

/-- Request `r` reads the fields `fs` of its object. -/
def doRead (s : St) (r : Nat) (fs : List Nat) : St :=
  match s.held r with
  | none => s
  | some id => { s with out := upd s.out r (fs.map (s.heap id) :: s.out r) }

/-- `pool.Put(x)` by request `r`. -/
def doPut (s : St) (r : Nat) : St :=
  match s.held r with
  | none => s
  | some id => { s with pool := id :: s.pool, held := upd s.held r none, defd := upd s.defd r [] }

def step (s : St) : Op → St
  | .get r k => doGet s r k
  | .set r f v => doSet s r f v
  | .read r fs => doRead s r fs
  | .put r => doPut s r

def run (s : St) (ops : List Op) : St := ops.foldl step s

/-- The only rule: a request reads a field only after it wrote it since its `Get`
(`*fctx = filteringContext{}`; "NOTE: Fill all fields of fltReq since it is reused from the pool"). -/
def OpOk (s : St) : Op → Prop
  | .read r fs => ∀ f ∈ fs, f ∈ s.defd r
  | _ => True

instance decOpOk (s : St) : (op : Op) → Decidable (OpOk s op)
  | .read r fs => inferInstanceAs (Decidable (∀ f ∈ fs, f ∈ s.defd r))
  | .get _ _ => inferInstanceAs (Decidable True)
  | .set _ _ _ => inferInstanceAs (Decidable True)
  | .put _ => inferInstanceAs (Decidable True)

/-- Discipline on a schedule: every read, at the moment it executes, reads written fields only.  Nothing is
required of `get` / `set` / `put`, by anybody, at any time. -/
def ReadsOk (s : St) : List Op → Prop
  | [] => True
  | op :: rest => OpOk s op ∧ ReadsOk (step s op) rest

instance decReadsOk : (s : St) → (ops : List Op) → Decidable (ReadsOk s ops)
  | _, [] => inferInstanceAs (Decidable True)
  | s, op :: rest =>
    have := decReadsOk (step s op) rest
    inferInstanceAs (Decidable (OpOk s op ∧ ReadsOk (step s op) rest))

/-! ### Pool-constant fields

Some fields are set once by `New` of the pool and never written by any request (`RequestInfo.FilteringGroup`,
`ServerGroup`, `Server`, `Proto`): requests read them without filling them.  `C` is the list of these fields;
in the model "set by `New`" is the zero value of a fresh object. -/

/-- The discipline with pool-constant fields `C`: a read touches only fields the request filled since its
`Get` or pool-constant fields; nobody ever writes a pool-constant field. -/
def OpOkC (C : List Nat) (s : St) : Op → Prop
  | .read r fs => ∀ f ∈ fs, f ∈ s.defd r ∨ f ∈ C
  | .set _ f _ => f ∉ C
  | _ => True

instance decOpOkC (C : List Nat) (s : St) : (op : Op) → Decidable (OpOkC C s op)
  | .read r fs => inferInstanceAs (Decidable (∀ f ∈ fs, f ∈ s.defd r ∨ f ∈ C))
  | .set _ f _ => inferInstanceAs (Decidable (f ∉ C))
  | .get _ _ => inferInstanceAs (Decidable True)
  | .put _ => inferInstanceAs (Decidable True)

def ReadsOkC (C : List Nat) (s : St) : List Op → Prop
  | [] => True
  | op :: rest => OpOkC C s op ∧ ReadsOkC C (step s op) rest

instance decReadsOkC (C : List Nat) : (s : St) → (ops : List Op) → Decidable (ReadsOkC C s ops)
  | _, [] => inferInstanceAs (Decidable True)
  | s, op :: rest =>
    have := decReadsOkC C (step s op) rest
    inferInstanceAs (Decidable (OpOkC C s op ∧ ReadsOkC C (step s op) rest))

/-- What one request does with its context: `Get`, fill the fields `fill` (field, value), read `reads`, `Put`. -/
def prog (r k : Nat) (fill : List (Nat × Nat)) (reads : List Nat) : List Op :=
  .get r k :: (fill.map (fun fv => Op.set r fv.1 fv.2) ++ [.read r reads, .put r])

/-! ### Fills with an error branch

Not every field is filled by a plain assignment.  `ratelimitmw.newRequestInfo` builds the message constructor
of the profile from the profile's settings (`dnsmsg.NewConstructor`), which FAILS for a negative
filtered-response TTL or a missing blocking mode; the error is only collected, and the request is served
with the constructor of the server.  `BFill` is such a fill: the value `v` when the computation succeeds for
this request (`ok`), and on the error branch either a fallback `d` (`dflt = some d`: the code writes the
server's value first and overwrites it on success) or nothing (`dflt = none`: the branch leaves the field as
the previous user of the pooled object left it). -/
structure BFill where
  f : Nat
  ok : Bool
  v : Nat
  dflt : Option Nat

/-- What a fill writes in this request: field and value, or nothing. -/
def BFill.eff (b : BFill) : Option (Nat × Nat) :=
  if b.ok then some (b.f, b.v) else b.dflt.map (fun d => (b.f, d))

/-- A plain assignment as a `BFill`. -/
def BFill.plain (f v : Nat) : BFill := { f := f, ok := true, v := v, dflt := none }

/-- The operations of one fill by request `r`. -/
def BFill.ops (r : Nat) (b : BFill) : List Op :=
  match b.eff with
  | some fv => [.set r fv.1 fv.2]
  | none => []

/-- A request whose fills have error branches: `Get`, the fills (each on the branch its own data select),
read, `Put`. -/
def progB (r k : Nat) (fill : List BFill) (reads : List Nat) : List Op :=
  prog r k (fill.filterMap BFill.eff) reads

end Agd.PoolCtx
