import Agd.Model.ECS
/-!
# `geoip.File.Refresh` racing with `geoip.File.Data` (C05, wave h)

`Model/ECS.lean` treats a refresh as one atomic replacement of the GeoIP environment between two
requests.  The code is not atomic: `Refresh` reads the new files, rebuilds the subnet maps, and only
then, under the write lock `f.mu`, swaps the readers (`f.asn, f.country = asn, country`) and clears
the location caches; `Data` consults `ipCache` *outside* the lock and, on a miss, takes the read
lock, asks the readers and stores the result (`setCaches`) before releasing it.

This file is the small-step machine of that protocol.  The refresher is a *program* — a list of the
four actions that matter (`lock`, `swap`, `clear`, `unlock`) — so that the code's order
(`codeProg`) and its neighbours (cache cleared before the lock is taken, no clear, clear after the
unlock, clear before the swap under the lock, …) are instances of one definition.  Look-ups are split
into their two phases (`get`: the cache probe outside the lock; `fill`: read lock, readers,
`setCaches`), any number of them interleaved with the refresher in any order.  `atomicSet = false`
is the variant of `Data` that stores its result after releasing the read lock (`flush`).
-/
namespace Agd.ECS.Refresh
open Agd.ECS

/-- Which pair of database readers `f.asn` / `f.country` are. -/
inductive Ver | old | new
deriving DecidableEq, Repr, Inhabited

/-- The actions of `File.Refresh` that `Data` can observe. -/
inductive RAct | lock | unlock | swap | clear
deriving DecidableEq, Repr

/-- `File.Refresh` as written, after the files have been read and the subnet maps rebuilt:
`f.mu.Lock(); f.asn, f.country = asn, country; f.hostCache.Clear(); f.ipCache.Clear();` deferred
`f.mu.Unlock()` (facts `refresh_order_src`, `refresh_readers_src`). -/
def codeProg : List RAct := [.lock, .swap, .clear, .unlock]

abbrev LocCache := Fam → Nat → Option Loc

/-- `ipCache.Set(ipToCacheKey(ip), l)`. -/
def putBlock (c : LocCache) (f : Fam) (a : Nat) (l : Loc) : LocCache :=
  fun f' k => if f' = f ∧ k = blockOf f a then some l else c f' k

/-- State of a `geoip.File` between two atomic steps. -/
structure RF where
  ver : Ver
  /-- the write lock is held (by the refresher) -/
  locked : Bool
  cache : LocCache
  /-- what the refresher still has to do; `[]` = `Refresh` has returned -/
  prog : List RAct
  /-- locations that were looked up under the read lock and are stored after it was released
  (stays empty for the code, where `setCaches` runs under the lock) -/
  pend : List (Fam × Nat × Loc)

def RF.init (prog : List RAct) (cache : LocCache) : RF := ⟨.old, false, cache, prog, []⟩

def RF.act (s : RF) : RAct → RF
  | .lock => { s with locked := true }
  | .unlock => { s with locked := false }
  | .swap => { s with ver := .new }
  | .clear => { s with cache := fun _ _ => none }

/-- What the scheduler can choose next. -/
inductive REv
  /-- the refresher's next action -/
  | step
  /-- `ipCache.Get` of a `Data` call (outside the lock) -/
  | get (f : Fam) (a : Nat)
  /-- the locked part of a `Data` call that missed: `RLock`, `lookupASN`, `setCtry`, `setCaches`,
  `RUnlock`; not enabled while the write lock is held -/
  | fill (f : Fam) (a : Nat)
  /-- (only with `atomicSet = false`) a pending `setCaches` outside the lock -/
  | flush (i : Nat)
deriving DecidableEq, Repr

/-- What an event shows to its caller. -/
inductive Res
  | none
  | acted (a : RAct)
  | hit (l : Loc)
  | miss
  | blocked
  | loc (l : Loc)
deriving DecidableEq, Repr

/-- One atomic step.  `db v` is the look-up in the readers of version `v`. -/
def RF.ev (db : Ver → Fam → Nat → Loc) (atomicSet : Bool) (s : RF) : REv → RF × Res
  | .step =>
    match s.prog with
    | [] => (s, .none)
    | a :: p => ({ s.act a with prog := p }, .acted a)
  | .get f a =>
    match s.cache f (blockOf f a) with
    | some l => (s, .hit l)
    | none => (s, .miss)
  | .fill f a =>
    if s.locked then (s, .blocked)
    else if atomicSet then ({ s with cache := putBlock s.cache f a (db s.ver f a) }, .loc (db s.ver f a))
    else ({ s with pend := s.pend ++ [(f, a, db s.ver f a)] }, .loc (db s.ver f a))
  | .flush i =>
    match s.pend[i]? with
    | some e => ({ s with cache := putBlock s.cache e.1 e.2.1 e.2.2, pend := s.pend.eraseIdx i }, .none)
    | none => (s, .none)

/-- A schedule: the state reached and what every event showed. -/
def RF.run (db : Ver → Fam → Nat → Loc) (atomicSet : Bool) : RF → List REv → RF × List Res
  | s, [] => (s, [])
  | s, e :: es =>
    let r := s.ev db atomicSet e
    let rest := RF.run db atomicSet r.1 es
    (rest.1, r.2 :: rest.2)

/-- A whole `Data` call with nothing scheduled between its two phases. -/
def RF.look (db : Ver → Fam → Nat → Loc) (atomicSet : Bool) (s : RF) (f : Fam) (a : Nat) : RF × Res :=
  match s.cache f (blockOf f a) with
  | some l => (s, .hit l)
  | none => s.ev db atomicSet (.fill f a)

/-- The change of wave h: the caches are cleared right after the files have been read, long before
the lock is taken and the readers are swapped. -/
def clearBeforeLockProg : List RAct := [.clear, .lock, .swap, .unlock]

/-- `Refresh` without clearing the caches (mutation of round 3b). -/
def noClearProg : List RAct := [.lock, .swap, .unlock]

/-- Two database pairs that differ everywhere: country 1 before, country 2 after. -/
def flipDB : Ver → Fam → Nat → Loc := fun v _ _ =>
  match v with
  | .old => ⟨1, 0, 0⟩
  | .new => ⟨2, 0, 0⟩

/-! ## The static criterion

`progSafe p` follows the refresher alone: `dirty` says that the cache may hold — or may still
receive — a location of the replaced databases.  It is set whenever the old readers are reachable
for a `fill` (`ver = old` and the write lock free) and reset by a `clear`. -/

structure Abs where
  ver : Ver
  locked : Bool
  dirty : Bool
deriving DecidableEq, Repr

def Abs.isOpen (a : Abs) : Bool := a.ver == .old && !a.locked

def Abs.act (a : Abs) : RAct → Abs
  | .lock => ⟨a.ver, true, a.dirty⟩
  | .unlock => ⟨a.ver, false, a.dirty || a.ver == .old⟩
  | .swap => ⟨.new, a.locked, a.dirty⟩
  | .clear => ⟨a.ver, a.locked, a.ver == .old && !a.locked⟩

def Abs.init : Abs := ⟨.old, false, true⟩

/-- The refresher program leaves no location of the old databases behind, whatever `Data` calls run
beside it. -/
def progSafe (p : List RAct) : Bool :=
  let z := p.foldl Abs.act Abs.init
  z.ver == .new && !z.dirty

end Agd.ECS.Refresh
