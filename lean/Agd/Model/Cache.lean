/-!
# Model of the two response caches (C04)

* `internal/dnsserver/cache` — the simple cache (`Simple.*`);
* `internal/ecscache` — the ECS-aware cache (`Ecs.*`);
* `internal/dnsmsg` — `FindLowestTTL`, `SetMinTTL`.

Time is an explicit number of nanoseconds.  A resource record is its type, its TTL, the SOA
minimum (meaningful for SOA records only) and an opaque payload identity.  For an OPT record the
TTL field is the raw EDNS flags word (bit 15 is DO) and `data ≠ 0` says that the record carries an
Extended DNS Error option.  The LRU caches are a finite map with an expiry stamp per entry;
capacity eviction is the separate operation `Store.del`, which may happen at any time.

Core Lean only: the driver links this file.
-/
namespace Agd.Cache

def typCNAME : Nat := 5
def typSOA : Nat := 6
def typSIG : Nat := 24
def typOPT : Nat := 41
def typDS : Nat := 43
def typRRSIG : Nat := 46
def typNSEC : Nat := 47
def typDNSKEY : Nat := 48
def typNSEC3 : Nat := 50

def rcSuccess : Nat := 0
def rcServFail : Nat := 2
def rcNameError : Nat := 3

/-- `math.MaxUint32`, the guard value of `findLowestTTL`. -/
def maxU32 : Nat := 4294967295
/-- `servFailMaxCacheTTL` / `dnsmsg.ServFailMaxCacheTTL`, seconds. -/
def servFailMaxTTL : Nat := 30
/-- One second in nanoseconds. -/
def sec : Nat := 1000000000

structure RR where
  typ : Nat
  ttl : Nat
  soaMin : Nat
  data : Nat
deriving DecidableEq, Repr

structure Msg where
  rcode : Nat
  tc : Bool
  aa : Bool
  ad : Bool
  ra : Bool
  rd : Bool
  cd : Bool
  /-- number of entries in the question section -/
  nq : Nat
  answer : List RR
  ns : List RR
  extra : List RR
deriving DecidableEq, Repr

/-! ## `findLowestTTL` / `dnsmsg.FindLowestTTL` -/

/-- `getTTLIfLower`. -/
def ttlIfLower (r : RR) (t : Nat) : Nat :=
  if r.typ = typOPT then t
  else if r.typ = typSOA ∧ 0 < r.soaMin ∧ r.soaMin < t then min r.ttl r.soaMin
  else min r.ttl t

def lowestRaw : List RR → Nat → Nat
  | [], t => t
  | r :: rs, t => lowestRaw rs (ttlIfLower r t)

def allRRs (m : Msg) : List RR := m.answer ++ m.ns ++ m.extra

/-- `findLowestTTL`: the early `return 0` of the Go loop is the same as finishing the fold, because
`getTTLIfLower r 0 = 0`. -/
def findLowestTTL (m : Msg) : Nat :=
  if m.rcode = rcServFail ∧ servFailMaxTTL < lowestRaw (allRRs m) maxU32 then servFailMaxTTL
  else if lowestRaw (allRRs m) maxU32 = maxU32 then 0
  else lowestRaw (allRRs m) maxU32

/-! ## `isCacheable` -/

/-- The answer-section loop of `isCacheableNOERROR`: 1 = cacheable, 2 = not cacheable,
0 = fall through to the SOA search. -/
def ansScan (qt : Nat) : List RR → Nat
  | [] => 0
  | r :: rs =>
    if r.typ = qt then 1
    else if r.typ = typCNAME ∨ r.typ = typSIG then ansScan qt rs
    else 2

def hasSOA : List RR → Bool
  | [] => false
  | r :: rs => if r.typ = typSOA then true else hasSOA rs

def cacheableNoErr (qt : Nat) (m : Msg) : Bool :=
  if ansScan qt m.answer = 1 then true
  else if ansScan qt m.answer = 2 then false
  else hasSOA m.ns

/-- `isCacheable` (identical in both packages); `qt` is the type of the only question. -/
def isCacheable (qt : Nat) (m : Msg) : Bool :=
  if m.tc = true ∨ m.nq ≠ 1 then false
  else if m.rcode = rcSuccess then cacheableNoErr qt m
  else if m.rcode = rcNameError ∨ m.rcode = rcServFail then true
  else false

/-! ## TTL of a served item -/

/-- The property's bound: original TTL minus age, rounded to the nearest second, floor zero. -/
def leftRounded (ttl age : Nat) : Nat :=
  if age < ttl * sec then (ttl * sec - age + sec / 2) / sec else 0

/-- Simple cache, as repaired: `math.Round(float64(ttl) − age.Seconds())` if positive, else 0.
`Round` is half away from zero, so the result is positive exactly when `ttl·1s − age ≥ ½ s`. -/
def simpleTTL (low age : Nat) : Nat :=
  if age + sec / 2 ≤ low * sec then (low * sec - age + sec / 2) / sec else 0

/-- Simple cache on the unrepaired tree: when `timeLeft ≤ 0` the lowest TTL was kept. -/
def simpleTTLOrig (low age : Nat) : Nat :=
  if age + sec / 2 ≤ low * sec then (low * sec - age + sec / 2) / sec else low

/-- `roundDiv` of `internal/ecscache/cache.go` on Go's `time.Duration` (a signed integer; `/` truncates
towards zero, which is `Int.tdiv`). -/
def roundDiv (num denom : Int) : Int :=
  if (decide (num < 0)) = (decide (denom < 0)) then (num + denom.tdiv 2).tdiv denom
  else (num - denom.tdiv 2).tdiv denom

/-- ECS cache: `timeLeft := ttl·1s − age`; `uint32(roundDiv(timeLeft, 1s))` if `timeLeft > 0`, else 0. -/
def ecsTTL (low age : Nat) : Nat :=
  if 0 < (low * sec : Int) - (age : Int) then (roundDiv ((low * sec : Int) - (age : Int)) (sec : Int)).toNat else 0

def setTTL (t : Nat) (r : RR) : RR := { r with ttl := t }
def raiseTTL (t : Nat) (r : RR) : RR := { r with ttl := max r.ttl t }

/-! ## Requests, keys, store -/

structure Req where
  /-- question name as sent by the client -/
  name : String
  qtype : Nat
  qclass : Nat
  do_ : Bool
  ad : Bool
  rd : Bool
  cd : Bool
  /-- ECS cache only: address family of the outgoing subnet is IPv6 -/
  fam6 : Bool
  /-- ECS cache only: the client sent an ECS option with a zero-length prefix -/
  declined : Bool
  /-- ECS cache only: identity of the subnet GeoIP returns for the client's location (0 = zero prefix) -/
  subnet : Nat
  /-- the request carries an OPT record (`do_` implies `edns`) -/
  edns : Bool
deriving DecidableEq, Repr

/-- The structural content of the cache keys (the 64-bit hash of the ECS cache is taken to be
injective on it; its `host` check covers the name part). -/
inductive Key
  | simple (do_ : Bool) (qtype qclass : Nat) (name : String)
  | noecs (host : String) (qtype qclass : Nat) (do_ fam6 declined : Bool)
  | ecs (host : String) (qtype qclass : Nat) (do_ fam6 : Bool) (subnet : Nat)
deriving DecidableEq, Repr

structure Entry where
  msg : Msg
  /-- insertion time (`cacheItem.when`) -/
  at_ : Nat
  /-- expiry stamp of the LRU entry -/
  expAt : Nat
deriving DecidableEq, Repr

abbrev Store := Key → Option Entry

def Store.empty : Store := fun _ => none
def Store.put (s : Store) (k : Key) (e : Entry) : Store := fun k' => if k' = k then some e else s k'
def Store.del (s : Store) (k : Key) : Store := fun k' => if k' = k then none else s k'

/-- `gcache.Get`: an entry is returned unless its expiry stamp is before now. -/
def Store.live (s : Store) (now : Nat) (k : Key) : Option Entry :=
  match s k with
  | some e => if now ≤ e.expAt then some e else none
  | none => none

structure Cfg where
  /-- `MinTTL` in nanoseconds -/
  minTTL : Nat
  override : Bool
deriving Repr

/-- The common part of both `set` functions: `(message as written and stored, lifetime)`;
lifetime `none` = not stored.  `SetMinTTL` raises answer-section TTLs only. -/
def prepStore (cfg : Cfg) (qt : Nat) (m : Msg) : Msg × Option Nat :=
  if findLowestTTL m = 0 ∨ isCacheable qt m = false then (m, none)
  else if cfg.override = true ∧ m.rcode ≠ rcServFail then
    ({ m with answer := m.answer.map (raiseTTL (max (findLowestTTL m * sec) cfg.minTTL / sec)) },
      some (max (findLowestTTL m * sec) cfg.minTTL))
  else (m, some (findLowestTTL m * sec))

/-- `IsEdns0`: the last OPT record of the additional section. -/
def lastOPT : List RR → Option RR
  | [] => none
  | r :: rs =>
    match lastOPT rs with
    | some o => some o
    | none => if r.typ = typOPT then some r else none

/-- `opt.Do()`: bit 15 of the OPT TTL field. -/
def msgDO (m : Msg) : Bool :=
  match lastOPT m.extra with
  | some o => (o.ttl / 32768) % 2 == 1
  | none => false

/-- What a step returns: new store, response, served-from-cache flag. -/
structure Out where
  store : Store
  resp : Msg
  hit : Bool

/-! ## Simple cache -/
namespace Simple

def keyOfReq (r : Req) : Key := .simple r.do_ r.qtype r.qclass r.name.toLower

/-- Before the round-3 fix `set` computed the key from the *response*: its OPT's DO bit and its
question section — type and name are checked against the request by the forward handler, the class is
not; `rc` is the class in the response's question section.  Kept for the counter-example and for
replaying it on the old tree (`cfg k`). -/
def keyOfResp (r : Req) (m : Msg) (rc : Nat) : Key := .simple (msgDO m) r.qtype rc r.name.toLower

/-- `fromCacheItem` given the TTL function (`simpleTTL` on the repaired tree). -/
def hitWith (f : Nat → Nat → Nat) (m : Msg) (age : Nat) (r : Req) : Msg :=
  { rcode := m.rcode, tc := false, aa := false, ad := m.ad, ra := m.ra, rd := r.rd, cd := r.cd,
    nq := 1,
    answer := m.answer.map (setTTL (f (findLowestTTL m) age)),
    ns := m.ns.map (setTTL (f (findLowestTTL m) age)),
    extra := (m.extra.filter (fun x => x.typ ≠ typOPT)).map (setTTL (f (findLowestTTL m) age)) }

def hit (m : Msg) (age : Nat) (r : Req) : Msg := hitWith simpleTTL m age r

/-- The middleware with the key of the stored entry as a parameter: `kf r stored`. -/
def stepKeyed (kf : Req → Msg → Key) (f : Nat → Nat → Nat) (cfg : Cfg) (s : Store) (now : Nat) (r : Req) (a : Msg) : Out :=
  match s.live now (keyOfReq r) with
  | some e => { store := s, resp := hitWith f e.msg (now - e.at_) r, hit := true }
  | none =>
    match (prepStore cfg r.qtype a).2 with
    | none => { store := s, resp := (prepStore cfg r.qtype a).1, hit := false }
    | some life =>
      { store := s.put (kf r (prepStore cfg r.qtype a).1)
          { msg := (prepStore cfg r.qtype a).1, at_ := now, expAt := now + life },
        resp := (prepStore cfg r.qtype a).1, hit := false }

/-- The code as it is: `get` and `set` both compute the key from the request. -/
def stepWith (f : Nat → Nat → Nat) (cfg : Cfg) (s : Store) (now : Nat) (r : Req) (a : Msg) : Out :=
  match s.live now (keyOfReq r) with
  | some e => { store := s, resp := hitWith f e.msg (now - e.at_) r, hit := true }
  | none =>
    match (prepStore cfg r.qtype a).2 with
    | none => { store := s, resp := (prepStore cfg r.qtype a).1, hit := false }
    | some life =>
      { store := s.put (keyOfReq r)
          { msg := (prepStore cfg r.qtype a).1, at_ := now, expAt := now + life },
        resp := (prepStore cfg r.qtype a).1, hit := false }

/-- The code before the round-3 fix: the entry went under the key of the response; `rc` = class echoed. -/
def stepOldKey (cfg : Cfg) (s : Store) (now : Nat) (r : Req) (a : Msg) (rc : Nat) : Out :=
  stepKeyed (fun r m => keyOfResp r m rc) simpleTTL cfg s now r a

/-- One request through the middleware; `a` is what the next handler answers for `r`. -/
def step (cfg : Cfg) (s : Store) (now : Nat) (r : Req) (a : Msg) : Out := stepWith simpleTTL cfg s now r a

end Simple

/-! ## ECS-aware cache -/
namespace Ecs

def isDNSSEC (t : Nat) : Bool :=
  t == typNSEC || t == typNSEC3 || t == typDS || t == typRRSIG || t == typSIG || t == typDNSKEY

/-- `filterRR`: an OPT record survives iff an EDE option is left in it; DNSSEC records survive iff
DO was requested or the type is the excepted one. -/
def keepRR (reqDO : Bool) (exc : Nat) (r : RR) : Bool :=
  if r.typ = typOPT then r.data != 0
  else reqDO || !isDNSSEC r.typ || r.typ == exc

/-- `rmHopToHopData`. -/
def rmHop (m : Msg) (qt : Nat) (reqDO : Bool) : Msg :=
  { m with answer := m.answer.filter (keepRR reqDO qt),
           ns := m.ns.filter (keepRR reqDO 0),
           extra := m.extra.filter (keepRR reqDO 0) }

/-- `setRespAD`. -/
def setAD (m : Msg) (r : Req) : Msg := { m with ad := m.ad && (r.ad || r.do_) }

def host (r : Req) : String := r.name.toLower

/-- `cr.subnet` on lookup: the zero prefix when the client declined ECS. -/
def effSubnet (r : Req) : Nat := if r.declined then 0 else r.subnet

/-- The DO bit the upstream sees: `setECS` on the cloned request creates the OPT record with DO set
when the client sent none (`SetEdns0(size, !isResp || …)`), and keeps the client's OPT otherwise. -/
def fwdDO (r : Req) : Bool := r.do_ || !r.edns

/-- `respIsECSDependent(scope, fqdn)`; `fake` = the question name is listed in `FakeECSFQDNs`. -/
def respDep (scope : Nat) (fake : Bool) : Bool := if scope = 0 then false else !fake

def keyNo (r : Req) : Key := .noecs (host r) r.qtype r.qclass r.do_ r.fam6 r.declined
def keyDep (r : Req) : Key := .ecs (host r) r.qtype r.qclass r.do_ r.fam6 (effSubnet r)

/-- `fromCacheItem`: clone, `SetRcode(req, rcode)`, `setRespAD`, every TTL (OPT included) replaced. -/
def hit (m : Msg) (age : Nat) (r : Req) : Msg :=
  { m with rd := r.rd, cd := r.cd, nq := 1, ad := m.ad && (r.ad || r.do_),
           answer := m.answer.map (setTTL (ecsTTL (findLowestTTL m) age)),
           ns := m.ns.map (setTTL (ecsTTL (findLowestTTL m) age)),
           extra := m.extra.map (setTTL (ecsTTL (findLowestTTL m) age)) }

/-- `Middleware.get`. -/
def lookup (s : Store) (now : Nat) (r : Req) : Option Entry :=
  match s.live now (keyNo r) with
  | some e => some e
  | none => if r.declined then none else s.live now (keyDep r)

/-- One request through the middleware; `a` is the upstream answer for the request with the
subnet `effSubnet r`, `dep` is `respIsECSDependent(scope, fqdn)` for that answer. -/
def step (cfg : Cfg) (s : Store) (now : Nat) (r : Req) (a : Msg) (dep : Bool) : Out :=
  match lookup s now r with
  | some e => { store := s, resp := hit e.msg (now - e.at_) r, hit := true }
  | none =>
    match (prepStore cfg r.qtype (rmHop a r.qtype r.do_)).2 with
    | none => { store := s, resp := setAD (prepStore cfg r.qtype (rmHop a r.qtype r.do_)).1 r, hit := false }
    | some life =>
      { store := s.put (if dep then keyDep r else keyNo r)
          { msg := (prepStore cfg r.qtype (rmHop a r.qtype r.do_)).1, at_ := now, expAt := now + life },
        resp := setAD (prepStore cfg r.qtype (rmHop a r.qtype r.do_)).1 r, hit := false }

end Ecs

/-! ## Faults of the next handler (round 4)

The next handler returns an error (with or without having written a message), writes nothing at
all, or — ECS cache — answers with an ECS option `dnsmsg.ECSFromMsg` rejects.  In each case the
middleware returns before `set`: a request that is not served from the cache leaves no trace. -/

/-- `Wrap` of the simple cache when the next handler fails: `(store, what is written)`. -/
def Simple.stepFault (f : Nat → Nat → Nat) (s : Store) (now : Nat) (r : Req) : Store × Option Msg :=
  match s.live now (Simple.keyOfReq r) with
  | some e => (s, some (Simple.hitWith f e.msg (now - e.at_) r))
  | none => (s, none)

/-- `mwHandler.ServeDNS` of the ECS cache when the next handler fails. -/
def Ecs.stepFault (s : Store) (now : Nat) (r : Req) : Store × Option Msg :=
  match Ecs.lookup s now r with
  | some e => (s, some (Ecs.hit e.msg (now - e.at_) r))
  | none => (s, none)

/-! ## From the request information to the cache request (round 4)

What `mwHandler.ServeDNS`, `ecsFamFromReq` and `locFromReq` derive before the look-up.  Countries
are numbers, `0` = `geoip.CountryNone`. -/

structure RI where
  /-- `ri.ECS != nil` -/
  hasECS : Bool
  /-- prefix length of the client's ECS option -/
  ecsBits : Nat
  /-- the address of the client's ECS option is IPv6 -/
  ecsFam6 : Bool
  /-- `ri.RemoteIP` is IPv6 -/
  remoteFam6 : Bool
  /-- country of `ri.ECS.Location` (`0` when there is no location or it has no country) -/
  ecsCtry : Nat
  /-- country of `ri.Location` (`0` when nil) -/
  connCtry : Nat
deriving DecidableEq, Repr

namespace Ecs

/-- `ecsFamFromReq`. -/
def famOf (ri : RI) : Bool := if ri.hasECS then ri.ecsFam6 else ri.remoteFam6

/-- `cr.isECSDeclined`. -/
def declinedOf (ri : RI) : Bool := ri.hasECS && ri.ecsBits == 0

/-- The country `locFromReq` hands to `SubnetByLocation`. -/
def ctryOf (ri : RI) : Nat := if ri.hasECS ∧ ri.ecsCtry ≠ 0 then ri.ecsCtry else ri.connCtry

/-- `cr.subnet` given the GeoIP table `geo country fam6` (identity of the subnet, `0` = zero prefix). -/
def subnetOf (geo : Nat → Bool → Nat) (ri : RI) : Nat :=
  if declinedOf ri then 0 else geo (ctryOf ri) (famOf ri)

end Ecs

/-! ## Production wiring (round 4): `cacheConfig.toInternal` and `wrapPreUpstreamMw` -/

/-- The `cache` section of the configuration file; `min` in nanoseconds. -/
structure Yaml where
  typeSimple : Bool
  size : Nat
  ecsSize : Nat
  min : Nat
  enabled : Bool
deriving DecidableEq, Repr

/-- Which middleware `wrapPreUpstreamMw` builds: `0` none, `1` simple, `2` ECS. -/
def Yaml.kind (y : Yaml) : Nat := if y.size = 0 then 0 else if y.typeSimple then 1 else 2

/-- The `Cfg` both constructors receive. -/
def Yaml.cfg (y : Yaml) : Cfg := { minTTL := y.min, override := y.enabled }

end Agd.Cache
