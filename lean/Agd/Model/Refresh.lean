/-!
# Model of filter refreshes (C13)

Sources modelled (AdGuardDNS, `internal/filter/...`):

* `internal/refreshable/refreshable.go` — `Refreshable.Refresh`, `useCachedOrRefreshFromURL`,
  `refreshFromFile`, `refreshFromURL`, `withDeferredTmpCleanup`;
* `filterstorage/refresh.go` — `Default.refresh`, `loadIndex`, `addRuleList`, `setPrevRuleList`,
  `refreshServices`, `resetRuleLists`;
* `filterstorage/index.go` — `indexResp.toInternal`;
* `internal/serviceblock/serviceblock.go` — `Filter.Refresh`;
* `hashprefix/filter.go` — `Filter.refresh`.

Contents (the bytes of one complete document a server can offer, or that lies in a cache file)
are named by natural numbers; what a content *means* is given by an environment `Env`.  Keys of
rule lists and URLs are natural numbers as well.  Time does not occur: whether a cache file is
still fresh relative to the staleness setting is an input of every round.

Core Lean only.
-/
namespace Agd.Refresh

/-- Function update. -/
def put {α : Type} (f : Nat → α) (k : Nat) (v : α) : Nat → α := fun x => if x = k then v else f x

@[simp] theorem put_same {α : Type} (f : Nat → α) (k : Nat) (v : α) : put f k v k = v := by
  simp [put]

@[simp] theorem put_other {α : Type} (f : Nat → α) (k x : Nat) (v : α) (h : x ≠ k) :
    put f k v x = f x := by
  simp [put, h]

/-- One entry of the rule-list index (`indexRespFilter`). -/
structure Entry where
  /-- the filter key -/
  key : Nat
  /-- the entry is non-nil and `filter.NewID` accepts its key -/
  keyOk : Bool
  /-- `downloadUrl` is non-empty and `agdhttp.ParseHTTPURL` accepts it -/
  urlOk : Bool
  /-- the URL -/
  url : Nat
deriving Repr, DecidableEq

/-- One element of `blocked_services` in a blocked-service index (`indexRespService`). -/
inductive SvcEntry where
  /-- a JSON `null`: a nil `*indexRespService` -/
  | null
  /-- `NewBlockedServiceID` refuses the id (or, which never happens, the rules do not compile) -/
  | badId
  /-- converts -/
  | ok
deriving Repr, DecidableEq

/-- How `serviceblock.indexResp.toInternal` ends. -/
inductive SvcRes where
  | ok
  | err
  /-- nil-pointer dereference: `Refresh` does not return -/
  | panic
deriving Repr, DecidableEq

/-- `serviceblock.indexResp.toInternal`: every element is converted, errors are collected and
joined at the end (one bad element refuses the whole index).  `nilCheck` = the tree with the fix
"a null service is an error"; without it the first `null` element dereferences a nil pointer,
whatever errors were collected before it. -/
def svcConvert (nilCheck : Bool) (es : List SvcEntry) : SvcRes :=
  if !nilCheck && es.contains .null then .panic
  else if es.all (· == .ok) then .ok
  else .err

/-- The meaning of contents. -/
structure Env where
  /-- length in bytes -/
  len : Nat → Nat
  /-- a content read as a rule-list index: `none` when it is not a JSON index document -/
  idx : Nat → Option (List Entry)
  /-- a content read as a blocked-service index: `none` when it is not a JSON document of that
  shape -/
  svc : Nat → Option (List SvcEntry)
  /-- `hashprefix.Storage.Reset` accepts the content -/
  hashOk : Nat → Bool

/-- What the server does with the request for one URL in one round. -/
inductive Resp where
  /-- `http.Client.Get` fails: connection error, or the time-out expires before the header -/
  | getErr
  /-- A header with `status` arrives and a body follows: content `c`; `cut` = the transfer ends
  early (framing violated or time-out while reading); `eofLast` = the transport reports
  end-of-file together with the last bytes (Content-Length framing) rather than on a separate
  read (chunked framing) — this matters only when the body is exactly as long as the limit. -/
  | resp (status : Nat) (c : Nat) (cut : Bool) (eofLast : Bool)
deriving Repr, DecidableEq

/-- `ioutil.LimitReader(body, max)` under `io.Copy`: an error unless the body ends first. -/
def limitHit (max len : Nat) (eofLast : Bool) : Bool :=
  decide (len > max) || (decide (len = max) && (!eofLast || decide (max = 0)))

/-- `refreshFromURL`: `some c` = no error, the cache file has been replaced by `c`, the text is
`c`; `none` = an error, the temporary file has been removed. Guards in source order. -/
def fromURL (E : Env) (max : Nat) : Resp → Option Nat
  | .getErr => none
  | .resp status c cut eofLast =>
    if status ≠ 200 then none
    else if cut then none
    else if limitHit max (E.len c) eofLast then none
    else if E.len c = 0 then none
    else some c

/-- `refreshFromFile` on the cache path: `some c` = a non-empty text was read. -/
def fromFile (E : Env) (acceptStale fresh : Bool) : Option Nat → Option Nat
  | none => none
  | some c => if (acceptStale || fresh) && decide (E.len c ≠ 0) then some c else none

/-- `Refreshable.Refresh` for an HTTP URL: (text or error, cache file afterwards). -/
def refresh (E : Env) (max : Nat) (acceptStale : Bool) (disk : Option Nat) (fresh : Bool)
    (r : Resp) : Option Nat × Option Nat :=
  match fromFile E acceptStale fresh disk with
  | some c => (some c, disk)
  | none =>
    match fromURL E max r with
    | some c => (some c, some c)
    | none => (none, disk)

/-! ## Storage -/

structure Cfg where
  idxMax : Nat
  rlMax : Nat
  svcMax : Nat
  svcEnabled : Bool
  /-- `true` = the tree with the fix "keep the previous rule list when its index entry is
  invalid"; `false` = the tree as found. -/
  keepInvalid : Bool
  /-- `true` = the tree with the fix "a null blocked service is an error, not a nil dereference";
  `false` = the tree as found. -/
  svcNilCheck : Bool
  /-- `true` = the tree with the fix "an index entry whose key is the name of another cache file is
  invalid"; `false` = the tree as found.  Only `classify` looks at it. -/
  rejectReserved : Bool := true
  /-- `true` = the tree with the fix "an index element of the wrong JSON type is an invalid entry,
  not a decoding error"; `false` = the tree as found.  Only `decodeDoc` looks at it. -/
  lenientDecode : Bool := true

/-- `serviceblock.Filter.Refresh` after the text has been obtained: decode, convert. -/
def svcResult (E : Env) (cfg : Cfg) (c : Nat) : SvcRes :=
  match E.svc c with
  | none => .err
  | some es => svcConvert cfg.svcNilCheck es

/-- The state of `filterstorage.Default` and of its cache directory. -/
structure St where
  /-- `s.ruleLists`: key ↦ content compiled into the engine in use -/
  rl : Nat → Option Nat
  /-- cache files of rule lists -/
  rlDisk : Nat → Option Nat
  /-- `filters.json` -/
  idxDisk : Option Nat
  /-- content of the blocked-service index in use -/
  svc : Option Nat
  /-- `services.json` -/
  svcDisk : Option Nat

def St.empty : St :=
  { rl := fun _ => none, rlDisk := fun _ => none, idxDisk := none, svc := none, svcDisk := none }

/-- The environment of one refresh round. -/
structure Round where
  /-- `RefreshInitial` (`true`) or `Refresh` (`false`) -/
  acceptStale : Bool
  idxFresh : Bool
  idxResp : Resp
  /-- cache-file freshness per rule-list key -/
  fresh : Nat → Bool
  /-- server behaviour per URL -/
  resp : Nat → Resp
  svcFresh : Bool
  svcResp : Resp

/-- `indexResp.toInternal`: invalid entries are skipped. -/
def toInternal (es : List Entry) : List Entry := es.filter (fun e => e.keyOk && e.urlOk)

/-- The loop state of `Default.refresh`: `newRuleLists` and the cache files. -/
structure Acc where
  new : Nat → Option Nat
  disk : Nat → Option Nat

/-- `addRuleList` (with `setPrevRuleList` on error).  A key already present in `newRuleLists` is
a duplicate and is skipped; the stable sort by key in `loadIndex` keeps the document order of
equal keys, and entries with different keys touch different map slots and files, so the model
walks the document order. -/
def addRuleList (E : Env) (cfg : Cfg) (R : Round) (old : Nat → Option Nat) (a : Acc)
    (e : Entry) : Acc :=
  if (a.new e.key).isSome then a
  else
    let r := refresh E cfg.rlMax R.acceptStale (a.disk e.key) (R.fresh e.key) (R.resp e.url)
    { new := put a.new e.key (match r.1 with | some c => some c | none => old e.key),
      disk := put a.disk e.key r.2 }

/-- The fix: an entry whose key is a valid ID but which did not make it into `newRuleLists`
keeps the previous version of that list. -/
def keepPrev (old : Nat → Option Nat) (new : Nat → Option Nat) (e : Entry) : Nat → Option Nat :=
  if e.keyOk && (new e.key).isNone then put new e.key (old e.key) else new

def newLists (E : Env) (cfg : Cfg) (R : Round) (s : St) (es : List Entry) : Acc :=
  let a := (toInternal es).foldl (addRuleList E cfg R s.rl) ⟨fun _ => none, s.rlDisk⟩
  if cfg.keepInvalid then { a with new := es.foldl (keepPrev s.rl) a.new } else a

/-! ### The order of the index entries

`loadIndex` sorts the entries with `slices.SortStableFunc` by key before `toInternal`,
`addRuleList` and `keepInvalidRuleLists` walk them.  `isort r` is the stable sort by a rank `r`
(the place of an entry's key string in the order of `cmp.Compare`; null entries rank last): an entry
moves in front of exactly those earlier entries whose rank is strictly greater.  `newLists` itself
walks the document order; `Agd.Refresh.index_order_irrelevant` (Props/C13) proves that sorting
first makes no difference, which is what every loop over the entries has to respect (no early
exit, no dependence on what sorts before or after an entry). -/

/-- Insert `x`, which precedes all of the list in the document, into the sorted list. -/
def insertBy (r : Entry → Nat) (x : Entry) : List Entry → List Entry
  | [] => [x]
  | y :: ys => if r x ≤ r y then x :: y :: ys else y :: insertBy r x ys

/-- Stable sort by rank. -/
def isort (r : Entry → Nat) : List Entry → List Entry
  | [] => []
  | x :: xs => insertBy r x (isort r xs)

/-! ### The index document as decoded: key strings, `validate`, `compare`, cache-file names

`encoding/json` hands `loadIndex` a list of `*indexRespFilter`: a JSON `null` or an object with the
strings `filterKey` and `downloadUrl`.  Here the key is its list of bytes; `filter.NewID`,
`indexRespFilter.validate`, `indexRespFilter.compare` and the stable sort are modelled on those
bytes; what `net/url` makes of `downloadUrl` stays a parameter (`urlParses`).  `classify` takes a
decoded entry to the abstract `Entry` the loops work with. -/

/-- The bytes of an ASCII string literal. -/
def bytes (s : String) : List Nat := s.toList.map Char.toNat

/-- One element of `filters` as decoded. -/
structure RawEntry where
  /-- a JSON `null`: a nil `*indexRespFilter` -/
  null : Bool
  /-- the bytes of `filterKey` -/
  key : List Nat
  /-- `downloadUrl == ""` -/
  urlEmpty : Bool
  /-- `agdhttp.ParseHTTPURL` accepts `downloadUrl` (`net/url`: a parameter) -/
  urlParses : Bool
  /-- the URL -/
  url : Nat
  /-- the element, or one of its two properties, has the wrong JSON type (a string, an array, a
  number, `true` where an object is expected; a number where a string is expected).  The other
  fields are what `encoding/json` leaves of it: the properties of the right type, the rest empty. -/
  typeErr : Bool := false
deriving Repr, DecidableEq

/-- `json.Decoder.Decode` into `indexResp` for a document that is a JSON object whose `filters` is
an array with the elements `es`.  On the tree as found one element of the wrong type makes `Decode`
return an `*json.UnmarshalTypeError` and `loadIndex` refuse the whole document (`lenient = false`);
with the fourth fix (`indexRespFilter.UnmarshalJSON` never fails) such an element is decoded to
what is left of it and is then an invalid entry like any other. -/
def decodeDoc (lenient : Bool) (es : List RawEntry) : Option (List RawEntry) :=
  if !lenient && es.any (·.typeErr) then none else some es

/-- `firstNonIDRune(s, true)` finds nothing at this byte: printable, non-blank ASCII other than a
slash.  Every byte of a multi-byte rune is ≥ 0x80 and the rune itself is > '~', so the test on bytes
and the test on runes agree. -/
def idByteOk (b : Nat) : Bool := decide (0x21 ≤ b) && decide (b ≤ 0x7e) && !(b == 0x2f)

/-- `filter.NewID` accepts: 1 to 128 bytes (`MinIDLen`, `MaxIDLen`), all of them `idByteOk`. -/
def idValid (k : List Nat) : Bool :=
  decide (1 ≤ k.length) && decide (k.length ≤ 128) && k.all idByteOk

/-- The names that are not the name of a file of a rule list's own in the cache directory: the
directory itself and its parent, the two index files, and the files of the safe-search and
hash-prefix filters, which are named after their fixed IDs (`isReservedKey`, third `fix:`). -/
def reservedNames : List (List Nat) :=
  [bytes ".", bytes "..", bytes "services.json", bytes "filters.json", bytes "adult_blocking",
   bytes "general_safe_search", bytes "newly_registered_domains", bytes "safe_browsing",
   bytes "youtube_safe_search"]

/-- `indexRespFilter.validate` and `agdhttp.ParseHTTPURL` as `toInternal` and
`keepInvalidRuleLists` see them.  `keyOk`: non-nil and `NewID` accepts the key (all that
`keepInvalidRuleLists` asks for); `urlOk`: everything else `toInternal` asks for — a non-empty URL
that parses and, on the tree with the third fix (`rejectReserved`), a key that is not reserved.
`num` names key strings by numbers. -/
def classify (rejectReserved : Bool) (num : List Nat → Nat) (e : RawEntry) : Entry :=
  { key := num e.key,
    keyOk := !e.null && idValid e.key,
    urlOk := !e.null && !e.urlEmpty && e.urlParses &&
      !(rejectReserved && reservedNames.contains e.key),
    url := e.url }

/-- `cmp.Compare(a, b) ≤ 0` on strings: lexicographic on bytes. -/
def bytesLe : List Nat → List Nat → Bool
  | [], _ => true
  | _ :: _, [] => false
  | x :: xs, y :: ys => if x < y then true else if y < x then false else bytesLe xs ys

/-- `a.compare(b) ≤ 0` (`indexRespFilter.compare`): nil entries sort after all others. -/
def rawLe (a b : RawEntry) : Bool :=
  if a.null then b.null else if b.null then true else bytesLe a.key b.key

/-- Insert `x`, which precedes all of the list in the document, into the sorted list: it moves in
front of exactly those entries that compare strictly greater. -/
def insertRaw (x : RawEntry) : List RawEntry → List RawEntry
  | [] => [x]
  | y :: ys => if rawLe x y then x :: y :: ys else y :: insertRaw x ys

/-- `slices.SortStableFunc(resp.Filters, (*indexRespFilter).compare)`. -/
def sortRaw : List RawEntry → List RawEntry
  | [] => []
  | x :: xs => insertRaw x (sortRaw xs)

/-- What `loadIndex` and the validation make of a decoded document: sorted, then classified. -/
def loadRaw (rejectReserved : Bool) (num : List Nat → Nat) (es : List RawEntry) : List Entry :=
  (sortRaw es).map (classify rejectReserved num)

/-! ### The cache directory as one name space

`St` keeps `filters.json`, `services.json` and the rule-list files in separate slots.  In the
directory they are names: a rule list with key `k` lives in `cacheDir/k`
(`filepath.Join(s.cacheDir, fltIDStr)`). -/

/-- The files of the cache directory by name. -/
abbrev Dir := List Nat → Option Nat

def Dir.write (d : Dir) (name : List Nat) (c : Nat) : Dir := fun x => if x = name then some c else d x

/-- The cache file of the rule list with key `k`. -/
def ruleListFile (k : List Nat) : List Nat := k

def indexFile : List Nat := bytes "filters.json"
def servicesFile : List Nat := bytes "services.json"

/-- The files a round writes for the entries `toInternal` lets through, given what each download
yields (`got e = some c`: the cache file of `e` is replaced by `c`). -/
def writeLists (rejectReserved : Bool) (got : RawEntry → Option Nat) (d : Dir) (es : List RawEntry) :
    Dir :=
  es.foldl (fun d e =>
    let c := classify rejectReserved (fun _ => 0) e
    if c.keyOk && c.urlOk then
      match got e with
      | some x => d.write (ruleListFile e.key) x
      | none => d
    else d) d

/-- `Default.refresh`: the new state and whether it returned `nil`. -/
def refreshStorage (E : Env) (cfg : Cfg) (s : St) (R : Round) : St × Bool :=
  let ir := refresh E cfg.idxMax R.acceptStale s.idxDisk R.idxFresh R.idxResp
  match ir.1 with
  | none => ({ s with idxDisk := ir.2 }, false)
  | some d =>
    match E.idx d with
    | none => ({ s with idxDisk := ir.2 }, false)
    | some es =>
      let a := newLists E cfg R s es
      if !cfg.svcEnabled then
        ({ s with idxDisk := ir.2, rlDisk := a.disk, rl := a.new }, true)
      else
        let sr := refresh E cfg.svcMax R.acceptStale s.svcDisk R.svcFresh R.svcResp
        match sr.1 with
        | none => ({ s with idxDisk := ir.2, rlDisk := a.disk, svcDisk := sr.2 }, false)
        | some c =>
          if svcResult E cfg c = .ok then
            ({ idxDisk := ir.2, rlDisk := a.disk, svcDisk := sr.2, svc := some c, rl := a.new },
              true)
          else ({ s with idxDisk := ir.2, rlDisk := a.disk, svcDisk := sr.2 }, false)

/-- `Default.refresh` panics (a nil `*indexRespService` is dereferenced) instead of returning: the
index was obtained and decoded, the lists were handled, the service index text was obtained, and
its conversion hits a `null` element on a tree without the nil check.  The files are then as
`refreshStorage` says (the service index has been stored before it is decoded), memory is as
before — but the refresh goroutine is gone, and a restart reads the same file again. -/
def refreshPanics (E : Env) (cfg : Cfg) (s : St) (R : Round) : Bool :=
  match (refresh E cfg.idxMax R.acceptStale s.idxDisk R.idxFresh R.idxResp).1 with
  | none => false
  | some d =>
    match E.idx d with
    | none => false
    | some _ =>
      cfg.svcEnabled &&
        match (refresh E cfg.svcMax R.acceptStale s.svcDisk R.svcFresh R.svcResp).1 with
        | none => false
        | some c => decide (svcResult E cfg c = .panic)

/-! ### A context cancelled during the round

`Default.refresh` looks at `ctx.Err()` after every `addRuleList` and returns the error, before
`keepInvalidRuleLists`, the services and `resetRuleLists`.  The context is modelled as cancelled
by the server at the moment the request for URL `u` arrives (the deadline of the refresh worker
expiring during that download): that download fails, and the loop is left.  Here the order in which
the entries are walked matters; the driver is given the entries in the sorted order of
`loadIndex`. -/

/-- The loop over the validated entries up to the entry whose download cancels the context:
the accumulator at that point and whether the context was cancelled. -/
def addUntilCancel (E : Env) (cfg : Cfg) (R : Round) (old : Nat → Option Nat) (u : Nat) :
    Acc → List Entry → Acc × Bool
  | a, [] => (a, false)
  | a, e :: es =>
    if (a.new e.key).isSome then addUntilCancel E cfg R old u a es
    else if e.url = u ∧ fromFile E R.acceptStale (R.fresh e.key) (a.disk e.key) = none then (a, true)
    else addUntilCancel E cfg R old u (addRuleList E cfg R old a e) es

/-- `Default.refresh` in a round in which the request for rule-list URL `u` cancels the context. -/
def refreshStorageCancel (E : Env) (cfg : Cfg) (s : St) (R : Round) (u : Nat) : St × Bool :=
  let ir := refresh E cfg.idxMax R.acceptStale s.idxDisk R.idxFresh R.idxResp
  match ir.1 with
  | none => ({ s with idxDisk := ir.2 }, false)
  | some d =>
    match E.idx d with
    | none => ({ s with idxDisk := ir.2 }, false)
    | some es =>
      let r := addUntilCancel E cfg R s.rl u ⟨fun _ => none, s.rlDisk⟩ (toInternal es)
      if r.2 then ({ s with idxDisk := ir.2, rlDisk := r.1.disk }, false)
      else refreshStorage E cfg s R

/-- A process restart: memory is gone, the cache directory stays. -/
def restart (s : St) : St := { s with rl := fun _ => none, svc := none }

/-- A history of rounds. -/
def run (E : Env) (cfg : Cfg) (s : St) (rs : List Round) : St :=
  rs.foldl (fun s R => (refreshStorage E cfg s R).1) s

/-! ## Hash-prefix filter -/

structure HSt where
  mem : Option Nat
  disk : Option Nat

/-- `hashprefix.Filter.refresh`. -/
def refreshHash (E : Env) (max : Nat) (acceptStale : Bool) (s : HSt) (fresh : Bool) (r : Resp) :
    HSt × Bool :=
  let rr := refresh E max acceptStale s.disk fresh r
  match rr.1 with
  | none => ({ s with disk := rr.2 }, false)
  | some c => if E.hashOk c then ({ mem := some c, disk := rr.2 }, true)
              else ({ s with disk := rr.2 }, false)

/-! ## Safe-search filters: the whole of `Default.refresh`

`Default.refresh` refreshes, after the rule lists and the blocked services and *before* the new
rule-list map is swapped in, the general and the YouTube safe-search filter
(`refreshSafeSearch`), each a `rulelist.Refreshable` with a cache file of its own
(`cacheDir/general_safe_search`, `cacheDir/youtube_safe_search`).  An error of either returns
before `resetRuleLists`. -/

/-- `rulelist.Refreshable.Refresh`: the text is compiled whatever it holds. -/
def refreshRL (E : Env) (max : Nat) (acceptStale : Bool) (s : HSt) (fresh : Bool) (r : Resp) :
    HSt × Bool :=
  let rr := refresh E max acceptStale s.disk fresh r
  match rr.1 with
  | none => ({ s with disk := rr.2 }, false)
  | some c => ({ mem := some c, disk := rr.2 }, true)

/-- The two safe-search filters. -/
structure SSt where
  gen : HSt
  yt : HSt

/-- The safe-search part of a round. -/
structure SRound where
  max : Nat
  genOn : Bool
  genFresh : Bool
  genResp : Resp
  ytOn : Bool
  ytFresh : Bool
  ytResp : Resp

/-- `refreshSafeSearch`: the general filter first; the YouTube filter only when that succeeded. -/
def ssPart (E : Env) (SR : SRound) (acceptStale : Bool) (ss : SSt) : SSt × Bool :=
  let g := if SR.genOn then refreshRL E SR.max acceptStale ss.gen SR.genFresh SR.genResp
           else (ss.gen, true)
  if g.2 then
    let y := if SR.ytOn then refreshRL E SR.max acceptStale ss.yt SR.ytFresh SR.ytResp
             else (ss.yt, true)
    ({ gen := g.1, yt := y.1 }, y.2)
  else ({ ss with gen := g.1 }, false)

/-- `Default.refresh` with the safe-search filters: `refreshStorage` is the part up to and
including the services (with the swap it would do when there were no safe-search filters); when a
safe-search refresh fails, the swap of the rule lists is taken back — it has not happened yet. -/
def refreshFull (E : Env) (cfg : Cfg) (s : St) (ss : SSt) (R : Round) (SR : SRound) :
    (St × SSt) × Bool :=
  let r := refreshStorage E cfg s R
  if r.2 then
    let p := ssPart E SR R.acceptStale ss
    if p.2 then ((r.1, p.1), true) else (({ r.1 with rl := s.rl }, p.1), false)
  else ((r.1, ss), false)

/-! ## File replacement in small steps (for kill points) -/

/-- The two places `refreshFromURL` writes to: the cache path and its own temporary file. -/
structure Fs (α : Type) where
  path : Option (List α)
  tmp : Option (List α)

inductive FsStep (α : Type) where
  /-- `renameio.TempFile` -/
  | createTemp
  /-- one `Write` of `io.Copy` into the temporary file -/
  | write (chunk : List α)
  /-- `CloseAtomicallyReplace`: `rename(2)` of the temporary file over the cache path -/
  | rename
  /-- `Cleanup` -/
  | cleanup
  /-- `os.Chtimes` on the cache path -/
  | chtimes

def fsStep {α : Type} (fs : Fs α) : FsStep α → Fs α
  | .createTemp => { fs with tmp := some [] }
  | .write ch => { fs with tmp := fs.tmp.map (· ++ ch) }
  | .rename => match fs.tmp with
    | some t => { path := some t, tmp := none }
    | none => fs
  | .cleanup => { fs with tmp := none }
  | .chtimes => fs

def fsExec {α : Type} (fs : Fs α) (steps : List (FsStep α)) : Fs α := steps.foldl fsStep fs

/-- The file-system trace of one `refreshFromURL` call that received the chunks `chunks` and
then either succeeded (`ok`) or returned an error. -/
def fsTrace {α : Type} (chunks : List (List α)) (ok : Bool) : List (FsStep α) :=
  FsStep.createTemp :: (chunks.map FsStep.write ++
    (if ok then [FsStep.rename, FsStep.chtimes] else [FsStep.cleanup]))

/-! ## Failing file-system calls and several writers (fifth deepening)

`refreshFromURL` with a disk that does not cooperate, and several `refreshFromURL` calls for the
same cache path at the same time (the periodic refresh worker and a refresh asked for through the
debug API are not serialised): every call has a temporary file of its own (`renameio.TempFile`
opens it with `O_EXCL` under a random name). -/

/-- What the file system does to one `refreshFromURL` call. -/
inductive FsFault where
  | none
  /-- `renameio.TempFile` fails: the call returns before anything is created. -/
  | createFails
  /-- The `i`-th `Write` stores only its first `j` bytes and fails (full disk, quota, `EFBIG`):
  `io.Copy` returns the error, the deferred `Cleanup` removes the temporary file. -/
  | writeFails (i j : Nat)
  /-- `Sync`, `Close` or `rename(2)` inside `CloseAtomicallyReplace` fails:
  `withDeferredTmpCleanup` returns the error; no `Cleanup` follows. -/
  | replaceFails
  /-- `os.Chtimes` after the rename fails. -/
  | chtimesFails

/-- The file-system trace of one `refreshFromURL` call under a file-system fault. -/
def fsTraceF {α : Type} (chunks : List (List α)) (ok : Bool) : FsFault → List (FsStep α)
  | .none => fsTrace chunks ok
  | .createFails => []
  | .writeFails i j =>
    FsStep.createTemp :: ((chunks.take i).map FsStep.write ++
      [FsStep.write ((chunks.getD i []).take j), FsStep.cleanup])
  | .replaceFails =>
    FsStep.createTemp :: (chunks.map FsStep.write ++ (if ok then [] else [FsStep.cleanup]))
  | .chtimesFails => fsTrace chunks ok

/-- One cache path, one temporary file per writer. -/
structure MFs (α : Type) where
  path : Option (List α)
  tmp : Nat → Option (List α)

/-- Writer `s.1` performs the step `s.2`: it sees the cache path and its own temporary file. -/
def mfsStep {α : Type} (fs : MFs α) (s : Nat × FsStep α) : MFs α :=
  { path := (fsStep ⟨fs.path, fs.tmp s.1⟩ s.2).path
    tmp := fun w => if w = s.1 then (fsStep ⟨fs.path, fs.tmp s.1⟩ s.2).tmp else fs.tmp w }

def mfsExec {α : Type} (fs : MFs α) (tr : List (Nat × FsStep α)) : MFs α := tr.foldl mfsStep fs

/-- The steps of writer `w` within a schedule. -/
def proj {α : Type} (w : Nat) (tr : List (Nat × FsStep α)) : List (FsStep α) :=
  (tr.filter (fun s => s.1 == w)).map (fun s => s.2)

end Agd.Refresh
