import Agd.Gen.C18
/-! Tie theorems for C18: the source facts `Model/ConnLimit.lean` was written against still hold. -/
namespace Agd.Tie.C18
open Agd.Gen.C18

def expIncrement : String :=
  "{ if !c.isAccepting { return false } c.current++ c.isAccepting = c.current < c.stop return true }"
def expDecrement : String :=
  "{ c.current-- c.isAccepting = c.isAccepting || c.current <= c.resume }"

/-- `counter.increment` / `counter.decrement` are the four-line functions `Counter.increment` /
`Counter.decrement` translate. -/
theorem ctr_increment_src : ctr_increment_body = expIncrement := by decide
theorem ctr_decrement_src : ctr_decrement_body = expDecrement := by decide
/-- `limitListener.decrement` locks, decrements, then wakes *all* waiters (`Variant.wake = .broadcast`). -/
theorem dec_calls_src : dec_calls = "Lock,decrement,Broadcast" := by decide
/-- `limitListener.Close` broadcasts, and a second `Close` is refused by the `isClosed` guard. -/
theorem lclose_wake_src : lclose_wake = "Broadcast" := by decide
theorem lclose_guard_src : lclose_guard = "l.isClosed" := by decide
/-- The loop test looks at `isClosed` before touching the counter (`Variant.closedFirst = true`). -/
theorem inc_loop_src : inc_loop = "!l.isClosed && !l.counter.increment()" := by decide
theorem inc_return_src : inc_return = "l.isClosed" := by decide
/-- `Accept`: limiter first, then the underlying `Accept`, whose error gives the slot back. -/
theorem accept_calls_src : accept_calls = "increment,Accept,decrement" := by decide
theorem accept_conds_src : accept_conds = "isClosed | err != nil" := by decide
/-- `limitConn.Close` is guarded by a compare-and-swap and decrements once behind it. -/
theorem conn_close_guard_src : conn_close_guard = "!c.isClosed.CompareAndSwap(false, true)" := by decide
theorem conn_close_dec_src : conn_close_dec = "1" := by decide
/-- `New` rejects `Stop = 0` and `Resume > Stop` (the `WF` hypothesis of the theorems). -/
theorem new_guard_src : new_guard = "c == nil || c.Stop == 0 || c.Resume > c.Stop" := by decide
/-- `acceptTCPMsg` acquires the per-connection semaphore before submitting; the worker releases. -/
theorem tcp_msg_order_src : tcp_msg_order = "Acquire,Submit,Release" := by decide
theorem tcp_sema_size_src : tcp_sema_size = "s.conf.MaxPipelineCount" := by decide
theorem tcp_sema_guard_src : tcp_sema_guard = "s.conf.MaxPipelineEnabled" := by decide

/-- `limitListener.Close` works under the limiter's lock, closes the wrapped listener and broadcasts;
its only early return is the `isClosed` guard (an error of the wrapped `Close` does not skip the
flag and the broadcast: `Op.lclose l true`). -/
theorem lclose_calls_src : lclose_calls = "Lock,Unlock,Close,Broadcast" := by decide
theorem lclose_ifs_src : lclose_ifs = "l.isClosed" := by decide
/-- `limitConn.Close`: compare-and-swap, wrapped `Close`, `decrement`, with no other branch in
between (an error of the wrapped `Close` does not skip the decrement: `Op.close k true`). -/
theorem conn_close_calls_src : conn_close_calls = "CompareAndSwap,Close,decrement" := by decide
theorem conn_close_ifs_src : conn_close_ifs = "!c.isClosed.CompareAndSwap(false, true)" := by decide
/-- `limitListener.increment` waits on the condition variable under the lock. -/
theorem inc_calls_src : inc_calls = "Lock,Unlock,Wait" := by decide
/-- `ListenConfig.Listen` hands out the listener wrapped by the shared limiter. -/
theorem listen_return_src :
    listen_return = "c.limiter.Limit(l, dnsserver.MustServerInfoFromContext(ctx)), nil" := by decide

/-! ### Round 4: production wiring in `internal/cmd` (what `Model/ConnLimit.lean`'s `ConnLimitYaml` / `TcpYaml` / `Proto.wireTcp` transcribe) -/

/-- The builder keeps the limiter that `connLimitConfig.toInternal` makes … -/
theorem wire_builder_limiter_src : wire_builder_limiter = "c.ConnectionLimit.toInternal(b.baseLogger)" := by decide
/-- … and hands exactly that limiter to `dnssvc.New` (field `ConnLimiter` of the one `dnssvc.Config` literal). -/
def expDNSConf : String :=
  "&dnssvc.Config{ Handlers: dnsHdlrs, Cloner: b.cloner, ControlConf: b.controlConf, ConnLimiter: b.connLimit, NonDNS: b.webSvc, ErrColl: b.errColl, MetricsNamespace: b.mtrcNamespace, ServerGroups: b.serverGroups, HandleTimeout: b.conf.DNS.HandleTimeout.Duration, }"
theorem wire_builder_dnsconf_src : wire_builder_dnsconf = expDNSConf := by decide +kernel
/-- `toInternal`: nil when disabled; `Stop: c.Stop, Resume: c.Resume` otherwise. -/
theorem wire_tointernal_guard_src : wire_tointernal_guard = "!c.Enabled | err != nil" := by decide
def expNewArgs : String :=
  "&connlimiter.Config{ Logger: logger.With(slogutil.KeyPrefix, \"connlimiter\"), Stop: c.Stop, Resume: c.Resume, }"
theorem wire_tointernal_new_src : wire_tointernal_new = expNewArgs := by decide +kernel
/-- `connLimitConfig.validate` and `validateConnLimit` are the case lists `ConnLimitYaml.validate` follows. -/
theorem wire_validate_conn_src :
    wire_validate_conn = "c == nil | !c.Enabled | c.Stop == 0 | c.Resume == 0 | c.Resume > c.Stop | default" := by decide
theorem wire_validate_addrs_src : wire_validate_addrs = "!connLim.Enabled | connLim.Resume < n" := by decide
/-- `ratelimitTCPConfig.validate` checks the count whether or not the section is enabled. -/
theorem wire_validate_tcp_src :
    wire_validate_tcp = "errors.ErrNoValue | validatePositive(\"max_pipeline_count\", c.MaxPipelineCount)" := by decide
/-- `servers.toInternal`: one `agd.TCPConfig` from `ratelimit.tcp`, given to every protocol but DNSCrypt. -/
def expTCPConf : String :=
  "&agd.TCPConfig{ IdleTimeout: dnsConf.TCPIdleTimeout.Duration, MaxPipelineCount: ratelimitConf.TCP.MaxPipelineCount, MaxPipelineEnabled: ratelimitConf.TCP.Enabled, }"
theorem wire_tcpconf_src : wire_tcpconf = expTCPConf := by decide +kernel
theorem wire_tcpconf_cases_src : wire_tcpconf_cases = "agd.ProtoDNS | agd.ProtoDNSCrypt | default" := by decide
theorem wire_tcpconf_uses_src : wire_tcpconf_uses = "tcpConf" := by decide

end Agd.Tie.C18
