import Agd.Gen.C05
/-! Tie theorems for C05: the source facts the ECS model was written against still hold in /repo. -/
namespace Agd.Tie.C05
open Agd.Gen.C05

/-- `isECSDeclined` is "valid option with source length 0" (`Agd.ECS.declined`). -/
theorem declined_src : declined_rhs = "ri.ECS != nil && ri.ECS.Subnet.Bits() == 0" := by decide
/-- The subnet is looked up for `locFromReq`'s location and the ECS family (`Agd.ECS.mapped`). -/
theorem subnet_lookup_src : subnet_lookup_args = "loc, ecsFam" := by decide
/-- The upstream query gets `cr.subnet` with scope 0, as a request. -/
theorem upstream_set_ecs_src :
    upstream_set_ecs_args = "ecsReq, &dnsmsg.ECS{ Subnet: cr.subnet, Scope: 0, }, ecsFam, false" := by decide
/-- `respIsECSDependent`: scope 0 is never dependent, otherwise unless the name is a known fake. -/
theorem resp_is_ecs_src : resp_is_ecs_returns = "false | !FakeECSFQDNs.Has(fqdn)" := by decide
theorem resp_is_ecs_cond_src : resp_is_ecs_cond = "scope == 0" := by decide
/-- Answers that are not ECS-dependent are stored under the zero prefix of the family. -/
theorem unscoped_subnet_src : unscoped_subnet_rhs = "netutil.ZeroPrefix(ecsFam)" := by decide
theorem upstream_resp_set_src : upstream_resp_set_args = "resp, cr, respIsECS" := by decide
/-- Both response paths echo the client's own ECS data as a response (`scope = source length`). -/
theorem upstream_resp_ecs_src : upstream_resp_ecs_args = "resp, ri.ECS, ecsFam, true" := by decide
theorem cached_resp_ecs_src : cached_resp_ecs_args = "resp, ecs, ecsFam, true" := by decide
def locFromReqConds : String :=
  "ecs != nil && ecs.Location != nil | ctry == geoip.CountryNone && ri.Location != nil"
theorem loc_from_req_src : loc_from_req_conds = locFromReqConds := by decide
/-- `get`: no-ECS cache first; the ECS cache is skipped for declined requests. -/
theorem get_conds_src : get_conds = "ok | cr.isECSDeclined | ok" := by decide
theorem get_keys_src : get_keys = "cr, true" := by decide
theorem cache_key_cond_src : cache_key_cond = "respIsECSDependent" := by decide
/-- `toCacheKey` hashes (after the host) type and class as 16-bit values, the DO flag, the IPv6 flag
of the mapped subnet's address (`keyHead`), then — for the ECS-aware cache — every byte of that
address and the prefix length (`ekeyBytes`), else the opt-out flag (`nkeyBytes`). -/
theorem key_qtype_src : key_qtype_args = "buf[:2], cr.qType" := by decide
theorem key_qclass_src : key_qclass_args = "buf[2:4], cr.qClass" := by decide
theorem key_do_src : key_do_rhs = "mathutil.BoolToNumber[byte](cr.reqDO)" := by decide
theorem key_fam_src : key_fam_rhs = "mathutil.BoolToNumber[byte](addr.Is6())" := by decide
theorem key_addr_of_subnet_src : key_addr_rhs = "cr.subnet.Addr()" := by decide
theorem key_head_src : key_head_args = "buf[:]" := by decide
theorem key_addr_src : key_addr_args = "addr.AsSlice()" := by decide
theorem key_bits_src : key_bits_args = "byte(cr.subnet.Bits())" := by decide
theorem key_declined_src : key_declined_args = "mathutil.BoolToNumber[byte](cr.isECSDeclined)" := by decide
/-- (fix) `setECS` removes every other ECS option of the message. -/
theorem set_ecs_strip_src : set_ecs_strip = "1" := by decide
theorem rm_ecs_opts_src : rm_ecs_opts_args = "opt.Option, isECSOpt" := by decide
theorem set_ecs_conds_src : set_ecs_scope_cond = "err != nil | isResp | opt == nil" := by decide
def ecsDataConds : String :=
  "fam != netutil.AddrFamilyIPv4 && fam != netutil.AddrFamilyIPv6 | err != nil | !subnet.IsValid() | subnet.Masked() != subnet"
/-- `ecsData` checks family, address, prefix length and bits beyond the prefix, in this order. -/
theorem ecs_data_src : ecs_data_conds = ecsDataConds := by decide
theorem ecs_from_msg_src :
    ecs_from_msg_conds = "opt == nil | !ok | err != nil | subnet != (netip.Prefix{})" := by decide
/-- A `BadECSError` is answered with FORMERR. -/
theorem formerr_src : formerr_args = "req, dns.RcodeFormatError" := by decide
theorem location_ecs_src : location_ecs_call = "req" := by decide

/-- `ecsFamFromReq`: the family of the ECS option's address when there is one, else of the remote
address (`Agd.ECS.ecsFamOf`). -/
theorem ecs_fam_conds_src : ecs_fam_conds = "ecs != nil | addr.Is4()" := by decide
theorem ecs_fam_addr_src : ecs_fam_addr = "ecs.Subnet.Addr()" := by decide
/-- An opted-out request is mapped to the zero prefix of its family (`Agd.ECS.mapped`). -/
theorem declined_subnet_src : declined_subnet_rhs = "netutil.ZeroPrefix(ecsFam)" := by decide
/-- What a call computes about its request lives in an object of its own (`Agd.ECS.finish` takes the
request's own key). -/
theorem cache_req_from_pool_src : cache_req_from_pool = "mw.cacheReqPool.Get()" := by decide
/-- The answer is filtered, stored, and only then given the client's ECS option. -/
theorem upstream_resp_order_src : upstream_resp_order = "rmHopToHopData,mw.set,setECS,rw.WriteMsg" := by decide
/-- Only EDE options survive in stored answers (`Agd.ECS.rmHop`). -/
theorem not_ede_src : not_ede_return = "o.Option() != dns.EDNS0EDE" := by decide
/-- The location of the ECS option is that of its subnet's address (`Agd.ECS.locOf`). -/
theorem ecs_loc_lookup_src : ecs_loc_lookup_args = "ctx, subnet.Addr(), \"ecs\"" := by decide

/-! `geoip.File` (`Agd.ECS.GeoDB`). -/
theorem geo_loc_key_src : geo_loc_key_rhs = "newLocationKey(l.ASN, l.Country, l.TopSubdivision)" := by decide
theorem geo_sbl_lookup0_src : geo_sbl_lookup0 = "locSubnets[locKey]" := by decide
theorem geo_sbl_top_src : geo_sbl_top = "f.countryTopASNs[l.Country]" := by decide
theorem geo_sbl_lookup1_src :
    geo_sbl_lookup1 = "locSubnets[newLocationKey(l.ASN, CountryNone, \"\")]" := by decide
theorem geo_sbl_lookup2_src : geo_sbl_lookup2 = "ctrySubnets[l.Country]" := by decide
theorem geo_sbl_returns_src :
    geo_sbl_returns = "n, nil | n, nil | n, nil | netutil.ZeroPrefix(fam), nil" := by decide
theorem geo_sbl_cases_src :
    geo_sbl_cases = "netutil.AddrFamilyIPv4 | netutil.AddrFamilyIPv6 | default" := by decide
theorem geo_sbl_ctry4_src : geo_sbl_ctry4 = "f.ipv4CountrySubnets" := by decide
theorem geo_sbl_ctry6_src : geo_sbl_ctry6 = "f.ipv6CountrySubnets" := by decide
theorem geo_sbl_loc4_src : geo_sbl_loc4 = "f.ipv4LocationSubnets" := by decide
theorem geo_sbl_loc6_src : geo_sbl_loc6 = "f.ipv6LocationSubnets" := by decide
theorem geo_key_cases_src : geo_key_cases = "CountryRU,CountryUS,CountryCN,CountryIN | default" := by decide
def replaceConds : String :=
  "!ok | subnet.Bits() > desiredLength | dist(prev.Bits(), desiredLength) < dist(subnet.Bits(), desiredLength)"
theorem geo_replace_src : geo_replace_conds = replaceConds := by decide
theorem geo_desired4_src : geo_desired4 = "24" := by decide
theorem geo_desired6_src : geo_desired6 = "56" := by decide
theorem geo_loc_scan_src :
    geo_loc_scan_conds = "err != nil | !f.allTopASNs.Has(key.asn) | subnet.Addr().Is4() | err != nil" := by decide
theorem geo_loc_hack_cond_src : geo_loc_hack_conds = "n.Bits() < desiredLength" := by decide
theorem geo_loc_hack_src : geo_loc_hack_rhs = "netip.PrefixFrom(n.Addr(), desiredLength)" := by decide
theorem geo_ctry_hack_src : geo_ctry_hack_rhs = "netip.PrefixFrom(n.Addr(), desiredLength)" := by decide

/-- The locations of a request are looked up once, in `ratelimitmw.location`, and carried in the
request information (`Agd.ECS.Req.cl`, `.el`, `Agd.ECS.locate`). -/
theorem ri_loc_assign_src : ri_loc_assign = "loc, ecs" := by decide
theorem client_loc_lookup_src : client_loc_lookup_args = "ctx, remoteIP, \"client\"" := by decide
theorem loc_data_call_src : loc_data_call = "\"\", ip" := by decide

/-! The hashed tables (`Agd.ECS.hget`, `hkE`, `hkN`, `itemOf`). -/
/-- A hit must be present and stored for the same host name (`Agd.ECS.hget`). -/
theorem item_host_check_src : item_host_check_conds = "!ok | item.host != cr.host" := by decide
theorem item_get_src : item_get_rhs = "cache.Get(key)" := by decide
/-- The host name is hashed first, and it is the request's host (`H host bytes`). -/
theorem key_host_src : key_host_args = "cr.host" := by decide
theorem cr_host_src : cr_host_rhs = "ri.Host, ri.QType, ri.QClass" := by decide
/-- Entries are stored with the host name and an expiry (`Agd.ECS.itemOf`). -/
theorem set_item_src : set_item_args = "key, toCacheItem(cachedResp, cr.host), exp" := by decide

/-! `geoip.File.Refresh`. -/
/-- A refresh clears the location caches: afterwards `Data` answers from the new readers only. -/
theorem refresh_clears_src : refresh_clears = "f.hostCache.Clear,f.ipCache.Clear" := by decide
theorem refresh_readers_src : refresh_readers_rhs = "asn, country" := by decide
/-- Wave h: the caches are cleared AFTER the write lock has been taken (the unlock is deferred right
after it), which is after the new files have been read and the subnet maps rebuilt — the refresher
program `Agd.ECS.Refresh.codeProg`; the translated source (`Tie/TrC05.lean`: `refresh_success_trace`)
says the same about every run. -/
theorem refresh_order_src :
    refresh_order =
      "geoIPFromFile,geoIPFromFile,f.resetSubnetMappings,f.mu.Lock,f.mu.Unlock,f.hostCache.Clear,f.ipCache.Clear" := by
  decide
/-- `Data` probes the cache before taking the read lock; the look-ups in the readers AND `setCaches`
come after `RLock` (the `RUnlock` is deferred right after it): the `fill` step of the machine is atomic
with respect to the refresher's critical section. -/
theorem data_lock_order_src :
    data_lock_order = "f.ipCache.Get,f.mu.RLock,f.mu.RUnlock,f.lookupASN,f.setCtry,f.setCaches" := by decide
theorem set_caches_calls_src : set_caches_calls = "f.ipCache.Set,f.hostCache.Set" := by decide
/-- Networks without a country never enter the country maps (`GeoDB.ctryMap`). -/
theorem ctry_scan_src :
    ctry_scan_conds = "err != nil | c == CountryNone | subnet.Addr().Is4() | err != nil" := by decide

/-! `geoip.File.Data` and its location cache (`Agd.ECS.blockOf`, `dataCached`). -/
/-- The cache key is the first three bytes of an IPv4 address and the first seven of any other one:
a /24 resp. /56 block, nothing coarser (`Agd.ECS.blockOf`, `data_cache_block_local`). -/
theorem ipkey_returns_src : ipkey_returns = "[3]byte(a[:]) | [7]byte(a[:])" := by decide
theorem ipkey_cond_src : ipkey_cond = "ip.Is4()" := by decide
/-- An IPv4-mapped IPv6 address (possible in an ECS option of family 2) is turned into the IPv4
address BEFORE the cache key is computed, and the key is computed from the normalised address; a hit
returns without touching the databases, a miss looks the normalised address up and caches it. -/
theorem data_conds_src :
    data_conds = "ip == (netip.Addr{}) | ip.Is4In6() | ok | err != nil | err != nil" := by decide
theorem data_calls_src :
    data_calls = "netip.AddrFrom4,ipToCacheKey,f.ipCache.Get,f.lookupASN,f.setCtry,f.setCaches" := by decide
theorem data_key_arg_src : data_key_arg = "ip" := by decide
theorem data_norm_src : data_norm_rhs = "netip.AddrFrom4(ip.As4())" := by decide

/-! Names (`Agd.ECS.normalizeDomain`, `Req.host` vs `Req.qn`). -/
/-- The cache keys use the normalised host of the request information … -/
theorem reqinfo_host_src : reqinfo_host_rhs = "agdnet.NormalizeDomain(q.Name)" := by decide
/-- … while the fake-ECS list is asked about the question name as the message carries it. -/
theorem dep_name_arg_src : dep_name_arg = "scope, req.Question[0].Name" := by decide


/-! ## Round 4: the server around the handler, the builder -/

/-- `processLocationErr` returns the original error only when it is not a `BadECSError`; after the
FORMERR it returns the (annotated) error of the write alone (`Agd.ECS.formerrRunNew`). -/
theorem formerr_returns_src :
    formerr_returns = "origErr | errors.Annotate(err, \"writing formerr resp: %w\")" := by decide
/-- `serveDNSMsgInternal` answers every error of the handler with a SERVFAIL (`Agd.ECS.serverWrites`). -/
theorem server_err_conds_src :
    server_err_conds = "resp != nil | err != nil | err != nil | isNonCriticalNetError(err) | err != nil" := by decide
/-- A message that does not unpack is not answered (`Agd.ECS.WireOut.dropped`). -/
theorem server_unpack_returns_src : server_unpack_returns = "false | s.serveDNSMsg(ctx, req, rw)" := by decide
/-- DoH answers with what its non-writer holds, and the non-writer keeps the last message written
(`Agd.ECS.delivered`). -/
theorem doh_nonwriter_src : doh_nonwriter = "1" := by decide
theorem nonwriter_assign_src : nonwriter_assign = "{ r.req = req r.res = resp return nil }" := by decide
/-- `cacheConfig.toInternal` / `validate` (`Agd.ECS.CacheYAML.kind`, `valid`, `counts`). -/
theorem cache_to_internal_conds_src : cache_to_internal_conds = "c.Size == 0 | c.Type == cacheTypeSimple" := by decide
def cacheToInternalExpected : String :=
  "&dnssvc.CacheConfig{ MinTTL: c.TTLOverride.Min.Duration, ECSCount: c.ECSSize, NoECSCount: c.Size, Type: typ, OverrideCacheTTL: c.TTLOverride.Enabled, }"
theorem cache_to_internal_src : cache_to_internal_ecs = cacheToInternalExpected := rfl
def cacheValidateExpected : String :=
  "c == nil | c.Type != cacheTypeSimple && c.Type != cacheTypeECS | c.Size < 0 | c.Type == cacheTypeECS && c.ECSSize <= 0 | default"
theorem cache_validate_src : cache_validate_cases = cacheValidateExpected := rfl
/-- `wrapPreUpstreamMw`: only `CacheTypeECS` wraps the upstream handler in `ecscache`
(`Agd.ECS.upstreamExtra`), with the two sizes in their places. -/
theorem preupstream_cases_src : preupstream_cases = "CacheTypeNone | CacheTypeSimple | CacheTypeECS | default" := by decide
def preupstreamECSExpected : String :=
  "&ecscache.MiddlewareConfig{ Cloner: c.Cloner, Logger: c.BaseLogger.With(slogutil.KeyPrefix, \"ecscache\"), CacheManager: c.CacheManager, GeoIP: c.GeoIP, NoECSCount: conf.NoECSCount, ECSCount: conf.ECSCount, MinTTL: conf.MinTTL, OverrideTTL: conf.OverrideCacheTTL, }"
theorem preupstream_ecs_args_src : preupstream_ecs_args = preupstreamECSExpected := rfl

end Agd.Tie.C05
