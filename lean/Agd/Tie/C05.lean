import Agd.Gen.C05
/-! Tie theorems for C05: the source facts the ECS model was written against still hold in /repo. -/
namespace Agd.Tie.C05
open Agd.Gen.C05

/-- `isECSDeclined` is "valid option with source length 0" (`Agd.ECS.declined`). -/
theorem declined_src : declined_rhs = "ri.ECS != nil && ri.ECS.Subnet.Bits() == 0" := by decide
/-- The subnet is looked up for `locFromReq`'s location and the ECS family (`Agd.ECS.mapped`). -/
theorem subnet_lookup_src : subnet_lookup_args = "loc, ecsFam" := by decide
/-- The upstream query gets `cr.subnet` with scope 0, as a request. -/
theorem upstream_set_ecs_src :
    upstream_set_ecs_args = "ecsReq, &dnsmsg.ECS{ Subnet: cr.subnet, Scope: 0, }, ecsFam, false" := by decide
/-- `respIsECSDependent`: scope 0 is never dependent, otherwise unless the name is a known fake. -/
theorem resp_is_ecs_src : resp_is_ecs_returns = "false | !FakeECSFQDNs.Has(fqdn)" := by decide
theorem resp_is_ecs_cond_src : resp_is_ecs_cond = "scope == 0" := by decide
/-- Answers that are not ECS-dependent are stored under the zero prefix of the family. -/
theorem unscoped_subnet_src : unscoped_subnet_rhs = "netutil.ZeroPrefix(ecsFam)" := by decide
theorem upstream_resp_set_src : upstream_resp_set_args = "resp, cr, respIsECS" := by decide
/-- Both response paths echo the client's own ECS data as a response (`scope = source length`). -/
theorem upstream_resp_ecs_src : upstream_resp_ecs_args = "resp, ri.ECS, ecsFam, true" := by decide
theorem cached_resp_ecs_src : cached_resp_ecs_args = "resp, ecs, ecsFam, true" := by decide
def locFromReqConds : String :=
  "ecs != nil && ecs.Location != nil | ctry == geoip.CountryNone && ri.Location != nil"
theorem loc_from_req_src : loc_from_req_conds = locFromReqConds := by decide
/-- `get`: no-ECS cache first; the ECS cache is skipped for declined requests. -/
theorem get_conds_src : get_conds = "ok | cr.isECSDeclined | ok" := by decide
theorem get_keys_src : get_keys = "cr, true" := by decide
theorem cache_key_cond_src : cache_key_cond = "respIsECSDependent" := by decide
/-- `toCacheKey` hashes (after the host) type and class as 16-bit values, the DO flag, the IPv6 flag
of the mapped subnet's address (`keyHead`), then — for the ECS-aware cache — every byte of that
address and the prefix length (`ekeyBytes`), else the opt-out flag (`nkeyBytes`). -/
theorem key_qtype_src : key_qtype_args = "buf[:2], cr.qType" := by decide
theorem key_qclass_src : key_qclass_args = "buf[2:4], cr.qClass" := by decide
theorem key_do_src : key_do_rhs = "mathutil.BoolToNumber[byte](cr.reqDO)" := by decide
theorem key_fam_src : key_fam_rhs = "mathutil.BoolToNumber[byte](addr.Is6())" := by decide
theorem key_addr_of_subnet_src : key_addr_rhs = "cr.subnet.Addr()" := by decide
theorem key_head_src : key_head_args = "buf[:]" := by decide
theorem key_addr_src : key_addr_args = "addr.AsSlice()" := by decide
theorem key_bits_src : key_bits_args = "byte(cr.subnet.Bits())" := by decide
theorem key_declined_src : key_declined_args = "mathutil.BoolToNumber[byte](cr.isECSDeclined)" := by decide
/-- (fix) `setECS` removes every other ECS option of the message. -/
theorem set_ecs_strip_src : set_ecs_strip = "1" := by decide
theorem rm_ecs_opts_src : rm_ecs_opts_args = "opt.Option, isECSOpt" := by decide
theorem set_ecs_conds_src : set_ecs_scope_cond = "err != nil | isResp | opt == nil" := by decide
def ecsDataConds : String :=
  "fam != netutil.AddrFamilyIPv4 && fam != netutil.AddrFamilyIPv6 | err != nil | !subnet.IsValid() | subnet.Masked() != subnet"
/-- `ecsData` checks family, address, prefix length and bits beyond the prefix, in this order. -/
theorem ecs_data_src : ecs_data_conds = ecsDataConds := by decide
theorem ecs_from_msg_src :
    ecs_from_msg_conds = "opt == nil | !ok | err != nil | subnet != (netip.Prefix{})" := by decide
/-- A `BadECSError` is answered with FORMERR. -/
theorem formerr_src : formerr_args = "req, dns.RcodeFormatError" := by decide
theorem location_ecs_src : location_ecs_call = "req" := by decide

end Agd.Tie.C05
