import Agd.Gen.C13
/-! Tie theorems for C13: the source facts the refresh model was written against still hold. -/
namespace Agd.Tie.C13
open Agd.Gen.C13

/-- `refreshFromURL`: temporary file first, deferred clean-up/replace, then GET, status check,
copy, and the empty-body guard last — the guard order of `Agd.Refresh.fromURL`. -/
theorem from_url_calls_src :
    from_url_calls = "renameio.TempFile,withDeferredTmpCleanup,Get,Get,CheckStatus,io.Copy,Len" := by decide
theorem from_url_status_src : from_url_status = "resp, http.StatusOK" := by decide
/-- The body is read through the size limiter into the text and the temporary file at once. -/
theorem from_url_copy_src : from_url_copy = "mw, ioutil.LimitReader(resp.Body, f.maxSize.Bytes())" := by decide
theorem from_url_writer_src : from_url_writer = "b, tmpFile" := by decide
theorem from_url_conds_src :
    from_url_conds = "err != nil | err != nil | err != nil | err != nil | b.Len() == 0" := by decide
/-- On an error the temporary file is removed; the cache path is replaced only without one. -/
theorem cleanup_conds_src : cleanup_conds = "returned != nil | err != nil" := by decide
theorem cleanup_calls_src : cleanup_calls = "Cleanup,CloseAtomicallyReplace,os.Chtimes" := by decide
/-- Staleness: the file is used iff `acceptStale` or `mtime + staleness > now`. -/
theorem from_file_src : from_file_stale =
    "errors.Is(err, os.ErrNotExist) | err != nil | !acceptStale | err != nil | !mtime.Add(f.staleness).After(updTime) | err != nil" := by
  rfl
/-- An empty text from the cache file means "download". -/
theorem use_cached_src : use_cached_conds = "err != nil | text == \"\" | err != nil" := by decide
/-- `Default.refresh`: index, entries, lists, kept lists, services, safe search, and the swap last. -/
theorem storage_refresh_src : storage_refresh_calls =
    "loadIndex,toInternal,addRuleList,keepInvalidRuleLists,refreshServices,refreshSafeSearch,resetRuleLists" := by
  decide
/-- Both error branches of `addRuleList` keep the previous list. -/
theorem add_rule_list_calls_src :
    add_rule_list_calls = "NewRefreshable,setPrevRuleList,Refresh,setPrevRuleList" := by decide
theorem add_rule_list_conds_src : add_rule_list_conds = "ok | err != nil | err != nil" := by decide
theorem keep_invalid_src : keep_invalid_conds = "rf == nil | err != nil | !ok" := by decide
theorem set_prev_src : set_prev_cond = "ok" := by decide
/-- `toInternal` skips (continues past) entries failing either validation. -/
theorem to_internal_src : to_internal_conds = "err != nil | err != nil" := by decide
/-- `serviceblock.Filter.Refresh` assigns the services only after both error returns. -/
theorem svc_refresh_src : svc_refresh_returns = "err | err | nil" := by decide
/-- `hashprefix.Filter.refresh`: download, then `Reset`, then the cache clear (`clearCache` since the C12 fix). -/
theorem hash_refresh_src : hash_refresh_calls = "Refresh,Reset,clearCache" := by decide
/-- `Storage.Reset` stores the new map after the scanner-error return. -/
theorem hash_reset_src : hash_reset_store = "Err,Store" := by decide

/-- A nil service (JSON `null`) is an error, checked before the first dereference (second fix). -/
theorem svc_entry_src :
    svc_entry_conds = "svc == nil | err != nil | len(svc.Rules) == 0 | err != nil" := by decide
/-- `serviceblock.indexResp.toInternal`: no services is no error; every element is converted
(`continue` on error), the joined error refuses the whole index. -/
theorem svc_index_conds_src : svc_index_conds = "l == 0 | err != nil | err != nil" := by decide
def svcIndexReturns : String :=
  "nil, nil | nil, fmt.Errorf(\"converting blocked services: %w\", err) | services, nil"
theorem svc_index_returns_src : svc_index_returns = svcIndexReturns := by decide
/-- `Default.refresh` returns the error of the index, of a cancelled context, of the services and of
the safe-search filters before it reaches `resetRuleLists`. -/
def storageRefreshReturns : String :=
  "err | fmt.Errorf(\"after refreshing rule lists: %w\", ctxErr) | err | err | nil"
theorem storage_refresh_returns_src : storage_refresh_returns = storageRefreshReturns := by decide
/-- `rulelist.Refreshable.Refresh` leaves at a download error before it touches the engine. -/
theorem rulelist_refresh_conds_src : rulelist_refresh_conds = "err != nil | err != nil" := by decide
theorem rulelist_refresh_calls_src :
    rulelist_refresh_calls = "Refresh,filterlist.NewRuleStorage,Clear,urlfilter.NewDNSEngine" := by decide
/-- The cache file is read whole, whatever the size limit for downloads is. -/
theorem from_file_copy_src : from_file_copy = "b, file" := by decide

end Agd.Tie.C13
