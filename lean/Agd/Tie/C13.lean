import Agd.Gen.C13
/-! Tie theorems for C13: the source facts the refresh model was written against still hold. -/
namespace Agd.Tie.C13
open Agd.Gen.C13

/-- `refreshFromURL`: temporary file first, deferred clean-up/replace, then GET, status check,
copy, and the empty-body guard last — the guard order of `Agd.Refresh.fromURL`. -/
theorem from_url_calls_src :
    from_url_calls = "renameio.TempFile,withDeferredTmpCleanup,Get,Get,CheckStatus,io.Copy,Len" := by decide
theorem from_url_status_src : from_url_status = "resp, http.StatusOK" := by decide
/-- The body is read through the size limiter into the text and the temporary file at once. -/
theorem from_url_copy_src : from_url_copy = "mw, ioutil.LimitReader(resp.Body, f.maxSize.Bytes())" := by decide
theorem from_url_writer_src : from_url_writer = "b, tmpFile" := by decide
theorem from_url_conds_src :
    from_url_conds = "err != nil | err != nil | err != nil | err != nil | b.Len() == 0" := by decide
/-- On an error the temporary file is removed; the cache path is replaced only without one. -/
theorem cleanup_conds_src : cleanup_conds = "returned != nil | err != nil" := by decide
theorem cleanup_calls_src : cleanup_calls = "Cleanup,CloseAtomicallyReplace,os.Chtimes" := by decide
/-- Staleness: the file is used iff `acceptStale` or `mtime + staleness > now`. -/
theorem from_file_src : from_file_stale =
    "errors.Is(err, os.ErrNotExist) | err != nil | !acceptStale | err != nil | !mtime.Add(f.staleness).After(updTime) | err != nil" := by
  rfl
/-- An empty text from the cache file means "download". -/
theorem use_cached_src : use_cached_conds = "err != nil | text == \"\" | err != nil" := by decide
/-- `Default.refresh`: index, entries, lists, kept lists, services, safe search, and the swap last. -/
theorem storage_refresh_src : storage_refresh_calls =
    "loadIndex,toInternal,addRuleList,keepInvalidRuleLists,refreshServices,refreshSafeSearch,resetRuleLists" := by
  decide
/-- Both error branches of `addRuleList` keep the previous list. -/
theorem add_rule_list_calls_src :
    add_rule_list_calls = "NewRefreshable,setPrevRuleList,Refresh,setPrevRuleList" := by decide
theorem add_rule_list_conds_src : add_rule_list_conds = "ok | err != nil | err != nil" := by decide
theorem keep_invalid_src : keep_invalid_conds = "rf == nil | err != nil | !ok" := by decide
theorem set_prev_src : set_prev_cond = "ok" := by decide
/-- `toInternal` skips (continues past) entries failing either validation. -/
theorem to_internal_src : to_internal_conds = "err != nil | err != nil" := by decide
/-- `serviceblock.Filter.Refresh` assigns the services only after both error returns. -/
theorem svc_refresh_src : svc_refresh_returns = "err | err | nil" := by decide
/-- `hashprefix.Filter.refresh`: download, then `Reset`, then the cache clear (`clearCache` since the C12 fix). -/
theorem hash_refresh_src : hash_refresh_calls = "Refresh,Reset,clearCache" := by decide
/-- `Storage.Reset` stores the new map after the scanner-error return. -/
theorem hash_reset_src : hash_reset_store = "Err,Store" := by decide

/-- A nil service (JSON `null`) is an error, checked before the first dereference (second fix). -/
theorem svc_entry_src :
    svc_entry_conds = "svc == nil | err != nil | len(svc.Rules) == 0 | err != nil" := by decide
/-- `serviceblock.indexResp.toInternal`: no services is no error; every element is converted
(`continue` on error), the joined error refuses the whole index. -/
theorem svc_index_conds_src : svc_index_conds = "l == 0 | err != nil | err != nil" := by decide
def svcIndexReturns : String :=
  "nil, nil | nil, fmt.Errorf(\"converting blocked services: %w\", err) | services, nil"
theorem svc_index_returns_src : svc_index_returns = svcIndexReturns := by decide
/-- `Default.refresh` returns the error of the index, of a cancelled context, of the services and of
the safe-search filters before it reaches `resetRuleLists`. -/
def storageRefreshReturns : String :=
  "err | fmt.Errorf(\"after refreshing rule lists: %w\", ctxErr) | err | err | nil"
theorem storage_refresh_returns_src : storage_refresh_returns = storageRefreshReturns := by decide
/-- `rulelist.Refreshable.Refresh` leaves at a download error before it touches the engine. -/
theorem rulelist_refresh_conds_src : rulelist_refresh_conds = "err != nil | err != nil" := by decide
theorem rulelist_refresh_calls_src :
    rulelist_refresh_calls = "Refresh,filterlist.NewRuleStorage,Clear,urlfilter.NewDNSEngine" := by decide
/-- The cache file is read whole, whatever the size limit for downloads is. -/
theorem from_file_copy_src : from_file_copy = "b, file" := by decide

/-! ### The decoded index (third deepening): `validate`, `NewID`, `compare`, file names -/

/-- `validate`: nil, empty URL, `NewID`, and (third fix) the reserved keys — `Agd.Refresh.classify`. -/
theorem validate_conds_src :
    validate_conds = "f == nil | f.DownloadURL == \"\" | err != nil | isReservedKey(f.Key)" := by decide
def reservedCases : String :=
  "\".\",\"..\",indexFileNameBlockedServices,indexFileNameRuleLists,string(filter.IDAdultBlocking),string(filter.IDGeneralSafeSearch),string(filter.IDNewRegDomains),string(filter.IDSafeBrowsing),string(filter.IDYoutubeSafeSearch) | default"
/-- The reserved keys are `Agd.Refresh.reservedNames`, by the values of the constants below. -/
theorem reserved_cases_src : reserved_cases = reservedCases := by rfl
theorem index_file_name_src : index_file_name = "\"filters.json\"" := by decide
theorem services_file_name_src : services_file_name = "\"services.json\"" := by decide
theorem id_adult_src : id_adult = "\"adult_blocking\"" := by decide
theorem id_safe_browsing_src : id_safe_browsing = "\"safe_browsing\"" := by decide
theorem id_new_reg_src : id_new_reg = "\"newly_registered_domains\"" := by decide
theorem id_ss_general_src : id_ss_general = "\"general_safe_search\"" := by decide
theorem id_ss_youtube_src : id_ss_youtube = "\"youtube_safe_search\"" := by decide
/-- `compare`: nil entries after all others, otherwise `cmp.Compare` of the key strings —
`Agd.Refresh.rawLe`; `loadIndex` sorts stably with it — `Agd.Refresh.sortRaw`. -/
theorem compare_conds_src : compare_conds = "f == nil | other == nil | other == nil" := by decide
theorem compare_returns_src : compare_returns = "0 | 1 | -1 | cmp.Compare(f.Key, other.Key)" := by decide
theorem load_index_sort_src : load_index_sort = "resp.Filters, (*indexRespFilter).compare" := by decide
/-- The cache file of a rule list (and of a safe-search filter) is the cache directory joined with
its ID — `Agd.Refresh.ruleListFile`. -/
theorem rule_list_cache_path_src : rule_list_cache_path = "s.cacheDir, fltIDStr" := by decide
theorem safe_search_cache_path_src : safe_search_cache_path = "cacheDir, fltIDStr" := by decide
/-- `NewID`: 1 to 128 bytes, every rune printable non-blank ASCII and no slash — `Agd.Refresh.idValid`. -/
theorem new_id_conds_src : new_id_conds = "err != nil | i != -1" := by decide
theorem new_id_len_args_src : new_id_len_args = "len(s), MaxIDLen, MinIDLen, unitByte" := by decide
theorem id_len_cases_src : id_len_cases = "n > max | n < min | default" := by decide
theorem max_id_len_src : max_id_len = "128" := by decide
theorem min_id_len_src : min_id_len = "1" := by decide
theorem id_rune_cond_src : id_rune_cond = "r < '!' || r > '~' || (slashes && r == '/')" := by decide
/-- Fourth fix: `indexRespFilter.UnmarshalJSON` has one return, `nil` — an element of the wrong JSON
type never makes `Decode` fail (`Agd.Refresh.decodeDoc true`). -/
theorem index_entry_unmarshal_returns_src : index_entry_unmarshal_returns = "nil" := by decide

end Agd.Tie.C13
