import Agd.Gen.C08
/-! Tie theorems for C08: the source facts `Agd/Model/Normalize.lean` was written against still
hold in the repository's working tree. -/
namespace Agd.Tie.C08
open Agd.Gen.C08

/-- `maxDNSSize`: 65535 off UDP, otherwise `max(min(advertised, cap), 512)`. -/
theorem maxsize_guard_src : maxsize_net_guard = "network != NetworkUDP" := by decide
def maxsizeReturnsExpected : String :=
  "dns.MaxMsgSize | int(max(min(ednsUDPSize, maxMsgSize), dns.MinMsgSize))"
theorem maxsize_returns_src : maxsize_returns = maxsizeReturnsExpected := by decide

/-- `normalize` truncates to `maxDNSSize(network, 0 | advertised, cap)`. -/
theorem truncate_noopt_src : normalize_truncate_noopt = "resp, maxDNSSize(network, 0, maxMsgSize)" := by decide
theorem truncate_opt_src :
    normalize_truncate_opt = "resp, maxDNSSize(network, ednsUDPSize, maxMsgSize)" := by decide

/-- Order inside `normalize`: OPT rewrite / synthesis, then truncate, then padding. -/
def callOrderExpected : String :=
  "IsEdns0,truncate,IsEdns0,SetVersion,SetUDPSize,SetDo,filterUnsupportedOptions,truncate,HasPaddingSupport,padAnswer"
theorem call_order_src : normalize_call_order = callOrderExpected := by decide
def condsExpected : String :=
  "reqOpt == nil | respOpt != nil | reqOpt.Do() | proto.HasPaddingSupport()"
theorem conds_src : normalize_conds = condsExpected := by decide
theorem ttl_mask_src : normalize_ttl_mask = "0xff00" := by decide

/-- The synthesised OPT record carries the client's size in its class field (repaired code). -/
def synthExpected : String :=
  "&dns.OPT{ Hdr: dns.RR_Header{ Name: \".\", Rrtype: dns.TypeOPT, Class: ednsUDPSize, }, Option: filterUnsupportedOptions(reqOpt.Option), }"
set_option maxRecDepth 8192 in
theorem synth_opt_src : normalize_synth_opt = synthExpected := by decide

/-- AdGuard's `truncate`: `Msg.Truncate(size)`, then answers removed when TC is set. -/
theorem truncate_cond_src : truncate_cond = "resp.Truncated" := by decide
theorem truncate_answer_src : truncate_answer = "nil" := by decide
theorem truncate_call_src : truncate_call = "size" := by decide

/-- Only NSID and EXPIRE are reflected. -/
theorem filter_cases_src : filter_cases = "dns.EDNS0NSID,dns.EDNS0EXPIRE" := by decide

/-- Padding: 1..31 bytes, only when the client sent the option. -/
theorem pad_max_src : pad_max = "32" := by decide
theorem pad_len_src : pad_len = "rand.Intn(responsePaddingMaxSize-1) + 1" := by decide
def padCondsExpected : String :=
  "findOption[*dns.EDNS0_PADDING](reqOpt) == nil | paddingOpt != nil"
theorem pad_conds_src : pad_conds = padCondsExpected := by decide
theorem has_padding_src : has_padding_return = "p.IsStdEncrypted()" := by decide
theorem std_encrypted_src :
    std_encrypted_return = "p == ProtoDoT || p == ProtoDoH || p == ProtoDoQ" := by decide

/-- The caps each write path passes. -/
theorem normalize_tcp_src : normalize_tcp_args = "NetworkTCP, proto, req, resp, dns.MaxMsgSize" := by decide
theorem udp_write_src : udp_write_normalize = "NetworkUDP, ProtoDNS, req, resp, r.maxRespSize" := by decide
theorem dnscrypt_src : dnscrypt_normalize = "network, ProtoDNSCrypt, r, msg, h.srv.conf.MaxUDPRespSize" := by decide

/-- Round 5, production wiring of the configured maximum: `dns.max_udp_response_size` is validated
to 1..65535 bytes, converted once (`uint16(….Bytes())`), given to the plain-DNS *and* the DNSCrypt
servers, handed on by `dnssvc.NewListener`; a `ConfigDNSCrypt` that leaves it unset means 65535. -/
theorem dnscrypt_clamp_src : dnscrypt_clamp = "min(opt.UDPSize(), h.srv.conf.MaxUDPRespSize)" := by decide
theorem dnscrypt_clamp_cond_src :
    dnscrypt_clamp_cond = "written | opt != nil && network == NetworkUDP" := by decide
theorem dnscrypt_cap_default_src :
    dnscrypt_cap_default = "cmp.Or(conf.MaxUDPRespSize, dns.MaxMsgSize)" := by decide
theorem listener_dnscrypt_cap_src : listener_dnscrypt_cap = "udpConf.MaxRespSize" := by decide
def cmd_udp_conf_expected : String :=
  "&agd.UDPConfig{ MaxRespSize: uint16(dnsConf.MaxUDPResponseSize.Bytes()), }"
theorem cmd_udp_conf_src : cmd_udp_conf = cmd_udp_conf_expected := by decide
theorem cmd_udp_conf_dns_src : cmd_udp_conf_dns = "udpConf" := by decide
theorem cmd_udp_conf_dnscrypt_src : cmd_udp_conf_dnscrypt = "udpConf" := by decide
def cmd_dns_validate_expected : String :=
  "c == nil | c.ReadTimeout.Duration <= 0 | c.TCPIdleTimeout.Duration <= 0 | c.TCPIdleTimeout.Duration > dnsserver.MaxTCPIdleTimeout | c.WriteTimeout.Duration <= 0 | c.HandleTimeout.Duration <= 0 | c.MaxUDPResponseSize.Bytes() == 0 | c.MaxUDPResponseSize.Bytes() > dns.MaxMsgSize | default"
set_option maxRecDepth 16384 in
theorem cmd_dns_validate_src : cmd_dns_validate = cmd_dns_validate_expected := by decide
theorem quic_args_src : quic_normalize_args = "ProtoDoQ, msg, resp" := by decide
theorem https_args_src : https_normalize_args = "ProtoDoH, req, resp" := by decide

/-- TCP/DoT: normalize, keep-alive, guarded pack, write.  DoQ: normalize, guarded pack, write.
DoH packs without the length guard. -/
theorem tcp_order_src : tcp_write_order = "normalizeTCP,addTCPKeepAlive,packWithPrefix,Write" := by decide
theorem quic_order_src : quic_write_order = "normalizeTCP,packWithPrefix,Write" := by decide
theorem https_unguarded_src : https_has_prefix_guard = "0" := by decide
theorem pack_guard_src : pack_guard = "err != nil | l > dns.MaxMsgSize" := by decide

/-- Keep-alive only when request and response carry OPT and the request has the option. -/
def keepaliveGuardExpected : String :=
  "reqOpt == nil || respOpt == nil || findOption[*dns.EDNS0_TCP_KEEPALIVE](reqOpt) == nil"
theorem keepalive_guard_src : keepalive_guard = keepaliveGuardExpected := by decide
theorem keepalive_timeout_src :
    keepalive_timeout = "uint16(r.idleTimeout.Milliseconds() / 100)" := by decide

/-- DNSCrypt (repaired code): the SERVFAIL for a silent handler is built first and goes through the
one `normalize` call like every other response; DoQ does the same with `normalizeTCP`. -/
theorem dnscrypt_order_src :
    dnscrypt_write_order = "serveDNSMsg,genErrorResponse,normalize,WriteMsg" := by decide
theorem quic_silent_src : quic_silent = "serveDNSMsg,genErrorResponse,normalizeTCP" := by decide

/-- `acceptMsg` as modelled by `Agd.Normalize.acceptMsg`. -/
def acceptCondsExpected : String :=
  "m.Response | m.Opcode != dns.OpcodeQuery && m.Opcode != dns.OpcodeNotify | len(m.Question) != 1 | len(m.Answer) > 1 | len(m.Ns) > 1"
set_option maxRecDepth 8192 in
theorem accept_conds_src : accept_conds = acceptCondsExpected := by decide

/-- `serveDNSMsgInternal`: reject / not-implemented / ignore, handler error => SERVFAIL, with an
extended-error OPT only for a non-critical network error and only for a query that carries OPT. -/
theorem internal_cases_src :
    internal_cases = "dns.MsgReject | dns.MsgRejectNotImplemented | dns.MsgIgnore" := by decide
def internalCondsExpected : String :=
  "resp != nil | err != nil | err != nil | isNonCriticalNetError(err) | err != nil"
theorem internal_conds_src : internal_conds = internalCondsExpected := by decide
theorem ede_conds_src : ede_conds = "reqOpt == nil | respOpt == nil" := by decide
theorem generr_src : generr_call = "req, code" := by decide

/-- `miekg/dns` v1.1.62 `Msg.Truncate` / `truncateLoop` / `IsTsig` as modelled (`msgTruncate`,
`cutOver`, `truncLoop`, `tsigAtTruncate`). -/
def libTruncateExpected : String :=
  "dns.IsTsig() != nil | size < MinMsgSize | l <= size | edns0 != nil | l < size | l < size | l < size | edns0 != nil"
set_option maxRecDepth 8192 in
theorem lib_truncate_src : lib_truncate_conds = libTruncateExpected := by decide
theorem lib_truncloop_src : lib_truncloop_conds = "r == nil | l > size | l == size" := by decide
theorem lib_truncloop_returns_src :
    lib_truncloop_returns = "size, i | l, i + 1 | l, len(rrs)" := by decide
def libIsTsigExpected : String :=
  "len(dns.Extra) > 0 | dns.Extra[len(dns.Extra)-1].Header().Rrtype == TypeTSIG"
theorem lib_istsig_src : lib_istsig_conds = libIsTsigExpected := by decide

/-- The repaired `truncate`: answers removed when TC is set, then the options of the OPT record
removed when nothing else is left and the message is still too long (`dropOpts`). -/
def truncateCondsExpected : String :=
  "resp.Truncated | opt != nil && len(opt.Option) > 0 && len(resp.Answer)+len(resp.Ns)+len(resp.Extra) == 1 && resp.Len() > size"
set_option maxRecDepth 8192 in
theorem truncate_conds_src : truncate_conds = truncateCondsExpected := by decide
theorem truncate_drop_src : truncate_drop = "nil" := by decide

/-- `ameshkov/dnscrypt` v2.3.0 as modelled by `dcAccepts`, `dcSize`, `dcTruncate`, `dcPadded`,
`dcEncLen`, `dcPrefix` (read from the module cache). -/
def dcServeCondsExpected : String :=
  "r == nil || len(r.Question) != 1 || r.Response | handler == nil | err != nil"
theorem dc_serve_conds_src : dc_serve_conds = dcServeCondsExpected := by decide
theorem dc_norm_conds_src : dc_norm_conds = "res.Truncated && proto == \"udp\"" := by decide
theorem dc_norm_size0_src : dc_norm_size0 = "dnsSize(proto, req)" := by decide
theorem dc_norm_size1_src : dc_norm_size1 = "size - 64" := by decide
theorem dc_norm_call_src : dc_norm_call = "size" := by decide
theorem dc_dnssize_conds_src :
    dc_dnssize_conds = "o != nil | proto != \"udp\" | size < dns.MinMsgSize" := by decide
theorem dc_dnssize_returns_src :
    dc_dnssize_returns = "dns.MaxMsgSize | dns.MinMsgSize | int(size)" := by decide
theorem dc_pad_size0_src :
    dc_pad_size0 = "len(packet) + 1 + (64 - (len(packet)+1)%64)" := by decide
theorem dc_pad_size1_src : dc_pad_size1 = "max(minUDPQuestionSize, minQuestionSize)" := by decide
theorem dc_min_udp_question_src : dc_min_udp_question = "256" := by decide
theorem dc_udp_write_order_src : dc_udp_write_order = "normalize,encrypt,WriteToSessionUDP" := by decide
theorem dc_tcp_write_order_src : dc_tcp_write_order = "normalize,encrypt,writePrefixed" := by decide
theorem dc_prefix_args_src : dc_prefix_args = "l, uint16(len(b))" := by decide

/-- DoH: the GET form decodes the same wire format; one `writeResponse` (one `normalizeTCP`) serves
POST, GET and the JSON API; the JSON API's own query has an OPT record only for `do` / `sde`
(UDP size 65535). -/
theorem https_get_return_src :
    https_get_return = "base64.RawURLEncoding.DecodeString(b64[0])" := by decide
theorem https_write_calls_src : https_write_calls = "normalizeTCP,isDoH,Pack,dnsMsgToJSON" := by decide
theorem json_edns_args_src : json_edns_args = "dns.MaxMsgSize, do" := by decide
theorem json_edns_cond_src : json_edns_cond = "!do && !sde | sde" := by decide

/-- DoQ (`validQUICMsg`, model: `validQUICMsg`): a query whose OPT record carries the
edns-tcp-keepalive option is invalid; `serveQUICStream` tests it before anything is served. -/
theorem quic_valid_conds_src :
    quic_valid_conds = "opt != nil | option.Option() == dns.EDNS0TCPKEEPALIVE" := by decide
theorem quic_valid_returns_src : quic_valid_returns = "false | true" := by decide
theorem quic_stream_valid_cond_src :
    quic_stream_valid_cond = "err != nil | !validQUICMsg(msg) | !written | err != nil" := by decide

/-- `genErrorResponse` builds its message with `SetRcode` alone (the library's `SetReply` copies the
first question only — model: `errResp qe`). -/
theorem generr_calls_src : generr_calls = "SetRcode" := by decide

/-- Round 6: the size the DNSCrypt library reads is lowered in a *copy* of the request's OPT record
(`lowered.SetUDPSize`, the callee of `dnscrypt_clamp` is matched with its receiver), which
`replaceOPT` puts into a cloned additional section of the request: neither the record nor the
section a handler response may share with the request is written to. -/
theorem dnscrypt_lowered_src : dnscrypt_lowered = "replaceOPT(r, opt)" := by decide
set_option maxRecDepth 16384 in
theorem dnscrypt_replace_opt_src :
    dnscrypt_replace_opt_body =
      "{ optCopy = &dns.OPT{Hdr: opt.Hdr, Option: opt.Option} r.Extra = slices.Clone(r.Extra) for i, rr := range r.Extra { if rr == dns.RR(opt) { r.Extra[i] = optCopy } } return optCopy }" := by
  decide

end Agd.Tie.C08
