import Agd.Gen.C03
/-! Tie theorems for C03: the source facts the model `Agd/Model/Device.lean` was written against still hold in the repository. -/
namespace Agd.Tie.C03
open Agd.Gen.C03

/-- Only plain DNS, DoH, DoQ and DoT support device IDs (`supportsDeviceID`): DNSCrypt and anything else do not. -/
def supports_cases_expected : String :=
  "agd.ProtoDNS,agd.ProtoDoH,agd.ProtoDoQ,agd.ProtoDoT | default"
set_option maxRecDepth 16384 in
theorem supports_cases_src : supports_cases = supports_cases_expected := by decide
/-- `Find`: protocol gate, device-data error, then authentication of an OK result only. -/
theorem find_conds_src : find_conds = "!supportsDeviceID(f.srv.Protocol) | err != nil | ok" := by decide
def find_returns_expected : String :=
  "nil | &agd.DeviceResultError{ Err: err, } | f.authenticatedResult(ctx, srvReqInfo, r) | r"
set_option maxRecDepth 16384 in
theorem find_returns_src : find_returns = find_returns_expected := by decide
/-- `findDevice` drops results whose profile is deleted. -/
theorem finddevice_conds_src : finddevice_conds = "p.Deleted" := by decide
/-- `deviceFromDB` precedence: device ID, then human ID, then addresses on plain DNS only. -/
theorem fromdb_conds_src : fromdb_conds = "id != \"\" | extID != nil | f.srv.Protocol == agd.ProtoDNS" := by decide
/-- `deviceByAddrs`: dedicated address when bound to interfaces and the local address is not the server's own; else linked IP if enabled. -/
def byaddrs_conds_expected : String :=
  "f.srv.BindsToInterfaces() && !f.srv.HasAddr(laddr) | !f.srv.LinkedIPEnabled"
set_option maxRecDepth 16384 in
theorem byaddrs_conds_src : byaddrs_conds = byaddrs_conds_expected := by decide
/-- The linked-IP lookup uses the remote address. -/
theorem byaddrs_linked_args_src : byaddrs_linked_args = "ctx, remoteIP" := by decide
/-- The dedicated-IP lookup uses the local address. -/
theorem bylocal_args_src : bylocal_args = "ctx, laddr.Addr()" := by decide
/-- `authenticate` decision table (guards). -/
def auth_conds_expected : String :=
  "!conf.Enabled | f.srv.Protocol != agd.ProtoDoH | conf.DoHAuthOnly | userinfo == nil | conf.DoHAuthOnly | !set | !conf.PasswordHash.Authenticate(ctx, []byte(password))"
set_option maxRecDepth 16384 in
theorem auth_conds_src : auth_conds = auth_conds_expected := by decide
/-- `authenticate` decision table (results, in source order). -/
def auth_returns_expected : String :=
  "nil | ErrNotDoH | nil | ErrNoUserInfo | nil | ErrNoPassword | ErrAuthenticationFailed | nil"
set_option maxRecDepth 16384 in
theorem auth_returns_src : auth_returns = auth_returns_expected := by decide
theorem authres_cond_src : authres_cond = "err != nil" := by decide
/-- Encrypted standard transports read the server request info, the others EDNS. -/
theorem devicedata_cond_src : devicedata_cond = "f.srv.Protocol.IsStdEncrypted()" := by decide
/-- DoH data first; server name only under configured device domains. -/
def srvreqinfo_conds_expected : String :=
  "f.srv.Protocol == agd.ProtoDoH | id != \"\" || extID != nil || err != nil | len(f.deviceDomains) == 0 | err != nil"
set_option maxRecDepth 16384 in
theorem srvreqinfo_conds_src : srvreqinfo_conds = srvreqinfo_conds_expected := by decide
/-- The basic-auth user name is the device ID, verbatim. -/
theorem doh_userinfo_id_src : doh_userinfo_id = "userinfo.Username()" := by decide
/-- Userinfo before URL path. -/
theorem doh_conds_src : doh_conds = "userinfo != nil | err != nil | err != nil" := by decide
theorem match_domain_call_src : match_domain_call = "sub, domain" := by decide
/-- The label in front of the matched device domain: the text before the first dot of the name as sent
(`Model.Device.sniLabel`).  Before the fix this was a slice computed from the byte lengths of the
original name and of the domain matched against the *lowercased* name. -/
theorem sni_id_slice_src : sni_id_slice = "strings.Cut(cliSrvName, \".\")" := by decide
theorem edns_opt_conds_src : edns_opt_conds = "opt.Option() != DnsmasqCPEIDOption | !ok | err != nil" := by decide
/-- The first CPE-ID option decides. -/
theorem edns_loop_cond_src : edns_loop_cond = "option == nil | id != \"\" || err != nil" := by decide
def path_conds_expected : String :=
  "elems[0] == \"\" | l == 0 || elems[0] == \"\" | l > 2 | !strings.HasSuffix(dnsserver.PathDoH, elems[0]) && !strings.HasSuffix(dnsserver.PathJSON, elems[0])"
set_option maxRecDepth 16384 in
theorem path_conds_src : path_conds = path_conds_expected := by decide
/-- Two or more hyphens select the extended human-readable form. -/
theorem likely_ext_src : likely_ext = "strings.Count(s, \"-\") >= 2" := by decide
/-- `handleDeviceResult` stops only on unknown-dedicated and error results. -/
theorem handle_cases_src : handle_cases = "*agd.DeviceResultUnknownDedicated | *agd.DeviceResultError" := by decide
theorem handle_returns_src : handle_returns = "false, nil | false, res.Err | true, nil" := by decide
/-- `DeviceData` exposes a profile only for `DeviceResultOK`. -/
def ri_devicedata_body_expected : String :=
  "{ if r, ok := ri.DeviceResult.(*DeviceResultOK); ok { return r.Profile, r.Device } return nil, nil }"
set_option maxRecDepth 16384 in
theorem ri_devicedata_body_src : ri_devicedata_body = ri_devicedata_body_expected := by decide
theorem ri_devicedata_returns_src : ri_devicedata_returns = "r.Profile, r.Device | nil, nil" := by decide
/-- The DoH server always builds the userinfo with a password (possibly empty). -/
theorem http_userinfo_src : http_userinfo = "url.UserPassword(username, pass)" := by decide
theorem cpe_option_src : cpe_option = "65074" := by decide
theorem path_doh_src : path_doh = "\"/dns-query\"" := by decide
theorem path_json_src : path_json = "\"/resolve\"" := by decide
theorem max_device_id_len_src : max_device_id_len = "8" := by decide
theorem max_profile_id_len_src : max_profile_id_len = "8" := by decide

/-- `dnssvc.newDeviceFinder`: the empty finder iff the server group has profiles disabled (`findIn`). -/
theorem newfinder_cond_src : newfinder_cond = "!g.ProfilesEnabled" := by decide
/-- `newRequestInfo` passes remote then local address to `Find` and stores the result unconditionally. -/
theorem ri_find_args_src : ri_find_args = "ctx, req, raddr, localAddr" := by decide
theorem ri_result_rhs_src : ri_result_rhs = "mw.deviceFinder.Find(ctx, req, raddr, localAddr)" := by decide
/-- `Wrap` decides continuation on the stored result. -/
theorem wrap_handle_args_src : wrap_handle_args = "ctx, ri.DeviceResult" := by decide
/-- `addRequestInfo`: the server name comes from the TLS state only, the userinfo from a successful `BasicAuth()` only. -/
theorem addri_conds_src : addri_conds = "r.TLS != nil | ok" := by decide
theorem addri_sni_src : addri_sni = "r.TLS.ServerName" := by decide
/-- DoT: the server name handed to the finder is the TLS connection state's. -/
theorem dot_sni_src : dot_sni = "cs.ConnectionState().ServerName" := by decide
/-- `agd.Server.HasAddr` / `BindsToInterfaces` (`Srv.hasAddr`, `Srv.bindsToInterfaces`). -/
def hasaddr_conds_expected : String :=
  "prefAddr == nil | bd.AddrPort == addr | p.IsSingleIP() && p.Addr() == addr.Addr() && prefAddr.Port == addr.Port()"
set_option maxRecDepth 16384 in
theorem hasaddr_conds_src : hasaddr_conds = hasaddr_conds_expected := by decide
def binds_return_expected : String := "len(s.bindData) > 0 && s.bindData[0].PrefixAddr != nil"
set_option maxRecDepth 16384 in
theorem binds_return_src : binds_return = binds_return_expected := by decide
/-- `newDeviceResult` / `deviceByLocalAddr`: OK only on a nil error; not-found errors are "none" resp. "unknown dedicated". -/
theorem newres_conds_src : newres_conds = "err == nil | p == nil | isProfileDBNotFound(err)" := by decide
theorem bylocaladdr_conds_src : bylocaladdr_conds = "err == nil | !isProfileDBNotFound(err)" := by decide
def notfound_return_expected : String :=
  "errorIsOpt(err, profiledb.ErrDeviceNotFound) || errorIsOpt(err, profiledb.ErrProfileNotFound)"
set_option maxRecDepth 16384 in
theorem notfound_return_src : notfound_return = notfound_return_expected := by decide

/-- DoQ: the server name handed to the finder is the QUIC connection's TLS server name (DoT and DoH have their own facts). -/
def doq_sni_expected : String :=
  "&RequestInfo{ StartTime: time.Now(), TLSServerName: conn.ConnectionState().TLS.ServerName, }"
set_option maxRecDepth 16384 in
theorem doq_sni_src : doq_sni = doq_sni_expected := by decide
/-- Both addresses reach the finder through `netutil.NetAddrToAddrPort` (unmaps IPv4-mapped addresses; model: `unmapIP`). -/
theorem wrap_raddr_src : wrap_raddr = "netutil.NetAddrToAddrPort(rw.RemoteAddr())" := by decide
theorem ri_laddr_src : ri_laddr = "netutil.NetAddrToAddrPort(laddr)" := by decide
/-- The options are those of `req.IsEdns0()`: the last OPT record of the additional section (model: `ednsOfExtra`). -/
theorem edns_opt_source_src : edns_opt_source = "req.IsEdns0()" := by decide
/-- A device domain is the configured wildcard without its `*.` and nothing else (no case folding, no validation). -/
theorem wildcard_domain_src : wildcard_domain = "w, \"*.\"" := by decide

/-! Round 5: production wiring (`internal/cmd`), model: `srvOfConf`, `protoOfYAML`, `validWildcards`. -/
/-- A group's device domains are its own converted wildcards, its profile switch is its own `profiles_enabled`. -/
def srvgrp_literal_expected : String :=
  "&agd.ServerGroup{ DDR: g.DDR.toInternal(messages), DeviceDomains: deviceDomains, Name: agd.ServerGroupName(g.Name), FilteringGroup: fltGrpID, ProfilesEnabled: g.ProfilesEnabled, }"
set_option maxRecDepth 16384 in
theorem srvgrp_literal_src : srvgrp_literal = srvgrp_literal_expected := by decide
/-- The same list (declared inside the loop over the groups) goes to the group's servers (TLS metrics only). -/
theorem srvgrp_domains_src : srvgrp_domains = "btdMgr, tlsMgr, ratelimitConf, dnsConf, deviceDomains" := by decide
/-- A server's linked-IP switch and protocol are its own. -/
def srv_literal_expected : String :=
  "&agd.Server{ Name: name, ReadTimeout: dnsConf.ReadTimeout.Duration, WriteTimeout: dnsConf.WriteTimeout.Duration, LinkedIPEnabled: srv.LinkedIPEnabled, Protocol: srv.Protocol.toInternal(), }"
set_option maxRecDepth 16384 in
theorem srv_literal_src : srv_literal = srv_literal_expected := by decide
/-- `serverProto.toInternal` = `protoOfYAML`: names in this order map to these protocols, anything else to invalid. -/
theorem yaml_proto_cases_src :
    yaml_proto_cases = "srvProtoDNS | srvProtoDNSCrypt | srvProtoHTTPS | srvProtoQUIC | srvProtoTLS | default" := by decide
def yaml_proto_returns_expected : String :=
  "agd.ProtoDNS | agd.ProtoDNSCrypt | agd.ProtoDoH | agd.ProtoDoQ | agd.ProtoDoT | agd.ProtoInvalid"
set_option maxRecDepth 16384 in
theorem yaml_proto_returns_src : yaml_proto_returns = yaml_proto_returns_expected := by decide
theorem yaml_names_src : yaml_dns = "\"dns\"" ∧ yaml_dnscrypt = "\"dnscrypt\"" ∧ yaml_https = "\"https\"" ∧
    yaml_quic = "\"quic\"" ∧ yaml_tls = "\"tls\"" := by decide
/-- `validateDeviceIDWildcards` = `validWildcards`: every entry starts with `*.`, none twice. -/
theorem wildcard_guards_src : wildcard_guards = "!strings.HasPrefix(w, \"*.\") | s.Has(w)" := by decide

end Agd.Tie.C03
