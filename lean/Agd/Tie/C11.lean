import Agd.Gen.C11
/-! Tie theorems for C11: the source facts the hash-prefix model was written against. -/
namespace Agd.Tie.C11
open Agd.Gen.C11

/-- Hash prefixes are two bytes (`h.take 2` / `h.drop 2` in the model). -/
theorem prefix_len_src : prefix_len = "2" := by decide
/-- Four labels are hashed (`cut4`: at most three dots). -/
theorem sub_domain_num_src : sub_domain_num = "4" := by decide
/-- Legacy prefixes are eight characters. -/
theorem legacy_len_src : legacy_len = "8" := by decide
/-- `Reset` skips exactly blank lines and `#` comments, and fails only on a scanner error. -/
theorem reset_skip_src : reset_skip = "len(host) == 0 || host[0] == '#' | err != nil" := by decide
/-- `isFilterable`: HTTPS, or an address family (A / AAAA). -/
theorem filterable_conds_src : filterable_conds = "qt == dns.TypeHTTPS" := by decide
theorem filterable_returns_src :
    filterable_returns = "netutil.AddrFamilyNone, true | fam, fam != netutil.AddrFamilyNone" := by decide
/-- `hashableSubdomains`: loop while the suffix is not an ICANN one; stop at the first dot-less
suffix; count dots; cut; stop at the public suffix. -/
theorem subs_loop_src : subs_loop = "!icann" := by decide
theorem subs_conds_src : subs_conds = "!ok | r == '.' | i != -1 | s == pubSuf" := by decide
/-- `prefixesFromStr`: lengths 4 and 8 only; the legacy branch and the final loop both check the
encoding. -/
theorem prefixes_cases_src : prefixes_cases = "PrefixEncLen | legacyPrefixEncLen | default" := by decide
theorem prefixes_conds_src : prefixes_conds = "prefixesStr == \"\" | err != nil | err != nil" := by decide
/-- `MatchByPrefix`: suffix test, pass when nothing matched, error when the prefixes are bad. -/
theorem match_conds_src : match_conds = "strings.HasSuffix(host, suffix) | !matched | err != nil" := by decide
/-- `respondWithHashes`: error ⇒ REFUSED, not matched ⇒ next handler. -/
theorem respond_conds_src : respond_conds = "err != nil | !matched | err != nil | err != nil" := by decide
theorem respond_refused_src : respond_refused = "req, dns.RcodeRefused" := by decide
/-- The two production suffixes; neither is a suffix of the other. -/
theorem sb_suffix_src : sb_suffix = "\".sb.dns.adguard.com\"" := by decide
theorem pc_suffix_src : pc_suffix = "\".pc.dns.adguard.com\"" := by decide

/-- `Matches`: no bucket ⇒ false; a stored suffix matches when prefix ++ suffix is the whole digest. -/
theorem matches_conds_src : matches_conds = "!ok | buf == sum" := by decide
/-- `Hashes`: nothing for no prefixes; each answer is hex(prefix) followed by hex(suffix). -/
theorem hashes_conds_src : hashes_conds = "len(prefs) == 0" := by decide
theorem hashes_encode_pref_src : hashes_encode_pref = "buf[:], pref[:]" := by decide
theorem hashes_encode_suf_src : hashes_encode_suf = "buf[PrefixEncLen:], suf[:]" := by decide
/-- `Reset` looks at the scanner error before it installs the new map (`reset`: old map kept). -/
theorem reset_order_src : reset_order = "Err,Store" := by decide
/-- `NewStorage` resets unless the text is empty (`newStorage`). -/
theorem new_storage_conds_src : new_storage_conds = "hostnames != \"\" | err != nil" := by decide
/-- `hashableSubdomains`: the cut keeps what follows the fourth dot from the end (`cutScan`'s
`acc`), and the stop name and everything after it are dropped (`takeWhile`). -/
theorem subs_cut_src : subs_cut = "domain[i+1:]" := by decide
theorem subs_stop_src : subs_stop = "sub[:i]" := by decide
/-- A legacy piece is cut to its first four characters (`piece`). -/
theorem legacy_trunc_src : legacy_trunc = "s[:PrefixEncLen]" := by decide
/-- The prefix string is the host without the matched suffix (`matchByPrefix`). -/
theorem mbp_prefix_str_src : mbp_prefix_str = "host[:len(host)-len(suffix)]" := by decide
/-- `FilterRequest`: unfilterable types first; the first hashable name that `Matches`; an empty
match is no match (`filterRule`, `firstMatch`). -/
theorem filter_conds_src : filter_conds =
    "!isFlt | ok | item.matched == \"\" | matched == \"\" | err != nil" := by decide
/-- `refresh` resets the storage, then clears the result cache. -/
theorem refresh_order_src : refresh_order = "Reset,clearCache" := by decide
/-- preservice `Wrap`: only TXT questions reach `respondWithHashes` (`respond`: `qt = 16`). -/
theorem wrap_conds_src : wrap_conds = "ri.QType == dns.TypeTXT | err != nil | resp == nil | err != nil" := by decide
/-- The production matcher: each TXT suffix is served from the storage of its own filter. -/
theorem wire_adult_src : wire_adult = "b.adultBlockingHashes" := by decide
theorem wire_general_src : wire_general = "b.safeBrowsingHashes" := by decide

/-- The builder creates each list's storage, filter and TXT suffix only when its environment switch
is on (`builtCfg`, `builtLists`), hands the matcher map to `NewMatcher`, and copies the group's
switches field by field (`enabledLists` reads them). -/
theorem env_guard_adult_src : env_guard_adult = "!b.env.AdultBlockingEnabled" := by decide
theorem env_guard_newreg_src : env_guard_newreg = "!b.env.NewRegDomainsEnabled" := by decide
theorem env_guard_sb_src : env_guard_sb = "!b.env.SafeBrowsingEnabled" := by decide
theorem matcher_built_src : matcher_built = "hashprefix.NewMatcher(matchers)" := by decide
theorem grp_sb_danger_src : grp_sb_danger =
    "&filter.ConfigSafeBrowsing{ Enabled: c.Enabled, DangerousDomainsEnabled: c.BlockDangerousDomains, NewlyRegisteredDomainsEnabled: c.BlockNewlyRegisteredDomains, }" := by rfl
theorem grp_parental_src : grp_parental =
    "&filter.ConfigParental{ PauseSchedule: nil, BlockedServices: nil, Enabled: c.Enabled, AdultBlockingEnabled: c.BlockAdult, SafeSearchGeneralEnabled: c.GeneralSafeSearch, SafeSearchYouTubeEnabled: c.YoutubeSafeSearch, }" := by rfl

/-- `Hashes` reads the shared pointer once.  `Matches` reads it once and hands the map to
`matches`; `MatchesAny` reads it once, before its loop, and hands the same map to `matches` for
every host; `FilterRequest` asks `MatchesAny` once for all hashable subdomains: a lookup works on
one map, whatever `Reset` does meanwhile (`hashesLoads_snapshot`, `hashes_during_resets_spec`,
`firstMatchLoads_snapshot`, `filter_during_resets_spec`). -/
theorem hashes_loads_src : hashes_loads = "Load" := by decide
theorem matches_loads_src : matches_loads = "Load" := by decide
theorem matches_return_src : matches_return = "matches(*s.hashSuffixes.Load(), host)" := by decide
theorem matches_any_calls_src : matches_any_calls = "Load,matches" := by decide
theorem matches_any_map_src : matches_any_map = "*s.hashSuffixes.Load()" := by decide
theorem matches_any_conds_src : matches_any_conds = "matches(hashSuffixes, host)" := by decide
theorem filter_match_call_src : filter_match_call = "f.hashes.MatchesAny(hashableSubdomains(host))" := by decide
/-- `MatchByPrefix` hands all prefixes of the question to one `Hashes` call. -/
theorem mbp_hashes_args_src : mbp_hashes_args = "hashPrefixes" := by decide

/-- From the question to the host: `ri.Host` is `NormalizeDomain` of the question name (lower case,
one final dot dropped: `normalizeDomain`), and the filters get exactly `ri.Host`. -/
theorem normalize_domain_src : normalize_domain = "strings.ToLower(strings.TrimSuffix(fqdn, \".\"))" := by decide
theorem ri_host_src : ri_host = "agdnet.NormalizeDomain(q.Name)" := by decide
theorem flt_req_host_src : flt_req_host = "ri.Host" := by decide
/-- Which list a client's switches bring in (`enabledLists`): safe browsing as a whole, then the
dangerous-domains and the newly-registered filter each under its own switch; the adult filter under
parental control; and the order in which the composite filter asks them. -/
theorem set_sb_conds_src :
    set_sb_conds = "!c.Enabled | c.DangerousDomainsEnabled | c.NewlyRegisteredDomainsEnabled" := by decide
theorem set_sb_danger_src : set_sb_danger = "s.dangerous" := by decide
theorem set_sb_newreg_src : set_sb_newreg = "s.newlyRegistered" := by decide
theorem set_par_adult_src : set_par_adult = "s.adult" := by decide
theorem composite_order_src : composite_order = "f.reqFilters, c.SafeBrowsing" := by decide
theorem composite_order2_src : composite_order2 = "f.reqFilters, c.AdultBlocking" := by decide
theorem composite_order5_src : composite_order5 = "f.reqFilters, c.NewRegisteredDomains" := by decide

end Agd.Tie.C11
