import Agd.Gen.C11
/-! Tie theorems for C11: the source facts the hash-prefix model was written against. -/
namespace Agd.Tie.C11
open Agd.Gen.C11

/-- Hash prefixes are two bytes (`h.take 2` / `h.drop 2` in the model). -/
theorem prefix_len_src : prefix_len = "2" := by decide
/-- Four labels are hashed (`cut4`: at most three dots). -/
theorem sub_domain_num_src : sub_domain_num = "4" := by decide
/-- Legacy prefixes are eight characters. -/
theorem legacy_len_src : legacy_len = "8" := by decide
/-- `Reset` skips exactly blank lines and `#` comments, and fails only on a scanner error. -/
theorem reset_skip_src : reset_skip = "len(host) == 0 || host[0] == '#' | err != nil" := by decide
/-- `isFilterable`: HTTPS, or an address family (A / AAAA). -/
theorem filterable_conds_src : filterable_conds = "qt == dns.TypeHTTPS" := by decide
theorem filterable_returns_src :
    filterable_returns = "netutil.AddrFamilyNone, true | fam, fam != netutil.AddrFamilyNone" := by decide
/-- `hashableSubdomains`: loop while the suffix is not an ICANN one; stop at the first dot-less
suffix; count dots; cut; stop at the public suffix. -/
theorem subs_loop_src : subs_loop = "!icann" := by decide
theorem subs_conds_src : subs_conds = "!ok | r == '.' | i != -1 | s == pubSuf" := by decide
/-- `prefixesFromStr`: lengths 4 and 8 only; the legacy branch and the final loop both check the
encoding. -/
theorem prefixes_cases_src : prefixes_cases = "PrefixEncLen | legacyPrefixEncLen | default" := by decide
theorem prefixes_conds_src : prefixes_conds = "prefixesStr == \"\" | err != nil | err != nil" := by decide
/-- `MatchByPrefix`: suffix test, pass when nothing matched, error when the prefixes are bad. -/
theorem match_conds_src : match_conds = "strings.HasSuffix(host, suffix) | !matched | err != nil" := by decide
/-- `respondWithHashes`: error ⇒ REFUSED, not matched ⇒ next handler. -/
theorem respond_conds_src : respond_conds = "err != nil | !matched | err != nil | err != nil" := by decide
theorem respond_refused_src : respond_refused = "req, dns.RcodeRefused" := by decide
/-- The two production suffixes; neither is a suffix of the other. -/
theorem sb_suffix_src : sb_suffix = "\".sb.dns.adguard.com\"" := by decide
theorem pc_suffix_src : pc_suffix = "\".pc.dns.adguard.com\"" := by decide

end Agd.Tie.C11
