import Agd.Gen.TrC16
import Agd.Model.BillStat
/-!
# C16: the billing recorder and its uploader, as translated from the source

`Agd.Gen.TrC16.*` are regenerated from `internal/billstat/runtime.go` and
`internal/backendpb/billstat.go` on every run (`extract/tr.go`).  Maps are abstract: the entry read
from `r.records` is a parameter (`none` / `ok = false` = the device has no record), a store
`r.records[k] = v` is a trace entry `("set r.records[k]", k :: fields of v)`, and the record that the
code updates *in place* through the pointer it got from the map (`rec.Queries++`,
`curr.Queries += …`) is returned next to the trace (`"out"`).  `time.Time` is abstract too: the
assignment `rec.Time = start` is the trace entry `("set rec.Time", ["start"])`.

The theorems state the clauses of the property on the translated code and tie it to the hand-written
model (`Agd.BillStat.record`, `remerge`, `toWire`, `upload`) for all inputs.
-/
namespace Agd.Tie.TrC16
open Agd.Gen.TrC16 Agd.TrPrelude Agd.BillStat

abbrev Trace := List (String × List String)

theorem translation_complete : translationFailures = [] := by decide

/-- Names of the calls / stores in a trace. -/
def names (tr : Trace) : List String := tr.map (·.1)

/-- How a stored record appears in the trace: country, ASN, count, protocol. -/
def showRec (p : S_billstat_Record) : List String :=
  [p.Country, toString p.ASN, toString p.Queries, toString p.Proto]

/-- A record of the translated code as a record of the model (`cn` numbers the countries, `time` is
the value of the abstract `Time` field). -/
def absRec (cn : String → Nat) (time : Int) (p : S_billstat_Record) : Rec :=
  ⟨⟨time, cn p.Country, p.ASN.toNat, p.Proto.toNat⟩, p.Queries.toNat⟩

/-! ## `RuntimeRecorder.Record` -/

/-- First query of a device since the last cut: a record with `Queries = 1` and the query's country,
ASN and protocol is stored under the device's own id (and nothing else is stored). -/
theorem record_new (r : S_billstat_RuntimeRecorder) (id ctry : String) (asn proto : Int) :
    Recorder_Record r id ctry asn proto none =
      some (none, [("set r.records[id]", id :: showRec ⟨ctry, asn, 1, proto⟩), ("BufferSizeSet", ["_", "_"])]) := by
  simp [Recorder_Record, showRec]

/-- A device that already has a record: the shared record is updated in place — count plus one,
country, ASN, protocol overwritten by those of this query — and the only other effect is one store of
`start` (into the abstract `Time` field; `lbl` is its source text): nothing is stored into the map. -/
theorem record_existing (r : S_billstat_RuntimeRecorder) (id ctry : String) (asn proto : Int) (p : S_billstat_Record) :
    ∃ lbl, Recorder_Record r id ctry asn proto (some p) =
      some (some ⟨ctry, asn, p.Queries + 1, proto⟩, [(lbl, ["start"])]) := by
  unfold Recorder_Record
  exact ⟨_, rfl⟩

theorem record_never_panics (r : S_billstat_RuntimeRecorder) (id ctry : String) (asn proto : Int)
    (e : Option S_billstat_Record) : Recorder_Record r id ctry asn proto e ≠ none := by
  cases e <;> simp [Recorder_Record]

/-- Tie to the model, existing device: the record updated in place is `Agd.BillStat.record`'s. -/
theorem record_tr_existing (cn : String → Nat) (t : Recs) (d : Dev) (r : S_billstat_RuntimeRecorder)
    (id ctry : String) (asn proto time0 start : Int) (p : S_billstat_Record)
    (h : t d = some (absRec cn time0 p)) (hq : 0 ≤ p.Queries) :
    ∃ p' lbl, Recorder_Record r id ctry asn proto (some p) = some (some p', [(lbl, ["start"])]) ∧
      record t d ⟨start, cn ctry, asn.toNat, proto.toNat⟩ d = some (absRec cn start p') := by
  obtain ⟨lbl, hl⟩ := record_existing r id ctry asn proto p
  refine ⟨_, lbl, hl, ?_⟩
  simp only [record, h, put, absRec, if_true]
  congr 2
  omega

/-- Tie to the model, new device: the record stored is `Agd.BillStat.record`'s. -/
theorem record_tr_new (cn : String → Nat) (t : Recs) (d : Dev) (r : S_billstat_RuntimeRecorder)
    (id ctry : String) (asn proto start : Int) (h : t d = none) :
    ∃ p', Recorder_Record r id ctry asn proto none =
        some (none, [("set r.records[id]", id :: showRec p'), ("BufferSizeSet", ["_", "_"])]) ∧
      record t d ⟨start, cn ctry, asn.toNat, proto.toNat⟩ d = some (absRec cn start p') := by
  refine ⟨_, record_new r id ctry asn proto, ?_⟩
  simp [record, h, put, absRec]

example : (Recorder_Record ⟨⟩ "dev1" "NL" 64500 3 (some ⟨"DE", 1, 41, 1⟩)).map (·.1) =
    some (some ⟨"NL", 64500, 42, 3⟩) := by
  simp [Recorder_Record]

/-! ## One iteration of `remergeRecords` (the per-device rule; the loop runs over a map) -/

/-- The device has no newer record: the old record is put back whole under its own id. -/
theorem remerge_absent (r : S_billstat_RuntimeRecorder) (dev : String) (p : S_billstat_Record)
    (c : Option S_billstat_Record) :
    Recorder_remergeOne r dev (some p) (c, false) = some (c, [("set r.records[devID]", dev :: showRec p)]) := by
  simp [Recorder_remergeOne, showRec]

/-- The device has a newer record: the old count is added to it, its (newer) country, ASN and
protocol are kept, its time is not assigned, nothing is stored into the map. -/
theorem remerge_present (r : S_billstat_RuntimeRecorder) (dev : String) (p c : S_billstat_Record) :
    Recorder_remergeOne r dev (some p) (some c, true) =
      some (some { c with Queries := c.Queries + p.Queries }, []) := by
  simp [Recorder_remergeOne]

/-- The iteration panics exactly when the map holds a nil record for the device, or the old record
is nil while a newer one exists. -/
theorem remerge_no_panic_iff (r : S_billstat_RuntimeRecorder) (dev : String) (prev c : Option S_billstat_Record)
    (ok : Bool) :
    Recorder_remergeOne r dev prev (c, ok) ≠ none ↔ (ok = false ∨ (c ≠ none ∧ prev ≠ none)) := by
  cases ok <;> cases c <;> cases prev <;> simp [Recorder_remergeOne]

/-- Tie to the model: per device, the iteration computes `Agd.BillStat.remerge`. -/
theorem remerge_tr_absent (cn : String → Nat) (cur prv : Recs) (d : Dev) (r : S_billstat_RuntimeRecorder)
    (dev : String) (tp : Int) (p : S_billstat_Record) (hc : cur d = none) (hp : prv d = some (absRec cn tp p)) :
    Recorder_remergeOne r dev (some p) (none, false) = some (none, [("set r.records[devID]", dev :: showRec p)]) ∧
      remerge cur prv d = some (absRec cn tp p) := by
  refine ⟨remerge_absent r dev p none, ?_⟩
  simp [remerge, hc, hp]

theorem remerge_tr_present (cn : String → Nat) (cur prv : Recs) (d : Dev) (r : S_billstat_RuntimeRecorder)
    (dev : String) (tp tc : Int) (p c : S_billstat_Record)
    (hc : cur d = some (absRec cn tc c)) (hp : prv d = some (absRec cn tp p))
    (hqc : 0 ≤ c.Queries) (hqp : 0 ≤ p.Queries) :
    ∃ c', Recorder_remergeOne r dev (some p) (some c, true) = some (some c', []) ∧
      remerge cur prv d = some (absRec cn tc c') := by
  refine ⟨_, remerge_present r dev p c, ?_⟩
  simp only [remerge, hc, hp, absRec]
  congr 2
  omega

example : Recorder_remergeOne ⟨⟩ "dev1" (some ⟨"DE", 1, 40, 1⟩) (some ⟨"NL", 2, 2, 3⟩, true) =
    some (some ⟨"NL", 2, 42, 3⟩, []) := by
  simp [Recorder_remergeOne]

/-! ## `RuntimeRecorder.Refresh` -/

/-- The calls of `Refresh` that matter for the property, in the order they happen. -/
def core (tr : Trace) : List String :=
  (names tr).filter fun n => n ∈ ["Lock", "resetRecords", "Upload", "remergeRecords", "Unlock"]

/-- `Refresh` returns the uploader's error unchanged. -/
theorem refresh_returns_upload_error (r : S_billstat_RuntimeRecorder) (rs : AbsPtr) (now secs : Unit)
    (up : Option String) : (Recorder_Refresh r rs now up secs).1 = up := by
  cases up <;> simp [Recorder_Refresh]

/-- Successful upload: lock, cut the batch, upload, unlock — the batch is *not* merged back. -/
theorem refresh_success (r : S_billstat_RuntimeRecorder) (rs : AbsPtr) (now secs : Unit) :
    core (Recorder_Refresh r rs now none secs).2 = ["Lock", "resetRecords", "Upload", "Unlock"] := by
  simp [Recorder_Refresh, core, names]

/-- Failed upload: the batch that was cut is merged back, once, after the upload returned and before
`refreshMu` is released. -/
theorem refresh_failure (r : S_billstat_RuntimeRecorder) (rs : AbsPtr) (now secs : Unit) (e : String) :
    core (Recorder_Refresh r rs now (some e) secs).2 =
      ["Lock", "resetRecords", "Upload", "remergeRecords", "Unlock"] := by
  simp [Recorder_Refresh, core, names]

/-- The remerge happens exactly when the upload failed. -/
theorem refresh_remerge_iff (r : S_billstat_RuntimeRecorder) (rs : AbsPtr) (now secs : Unit) (up : Option String) :
    "remergeRecords" ∈ names (Recorder_Refresh r rs now up secs).2 ↔ up ≠ none := by
  cases up <;> simp [Recorder_Refresh, names]

/-- The metrics see the outcome of this upload. -/
theorem refresh_reports_outcome (r : S_billstat_RuntimeRecorder) (rs : AbsPtr) (now secs : Unit) (up : Option String) :
    ("HandleUploadDuration", ["_", "_", toString up.isNone]) ∈ (Recorder_Refresh r rs now up secs).2 := by
  cases up <;> simp [Recorder_Refresh]

/-! ## `backendpb.recordToProtobuf` and `BillStat.Upload` -/

/-- What goes on the wire for a record: its own id, country, protocol, ASN, and the count converted
with `uint32(·)`. -/
theorem toProtobuf_tr (p : S_billstat_Record) (dev : String) :
    recordToProtobuf (some p) dev =
      some (some { DeviceId := dev, ClientCountry := p.Country, Proto := p.Proto, Asn := p.ASN,
                   Queries := goWrapU 4294967296 p.Queries, sizeCache := 0, unknownFields := [] }) := by
  simp [recordToProtobuf]

theorem toProtobuf_no_panic_iff (r : Option S_billstat_Record) (dev : String) :
    recordToProtobuf r dev ≠ none ↔ r ≠ none := by
  cases r <;> simp [recordToProtobuf]

/-- Tie to the model's `toWire`: the count on the wire is `toU32` of the `int32` field. -/
theorem toProtobuf_queries_model (p : S_billstat_Record) (dev : String) (d : Dev) (m : Meta) (n : Nat)
    (h : p.Queries = wrap32 n) :
    ∃ w, recordToProtobuf (some p) dev = some (some w) ∧ w.Queries = ((toWire d ⟨m, n⟩).queries : Int) := by
  refine ⟨_, toProtobuf_tr p dev, ?_⟩
  simp only [toWire, toU32, goWrapU, h]
  omega

example : (recordToProtobuf (some ⟨"NL", 64500, -1, 3⟩) "dev1") =
    some (some ⟨0, [], "dev1", "NL", 3, 64500, 4294967295⟩) := by
  simp [recordToProtobuf, goWrapU]

/-- An empty batch: success at once; no stream is opened. -/
theorem upload_empty (b : S_backendpb_BillStat) (ctx : AbsPtr) (op cl : AbsPtr × Option String)
    (e4 e6 e8 e11 snd : Option String) (es : List (String × Option S_billstat_Record)) (is : Bool) :
    BillStat_Upload b 0 ctx op e4 es e6 snd e8 cl is e11 = (none, []) := by
  simp [BillStat_Upload]

/-- The stream cannot be opened: that error is returned (wrapped), nothing is sent. -/
theorem upload_open_fails (b : S_backendpb_BillStat) (n : Int) (hn : n ≠ 0) (ctx s : AbsPtr) (e : String)
    (cl : AbsPtr × Option String)
    (e4 e6 e8 e11 snd : Option String) (es : List (String × Option S_billstat_Record)) (is : Bool) :
    let res := BillStat_Upload b n ctx (s, some e) e4 es e6 snd e8 cl is e11
    res.1 = e4 ∧ names res.2 = ["ctxWithAuthentication", "SaveDevicesBillingStat"] := by
  simp [BillStat_Upload, hn, names]

/-- A loop whose body always continues is a left fold. -/
theorem goRangeFrom_next {α σ ρ : Type} (f : σ → Int → α → Step σ ρ) (g : σ → α → σ) (xs : List α)
    (h : ∀ s i x, x ∈ xs → f s i x = .next (g s x)) :
    ∀ i s, goRangeFrom i xs s f = .inl (xs.foldl g s) := by
  induction xs with
  | nil => intro i s; rfl
  | cons x xs ih =>
    intro i s
    have hx := h s i x (List.mem_cons_self ..)
    simp only [goRangeFrom, hx, List.foldl_cons]
    exact ih (fun s i y hy => h s i y (List.mem_cons_of_mem _ hy)) (i + 1) (g s x)

theorem foldl_send (es : List (String × Option S_billstat_Record)) (err : Option String) (tr : Trace) :
    es.foldl (fun (s : Option String × Trace) _ => (s.1, s.2 ++ [("Send", ["_"])])) (err, tr) =
      (err, tr ++ es.map fun _ => ("Send", ["_"])) := by
  induction es generalizing tr with
  | nil => simp
  | cons x xs ih => simp [ih, List.append_assoc]

/-- Every record is sent, one `Send` each, in the order of the iteration; then the stream is closed;
the call succeeds when the close succeeds or reports `io.EOF`, and otherwise returns that error. -/
theorem upload_sends_all (b : S_backendpb_BillStat) (n : Int) (hn : n ≠ 0) (ctx s c : AbsPtr)
    (ce e4 e6 e8 e11 : Option String) (es : List (String × Option S_billstat_Record)) (is : Bool)
    (hnn : ∀ kv ∈ es, kv.2 ≠ none) :
    let res := BillStat_Upload b n ctx (s, none) e4 es e6 none e8 (c, ce) is e11
    res.1 = (if ce.isSome && !is then e11 else none) ∧
    (names res.2).filter (fun x => x = "Send" ∨ x = "CloseAndRecv") =
      es.map (fun _ => "Send") ++ ["CloseAndRecv"] := by
  simp only [BillStat_Upload, goRange, hn, decide_false, Bool.false_eq_true, if_false, Option.isSome_none]
  rw [goRangeFrom_next _ (fun s _ => (s.1, s.2 ++ [("Send", ["_"])])) es (by
    intro s i x hx
    have := hnn x hx
    cases hx2 : x.2 <;> simp_all)]
  rw [foldl_send]
  cases hc : (ce.isSome && !is) <;> simp [names, List.filter_append, Function.comp_def] <;>
    (intro a _ _ _ h; exact Or.inl h.symm)

/-- A `Send` fails: that error is returned at once (wrapped) — the stream is not closed normally and
no further record is sent, so the caller sees a failed upload. -/
theorem upload_send_fails (b : S_backendpb_BillStat) (n : Int) (hn : n ≠ 0) (ctx s : AbsPtr) (e d : String)
    (p : S_billstat_Record) (rest : List (String × Option S_billstat_Record)) (cl : AbsPtr × Option String)
    (e4 e6 e8 e11 : Option String) (is : Bool) :
    let res := BillStat_Upload b n ctx (s, none) e4 ((d, some p) :: rest) e6 (some e) e8 cl is e11
    res.1 = e8 ∧ "CloseAndRecv" ∉ names res.2 ∧ (names res.2).filter (· = "Send") = ["Send"] := by
  simp [BillStat_Upload, hn, goRange, goRangeFrom, names]

/-- A nil record in the batch is reported to the error collector and skipped: nothing is sent for it. -/
theorem upload_nil_record_skipped (b : S_backendpb_BillStat) (n : Int) (hn : n ≠ 0) (ctx s : AbsPtr) (d : String)
    (cl : AbsPtr × Option String) (e4 e6 e8 e11 snd : Option String) (is : Bool) :
    let res := BillStat_Upload b n ctx (s, none) e4 [(d, none)] e6 snd e8 cl is e11
    "Send" ∉ names res.2 ∧ "Collect" ∈ names res.2 ∧ "CloseAndRecv" ∈ names res.2 := by
  cases h : (cl.2.isSome && !is) <;> simp [BillStat_Upload, hn, goRange, goRangeFrom, names, h]

example : (BillStat_Upload ⟨"key"⟩ 2 true (true, none) none [("a", some ⟨"NL", 1, 2, 3⟩), ("b", some ⟨"DE", 4, 5, 6⟩)]
    none none none (true, some "EOF") true none).1 = none := by
  simp [BillStat_Upload, goRange, goRangeFrom]

/-! ## `mainmw.recordQueryInfo`: the only caller of `billStat.Record` (round 3c)

Translated with the call trace; `DeviceData`, `responseData`, `responseCountry`, `Write` … are opaque calls
whose results are parameters, so the statements hold for every behaviour of theirs. -/

/-- Arguments of the calls of `f` in a trace. -/
def callsOf (f : String) (tr : Trace) : List (List String) := (tr.filter (·.1 = f)).map (·.2)

/-- Country and ASN handed to `Record`: those of `ri.Location`, the zero values without a location. -/
def locOf (ri : S_agd_RequestInfo) : String × Int :=
  match ri.Location with
  | none => ("", 0)
  | some g => (g.Country, g.ASN)

/-- **Billing clause on the translated source**, for every request, every result of the opaque calls
(profile flags, filtering outcome, response data, query-log error): `Record` is called exactly once when
the request has a profile — with the device's id, the country and ASN of `ri.Location` (zero values without
one) and the server's protocol, whatever `QueryLogEnabled`, `blocked` and the query log do — and never
without a profile; it is the fifth effect, before `responseData` and `Write`.  The only panic is a profile
without a device (`dev.ID`) or — with query logging — a nil profile pointer, which cannot happen there. -/
theorem recordQueryInfo_bills (mw : S_mainmw_Middleware) (fctx : S_mainmw_filteringContext) (ri : S_agd_RequestInfo)
    (fd : String × String × Bool) (prof : Option S_agd_Profile) (dev : Option S_agd_Device)
    (reqInfo : Option S_dnsserver_RequestInfo) (st : Unit) (rd1 rd2 : Int × Unit × Bool) (rip q : Unit)
    (ctry name : String) (since : Int) (werr : Option String) :
    match recordQueryInfo mw fctx ri fd (prof, dev) reqInfo st rd1 rd2 rip q ctry name since werr with
    | none => prof.isSome ∧ dev = none
    | some tr =>
      callsOf "Record" tr =
        (match prof, dev with
         | some _, some d => [["_", d.ID, (locOf ri).1, toString (locOf ri).2, "_", toString ri.Proto]]
         | _, _ => []) ∧
      (prof.isSome → (names tr).take 5 = ["filteringData", "Collect", "DeviceData", "MustRequestInfoFromContext", "Record"]) ∧
      (prof = none → names tr = ["filteringData", "Collect", "DeviceData"]) := by
  unfold recordQueryInfo locOf
  cases prof with
  | none => simp [callsOf, names]
  | some p =>
    cases dev with
    | none => simp
    | some d =>
      cases hl : ri.Location <;> cases hq : p.QueryLogEnabled <;> cases hb : fd.2.2 <;> cases hi : p.IPLogEnabled <;>
        cases werr <;> simp [callsOf, names, hq, hb, hi]

/-- **The model's `billOf` is what the translated `recordQueryInfo` does**: for every answered query of the
model, any rendering of its device and country numbers (`showD`, `showC` with `showC 0 = ""`), and every
behaviour of the opaque calls, the `Record` calls in the trace are exactly `billOf q` (none, or one with the
model's device, country, ASN and protocol). -/
theorem billOf_tr (showD showC : Nat → String) (hC0 : showC 0 = "") (q : Query) (hq : q.answered = true)
    (mw : S_mainmw_Middleware) (fctx : S_mainmw_filteringContext) (ri : S_agd_RequestInfo)
    (hproto : ri.Proto = q.proto)
    (hloc : ri.Location = q.loc.map fun l => { Country := showC l.1, Continent := "", TopSubdivision := "", ASN := l.2 })
    (prof : Option S_agd_Profile) (dev : Option S_agd_Device)
    (hprof : prof = none ↔ q.dev = none) (hdev : ∀ n, q.dev = some n → ∃ d, dev = some d ∧ d.ID = showD n)
    (fd : String × String × Bool) (reqInfo : Option S_dnsserver_RequestInfo) (st : Unit) (rd1 rd2 : Int × Unit × Bool)
    (rip qn : Unit) (ctry name : String) (since : Int) (werr : Option String) (tr : Trace)
    (h : recordQueryInfo mw fctx ri fd (prof, dev) reqInfo st rd1 rd2 rip qn ctry name since werr = some tr) :
    callsOf "Record" tr =
      match billOf q with
      | none => []
      | some (d, m) => [["_", showD d, showC m.ctry, toString (m.asn : Int), "_", toString (m.proto : Int)]] := by
  have key := recordQueryInfo_bills mw fctx ri fd prof dev reqInfo st rd1 rd2 rip qn ctry name since werr
  rw [h] at key
  rw [key.1]
  unfold billOf
  simp only [hq, Bool.not_true, Bool.false_eq_true, if_false]
  cases hd : q.dev with
  | none => rw [hprof.2 hd]
  | some n =>
    obtain ⟨d, rfl, hid⟩ := hdev n hd
    cases prof with
    | none => exact absurd (hprof.1 rfl) (by simp [hd])
    | some p =>
      cases hl : q.loc with
      | none => simp [locOf, hloc, hl, hid, hC0, hproto]
      | some l => simp [locOf, hloc, hl, hid, hproto]

/-- A non-trivial instance of the hypotheses: device 7 in country 3, AS 64500, over protocol 8. -/
example : billOf { dev := some 7, loc := some (3, 64500), start := 0, proto := 8, qlog := false } =
    some (7, ⟨0, 3, 64500, 8⟩) := by decide

end Agd.Tie.TrC16
#print axioms Agd.Tie.TrC16.recordQueryInfo_bills
#print axioms Agd.Tie.TrC16.billOf_tr
