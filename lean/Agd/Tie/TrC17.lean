import Agd.Gen.TrC17
import Agd.Model.Forward
/-!
# C17: the forwarding decisions, as translated from the source

`Agd.Gen.TrC17.*` are regenerated from `internal/dnsserver/forward/{forward,healthcheck,upstreamplain,
error}.go` on every run (`extract/tr.go`, spec option `"refs"`): an upstream, a message, a context …
is an *identity token* (`Option Int`: nil or a token), `time.Time` is a token (`0` = zero time),
slices are lists; library calls and calls of functions that themselves talk to the outside are
opaque — their results are parameters — and the definitions return the trace of such calls, in order,
with their scalar / token arguments.

Two kinds of theorems: clauses of the property stated directly on the translated code, for every
configuration and every result of the opaque calls; and equalities with the hand-written model
`Agd.Forward` (the definitions all C17 property theorems are about), for all model states.
-/
namespace Agd.Tie.TrC17
open Agd.Gen.TrC17 Agd.TrPrelude Agd.Forward

theorem translation_complete : translationFailures = [] := by decide

abbrev Trace := List (String × List String)

/-- Names of the calls in a trace. -/
def names (tr : Trace) : List String := tr.map (·.1)

/-- How often a call occurs in a trace. -/
def count (n : String) (tr : Trace) : Nat := ((names tr).filter (· == n)).length

/-- "The call does not panic and its results satisfy `P`". -/
def Returns {α : Type} (r : Option α) (P : α → Prop) : Prop :=
  match r with
  | none => False
  | some a => P a

/-! ## `ServeDNS` -/

/-- `h.rand.Intn(len(h.fallbacks))` kept its contract. -/
def InRange (i : Int) (n : Nat) : Prop := 0 ≤ i ∧ i.toNat < n

/-- The trace entry of `h.exchange(ctx, u, req)`. -/
def exch (ctx u req : Option Int) : String × List String :=
  ("exchange", [toString ctx, toString u, toString req])

/-- The trace entry of `rw.WriteMsg(ctx, req, resp)`. -/
def wrote (ctx req resp : Option Int) : String × List String :=
  ("WriteMsg", [toString ctx, toString req, toString resp])

theorem idx_of_inRange {α : Type} {i : Int} {l : List α} (hi : InRange i l.length) :
    goIndex? l i = some (l[i.toNat]'hi.2) := by
  have : ¬ i < 0 := by have := hi.1; omega
  simp [goIndex?, this, hi.2]

/-- **The chosen main upstream replies ⇒ its reply is what the client gets**: one exchange, with the
picked upstream; the response written is the one it returned; no fallback is touched (not even the
random index); the handler's error is the writer's. -/
theorem serve_main_reply_used (h : S_forward_Handler) (ctx rw req : Option Int) (u r : Int)
    (isNet : Bool) (i : Int) (fx : Option Int × Option String) (wr : Option String) :
    ∃ e, Handler_ServeDNS h ctx rw req (some u) (some r, none) isNet i fx wr
        = some (e, [("pickActiveUpstream", []), exch ctx (some u) req, wrote ctx req (some r)])
      ∧ (e = none ↔ wr = none) := by
  cases wr <;> simp [Handler_ServeDNS, exch, wrote]

/-- **Main fails with a network error and fallbacks exist ⇒ exactly one fallback attempt**, on
`h.fallbacks[Intn(len(h.fallbacks))]`; the client gets that fallback's reply, and an error (SERVFAIL)
iff the fallback failed too (error or no response) or the write failed. -/
theorem serve_netErr_fallback_once (h : S_forward_Handler) (ctx rw req : Option Int) (u : Int)
    (r0 : Option Int) (e0 : String) (i : Int) (fx : Option Int × Option String) (wr : Option String)
    (hi : InRange i h.fallbacks.length) :
    ∃ e, Handler_ServeDNS h ctx rw req (some u) (r0, some e0) true i fx wr
        = some (e, [("pickActiveUpstream", []), exch ctx (some u) req,
                    ("Intn", [toString (h.fallbacks.length : Int)]),
                    exch ctx (h.fallbacks[i.toNat]'hi.2) req]
                   ++ (if fx.2 = none ∧ fx.1 ≠ none then [wrote ctx req fx.1] else []))
      ∧ (e = none ↔ fx.2 = none ∧ fx.1 ≠ none ∧ wr = none) := by
  have hpos : 0 < h.fallbacks.length := by have := hi.2; omega
  obtain ⟨fr, fe⟩ := fx
  simp only [Handler_ServeDNS, idx_of_inRange hi]
  cases fe <;> cases fr <;> cases wr <;> simp [hpos, exch, wrote]

/-- **No main upstream is active ⇒ the query goes to one fallback and to no main upstream.** -/
theorem serve_no_active_main (h : S_forward_Handler) (ctx rw req : Option Int)
    (mx : Option Int × Option String) (isNet : Bool) (i : Int) (fx : Option Int × Option String)
    (wr : Option String) (hi : InRange i h.fallbacks.length) :
    ∃ e, Handler_ServeDNS h ctx rw req none mx isNet i fx wr
        = some (e, [("pickActiveUpstream", []), ("Intn", [toString (h.fallbacks.length : Int)]),
                    exch ctx (h.fallbacks[i.toNat]'hi.2) req]
                   ++ (if fx.2 = none ∧ fx.1 ≠ none then [wrote ctx req fx.1] else []))
      ∧ (e = none ↔ fx.2 = none ∧ fx.1 ≠ none ∧ wr = none) := by
  have hpos : 0 < h.fallbacks.length := by have := hi.2; omega
  obtain ⟨fr, fe⟩ := fx
  simp only [Handler_ServeDNS, idx_of_inRange hi]
  cases fe <;> cases fr <;> cases wr <;> simp [hpos, exch, wrote]

/-- **An error that is not a network error is final**: no fallback, the client gets an error. -/
theorem serve_other_error_final (h : S_forward_Handler) (ctx rw req : Option Int) (u : Int)
    (r0 : Option Int) (e0 : String) (i : Int) (fx : Option Int × Option String) (wr : Option String) :
    ∃ e, Handler_ServeDNS h ctx rw req (some u) (r0, some e0) false i fx wr
        = some (some e, [("pickActiveUpstream", []), exch ctx (some u) req]) := by
  simp [Handler_ServeDNS, exch]

/-- **Without configured fallbacks** nothing but the picked main is ever asked (and with no active
main nobody is): the outcome is the main's, whatever kind of error it made. -/
theorem serve_without_fallbacks (h : S_forward_Handler) (ctx rw req : Option Int) (ups : Option Int)
    (mx : Option Int × Option String) (isNet : Bool) (i : Int) (fx : Option Int × Option String)
    (wr : Option String) (h0 : h.fallbacks = []) :
    Returns (Handler_ServeDNS h ctx rw req ups mx isNet i fx wr) fun (e, tr) =>
      "Intn" ∉ names tr ∧ count "exchange" tr = (if ups = none then 0 else 1)
      ∧ (e = none ↔ ups ≠ none ∧ mx.2 = none ∧ mx.1 ≠ none ∧ wr = none) := by
  obtain ⟨mr, me⟩ := mx
  cases ups <;> cases me <;> cases mr <;> cases wr <;> cases isNet <;>
    simp [Handler_ServeDNS, h0, names, count, Returns]

/-- `ServeDNS` never asks more than two upstreams, draws at most one fallback index and writes at
most one response; it panics only if `Intn` breaks its contract. -/
theorem serve_at_most_two (h : S_forward_Handler) (ctx rw req ups : Option Int)
    (mx : Option Int × Option String) (isNet : Bool) (i : Int) (fx : Option Int × Option String)
    (wr : Option String) (hi : h.fallbacks ≠ [] → InRange i h.fallbacks.length) :
    Returns (Handler_ServeDNS h ctx rw req ups mx isNet i fx wr) fun (_, tr) =>
      count "exchange" tr ≤ 2 ∧ count "Intn" tr ≤ 1 ∧ count "WriteMsg" tr ≤ 1 := by
  by_cases h0 : h.fallbacks = []
  · obtain ⟨mr, me⟩ := mx
    cases ups <;> cases me <;> cases mr <;> cases wr <;> cases isNet <;>
      simp [Handler_ServeDNS, h0, names, count, Returns]
  · have hi := hi h0
    have hpos : 0 < h.fallbacks.length := by have := hi.2; omega
    obtain ⟨mr, me⟩ := mx
    obtain ⟨fr, fe⟩ := fx
    simp only [Handler_ServeDNS, idx_of_inRange hi]
    cases ups <;> cases me <;> cases mr <;> cases wr <;> cases isNet <;> cases fe <;> cases fr <;>
      simp [hpos, names, count, Returns]

/-! ### `ServeDNS` is the hand-written `Agd.Forward.serve` -/

/-- What `h.exchange` returns for a model outcome. -/
def encO : Outcome → Option Int × Option String
  | .reply r => (some (r : Int), none)
  | .netErr => (none, some "net")
  | .otherErr => (none, some "other")
  | .noResp => (none, none)

/-- `errors.As(err, &netErr)` for a model outcome. -/
def isNetO : Outcome → Bool
  | .netErr => true
  | _ => false

/-- The trace entries a model call stands for (`mt`/`ft`: tokens of main / fallback upstreams). -/
def callEntries (ctx req : Option Int) (mt ft : Nat → Int) (nFb : Nat) : Call → Trace
  | .main u => [exch ctx (some (mt u)) req]
  | .fb f => [("Intn", [toString (nFb : Int)]), exch ctx (some (ft f)) req]

def resEntries (ctx req : Option Int) : Res → Trace
  | .answered r => [wrote ctx req (some (r : Int))]
  | .servfail => []

theorem idx_nat {α : Type} (l : List α) (k : Nat) : goIndex? l (k : Int) = l[k]? := by
  have : ¬ ((k : Int) < 0) := by omega
  simp [goIndex?, this]

theorem idx_range {α : Type} (n k : Nat) (g : Nat → α) (hk : k < n) :
    goIndex? ((List.range n).map g) (k : Int) = some (g k) := by
  have : ¬ ((k : Int) < 0) := by omega
  simp [goIndex?, this, hk]

/-- For every model state, choice and behaviour of the upstreams, the translated `ServeDNS` (fed the
picked upstream and the outcomes the model is fed; the response writer succeeding) performs exactly
the exchanges of `Agd.Forward.serve`, in that order and with those upstreams, writes the response
the model answers with, and returns an error iff the model says SERVFAIL. -/
theorem serve_tr (c : Cfg) (s : St) (pick pickFb : Nat) (om ofb : Nat → Outcome)
    (h : S_forward_Handler) (ctx rw req : Option Int) (mt ft : Nat → Int)
    (hf : h.fallbacks = (List.range c.nFb).map (fun f => some (ft f))) :
    Returns (Handler_ServeDNS h ctx rw req ((pickActive s pick).map mt)
        (encO (om ((pickActive s pick).getD 0))) (isNetO (om ((pickActive s pick).getD 0)))
        ((pickFb % c.nFb : Nat) : Int) (encO (ofb (pickFb % c.nFb))) none) fun (e, tr) =>
      tr = [("pickActiveUpstream", [])]
            ++ (serve c s pick om pickFb ofb).calls.flatMap (callEntries ctx req mt ft c.nFb)
            ++ resEntries ctx req (serve c s pick om pickFb ofb).res
      ∧ (e = none ↔ (serve c s pick om pickFb ofb).res ≠ .servfail) := by
  by_cases hn : c.nFb = 0
  · cases hp : pickActive s pick with
    | none => simp [Handler_ServeDNS, serve, hp, hf, hn, Returns, resEntries]
    | some u =>
      cases ho : om u <;>
        simp [Handler_ServeDNS, serve, hp, hf, hn, ho, Returns, resEntries, callEntries, encO, isNetO,
          finish, exch, wrote]
  · have hk : pickFb % c.nFb < c.nFb := Nat.mod_lt _ (by omega)
    have hpos : 0 < c.nFb := by omega
    simp only [Handler_ServeDNS, hf, idx_range _ _ _ hk]
    cases hp : pickActive s pick with
    | none =>
      cases hb : ofb (pickFb % c.nFb) <;>
        simp [serve, hp, hpos, hb, Returns, resEntries, callEntries, encO, finish, exch, wrote]
    | some u =>
      cases ho : om u <;> cases hb : ofb (pickFb % c.nFb) <;>
        simp [serve, hp, hpos, ho, hb, Returns, resEntries, callEntries, encO, isNetO, finish, exch,
          wrote]

example : (serve ⟨2, 1, 5⟩ (St.init ⟨2, 1, 5⟩) 1 (fun _ => .netErr) 0 (fun _ => .reply 7)).calls
    = [.main 1, .fb 0] := by decide

/-! ## `pickActiveUpstream` -/

/-- No active main upstream ⇒ `nil` (and the random source is not consulted). -/
theorem pick_empty (h : S_forward_Handler) (i : Int) (h0 : h.activeUpstreams = []) :
    Handler_pickActiveUpstream h i = some (none, []) := by
  simp [Handler_pickActiveUpstream, h0]

/-- Otherwise the result is the element of `h.activeUpstreams` — the list the health check maintains,
not the list of all upstreams — at the index drawn from `Intn(len(h.activeUpstreams))`. -/
theorem pick_active_element (h : S_forward_Handler) (i : Int) (hi : InRange i h.activeUpstreams.length) :
    Handler_pickActiveUpstream h i
      = some (h.activeUpstreams[i.toNat]'hi.2, [("Intn", [toString (h.activeUpstreams.length : Int)])]) := by
  have : h.activeUpstreams.length ≠ 0 := by have := hi.2; omega
  simp [Handler_pickActiveUpstream, idx_of_inRange hi, this]

/-- It panics exactly when `Intn` breaks its contract. -/
theorem pick_no_panic_iff (h : S_forward_Handler) (i : Int) :
    Handler_pickActiveUpstream h i ≠ none ↔ (h.activeUpstreams = [] ∨ InRange i h.activeUpstreams.length) := by
  by_cases h0 : h.activeUpstreams = []
  · simp [Handler_pickActiveUpstream, h0]
  · have hl : h.activeUpstreams.length ≠ 0 := by simpa using h0
    by_cases hi : InRange i h.activeUpstreams.length
    · simp [pick_active_element h i hi, hi]
    · have : goIndex? h.activeUpstreams i = none := by
        unfold goIndex?
        by_cases hneg : i < 0
        · simp [hneg]
        · have : ¬ i.toNat < h.activeUpstreams.length := fun hh => hi ⟨by omega, hh⟩
          simp [hneg, this]
      simp [Handler_pickActiveUpstream, h0, hl, hi, this]

/-- … and is `Agd.Forward.pickActive` on every model state. -/
theorem pick_tr (s : St) (pick : Nat) (mt : Nat → Int) (h : S_forward_Handler)
    (ha : h.activeUpstreams = s.active.map (fun u => some (mt u))) :
    (Handler_pickActiveUpstream h ((pick % s.active.length : Nat) : Int)).map (·.1)
      = some ((pickActive s pick).map mt) := by
  by_cases h0 : s.active = []
  · simp [Handler_pickActiveUpstream, ha, h0, pickActive]
  · have hl : s.active.length ≠ 0 := by simpa using h0
    have hk : pick % s.active.length < s.active.length := Nat.mod_lt _ (by omega)
    simp only [Handler_pickActiveUpstream, ha, idx_nat, List.getElem?_map, List.length_map]
    simp [hl, pickActive, hk]

/-! ## `healthcheckUpstream`: one probe and the bookkeeping of `lastFailedHealthcheck` -/

/-- **In backoff** (`time.Since(lastFailed) < hcBackoff`, strictly): reported as such, no probe is
sent (`checkUpstream` is not reached) and the recorded failure time stays. -/
theorem hc_backoff_skips_probe (h : S_forward_Handler) (ctx req lg : Option Int) (st : S_forward_upstreamStatus)
    (mr isz : Bool) (since now : Int) (ck : Option String) (hb : since < h.hcBackoff) :
    Handler_healthcheckUpstream h ctx (some st) req mr lg since ck now isz
      = some (some st, true, none, [("Since", [toString st.lastFailedHealthcheck])]) := by
  simp [Handler_healthcheckUpstream, hb]

/-- **Backoff elapsed** (`≥`, the boundary included) **and the probe fails**: the failure time becomes
`time.Now()`, an error is returned, the upstream is not "in backoff" for the caller. -/
theorem hc_probe_failed (h : S_forward_Handler) (ctx req lg : Option Int) (st : S_forward_upstreamStatus)
    (mr isz : Bool) (since now : Int) (e : String) (hb : h.hcBackoff ≤ since) :
    Returns (Handler_healthcheckUpstream h ctx (some st) req mr lg since (some e) now isz)
      fun (st', inBackoff, err, tr) =>
        st' = some { st with lastFailedHealthcheck := now } ∧ inBackoff = false ∧ err ≠ none
        ∧ count "checkUpstream" tr = 1 := by
  have : ¬ since < h.hcBackoff := by omega
  simp [Handler_healthcheckUpstream, this, Returns, count, names, wrapErr]

/-- **Backoff elapsed and the probe succeeds**: the failure time is reset to the zero time and no
error is returned — the caller puts the upstream back into rotation. -/
theorem hc_probe_ok (h : S_forward_Handler) (ctx req lg : Option Int) (st : S_forward_upstreamStatus)
    (mr isz : Bool) (since now : Int) (hb : h.hcBackoff ≤ since) :
    Returns (Handler_healthcheckUpstream h ctx (some st) req mr lg since none now isz)
      fun (st', inBackoff, err, tr) =>
        st' = some { st with lastFailedHealthcheck := 0 } ∧ inBackoff = false ∧ err = none
        ∧ tr.take 2 = [("Since", [toString st.lastFailedHealthcheck]),
                       ("checkUpstream", [toString ctx, toString st.upstream, toString req])] := by
  have : ¬ since < h.hcBackoff := by omega
  simp [Handler_healthcheckUpstream, this, Returns, wrapErr]

/-- It panics exactly on a nil status. -/
theorem hc_no_panic_iff (h : S_forward_Handler) (ctx req lg : Option Int) (st : Option S_forward_upstreamStatus)
    (mr isz : Bool) (since now : Int) (ck : Option String) :
    Handler_healthcheckUpstream h ctx st req mr lg since ck now isz ≠ none ↔ st ≠ none := by
  cases st <;> cases ck <;> by_cases hb : since < h.hcBackoff <;>
    simp [Handler_healthcheckUpstream, hb]

/-- Encoding of the model's `lastFailed` as a `time.Time` token: the zero time is the token 0. -/
def encLF : Option Int → Int
  | none => 0
  | some f => f

/-- What `time.Since(lastFailed)` returns at time `t`: for the zero time the saturated maximal
duration `big` (Go: `math.MaxInt64`). -/
def sinceOf (big : Int) (lf : Option Int) (t : Int) : Int :=
  match lf with
  | none => big
  | some f => t - f

/-- **The translated probe step is the model's `hcOne`** on every model state: "in backoff" is
`Agd.Forward.inBackoff`, and the new `lastFailed` and the success flag are those `hcOne` computes.
Range hypothesis: the configured backoff does not exceed the saturated duration. -/
theorem hcUpstream_tr (b big : Int) (pr : Nat → Probe) (a : HcAcc) (u : Nat) (h : S_forward_Handler)
    (ctx req lg tok : Option Int) (mr isz : Bool) (e : String)
    (hb : h.hcBackoff = b) (hbig : b ≤ big) (hd : (pr u).ctxDone = false) :
    Returns (Handler_healthcheckUpstream h ctx (some ⟨tok, encLF (a.lf u)⟩) req mr lg
        (sinceOf big (a.lf u) (pr u).tCheck) (if (pr u).ok then none else some e) (pr u).tFail isz)
      fun (st', inB, err, _) =>
        inB = inBackoff b (a.lf u) (pr u).tCheck
        ∧ st' = some ⟨tok, encLF ((hcOne b pr a u).lf u)⟩
        ∧ ((hcOne b pr a u).act = if (!inB && err.isNone) then a.act ++ [u] else a.act) := by
  subst hb
  cases hl : a.lf u with
  | none =>
    have : ¬ big < h.hcBackoff := by omega
    cases hok : (pr u).ok <;>
      simp [Handler_healthcheckUpstream, sinceOf, this, hok, Returns, inBackoff, hcOne, hd, hl, encLF, put,
        wrapErr]
  | some f =>
    by_cases hlt : (pr u).tCheck - f < h.hcBackoff
    · simp [Handler_healthcheckUpstream, sinceOf, hlt, Returns, inBackoff, hcOne, hd, hl, encLF]
    · cases hok : (pr u).ok <;>
        simp [Handler_healthcheckUpstream, sinceOf, hlt, hok, Returns, inBackoff, hcOne, hd, hl, encLF, put,
          wrapErr]

example : inBackoff 30 (some 100) 129 = true ∧ inBackoff 30 (some 100) 130 = false := by decide

/-! ## `healthcheck`: the loop over the main upstreams and the new active list

The translator gives an opaque call one result parameter per call *site*: all iterations of the loop
see the same `(inBackoff, ckErr)` from `healthcheckUpstream`.  The three theorems below therefore
cover the uniform rounds; the per-upstream step is `hcUpstream_tr` above. -/

/-- Loop invariant rule for translated `for … range` loops that neither break, return nor panic. -/
theorem range_inv {α σ ρ : Type} {f : σ → Int → α → Option (Step σ ρ)} (good : α → Prop)
    (Q : List α → σ → Prop)
    (step : ∀ pre x s i, good x → Q pre s → ∃ s', f s i x = some (.next s') ∧ Q (pre ++ [x]) s') :
    ∀ (xs pre : List α) (s : σ) (i : Int) (r : Option (σ ⊕ ρ)), goRangeFrom? i xs s f = r →
      (∀ x ∈ xs, good x) → Q pre s → ∃ s', r = some (.inl s') ∧ Q (pre ++ xs) s' := by
  intro xs
  induction xs with
  | nil => intro pre s i r hr _ hq; exact ⟨s, by simpa [goRangeFrom?] using hr.symm, by simpa using hq⟩
  | cons x xs ih =>
    intro pre s i r hr hg hq
    obtain ⟨s', hs, hq'⟩ := step pre x s i (hg x (by simp)) hq
    simp only [goRangeFrom?, hs] at hr
    obtain ⟨s'', h1, h2⟩ := ih (pre ++ [x]) s' (i + 1) r hr (fun y hy => hg y (by simp [hy])) hq'
    exact ⟨s'', h1, by simpa using h2⟩

/-- **An upstream reported "in backoff" is not put on the active list** (and with nobody active the
round returns an error; `h.activeUpstreams` is replaced, nothing else of the handler changes). -/
theorem healthcheck_backoff_not_active (h : S_forward_Handler) (ctx rq : Option Int) (mr : Bool)
    (fu ra : String) (ck : Option String) (isz : Bool) :
    Returns (Handler_healthcheck h ctx mr fu ra rq false isz (true, ck)) fun (h', err, _) =>
      h' = { h with activeUpstreams := [] } ∧ err ≠ none := by
  unfold Handler_healthcheck
  simp only [goRange?]
  split <;>
  · generalize hr : goRangeFrom? 0 h.upstreams _ _ = r
    obtain ⟨s', rfl, hq⟩ := range_inv (fun _ => True) (fun _ s => s.1 = [])
      (by intro pre x s i _ hq; obtain ⟨a, b, c⟩ := s; simp_all) h.upstreams [] _ 0 r hr (by simp) rfl
    obtain ⟨a, b, c⟩ := s'
    simp_all [Returns, firstErr_eq_none]

/-- **An upstream whose probe failed is not put on the active list** either. -/
theorem healthcheck_failed_not_active (h : S_forward_Handler) (ctx rq : Option Int) (mr : Bool)
    (fu ra : String) (e : String) (isz : Bool) :
    Returns (Handler_healthcheck h ctx mr fu ra rq false isz (false, some e)) fun (h', err, _) =>
      h' = { h with activeUpstreams := [] } ∧ err ≠ none := by
  unfold Handler_healthcheck
  simp only [goRange?]
  split <;>
  · generalize hr : goRangeFrom? 0 h.upstreams _ _ = r
    obtain ⟨s', rfl, hq⟩ := range_inv (fun _ => True) (fun _ s => s.1 = [])
      (by intro pre x s i _ hq; obtain ⟨a, b, c⟩ := s; simp_all) h.upstreams [] _ 0 r hr (by simp) rfl
    obtain ⟨a, b, c⟩ := s'
    simp_all [Returns, firstErr_eq_none]

theorem fm_some (sts : List S_forward_upstreamStatus) :
    List.filterMap ((fun x => Option.map (fun x => x.upstream) x) ∘ some) sts = sts.map (·.upstream) := by
  induction sts with
  | nil => rfl
  | cons a t ih => simp [ih]

/-- **Upstreams probed successfully — and only a round's own results — make up the new active
list**, in the order of `h.upstreams`; the round reports success iff somebody is active. -/
theorem healthcheck_ok_active (h : S_forward_Handler) (ctx rq : Option Int) (mr : Bool)
    (fu ra : String) (sts : List S_forward_upstreamStatus) (hu : h.upstreams = sts.map some) (isz : Bool) :
    Returns (Handler_healthcheck h ctx mr fu ra rq false isz (false, none)) fun (h', err, _) =>
      h' = { h with activeUpstreams := sts.map (·.upstream) } ∧ (err = none ↔ sts ≠ []) := by
  unfold Handler_healthcheck
  simp only [goRange?]
  split <;>
  · generalize hr : goRangeFrom? 0 h.upstreams _ _ = r
    obtain ⟨s', rfl, hq⟩ := range_inv (fun x => x ≠ none)
      (fun pre s => s.1 = pre.filterMap (fun x => x.map (·.upstream)) ∧ s.2.1 = [])
      (by
        intro pre x s i hx hq
        obtain ⟨a, b, c⟩ := s
        cases x with
        | none => exact absurd rfl hx
        | some y => simp_all) h.upstreams [] _ 0 r hr (by simp [hu]) ⟨rfl, rfl⟩
    obtain ⟨a, b, c⟩ := s'
    simp [hu] at hq
    rw [fm_some] at hq
    obtain ⟨hb, ha⟩ := hq
    subst hb ha
    cases sts with
    | nil => simp [Returns]
    | cons y t =>
      have : ¬ ((t.length : Int) + 1 = 0) := by omega
      simp [Returns, this]

/-- **As fixed: when the context of the round is done nobody is probed and everybody keeps his
status.**  `healthcheckUpstream` is not called at all (so no failure stamp is written); the new
active list consists of the upstreams whose recorded failure time is zero (here, uniformly: all of
them, or none).  Before the fix the dead context was handed to `healthcheckUpstream`, whose probe
then failed without anything having been sent (`Agd.Forward.starved_main_counterexample`). -/
theorem healthcheck_ctx_done_keeps (h : S_forward_Handler) (ctx rq : Option Int) (mr : Bool)
    (fu ra : String) (sts : List S_forward_upstreamStatus) (hu : h.upstreams = sts.map some)
    (isz : Bool) (hcu : Bool × Option String) :
    Returns (Handler_healthcheck h ctx mr fu ra rq true isz hcu) fun (h', err, tr) =>
      h' = { h with activeUpstreams := if isz then sts.map (·.upstream) else [] } ∧
      (∀ c ∈ tr, c.1 ≠ "healthcheckUpstream") ∧
      (err = none ↔ (isz = true ∧ sts ≠ [])) := by
  unfold Handler_healthcheck
  simp only [goRange?]
  split <;>
  · generalize hr : goRangeFrom? 0 h.upstreams _ _ = r
    obtain ⟨s', rfl, hq⟩ := range_inv (fun x => x ≠ none)
      (fun pre s => s.1 = (if isz then pre.filterMap (fun x => x.map (·.upstream)) else []) ∧ s.2.1 = [] ∧
        ∀ c ∈ s.2.2, c.1 ≠ "healthcheckUpstream")
      (by
        intro pre x s i hx hq
        obtain ⟨a, b, c⟩ := s
        cases x with
        | none => exact absurd rfl hx
        | some y =>
          cases isz <;> simp_all
          all_goals
            intro a' b' hc
            rcases hc with hc | ⟨hc, _⟩ | ⟨hc, _⟩
            · exact hq.2.2 a' b' hc
            · subst hc; decide
            · subst hc; decide)
      h.upstreams [] _ 0 r hr (by simp [hu]) ⟨by cases isz <;> rfl, rfl, by simp⟩
    obtain ⟨a, b, c⟩ := s'
    simp [hu] at hq
    rw [fm_some] at hq
    obtain ⟨ha, hb, hc⟩ := hq
    subst ha hb
    cases isz with
    | false => simpa [Returns, firstErr_eq_none] using hc
    | true =>
      cases sts with
      | nil => simpa [Returns, firstErr_eq_none] using hc
      | cons y t =>
        have : ¬ ((t.length : Int) + 1 = 0) := by omega
        simpa [Returns, this] using hc

/-! ## `refresh`, `Refresh`, `checkUpstream`, `reportChange` -/

theorem range_noop {α σ ρ : Type} (xs : List α) (s : σ) (i : Int) :
    goRangeFrom (ρ := ρ) i xs s (fun st _ _ => .next st) = .inl s := by
  induction xs generalizing i with
  | nil => rfl
  | cons x xs ih => simp [goRangeFrom, ih]

/-- **Without configured fallbacks `refresh` does nothing**: the health check is never run, so no
main upstream can be taken out of rotation. -/
theorem refresh_no_fallbacks_noop (h : S_forward_Handler) (ctx : Option Int) (mr : Bool)
    (hc : Option String) (h0 : h.fallbacks = []) : Handler_refresh h ctx mr hc = (none, []) := by
  simp [Handler_refresh, h0]

/-- With fallbacks it runs exactly one health-check round (passing `mustReport` on) and returns an
error iff the round did. -/
theorem refresh_runs_healthcheck (h : S_forward_Handler) (ctx : Option Int) (mr : Bool)
    (hc : Option String) (h0 : h.fallbacks ≠ []) :
    (Handler_refresh h ctx mr hc).2 = [("healthcheck", [toString ctx, toString mr])]
    ∧ ((Handler_refresh h ctx mr hc).1 = none ↔ hc = none) := by
  have hl : h.fallbacks.length ≠ 0 := by simpa using h0
  simp [Handler_refresh, hl, goRange, range_noop]

/-- The exported `Refresh` is `refresh` without forced reporting; its error is passed on. -/
theorem Refresh_is_refresh (h : S_forward_Handler) (ctx : Option Int) (r : Option String) :
    Handler_Refresh h ctx r = (r, [("refresh", [toString ctx, toString false])]) := by
  simp [Handler_Refresh]

/-- What `Exchange` hands the probe, for a model probe result. -/
def encP : PRes → Option Int × String × Option String
  | .resp _ => (some 1, "udp", none)
  | .err => (none, "", some "e")
  | .nil => (none, "", none)

def rcodeP : PRes → Int
  | .resp rc => rc
  | _ => 0

/-- **`checkUpstream` is the model's**: a probe succeeds iff there is a response whose RCODE is
NOERROR; exactly one `Exchange` is made. -/
theorem checkUpstream_tr (p : PRes) (ctx ups req : Option Int) (rs : String × Bool) :
    ((Agd.Gen.TrC17.checkUpstream ctx ups req (encP p) (rcodeP p) rs).1 = none
        ↔ Agd.Forward.checkUpstream p = true)
    ∧ (Agd.Gen.TrC17.checkUpstream ctx ups req (encP p) (rcodeP p) rs).2
        = [("Exchange", [toString ctx, toString req])] := by
  obtain ⟨rstr, rok⟩ := rs
  cases p with
  | resp rc =>
    by_cases h0 : rc = 0 <;> cases rok <;>
      simp [Agd.Gen.TrC17.checkUpstream, Agd.Forward.checkUpstream, encP, rcodeP, h0]
  | err => simp [Agd.Gen.TrC17.checkUpstream, Agd.Forward.checkUpstream, encP]
  | nil => simp [Agd.Gen.TrC17.checkUpstream, Agd.Forward.checkUpstream, encP]

/-- The status metric is set iff the status changed or reporting is forced, to "up" iff the probe
returned no error. -/
theorem reportChange_metric (h : S_forward_Handler) (ctx lg ups : Option Int) (err : Option String)
    (wasUp mr : Bool) :
    Handler_reportChange h ctx lg ups err wasUp mr
      = if (wasUp != err.isNone) || mr
        then [("OnUpstreamStatusChanged", [toString ups, toString true, toString err.isNone])] else [] := by
  cases wasUp <;> cases mr <;> cases err <;> simp [Handler_reportChange]

/-! ## `validatePlainResponse`, `readValidMsg`, `readMsg` -/

/-- **A reply is accepted only if ID, question count (exactly one), type and (case-folded) name
match**, checked in this order; the name comparison is `strings.EqualFold(request name, reply name)`. -/
theorem validate_accepts_only_matching (rq rs : Option Int) (id1 id2 : Int) (respQs reqQs : List Int)
    (t1 t2 : Int) (eqf : Bool) (n1 n2 : String) (tr : Trace)
    (hv : validatePlainResponse rq rs id1 id2 respQs reqQs t1 t2 eqf n1 n2 = some (none, tr)) :
    id1 = id2 ∧ respQs.length = 1 ∧ t1 = t2 ∧ eqf = true ∧ tr = [("EqualFold", [n1, n2])] := by
  unfold validatePlainResponse at hv
  by_cases hid : id1 = id2
  · by_cases hl : (respQs.length : Int) = 1
    · cases h1 : goIndex? reqQs 0 with
      | none => simp [hid, hl, h1] at hv
      | some a =>
        cases h2 : goIndex? respQs 0 with
        | none => simp [hid, hl, h1, h2] at hv
        | some b =>
          by_cases ht : t1 = t2 <;> cases eqf <;> simp [hid, hl, h1, h2, ht] at hv
          exact ⟨hid, by omega, ht, rfl, hv.symm⟩
    · simp [hid, hl] at hv
  · simp [hid] at hv

/-- It panics exactly when everything before the question comparison passes and the *request* has no
question (`req.Question[0]`). -/
theorem validate_no_panic_iff (rq rs : Option Int) (id1 id2 : Int) (respQs reqQs : List Int)
    (t1 t2 : Int) (eqf : Bool) (n1 n2 : String) :
    validatePlainResponse rq rs id1 id2 respQs reqQs t1 t2 eqf n1 n2 ≠ none
      ↔ (id1 ≠ id2 ∨ respQs.length ≠ 1 ∨ reqQs ≠ []) := by
  unfold validatePlainResponse
  by_cases hid : id1 = id2
  · by_cases hl : respQs.length = 1
    · have hl' : (respQs.length : Int) = 1 := by omega
      obtain ⟨b, hb⟩ : ∃ b, respQs = [b] := by
        cases respQs with
        | nil => simp at hl
        | cons b t => cases t with
          | nil => exact ⟨b, rfl⟩
          | cons _ _ => simp at hl
      cases reqQs with
      | nil => simp [hid, hl, goIndex?]
      | cons a t =>
        by_cases ht : t1 = t2 <;> cases eqf <;> simp [hid, hb, goIndex?, ht]
    · have hl' : ¬ (respQs.length : Int) = 1 := by omega
      simp [hid, hl, hl']
  · simp [hid]

/-- **`validatePlainResponse` is the model's `validate`**: for every request ID, request question and
reply of the model, the translated code (reading the fields the model reads) accepts iff the model
does.  (The request carries a question.) -/
theorem validate_tr (reqId : Nat) (q : Question) (m : Msg) (rq rs : Option Int) (reqQs : List Int)
    (n1 n2 : String) (hreq : reqQs ≠ []) :
    Returns (validatePlainResponse rq rs reqId m.id (m.qs.map fun _ => 0) reqQs q.qtype
        (m.qs.headD ⟨[], 0⟩).qtype (decide (foldName q.name = foldName (m.qs.headD ⟨[], 0⟩).name)) n1 n2)
      fun (err, _) => (err = none ↔ validate reqId q m = .ok) := by
  obtain ⟨a, t, rfl⟩ : ∃ a t, reqQs = a :: t := by
    cases reqQs with
    | nil => exact absurd rfl hreq
    | cons a t => exact ⟨a, t, rfl⟩
  unfold validatePlainResponse validate
  by_cases hid : reqId = m.id
  · cases hq : m.qs with
    | nil => simp [hid, Returns]
    | cons b r =>
      cases r with
      | nil =>
        by_cases ht : q.qtype = b.qtype <;> by_cases hn : foldName q.name = foldName b.name <;>
          simp [hid, Returns, goIndex?, ht, hn, Int.natCast_inj]
      | cons c r' =>
        have : ¬ ((r'.length : Int) + 1 + 1 = 1) := by omega
        simp [hid, Returns, this]
  · have : ¬ ((reqId : Int) = (m.id : Int)) := by omega
    simp [hid, this, Returns]

example : validate 7 ⟨[65], 1⟩ ⟨7, [⟨[97], 1⟩], false, 0, 0⟩ = .ok := by decide

/-- `readValidMsg`: a reply is handed on without error iff it was read and passed validation, and
what is validated is the request against the message just read. -/
theorem readValid_accepts_iff (u : S_forward_UpstreamPlain) (req conn : Option Int) (nw : String)
    (buf : List Int) (rm : Option Int × Option String) (v : Option String) :
    ((UpstreamPlain_readValidMsg u req nw conn buf rm v).2.1 = none ↔ rm.2 = none ∧ v = none)
    ∧ (rm.2 = none → (UpstreamPlain_readValidMsg u req nw conn buf rm v).2.2.getLast?
        = some ("validatePlainResponse", [toString req, toString rm.1])) := by
  obtain ⟨r, e⟩ := rm
  cases e <;> cases v <;> simp [UpstreamPlain_readValidMsg]

/-- `readMsg`: a message is returned without error only if at least `minDNSMessageSize` (17) bytes
were read and they unpacked; it is then the unpacked message. -/
theorem readMsg_ok_only_if (u : S_forward_UpstreamPlain) (nw : String) (conn m : Option Int)
    (buf : List Int) (rl up : Option String) (rf rd : Int × Option String)
    (hok : (UpstreamPlain_readMsg u nw conn buf rl rf m up rd).2 = none) :
    17 ≤ (if nw = "tcp" then rf.1 else rd.1) ∧ up = none
      ∧ (UpstreamPlain_readMsg u nw conn buf rl rf m up rd).1 = m := by
  obtain ⟨n1, e1⟩ := rf
  obtain ⟨n2, e2⟩ := rd
  unfold UpstreamPlain_readMsg at hok ⊢
  by_cases ht : nw = "tcp"
  · cases rl <;> cases e1 <;> cases up <;> by_cases hn : n1 < 17 <;> simp_all
    have : ¬ n1 < 17 := by omega
    simp [this]
  · cases e2 <;> cases up <;> by_cases hn : n2 < 17 <;> simp_all
    have : ¬ n2 < 17 := by omega
    simp [this]

/-! ## `isExpectedConnErr`, `exchangeUDP`, `Exchange`, `exchangeNet` -/

def errX : XRes → Option String
  | .ok _ => none
  | .netErr => some "net"
  | .eof => some "eof"
  | .other => some "other"

/-- `isExpectedConnErr` is the model's: a `net.Error` (`errors.As`) or `io.EOF` (`errors.Is`). -/
theorem isExpectedConnErr_tr (x : XRes) :
    isExpectedConnErr (errX x) (decide (x = .netErr)) (decide (x = .eof)) = x.expectedConnErr := by
  cases x <;> simp [isExpectedConnErr, errX, XRes.expectedConnErr]

def netStr : Net → String
  | .any => ""
  | .udp => "udp"
  | .tcp => "tcp"

def encX : XRes → Option Int × Option String
  | .ok m => (some (m.tok : Int), none)
  | .netErr => (none, some "net")
  | .eof => (none, some "eof")
  | .other => (none, some "other")

def tcX : XRes → Bool
  | .ok m => m.tc
  | _ => false

/-- The model's `exchange` as a function of the two `exchangeNet` results. -/
def exchangeX (net : Net) (a b : XRes) : XRes × Bool :=
  if net = .tcp then (b, true)
  else match a with
    | .ok m => if net ≠ .udp ∧ m.tc then (b, true) else (.ok m, false)
    | .netErr => (.netErr, false)
    | .eof => (.eof, false)
    | .other => (b, true)

theorem exchange_eq_exchangeX (net : Net) (reqId : Nat) (q : Question) (udp tcp : Wire) :
    exchange net reqId q udp tcp = exchangeX net (exchangeNet reqId q udp) (exchangeNet reqId q tcp) := rfl

/-- **`Exchange` ∘ `exchangeUDP` is the model's `exchange`** for every network setting and every
pair of per-transport results: TCP is used iff the upstream is TCP-only, or the UDP reply was
truncated and the upstream is not UDP-only, or UDP failed with an error that is not an expected
connection error; the result is that of the transport used last. -/
theorem exchange_tr (net : Net) (a b : XRes) (u : S_forward_UpstreamPlain) (hu : u.network = netStr net)
    (ctx ctx' req : Option Int) (wt : Option Int × AbsPtr) :
    let r1 := UpstreamPlain_exchangeUDP u ctx' req (encX a)
      (isExpectedConnErr (encX a).2 (decide (a = .netErr)) (decide (a = .eof))) (tcX a)
    let r := UpstreamPlain_Exchange u ctx req wt (r1.1, r1.2.1, r1.2.2.1) (encX b)
    (r.1, r.2.2.1) = encX (exchangeX net a b).1 ∧ (decide (r.2.1 = "tcp")) = (exchangeX net a b).2 := by
  cases net <;> cases a <;> by_cases ht : u.timeout > 0 <;>
    simp [exchangeX, UpstreamPlain_Exchange, UpstreamPlain_exchangeUDP, isExpectedConnErr, encX, tcX,
      netStr, hu, ht] <;>
    (rename_i m; cases m.tc <;> simp)

/-- **`exchangeNet` retries once, on a fresh connection, iff the first attempt ended with an expected
connection error**; the second attempt's result is then final.  (Since the C06 repair the request is
packed again before the retry; `n2` is the length that second `packReq` returned.) -/
theorem exchangeNet_retry_once (u : S_forward_UpstreamPlain) (ctx req gb : Option Int) (nw : String)
    (buf : List Int) (n n2 : Int) (c1 c2 : Option S_pool_Conn) (p1 p2 : Option Int × Option String)
    (exp : Bool) :
    let r := UpstreamPlain_exchangeNet u ctx req nw gb buf (n, none) (c1, none) p1 exp (n2, none) (c2, none) p2
    (r.1, r.2.1) = (if exp then p2 else p1)
      ∧ count "processConn" r.2.2 = (if exp then 2 else 1) ∧ count "Create" r.2.2 = (if exp then 1 else 0)
      ∧ count "packReq" r.2.2 = (if exp then 2 else 1) := by
  by_cases ht : nw = "tcp" <;> cases exp <;> simp [UpstreamPlain_exchangeNet, ht, count, names]

/-! ## `annotate`, `Handler.exchange` -/

/-- The deferred `annotate` (dropped from the translated `ServeDNS`) keeps nil-ness. -/
theorem annotate_nil_iff (err : Option String) (a b : Option Int) : annotate err a b = none ↔ err = none := by
  cases err <;> simp [annotate]

/-- `Handler.exchange` asks the given upstream once and passes response and error on unchanged. -/
theorem handler_exchange_passes (h : S_forward_Handler) (ctx u req : Option Int) (now : Int)
    (x : Option Int × String × Option String) :
    Handler_exchange h ctx u req now x = (x.1, x.2.2, [("Exchange", [toString ctx, toString req])]) := by
  simp [Handler_exchange]

end Agd.Tie.TrC17
