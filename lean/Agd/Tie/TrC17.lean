import Agd.Gen.TrC17
import Agd.Model.Forward
/-!
# C17: the forwarding decisions, as translated from the source

`Agd.Gen.TrC17.*` are regenerated from `internal/dnsserver/forward/{forward,healthcheck,upstreamplain,
error}.go` on every run (`extract/tr.go`, spec option `"refs"`): an upstream, a message, a context …
is an *identity token* (`Option Int`: nil or a token), `time.Time` is a token (`0` = zero time),
slices are lists; library calls and calls of functions that themselves talk to the outside are
opaque — their results are parameters — and the definitions return the trace of such calls, in order,
with their scalar / token arguments.

Two kinds of theorems: clauses of the property stated directly on the translated code, for every
configuration and every result of the opaque calls; and equalities with the hand-written model
`Agd.Forward` (the definitions all C17 property theorems are about), for all model states.
-/
namespace Agd.Tie.TrC17
open Agd.Gen.TrC17 Agd.TrPrelude Agd.Forward

theorem translation_complete : translationFailures = [] := by decide

abbrev Trace := List (String × List String)

/-- Names of the calls in a trace. -/
def names (tr : Trace) : List String := tr.map (·.1)

/-- How often a call occurs in a trace. -/
def count (n : String) (tr : Trace) : Nat := ((names tr).filter (· == n)).length

/-- "The call does not panic and its results satisfy `P`". -/
def Returns {α : Type} (r : Option α) (P : α → Prop) : Prop :=
  match r with
  | none => False
  | some a => P a

/-! ## `ServeDNS` -/

/-- `h.rand.Intn(len(h.fallbacks))` kept its contract. -/
def InRange (i : Int) (n : Nat) : Prop := 0 ≤ i ∧ i.toNat < n

/-- The trace entry of `h.exchange(ctx, u, req)`. -/
def exch (ctx u req : Option Int) : String × List String :=
  ("exchange", [toString ctx, toString u, toString req])

/-- The trace entry of `rw.WriteMsg(ctx, req, resp)`. -/
def wrote (ctx req resp : Option Int) : String × List String :=
  ("WriteMsg", [toString ctx, toString req, toString resp])

theorem idx_of_inRange {α : Type} {i : Int} {l : List α} (hi : InRange i l.length) :
    goIndex? l i = some (l[i.toNat]'hi.2) := by
  have : ¬ i < 0 := by have := hi.1; omega
  simp [goIndex?, this, hi.2]

/-- **The chosen main upstream replies ⇒ its reply is what the client gets**: one exchange, with the
picked upstream; the response written is the one it returned; no fallback is touched (not even the
random index); the handler's error is the writer's. -/
theorem serve_main_reply_used (h : S_forward_Handler) (ctx rw req : Option Int) (u r : Int)
    (isNet : Bool) (i : Int) (fx : Option Int × Option String) (wr : Option String) :
    ∃ e, Handler_ServeDNS h ctx rw req (some u) (some r, none) isNet i fx wr
        = some (e, [("pickActiveUpstream", []), exch ctx (some u) req, wrote ctx req (some r)])
      ∧ (e = none ↔ wr = none) := by
  cases wr <;> simp [Handler_ServeDNS, exch, wrote]

/-- **Main fails with a network error and fallbacks exist ⇒ exactly one fallback attempt**, on
`h.fallbacks[Intn(len(h.fallbacks))]`; the client gets that fallback's reply, and an error (SERVFAIL)
iff the fallback failed too (error or no response) or the write failed. -/
theorem serve_netErr_fallback_once (h : S_forward_Handler) (ctx rw req : Option Int) (u : Int)
    (r0 : Option Int) (e0 : String) (i : Int) (fx : Option Int × Option String) (wr : Option String)
    (hi : InRange i h.fallbacks.length) :
    ∃ e, Handler_ServeDNS h ctx rw req (some u) (r0, some e0) true i fx wr
        = some (e, [("pickActiveUpstream", []), exch ctx (some u) req,
                    ("Intn", [toString (h.fallbacks.length : Int)]),
                    exch ctx (h.fallbacks[i.toNat]'hi.2) req]
                   ++ (if fx.2 = none ∧ fx.1 ≠ none then [wrote ctx req fx.1] else []))
      ∧ (e = none ↔ fx.2 = none ∧ fx.1 ≠ none ∧ wr = none) := by
  have hpos : 0 < h.fallbacks.length := by have := hi.2; omega
  obtain ⟨fr, fe⟩ := fx
  simp only [Handler_ServeDNS, idx_of_inRange hi]
  cases fe <;> cases fr <;> cases wr <;> simp [hpos, exch, wrote]

/-- **No main upstream is active ⇒ the query goes to one fallback and to no main upstream.** -/
theorem serve_no_active_main (h : S_forward_Handler) (ctx rw req : Option Int)
    (mx : Option Int × Option String) (isNet : Bool) (i : Int) (fx : Option Int × Option String)
    (wr : Option String) (hi : InRange i h.fallbacks.length) :
    ∃ e, Handler_ServeDNS h ctx rw req none mx isNet i fx wr
        = some (e, [("pickActiveUpstream", []), ("Intn", [toString (h.fallbacks.length : Int)]),
                    exch ctx (h.fallbacks[i.toNat]'hi.2) req]
                   ++ (if fx.2 = none ∧ fx.1 ≠ none then [wrote ctx req fx.1] else []))
      ∧ (e = none ↔ fx.2 = none ∧ fx.1 ≠ none ∧ wr = none) := by
  have hpos : 0 < h.fallbacks.length := by have := hi.2; omega
  obtain ⟨fr, fe⟩ := fx
  simp only [Handler_ServeDNS, idx_of_inRange hi]
  cases fe <;> cases fr <;> cases wr <;> simp [hpos, exch, wrote]

/-- **An error that is not a network error is final**: no fallback, the client gets an error. -/
theorem serve_other_error_final (h : S_forward_Handler) (ctx rw req : Option Int) (u : Int)
    (r0 : Option Int) (e0 : String) (i : Int) (fx : Option Int × Option String) (wr : Option String) :
    ∃ e, Handler_ServeDNS h ctx rw req (some u) (r0, some e0) false i fx wr
        = some (some e, [("pickActiveUpstream", []), exch ctx (some u) req]) := by
  simp [Handler_ServeDNS, exch]

/-- **Without configured fallbacks** nothing but the picked main is ever asked (and with no active
main nobody is): the outcome is the main's, whatever kind of error it made. -/
theorem serve_without_fallbacks (h : S_forward_Handler) (ctx rw req : Option Int) (ups : Option Int)
    (mx : Option Int × Option String) (isNet : Bool) (i : Int) (fx : Option Int × Option String)
    (wr : Option String) (h0 : h.fallbacks = []) :
    Returns (Handler_ServeDNS h ctx rw req ups mx isNet i fx wr) fun (e, tr) =>
      "Intn" ∉ names tr ∧ count "exchange" tr = (if ups = none then 0 else 1)
      ∧ (e = none ↔ ups ≠ none ∧ mx.2 = none ∧ mx.1 ≠ none ∧ wr = none) := by
  obtain ⟨mr, me⟩ := mx
  cases ups <;> cases me <;> cases mr <;> cases wr <;> cases isNet <;>
    simp [Handler_ServeDNS, h0, names, count, Returns]

/-- `ServeDNS` never asks more than two upstreams, draws at most one fallback index and writes at
most one response; it panics only if `Intn` breaks its contract. -/
theorem serve_at_most_two (h : S_forward_Handler) (ctx rw req ups : Option Int)
    (mx : Option Int × Option String) (isNet : Bool) (i : Int) (fx : Option Int × Option String)
    (wr : Option String) (hi : h.fallbacks ≠ [] → InRange i h.fallbacks.length) :
    Returns (Handler_ServeDNS h ctx rw req ups mx isNet i fx wr) fun (_, tr) =>
      count "exchange" tr ≤ 2 ∧ count "Intn" tr ≤ 1 ∧ count "WriteMsg" tr ≤ 1 := by
  by_cases h0 : h.fallbacks = []
  · obtain ⟨mr, me⟩ := mx
    cases ups <;> cases me <;> cases mr <;> cases wr <;> cases isNet <;>
      simp [Handler_ServeDNS, h0, names, count, Returns]
  · have hi := hi h0
    have hpos : 0 < h.fallbacks.length := by have := hi.2; omega
    obtain ⟨mr, me⟩ := mx
    obtain ⟨fr, fe⟩ := fx
    simp only [Handler_ServeDNS, idx_of_inRange hi]
    cases ups <;> cases me <;> cases mr <;> cases wr <;> cases isNet <;> cases fe <;> cases fr <;>
      simp [hpos, names, count, Returns]

/-! ### `ServeDNS` is the hand-written `Agd.Forward.serve` -/

/-- What `h.exchange` returns for a model outcome. -/
def encO : Outcome → Option Int × Option String
  | .reply r => (some (r : Int), none)
  | .netErr => (none, some "net")
  | .otherErr => (none, some "other")
  | .noResp => (none, none)

/-- `errors.As(err, &netErr)` for a model outcome. -/
def isNetO : Outcome → Bool
  | .netErr => true
  | _ => false

/-- The trace entries a model call stands for (`mt`/`ft`: tokens of main / fallback upstreams). -/
def callEntries (ctx req : Option Int) (mt ft : Nat → Int) (nFb : Nat) : Call → Trace
  | .main u => [exch ctx (some (mt u)) req]
  | .fb f => [("Intn", [toString (nFb : Int)]), exch ctx (some (ft f)) req]

def resEntries (ctx req : Option Int) : Res → Trace
  | .answered r => [wrote ctx req (some (r : Int))]
  | .servfail => []

theorem idx_nat {α : Type} (l : List α) (k : Nat) : goIndex? l (k : Int) = l[k]? := by
  have : ¬ ((k : Int) < 0) := by omega
  simp [goIndex?, this]

theorem idx_range {α : Type} (n k : Nat) (g : Nat → α) (hk : k < n) :
    goIndex? ((List.range n).map g) (k : Int) = some (g k) := by
  have : ¬ ((k : Int) < 0) := by omega
  simp [goIndex?, this, hk]

/-- For every model state, choice and behaviour of the upstreams, the translated `ServeDNS` (fed the
picked upstream and the outcomes the model is fed; the response writer succeeding) performs exactly
the exchanges of `Agd.Forward.serve`, in that order and with those upstreams, writes the response
the model answers with, and returns an error iff the model says SERVFAIL. -/
theorem serve_tr (c : Cfg) (s : St) (pick pickFb : Nat) (om ofb : Nat → Outcome)
    (h : S_forward_Handler) (ctx rw req : Option Int) (mt ft : Nat → Int)
    (hf : h.fallbacks = (List.range c.nFb).map (fun f => some (ft f))) :
    Returns (Handler_ServeDNS h ctx rw req ((pickActive s pick).map mt)
        (encO (om ((pickActive s pick).getD 0))) (isNetO (om ((pickActive s pick).getD 0)))
        ((pickFb % c.nFb : Nat) : Int) (encO (ofb (pickFb % c.nFb))) none) fun (e, tr) =>
      tr = [("pickActiveUpstream", [])]
            ++ (serve c s pick om pickFb ofb).calls.flatMap (callEntries ctx req mt ft c.nFb)
            ++ resEntries ctx req (serve c s pick om pickFb ofb).res
      ∧ (e = none ↔ (serve c s pick om pickFb ofb).res ≠ .servfail) := by
  by_cases hn : c.nFb = 0
  · cases hp : pickActive s pick with
    | none => simp [Handler_ServeDNS, serve, hp, hf, hn, Returns, resEntries]
    | some u =>
      cases ho : om u <;>
        simp [Handler_ServeDNS, serve, hp, hf, hn, ho, Returns, resEntries, callEntries, encO, isNetO,
          finish, exch, wrote]
  · have hk : pickFb % c.nFb < c.nFb := Nat.mod_lt _ (by omega)
    have hpos : 0 < c.nFb := by omega
    simp only [Handler_ServeDNS, hf, idx_range _ _ _ hk]
    cases hp : pickActive s pick with
    | none =>
      cases hb : ofb (pickFb % c.nFb) <;>
        simp [serve, hp, hpos, hb, Returns, resEntries, callEntries, encO, finish, exch, wrote]
    | some u =>
      cases ho : om u <;> cases hb : ofb (pickFb % c.nFb) <;>
        simp [serve, hp, hpos, ho, hb, Returns, resEntries, callEntries, encO, isNetO, finish, exch,
          wrote]

example : (serve ⟨2, 1, 5⟩ (St.init ⟨2, 1, 5⟩) 1 (fun _ => .netErr) 0 (fun _ => .reply 7)).calls
    = [.main 1, .fb 0] := by decide

/-! ## `pickActiveUpstream` -/

/-- No active main upstream ⇒ `nil` (and the random source is not consulted). -/
theorem pick_empty (h : S_forward_Handler) (i : Int) (h0 : h.activeUpstreams = []) :
    Handler_pickActiveUpstream h i = some (none, []) := by
  simp [Handler_pickActiveUpstream, h0]

/-- Otherwise the result is the element of `h.activeUpstreams` — the list the health check maintains,
not the list of all upstreams — at the index drawn from `Intn(len(h.activeUpstreams))`. -/
theorem pick_active_element (h : S_forward_Handler) (i : Int) (hi : InRange i h.activeUpstreams.length) :
    Handler_pickActiveUpstream h i
      = some (h.activeUpstreams[i.toNat]'hi.2, [("Intn", [toString (h.activeUpstreams.length : Int)])]) := by
  have : h.activeUpstreams.length ≠ 0 := by have := hi.2; omega
  simp [Handler_pickActiveUpstream, idx_of_inRange hi, this]

/-- It panics exactly when `Intn` breaks its contract. -/
theorem pick_no_panic_iff (h : S_forward_Handler) (i : Int) :
    Handler_pickActiveUpstream h i ≠ none ↔ (h.activeUpstreams = [] ∨ InRange i h.activeUpstreams.length) := by
  by_cases h0 : h.activeUpstreams = []
  · simp [Handler_pickActiveUpstream, h0]
  · have hl : h.activeUpstreams.length ≠ 0 := by simpa using h0
    by_cases hi : InRange i h.activeUpstreams.length
    · simp [pick_active_element h i hi, hi]
    · have : goIndex? h.activeUpstreams i = none := by
        unfold goIndex?
        by_cases hneg : i < 0
        · simp [hneg]
        · have : ¬ i.toNat < h.activeUpstreams.length := fun hh => hi ⟨by omega, hh⟩
          simp [hneg, this]
      simp [Handler_pickActiveUpstream, h0, hl, hi, this]

/-- … and is `Agd.Forward.pickActive` on every model state. -/
theorem pick_tr (s : St) (pick : Nat) (mt : Nat → Int) (h : S_forward_Handler)
    (ha : h.activeUpstreams = s.active.map (fun u => some (mt u))) :
    (Handler_pickActiveUpstream h ((pick % s.active.length : Nat) : Int)).map (·.1)
      = some ((pickActive s pick).map mt) := by
  by_cases h0 : s.active = []
  · simp [Handler_pickActiveUpstream, ha, h0, pickActive]
  · have hl : s.active.length ≠ 0 := by simpa using h0
    have hk : pick % s.active.length < s.active.length := Nat.mod_lt _ (by omega)
    simp only [Handler_pickActiveUpstream, ha, idx_nat, List.getElem?_map, List.length_map]
    simp [hl, pickActive, hk]

end Agd.Tie.TrC17
