import Agd.Gen.TrC17
import Agd.Model.Forward
/-!
# C17: the forwarding decisions, as translated from the source

`Agd.Gen.TrC17.*` are regenerated from `internal/dnsserver/forward/{forward,healthcheck,upstreamplain,
error}.go` on every run (`extract/tr.go`, spec option `"refs"`): an upstream, a message, a context …
is an *identity token* (`Option Int`: nil or a token), `time.Time` is a token (`0` = zero time),
slices are lists; library calls and calls of functions that themselves talk to the outside are
opaque — their results are parameters — and the definitions return the trace of such calls, in order,
with their scalar / token arguments.

Two kinds of theorems: clauses of the property stated directly on the translated code, for every
configuration and every result of the opaque calls; and equalities with the hand-written model
`Agd.Forward` (the definitions all C17 property theorems are about), for all model states.
-/
namespace Agd.Tie.TrC17
open Agd.Gen.TrC17 Agd.TrPrelude Agd.Forward

theorem translation_complete : translationFailures = [] := by decide

abbrev Trace := List (String × List String)

/-- Names of the calls in a trace. -/
def names (tr : Trace) : List String := tr.map (·.1)

/-- How often a call occurs in a trace. -/
def count (n : String) (tr : Trace) : Nat := ((names tr).filter (· == n)).length

/-- "The call does not panic and its results satisfy `P`". -/
def Returns {α : Type} (r : Option α) (P : α → Prop) : Prop :=
  match r with
  | none => False
  | some a => P a

/-! ## `ServeDNS` -/

/-- `h.rand.Intn(len(h.fallbacks))` kept its contract. -/
def InRange (i : Int) (n : Nat) : Prop := 0 ≤ i ∧ i.toNat < n

/-- The trace entry of `h.exchange(ctx, u, req)`. -/
def exch (ctx u req : Option Int) : String × List String :=
  ("exchange", [toString ctx, toString u, toString req])

/-- The trace entry of `rw.WriteMsg(ctx, req, resp)`. -/
def wrote (ctx req resp : Option Int) : String × List String :=
  ("WriteMsg", [toString ctx, toString req, toString resp])

theorem idx_of_inRange {α : Type} {i : Int} {l : List α} (hi : InRange i l.length) :
    goIndex? l i = some (l[i.toNat]'hi.2) := by
  have : ¬ i < 0 := by have := hi.1; omega
  simp [goIndex?, this, hi.2]

/-- **The chosen main upstream replies ⇒ its reply is what the client gets**: one exchange, with the
picked upstream; the response written is the one it returned; no fallback is touched (not even the
random index); the handler's error is the writer's. -/
theorem serve_main_reply_used (h : S_forward_Handler) (ctx rw req : Option Int) (u r : Int)
    (isNet : Bool) (i : Int) (fx : Option Int × Option String) (wr : Option String) :
    ∃ e, Handler_ServeDNS h ctx rw req (some u) (some r, none) isNet i fx wr
        = some (e, [("pickActiveUpstream", []), exch ctx (some u) req, wrote ctx req (some r)])
      ∧ (e = none ↔ wr = none) := by
  cases wr <;> simp [Handler_ServeDNS, exch, wrote]

/-- **Main fails with a network error and fallbacks exist ⇒ exactly one fallback attempt**, on
`h.fallbacks[Intn(len(h.fallbacks))]`; the client gets that fallback's reply, and an error (SERVFAIL)
iff the fallback failed too (error or no response) or the write failed. -/
theorem serve_netErr_fallback_once (h : S_forward_Handler) (ctx rw req : Option Int) (u : Int)
    (r0 : Option Int) (e0 : String) (i : Int) (fx : Option Int × Option String) (wr : Option String)
    (hi : InRange i h.fallbacks.length) :
    ∃ e, Handler_ServeDNS h ctx rw req (some u) (r0, some e0) true i fx wr
        = some (e, [("pickActiveUpstream", []), exch ctx (some u) req,
                    ("Intn", [toString (h.fallbacks.length : Int)]),
                    exch ctx (h.fallbacks[i.toNat]'hi.2) req]
                   ++ (if fx.2 = none ∧ fx.1 ≠ none then [wrote ctx req fx.1] else []))
      ∧ (e = none ↔ fx.2 = none ∧ fx.1 ≠ none ∧ wr = none) := by
  have hpos : 0 < h.fallbacks.length := by have := hi.2; omega
  obtain ⟨fr, fe⟩ := fx
  simp only [Handler_ServeDNS, idx_of_inRange hi]
  cases fe <;> cases fr <;> cases wr <;> simp [hpos, exch, wrote]

/-- **No main upstream is active ⇒ the query goes to one fallback and to no main upstream.** -/
theorem serve_no_active_main (h : S_forward_Handler) (ctx rw req : Option Int)
    (mx : Option Int × Option String) (isNet : Bool) (i : Int) (fx : Option Int × Option String)
    (wr : Option String) (hi : InRange i h.fallbacks.length) :
    ∃ e, Handler_ServeDNS h ctx rw req none mx isNet i fx wr
        = some (e, [("pickActiveUpstream", []), ("Intn", [toString (h.fallbacks.length : Int)]),
                    exch ctx (h.fallbacks[i.toNat]'hi.2) req]
                   ++ (if fx.2 = none ∧ fx.1 ≠ none then [wrote ctx req fx.1] else []))
      ∧ (e = none ↔ fx.2 = none ∧ fx.1 ≠ none ∧ wr = none) := by
  have hpos : 0 < h.fallbacks.length := by have := hi.2; omega
  obtain ⟨fr, fe⟩ := fx
  simp only [Handler_ServeDNS, idx_of_inRange hi]
  cases fe <;> cases fr <;> cases wr <;> simp [hpos, exch, wrote]

/-- **An error that is not a network error is final**: no fallback, the client gets an error. -/
theorem serve_other_error_final (h : S_forward_Handler) (ctx rw req : Option Int) (u : Int)
    (r0 : Option Int) (e0 : String) (i : Int) (fx : Option Int × Option String) (wr : Option String) :
    ∃ e, Handler_ServeDNS h ctx rw req (some u) (r0, some e0) false i fx wr
        = some (some e, [("pickActiveUpstream", []), exch ctx (some u) req]) := by
  simp [Handler_ServeDNS, exch]

/-- **Without configured fallbacks** nothing but the picked main is ever asked (and with no active
main nobody is): the outcome is the main's, whatever kind of error it made. -/
theorem serve_without_fallbacks (h : S_forward_Handler) (ctx rw req : Option Int) (ups : Option Int)
    (mx : Option Int × Option String) (isNet : Bool) (i : Int) (fx : Option Int × Option String)
    (wr : Option String) (h0 : h.fallbacks = []) :
    Returns (Handler_ServeDNS h ctx rw req ups mx isNet i fx wr) fun (e, tr) =>
      "Intn" ∉ names tr ∧ count "exchange" tr = (if ups = none then 0 else 1)
      ∧ (e = none ↔ ups ≠ none ∧ mx.2 = none ∧ mx.1 ≠ none ∧ wr = none) := by
  obtain ⟨mr, me⟩ := mx
  cases ups <;> cases me <;> cases mr <;> cases wr <;> cases isNet <;>
    simp [Handler_ServeDNS, h0, names, count, Returns]

/-- `ServeDNS` never asks more than two upstreams, draws at most one fallback index and writes at
most one response; it panics only if `Intn` breaks its contract. -/
theorem serve_at_most_two (h : S_forward_Handler) (ctx rw req ups : Option Int)
    (mx : Option Int × Option String) (isNet : Bool) (i : Int) (fx : Option Int × Option String)
    (wr : Option String) (hi : h.fallbacks ≠ [] → InRange i h.fallbacks.length) :
    Returns (Handler_ServeDNS h ctx rw req ups mx isNet i fx wr) fun (_, tr) =>
      count "exchange" tr ≤ 2 ∧ count "Intn" tr ≤ 1 ∧ count "WriteMsg" tr ≤ 1 := by
  by_cases h0 : h.fallbacks = []
  · obtain ⟨mr, me⟩ := mx
    cases ups <;> cases me <;> cases mr <;> cases wr <;> cases isNet <;>
      simp [Handler_ServeDNS, h0, names, count, Returns]
  · have hi := hi h0
    have hpos : 0 < h.fallbacks.length := by have := hi.2; omega
    obtain ⟨mr, me⟩ := mx
    obtain ⟨fr, fe⟩ := fx
    simp only [Handler_ServeDNS, idx_of_inRange hi]
    cases ups <;> cases me <;> cases mr <;> cases wr <;> cases isNet <;> cases fe <;> cases fr <;>
      simp [hpos, names, count, Returns]

/-! ### `ServeDNS` is the hand-written `Agd.Forward.serve` -/

/-- What `h.exchange` returns for a model outcome. -/
def encO : Outcome → Option Int × Option String
  | .reply r => (some (r : Int), none)
  | .netErr => (none, some "net")
  | .otherErr => (none, some "other")
  | .noResp => (none, none)

/-- `errors.As(err, &netErr)` for a model outcome. -/
def isNetO : Outcome → Bool
  | .netErr => true
  | _ => false

/-- The trace entries a model call stands for (`mt`/`ft`: tokens of main / fallback upstreams). -/
def callEntries (ctx req : Option Int) (mt ft : Nat → Int) (nFb : Nat) : Call → Trace
  | .main u => [exch ctx (some (mt u)) req]
  | .fb f => [("Intn", [toString (nFb : Int)]), exch ctx (some (ft f)) req]

def resEntries (ctx req : Option Int) : Res → Trace
  | .answered r => [wrote ctx req (some (r : Int))]
  | .servfail => []

theorem idx_nat {α : Type} (l : List α) (k : Nat) : goIndex? l (k : Int) = l[k]? := by
  have : ¬ ((k : Int) < 0) := by omega
  simp [goIndex?, this]

theorem idx_range {α : Type} (n k : Nat) (g : Nat → α) (hk : k < n) :
    goIndex? ((List.range n).map g) (k : Int) = some (g k) := by
  have : ¬ ((k : Int) < 0) := by omega
  simp [goIndex?, this, hk]

/-- For every model state, choice and behaviour of the upstreams, the translated `ServeDNS` (fed the
picked upstream and the outcomes the model is fed; the response writer succeeding) performs exactly
the exchanges of `Agd.Forward.serve`, in that order and with those upstreams, writes the response
the model answers with, and returns an error iff the model says SERVFAIL. -/
theorem serve_tr (c : Cfg) (s : St) (pick pickFb : Nat) (om ofb : Nat → Outcome)
    (h : S_forward_Handler) (ctx rw req : Option Int) (mt ft : Nat → Int)
    (hf : h.fallbacks = (List.range c.nFb).map (fun f => some (ft f))) :
    Returns (Handler_ServeDNS h ctx rw req ((pickActive s pick).map mt)
        (encO (om ((pickActive s pick).getD 0))) (isNetO (om ((pickActive s pick).getD 0)))
        ((pickFb % c.nFb : Nat) : Int) (encO (ofb (pickFb % c.nFb))) none) fun (e, tr) =>
      tr = [("pickActiveUpstream", [])]
            ++ (serve c s pick om pickFb ofb).calls.flatMap (callEntries ctx req mt ft c.nFb)
            ++ resEntries ctx req (serve c s pick om pickFb ofb).res
      ∧ (e = none ↔ (serve c s pick om pickFb ofb).res ≠ .servfail) := by
  by_cases hn : c.nFb = 0
  · cases hp : pickActive s pick with
    | none => simp [Handler_ServeDNS, serve, hp, hf, hn, Returns, resEntries]
    | some u =>
      cases ho : om u <;>
        simp [Handler_ServeDNS, serve, hp, hf, hn, ho, Returns, resEntries, callEntries, encO, isNetO,
          finish, exch, wrote]
  · have hk : pickFb % c.nFb < c.nFb := Nat.mod_lt _ (by omega)
    have hpos : 0 < c.nFb := by omega
    simp only [Handler_ServeDNS, hf, idx_range _ _ _ hk]
    cases hp : pickActive s pick with
    | none =>
      cases hb : ofb (pickFb % c.nFb) <;>
        simp [serve, hp, hpos, hb, Returns, resEntries, callEntries, encO, finish, exch, wrote]
    | some u =>
      cases ho : om u <;> cases hb : ofb (pickFb % c.nFb) <;>
        simp [serve, hp, hpos, ho, hb, Returns, resEntries, callEntries, encO, isNetO, finish, exch,
          wrote]

example : (serve ⟨2, 1, 5⟩ (St.init ⟨2, 1, 5⟩) 1 (fun _ => .netErr) 0 (fun _ => .reply 7)).calls
    = [.main 1, .fb 0] := by decide

/-! ## `pickActiveUpstream` -/

/-- No active main upstream ⇒ `nil` (and the random source is not consulted). -/
theorem pick_empty (h : S_forward_Handler) (i : Int) (h0 : h.activeUpstreams = []) :
    Handler_pickActiveUpstream h i = some (none, []) := by
  simp [Handler_pickActiveUpstream, h0]

/-- Otherwise the result is the element of `h.activeUpstreams` — the list the health check maintains,
not the list of all upstreams — at the index drawn from `Intn(len(h.activeUpstreams))`. -/
theorem pick_active_element (h : S_forward_Handler) (i : Int) (hi : InRange i h.activeUpstreams.length) :
    Handler_pickActiveUpstream h i
      = some (h.activeUpstreams[i.toNat]'hi.2, [("Intn", [toString (h.activeUpstreams.length : Int)])]) := by
  have : h.activeUpstreams.length ≠ 0 := by have := hi.2; omega
  simp [Handler_pickActiveUpstream, idx_of_inRange hi, this]

/-- It panics exactly when `Intn` breaks its contract. -/
theorem pick_no_panic_iff (h : S_forward_Handler) (i : Int) :
    Handler_pickActiveUpstream h i ≠ none ↔ (h.activeUpstreams = [] ∨ InRange i h.activeUpstreams.length) := by
  by_cases h0 : h.activeUpstreams = []
  · simp [Handler_pickActiveUpstream, h0]
  · have hl : h.activeUpstreams.length ≠ 0 := by simpa using h0
    by_cases hi : InRange i h.activeUpstreams.length
    · simp [pick_active_element h i hi, hi]
    · have : goIndex? h.activeUpstreams i = none := by
        unfold goIndex?
        by_cases hneg : i < 0
        · simp [hneg]
        · have : ¬ i.toNat < h.activeUpstreams.length := fun hh => hi ⟨by omega, hh⟩
          simp [hneg, this]
      simp [Handler_pickActiveUpstream, h0, hl, hi, this]

/-- … and is `Agd.Forward.pickActive` on every model state. -/
theorem pick_tr (s : St) (pick : Nat) (mt : Nat → Int) (h : S_forward_Handler)
    (ha : h.activeUpstreams = s.active.map (fun u => some (mt u))) :
    (Handler_pickActiveUpstream h ((pick % s.active.length : Nat) : Int)).map (·.1)
      = some ((pickActive s pick).map mt) := by
  by_cases h0 : s.active = []
  · simp [Handler_pickActiveUpstream, ha, h0, pickActive]
  · have hl : s.active.length ≠ 0 := by simpa using h0
    have hk : pick % s.active.length < s.active.length := Nat.mod_lt _ (by omega)
    simp only [Handler_pickActiveUpstream, ha, idx_nat, List.getElem?_map, List.length_map]
    simp [hl, pickActive, hk]

/-! ## `healthcheckUpstream`: one probe and the bookkeeping of `lastFailedHealthcheck` -/

/-- **In backoff** (`time.Since(lastFailed) < hcBackoff`, strictly): reported as such, no probe is
sent (`checkUpstream` is not reached) and the recorded failure time stays. -/
theorem hc_backoff_skips_probe (h : S_forward_Handler) (ctx req lg : Option Int) (st : S_forward_upstreamStatus)
    (mr isz : Bool) (since now : Int) (ck : Option String) (hb : since < h.hcBackoff) :
    Handler_healthcheckUpstream h ctx (some st) req mr lg since ck now isz
      = some (some st, true, none, [("Since", [toString st.lastFailedHealthcheck])]) := by
  simp [Handler_healthcheckUpstream, hb]

/-- **Backoff elapsed** (`≥`, the boundary included) **and the probe fails**: the failure time becomes
`time.Now()`, an error is returned, the upstream is not "in backoff" for the caller. -/
theorem hc_probe_failed (h : S_forward_Handler) (ctx req lg : Option Int) (st : S_forward_upstreamStatus)
    (mr isz : Bool) (since now : Int) (e : String) (hb : h.hcBackoff ≤ since) :
    Returns (Handler_healthcheckUpstream h ctx (some st) req mr lg since (some e) now isz)
      fun (st', inBackoff, err, tr) =>
        st' = some { st with lastFailedHealthcheck := now } ∧ inBackoff = false ∧ err ≠ none
        ∧ count "checkUpstream" tr = 1 := by
  have : ¬ since < h.hcBackoff := by omega
  simp [Handler_healthcheckUpstream, this, Returns, count, names, wrapErr]

/-- **Backoff elapsed and the probe succeeds**: the failure time is reset to the zero time and no
error is returned — the caller puts the upstream back into rotation. -/
theorem hc_probe_ok (h : S_forward_Handler) (ctx req lg : Option Int) (st : S_forward_upstreamStatus)
    (mr isz : Bool) (since now : Int) (hb : h.hcBackoff ≤ since) :
    Returns (Handler_healthcheckUpstream h ctx (some st) req mr lg since none now isz)
      fun (st', inBackoff, err, tr) =>
        st' = some { st with lastFailedHealthcheck := 0 } ∧ inBackoff = false ∧ err = none
        ∧ tr.take 2 = [("Since", [toString st.lastFailedHealthcheck]),
                       ("checkUpstream", [toString ctx, toString st.upstream, toString req])] := by
  have : ¬ since < h.hcBackoff := by omega
  simp [Handler_healthcheckUpstream, this, Returns, wrapErr]

/-- It panics exactly on a nil status. -/
theorem hc_no_panic_iff (h : S_forward_Handler) (ctx req lg : Option Int) (st : Option S_forward_upstreamStatus)
    (mr isz : Bool) (since now : Int) (ck : Option String) :
    Handler_healthcheckUpstream h ctx st req mr lg since ck now isz ≠ none ↔ st ≠ none := by
  cases st <;> cases ck <;> by_cases hb : since < h.hcBackoff <;>
    simp [Handler_healthcheckUpstream, hb]

/-- Encoding of the model's `lastFailed` as a `time.Time` token: the zero time is the token 0. -/
def encLF : Option Int → Int
  | none => 0
  | some f => f

/-- What `time.Since(lastFailed)` returns at time `t`: for the zero time the saturated maximal
duration `big` (Go: `math.MaxInt64`). -/
def sinceOf (big : Int) (lf : Option Int) (t : Int) : Int :=
  match lf with
  | none => big
  | some f => t - f

/-- **The translated probe step is the model's `hcOne`** on every model state: "in backoff" is
`Agd.Forward.inBackoff`, and the new `lastFailed` and the success flag are those `hcOne` computes.
Range hypothesis: the configured backoff does not exceed the saturated duration. -/
theorem hcUpstream_tr (b big : Int) (pr : Nat → Probe) (a : HcAcc) (u : Nat) (h : S_forward_Handler)
    (ctx req lg tok : Option Int) (mr isz : Bool) (e : String)
    (hb : h.hcBackoff = b) (hbig : b ≤ big) :
    Returns (Handler_healthcheckUpstream h ctx (some ⟨tok, encLF (a.lf u)⟩) req mr lg
        (sinceOf big (a.lf u) (pr u).tCheck) (if (pr u).ok then none else some e) (pr u).tFail isz)
      fun (st', inB, err, _) =>
        inB = inBackoff b (a.lf u) (pr u).tCheck
        ∧ st' = some ⟨tok, encLF ((hcOne b pr a u).lf u)⟩
        ∧ ((hcOne b pr a u).act = if (!inB && err.isNone) then a.act ++ [u] else a.act) := by
  subst hb
  cases hl : a.lf u with
  | none =>
    have : ¬ big < h.hcBackoff := by omega
    cases hok : (pr u).ok <;>
      simp [Handler_healthcheckUpstream, sinceOf, this, hok, Returns, inBackoff, hcOne, hl, encLF, put,
        wrapErr]
  | some f =>
    by_cases hlt : (pr u).tCheck - f < h.hcBackoff
    · simp [Handler_healthcheckUpstream, sinceOf, hlt, Returns, inBackoff, hcOne, hl, encLF]
    · cases hok : (pr u).ok <;>
        simp [Handler_healthcheckUpstream, sinceOf, hlt, hok, Returns, inBackoff, hcOne, hl, encLF, put,
          wrapErr]

example : inBackoff 30 (some 100) 129 = true ∧ inBackoff 30 (some 100) 130 = false := by decide

/-! ## `healthcheck`: the loop over the main upstreams and the new active list

The translator gives an opaque call one result parameter per call *site*: all iterations of the loop
see the same `(inBackoff, ckErr)` from `healthcheckUpstream`.  The three theorems below therefore
cover the uniform rounds; the per-upstream step is `hcUpstream_tr` above. -/

/-- Loop invariant rule for translated `for … range` loops that neither break, return nor panic. -/
theorem range_inv {α σ ρ : Type} {f : σ → Int → α → Option (Step σ ρ)} (good : α → Prop)
    (Q : List α → σ → Prop)
    (step : ∀ pre x s i, good x → Q pre s → ∃ s', f s i x = some (.next s') ∧ Q (pre ++ [x]) s') :
    ∀ (xs pre : List α) (s : σ) (i : Int) (r : Option (σ ⊕ ρ)), goRangeFrom? i xs s f = r →
      (∀ x ∈ xs, good x) → Q pre s → ∃ s', r = some (.inl s') ∧ Q (pre ++ xs) s' := by
  intro xs
  induction xs with
  | nil => intro pre s i r hr _ hq; exact ⟨s, by simpa [goRangeFrom?] using hr.symm, by simpa using hq⟩
  | cons x xs ih =>
    intro pre s i r hr hg hq
    obtain ⟨s', hs, hq'⟩ := step pre x s i (hg x (by simp)) hq
    simp only [goRangeFrom?, hs] at hr
    obtain ⟨s'', h1, h2⟩ := ih (pre ++ [x]) s' (i + 1) r hr (fun y hy => hg y (by simp [hy])) hq'
    exact ⟨s'', h1, by simpa using h2⟩

/-- **An upstream reported "in backoff" is not put on the active list** (and with nobody active the
round returns an error; `h.activeUpstreams` is replaced, nothing else of the handler changes). -/
theorem healthcheck_backoff_not_active (h : S_forward_Handler) (ctx rq : Option Int) (mr : Bool)
    (fu ra : String) (ck : Option String) :
    Returns (Handler_healthcheck h ctx mr fu ra rq (true, ck)) fun (h', err, _) =>
      h' = { h with activeUpstreams := [] } ∧ err ≠ none := by
  unfold Handler_healthcheck
  simp only [goRange?]
  split <;>
  · generalize hr : goRangeFrom? 0 h.upstreams _ _ = r
    obtain ⟨s', rfl, hq⟩ := range_inv (fun _ => True) (fun _ s => s.2.1 = [])
      (by intro pre x s i _ hq; obtain ⟨a, b, c⟩ := s; simp_all) h.upstreams [] _ 0 r hr (by simp) rfl
    obtain ⟨a, b, c⟩ := s'
    simp_all [Returns, firstErr_eq_none]

/-- **An upstream whose probe failed is not put on the active list** either. -/
theorem healthcheck_failed_not_active (h : S_forward_Handler) (ctx rq : Option Int) (mr : Bool)
    (fu ra : String) (e : String) :
    Returns (Handler_healthcheck h ctx mr fu ra rq (false, some e)) fun (h', err, _) =>
      h' = { h with activeUpstreams := [] } ∧ err ≠ none := by
  unfold Handler_healthcheck
  simp only [goRange?]
  split <;>
  · generalize hr : goRangeFrom? 0 h.upstreams _ _ = r
    obtain ⟨s', rfl, hq⟩ := range_inv (fun _ => True) (fun _ s => s.2.1 = [])
      (by intro pre x s i _ hq; obtain ⟨a, b, c⟩ := s; simp_all) h.upstreams [] _ 0 r hr (by simp) rfl
    obtain ⟨a, b, c⟩ := s'
    simp_all [Returns, firstErr_eq_none]

theorem fm_some (sts : List S_forward_upstreamStatus) :
    List.filterMap ((fun x => Option.map (fun x => x.upstream) x) ∘ some) sts = sts.map (·.upstream) := by
  induction sts with
  | nil => rfl
  | cons a t ih => simp [ih]

/-- **Upstreams probed successfully — and only a round's own results — make up the new active
list**, in the order of `h.upstreams`; the round reports success iff somebody is active. -/
theorem healthcheck_ok_active (h : S_forward_Handler) (ctx rq : Option Int) (mr : Bool)
    (fu ra : String) (sts : List S_forward_upstreamStatus) (hu : h.upstreams = sts.map some) :
    Returns (Handler_healthcheck h ctx mr fu ra rq (false, none)) fun (h', err, _) =>
      h' = { h with activeUpstreams := sts.map (·.upstream) } ∧ (err = none ↔ sts ≠ []) := by
  unfold Handler_healthcheck
  simp only [goRange?]
  split <;>
  · generalize hr : goRangeFrom? 0 h.upstreams _ _ = r
    obtain ⟨s', rfl, hq⟩ := range_inv (fun x => x ≠ none)
      (fun pre s => s.2.1 = pre.filterMap (fun x => x.map (·.upstream)) ∧ s.1 = [])
      (by
        intro pre x s i hx hq
        obtain ⟨a, b, c⟩ := s
        cases x with
        | none => exact absurd rfl hx
        | some y => simp_all) h.upstreams [] _ 0 r hr (by simp [hu]) ⟨rfl, rfl⟩
    obtain ⟨a, b, c⟩ := s'
    simp [hu] at hq
    rw [fm_some] at hq
    obtain ⟨hb, ha⟩ := hq
    subst hb ha
    cases sts with
    | nil => simp [Returns]
    | cons y t =>
      have : ¬ ((t.length : Int) + 1 = 0) := by omega
      simp [Returns, this]

end Agd.Tie.TrC17
