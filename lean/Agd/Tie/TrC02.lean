import Agd.Gen.TrC02
/-!
# C02: which answer a filtered query gets, and which filter applies — on translated source

`Agd.Gen.TrC02.*` are regenerated on every run (`extract/tr.go`) from
`internal/dnssvc/internal/mainmw` (`filter`, `setFilteredResponse`, `setFilteredResponseNoReq`,
`blockedRespFallback`, `filterRequest`).  The type switch over the filtering result is a chain of
opaque "the dynamic type is T" tests (exactly one of which holds for a value of the sum type); the
message constructor and the filter storage are opaque calls; writes to the filtering context are
trace entries `("set fctx.filteredResponse", [source of the value])`.
-/
namespace Agd.Tie.TrC02
open Agd.Gen.TrC02 Agd.TrPrelude

theorem translation_complete : translationFailures = [] := by decide

def names (tr : List (String × List String)) : List String := tr.map (·.1)
/-- The sources of the values written into `fctx.filteredResponse`, in order. -/
def written (tr : List (String × List String)) : List (List String) :=
  (tr.filter (·.1 = "set fctx.filteredResponse")).map (·.2)

/-- Clause 5 (the answer of a blocked query never contains upstream records): when the request verdict
is `ResultBlocked`, the filtered response is what `NewBlockedResp` built for the requester's own
message constructor (`ri.Messages`), or — if that fails — the SERVFAIL fallback; the upstream answer
(`fctx.originalResponse`) is never used, and the response-stage verdict is not consulted. -/
theorem blocked_never_upstream (mw : S_mainmw_Middleware) (fctx : Option S_mainmw_filteringContext)
    (ri : Option S_agd_RequestInfo) (b : AbsPtr × Option String) (fb : AbsPtr) (a m r : Bool) :
    ∃ tr, setFilteredResponse mw fctx ri false true b fb a m r = some tr ∧
      ["fctx.originalResponse"] ∉ written tr ∧ "setFilteredResponseNoReq" ∉ names tr ∧
      (b.2 = none → names tr = ["NewBlockedResp", "set fctx.filteredResponse"]) ∧
      (b.2 ≠ none → names tr = ["NewBlockedResp", "set fctx.filteredResponse", "blockedRespFallback",
        "set fctx.filteredResponse"]) := by
  cases h : b.2 <;> simp [setFilteredResponse, written, names, h]

/-- The fallback is a SERVFAIL (rcode 2) built by the requester's constructor. -/
theorem fallback_is_servfail (mw : S_mainmw_Middleware) (fctx : Option S_mainmw_filteringContext)
    (ri : Option S_agd_RequestInfo) (x : AbsPtr) :
    blockedRespFallback mw fctx ri x = (x, [("NewBlockedRespRCode", ["_", toString (2 : Int)])]) := by
  simp [blockedRespFallback]

/-- Clause 4 (a verdict on the request takes precedence over one on the response): the response-stage
verdict is consulted exactly when there is no request-stage verdict. -/
theorem request_over_response (mw : S_mainmw_Middleware) (fctx : Option S_mainmw_filteringContext)
    (ri : Option S_agd_RequestInfo) (isNil blk : Bool) (b : AbsPtr × Option String) (fb : AbsPtr) (a m r : Bool)
    (tr : List (String × List String)) (h : setFilteredResponse mw fctx ri isNil blk b fb a m r = some tr) :
    ("setFilteredResponseNoReq" ∈ names tr ↔ isNil = true) := by
  cases isNil <;> cases blk <;> cases a <;> cases m <;> cases r <;> cases hb : b.2 <;>
    simp [setFilteredResponse, hb] at h <;> subst h <;> simp [names]

/-- An allowed request, and a CNAME-rewritten one, get the upstream answer; a request rewritten to a
response gets the rule's answer. -/
theorem allowed_and_rewritten (mw : S_mainmw_Middleware) (fctx : Option S_mainmw_filteringContext)
    (ri : Option S_agd_RequestInfo) (b : AbsPtr × Option String) (fb : AbsPtr) (a m r : Bool) :
    (a = true ∨ m = true → setFilteredResponse mw fctx ri false false b fb a m r =
        some [("set fctx.filteredResponse", ["fctx.originalResponse"])]) ∧
    (a = false → m = false → r = true → setFilteredResponse mw fctx ri false false b fb a m r =
        some [("set fctx.filteredResponse", ["reqRes.Msg"])]) ∧
    (a = false → m = false → r = false → setFilteredResponse mw fctx ri false false b fb a m r = none) := by
  cases a <;> cases m <;> cases r <;> simp [setFilteredResponse]

/-- Without a request verdict: no response verdict or an allow ⇒ the upstream answer; a block ⇒ the
blocked response or the SERVFAIL fallback, never the upstream answer; anything else is a programmer
error (panic). -/
theorem response_stage (mw : S_mainmw_Middleware) (fctx : Option S_mainmw_filteringContext)
    (ri : Option S_agd_RequestInfo) (isNil a blk : Bool) (b : AbsPtr × Option String) (fb : AbsPtr) :
    (isNil = true ∨ a = true → setFilteredResponseNoReq mw fctx ri isNil a blk b fb =
        some [("set fctx.filteredResponse", ["fctx.originalResponse"])]) ∧
    (isNil = false → a = false → blk = true →
        ∃ tr, setFilteredResponseNoReq mw fctx ri isNil a blk b fb = some tr ∧
          ["fctx.originalResponse"] ∉ written tr ∧ "NewBlockedResp" ∈ names tr) ∧
    (isNil = false → a = false → blk = false → setFilteredResponseNoReq mw fctx ri isNil a blk b fb = none) := by
  cases isNil <;> cases a <;> cases blk <;> cases h : b.2 <;> simp [setFilteredResponseNoReq, written, names, h]

/-- Which filter applies: without a profile the filtering group's; with a profile, the profile's own
only if filtering is enabled for the profile AND the device, otherwise the empty one (third call site:
`ForConfig(ctx, nil)`), so nothing is filtered when filtering is disabled for the profile or device. -/
theorem filter_choice (mw : S_mainmw_Middleware) (ri : Option S_agd_RequestInfo) (p : S_agd_Profile) (d : S_agd_Device)
    (grp own none' : AbsPtr) :
    (mw_filter mw ri (none, some d) grp own none').map (·.1) = some grp ∧
    (mw_filter mw ri (some p, some d) grp own none').map (·.1) =
      some (if p.FilteringEnabled && d.FilteringEnabled then own else none') := by
  cases hp : p.FilteringEnabled <;> cases hd : d.FilteringEnabled <;> simp [mw_filter, hp, hd]

example : written [("set fctx.filteredResponse", ["fctx.originalResponse"])] = [["fctx.originalResponse"]] := by decide

/-! ## The handler `Middleware.Wrap` returns (translator round 3) -/

def cnt (n : String) (tr : List (String × List String)) : Nat := (names tr).count n

/-- `a` occurs and the first `b` comes after the first `a`. -/
def before (a b : String) (tr : List (String × List String)) : Prop :=
  a ∈ names tr ∧ (names tr).idxOf a < (names tr).idxOf b

/-- **Order of effects of the main middleware**, for every outcome of every call (`fc` is the filtering
context taken from the pool, `ctxErr` the context error after request filtering, `up` the error of the next
handler, `dbgW` / `w` the results of the two ways of writing, `differ` whether the filtered response is
another message than the upstream's):
request filtering happens first; the next handler is called exactly once **whatever the verdict**, unless
the context died during request filtering — then nothing is forwarded, filtered or written and the error is
not nil; if the next handler fails its error is returned and nothing is filtered or written; otherwise the
response is filtered, the final response is set and exactly one write happens (debug or normal), in that
order; the query is recorded only after a successful normal write; the context goes back to the pool
exactly once, as the last action, on every path.  Never panics with a context from the pool. -/
theorem wrap_effect_order (mw : S_mainmw_Middleware) (fc : S_mainmw_filteringContext) (ri : Option S_agd_RequestInfo)
    (flt : AbsPtr) (ctxErr : Option String) (nw : Option S_dnsserver_NonWriterResponseWriter) (up : Option String)
    (msg : AbsPtr) (dbgW w : Option String) (differ : Bool) :
    mainmw_handler mw (some fc) ri flt ctxErr nw up msg dbgW w differ ≠ none ∧
    ∀ e tr, mainmw_handler mw (some fc) ri flt ctxErr nw up msg dbgW w differ = some (e, tr) →
      before "filter" "filterRequest" tr ∧ before "filterRequest" "Err" tr ∧ cnt "filterRequest" tr = 1 ∧
      cnt "Put" tr = 1 ∧ (names tr).getLast? = some "Put" ∧
      (ctxErr ≠ none → e ≠ none ∧ cnt "ServeDNS" tr = 0 ∧ cnt "filterResponse" tr = 0 ∧ cnt "WriteMsg" tr = 0 ∧
        cnt "writeDebugResponse" tr = 0 ∧ cnt "recordQueryInfo" tr = 0) ∧
      (ctxErr = none → cnt "ServeDNS" tr = 1 ∧ before "Err" "ServeDNS" tr) ∧
      (ctxErr = none → up ≠ none → e = up ∧ cnt "filterResponse" tr = 0 ∧ cnt "WriteMsg" tr = 0 ∧
        cnt "writeDebugResponse" tr = 0 ∧ cnt "recordQueryInfo" tr = 0) ∧
      (ctxErr = none → up = none →
        before "ServeDNS" "filterResponse" tr ∧ before "filterResponse" "setFilteredResponse" tr ∧
        cnt "filterResponse" tr = 1 ∧ cnt "setFilteredResponse" tr = 1 ∧
        cnt "WriteMsg" tr + cnt "writeDebugResponse" tr = 1 ∧
        (fc.isDebug = true → e = dbgW ∧ before "setFilteredResponse" "writeDebugResponse" tr ∧ cnt "recordQueryInfo" tr = 0) ∧
        (fc.isDebug = false → e = w ∧ before "setFilteredResponse" "WriteMsg" tr ∧
          cnt "recordQueryInfo" tr = (if w = none then 1 else 0) ∧ (w = none → before "WriteMsg" "recordQueryInfo" tr) ∧
          cnt "Dispose" tr = (if w = none ∧ differ = true then 1 else 0))) := by
  obtain ⟨el, dbg⟩ := fc
  cases ctxErr <;> cases up <;> cases dbg <;> cases w <;> cases differ <;>
    (refine ⟨by simp [mainmw_handler], fun e tr h => ?_⟩
     simp [mainmw_handler] at h
     obtain ⟨rfl, rfl⟩ := h
     simp [cnt, names, before] <;> decide)

/-! ## Round 6: `filterRequest` (the request stage that produces the verdict `setFilteredResponse` consumes) -/

/-- `Middleware.filterRequest`, every run with a filtering context: the pooled filter request is taken
once and handed back once, as the LAST effect (the `defer`); the filter is consulted exactly once,
between the two; its result is stored in the context whatever the error was (an error of the filter is
collected, never turned into a missing result); and the rewritten request is stored exactly when the
result is a `*filter.ResultModifiedRequest`, before the result itself. -/
theorem filterRequest_effects (mw : S_mainmw_Middleware) (fc : S_mainmw_filteringContext) (ri : Option S_agd_RequestInfo)
    (u : Unit) (fr : AbsPtr) (res : AbsPtr × Option String) (mod : AbsPtr × Bool) (since : Int) :
    mw_filterRequest mw (some fc) ri u fr res mod since =
      some ([("Now", []), ("reqInfoToFltReq", ["_", "_"]), ("FilterRequest", ["_", "_"])] ++
        (if mod.2 then [("set fctx.modifiedRequest", ["mod.Msg"])] else []) ++
        [("set fctx.requestResult", ["reqRes"]), ("Since", ["_"]), ("putFltReq", ["_"])]) := by
  cases h1 : res.2 <;> cases h2 : mod.2 <;> simp [mw_filterRequest, h1, h2]

/-- A nil filtering context is a nil dereference (the only way `filterRequest` can panic). -/
theorem filterRequest_nil_ctx (mw : S_mainmw_Middleware) (ri : Option S_agd_RequestInfo)
    (u : Unit) (fr : AbsPtr) (res : AbsPtr × Option String) (mod : AbsPtr × Bool) (since : Int) :
    mw_filterRequest mw none ri u fr res mod since = none := by
  cases h1 : res.2 <;> cases h2 : mod.2 <;> simp [mw_filterRequest, h1, h2]

/-- The filter's error does not change what is done with its result. -/
theorem filterRequest_error_independent (mw : S_mainmw_Middleware) (fctx : Option S_mainmw_filteringContext)
    (ri : Option S_agd_RequestInfo) (u : Unit) (fr r : AbsPtr) (e e' : Option String) (mod : AbsPtr × Bool) (since : Int) :
    mw_filterRequest mw fctx ri u fr (r, e) mod since = mw_filterRequest mw fctx ri u fr (r, e') mod since := by
  cases fctx <;> cases e <;> cases e' <;> cases h2 : mod.2 <;> simp [mw_filterRequest, h2]

end Agd.Tie.TrC02

#print axioms Agd.Tie.TrC02.translation_complete
#print axioms Agd.Tie.TrC02.blocked_never_upstream
#print axioms Agd.Tie.TrC02.fallback_is_servfail
#print axioms Agd.Tie.TrC02.request_over_response
#print axioms Agd.Tie.TrC02.allowed_and_rewritten
#print axioms Agd.Tie.TrC02.response_stage
#print axioms Agd.Tie.TrC02.filter_choice
#print axioms Agd.Tie.TrC02.filterRequest_effects
#print axioms Agd.Tie.TrC02.filterRequest_nil_ctx
#print axioms Agd.Tie.TrC02.filterRequest_error_independent
