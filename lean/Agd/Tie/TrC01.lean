import Agd.Gen.TrC01
import Agd.Model.Serve
/-!
# C01: the accept path of `ServerBase`, as translated from the source

`Agd.Gen.TrC01.*` are regenerated on every run (`extract/tr.go`) from
`internal/dnsserver/serverbase.go`: `acceptMsg` (pure decision on the fields of the unpacked
message), `serveDNSMsgInternal`, `serveDNSMsg` and `serveDNS` (decision structures; the handler, the
response writer, `genErrorResponse`, the metrics and the disposer are opaque — their results are
parameters and the calls, with their scalar arguments, form the returned trace).
-/
namespace Agd.Tie.TrC01
open Agd.Gen.TrC01 Agd.TrPrelude

theorem translation_complete : translationFailures = [] := by decide

def names (tr : List (String × List String)) : List String := tr.map (·.1)

/-- `dns.MsgAcceptAction` values. -/
def actionCode : Agd.Serve.Action → Int
  | .accept => 0 | .formerr => 1 | .ignore => 2 | .notimp => 3

/-- The accept decision of the model (`Agd.Serve.acceptMsg`, the table every C01 theorem uses) is the
translated `ServerBase.acceptMsg` on the fields of the unpacked message, for every message. -/
theorem acceptMsg_tr (s : S_dnsserver_ServerBase) (m : Agd.Serve.Msg) :
    acceptMsg s m.qr m.opcode m.questions.length m.nAn m.nNs = actionCode (Agd.Serve.acceptMsg m) := by
  unfold acceptMsg Agd.Serve.acceptMsg
  cases hq : m.qr
  · simp only [Bool.false_eq_true, ↓reduceIte, Bool.and_eq_true, Bool.not_eq_eq_eq_not, Bool.not_true,
      decide_eq_false_iff_not, decide_eq_true_eq]
    by_cases h1 : m.opcode ≠ 0 ∧ m.opcode ≠ 4
    · have h1' : ¬((m.opcode : Int) = 0) ∧ ¬((m.opcode : Int) = 4) := by omega
      simp [h1, h1', actionCode]
    · have h1' : ¬(¬((m.opcode : Int) = 0) ∧ ¬((m.opcode : Int) = 4)) := by omega
      simp only [h1, h1', ↓reduceIte]
      by_cases h2 : m.questions.length ≠ 1
      · have h2' : ¬((m.questions.length : Int) = 1) := by omega
        simp [h2, h2', actionCode]
      · have h2' : ((m.questions.length : Int) = 1) := by omega
        simp only [h2, h2', not_true_eq_false, ↓reduceIte]
        by_cases h3 : m.nAn > 1
        · have h3' : (m.nAn : Int) > 1 := by omega
          simp [h3, h3', actionCode]
        · have h3' : ¬((m.nAn : Int) > 1) := by omega
          simp only [h3, h3', ↓reduceIte]
          by_cases h4 : m.nNs > 1
          · have h4' : (m.nNs : Int) > 1 := by omega
            simp [h4, h4', actionCode]
          · have h4' : ¬((m.nNs : Int) > 1) := by omega
            simp [h4, h4', actionCode]
  · simp [actionCode]

/-! ## `serveDNSMsgInternal`: who may write, and how often -/

/-- Whatever the handler and the writer do, the server itself writes at most one message. -/
theorem at_most_one_server_write (s : S_dnsserver_ServerBase) (rw : Option S_dnsserver_RecorderResponseWriter)
    (act : Int) (g1 : AbsPtr) (w1 h : Option String) (g2 : AbsPtr) (nc : Bool) (w2 : Option String) (g3 : AbsPtr) :
    (names (serveDNSMsgInternal s rw act g1 w1 h g2 nc w2 g3)).count "WriteMsg" ≤ 1 := by
  unfold serveDNSMsgInternal names
  by_cases a1 : act = 1 <;> by_cases a3 : act = 3 <;> by_cases a2 : act = 2 <;>
    cases g1 <;> cases g3 <;> cases h <;> cases nc <;> cases w1 <;> cases w2 <;> simp [a1, a2, a3] <;> decide

/-- A response (`MsgIgnore`) gets nothing: the handler is not called and nothing is written. -/
theorem ignored_gets_nothing (s : S_dnsserver_ServerBase) (rw : Option S_dnsserver_RecorderResponseWriter)
    (g1 : AbsPtr) (w1 h : Option String) (g2 : AbsPtr) (nc : Bool) (w2 : Option String) (g3 : AbsPtr) :
    names (serveDNSMsgInternal s rw 2 g1 w1 h g2 nc w2 g3) = ["acceptMsg", "OnInvalidMsg"] := by
  simp [serveDNSMsgInternal, names]

/-- A message rejected with FORMERR (`MsgReject`, rcode 1) or NOTIMP (`MsgRejectNotImplemented`,
rcode 4) never reaches the handler and is answered exactly once, with that code.  (`genErrorResponse`
returns a message: hypothesis `g = true`.) -/
theorem rejected_never_reaches_handler (s : S_dnsserver_ServerBase) (rw : Option S_dnsserver_RecorderResponseWriter)
    (w1 h : Option String) (g2 : AbsPtr) (nc : Bool) (w2 : Option String) (g3 : AbsPtr) :
    serveDNSMsgInternal s rw 1 true w1 h g2 nc w2 g3 =
      [("acceptMsg", ["_"]), ("genErrorResponse", ["_", "1"]), ("WriteMsg", ["_", "_", "_"])] ∧
    serveDNSMsgInternal s rw 3 g2 w1 h g2 nc w2 true =
      [("acceptMsg", ["_"]), ("genErrorResponse", ["_", "4"]), ("WriteMsg", ["_", "_", "_"])] := by
  constructor <;> (unfold serveDNSMsgInternal; cases w1 <;> simp <;> decide)

/-- An accepted query is handed to the handler exactly once; if the handler fails the server answers
SERVFAIL (rcode 2) exactly once, otherwise it writes nothing of its own. -/
theorem accepted_served_by_handler (s : S_dnsserver_ServerBase) (rw : Option S_dnsserver_RecorderResponseWriter)
    (g1 : AbsPtr) (w1 h : Option String) (g2 : AbsPtr) (nc : Bool) (w2 : Option String) (g3 : AbsPtr) :
    let tr := serveDNSMsgInternal s rw 0 g1 w1 h g2 nc w2 g3
    (names tr).count "ServeDNS" = 1 ∧
    (h = none → (names tr).count "WriteMsg" = 0) ∧
    (h ≠ none → (names tr).count "WriteMsg" = 1 ∧ ("genErrorResponse", ["_", "2"]) ∈ tr) := by
  unfold serveDNSMsgInternal names
  cases h <;> cases nc <;> cases w2 <;> simp <;> decide

/-! ## `serveDNSMsg`: the response is released after its last use -/

/-- In every run the disposer is called exactly once, as the last effect — in particular after the
recorded response has been measured (`Len`) and reported (`OnRequest`). -/
theorem dispose_is_last (s : S_dnsserver_ServerBase) (qd : String × String)
    (rw : Option S_dnsserver_RecorderResponseWriter) (resp : AbsPtr) (len : Int) :
    let tr := names (serveDNSMsg s qd rw resp len).2
    tr.getLast? = some "dispose" ∧ tr.count "dispose" = 1 ∧ (serveDNSMsg s qd rw resp len).1 = resp := by
  unfold serveDNSMsg names
  cases resp <;> simp

/-- Undecodable bytes are dropped: no message reaches `serveDNSMsg`, nothing is reported as written. -/
theorem undecodable_dropped (s : S_dnsserver_ServerBase) (buf : List Int) (e : String) (w : Bool) :
    serveDNS s buf (some e) w = (false, [("Unpack", ["_"]), ("OnInvalidMsg", ["_"])]) := by
  simp [serveDNS]

/-! ## Round 3: the HTTP front end of DoH, as translated from `serverhttps.go` / `serverhttpsjson.go` -/

def kindOf (r : Bool × Bool × String × List (String × List String)) : Agd.Serve.PathKind :=
  if r.1 = false then .other else if r.2.1 then .json else .doh

/-- The model's path classification (`Agd.Serve.pathKindOf`) is the translated `isDoH` on the elements of
the cleaned path, for every path and every `ct` parameter: which requests are DNS requests at all, and
which of the two APIs they address (`parts[1:]` is the re-slicing the translation leaves opaque). -/
theorem isDoH_tr (clean raw ct : String) (r : Bool × Bool × String × List (String × List String))
    (h : isDoH clean raw ((goSplit clean "/").drop 1) ct = some r) :
    kindOf r = Agd.Serve.pathKindOf (goSplit clean "/") ∧
    (r.2.2.1 = "application/x-javascript" ↔ (r.2.1 = true ∧ ct ≠ "application/dns-message")) := by
  unfold isDoH at h
  unfold Agd.Serve.pathKindOf
  cases hs : goSplit clean "/" with
  | nil => simp [hs, goIndex?] at h
  | cons p0 rest =>
    by_cases hp0 : p0 = ""
    · subst hp0
      cases rest with
      | nil => simp [hs, goIndex?] at h
      | cons p1 rest' =>
        simp only [hs, goIndex?, List.drop] at h
        simp at h
        by_cases h1 : p1 = ""
        · simp [h1] at h; subst h; simp [kindOf, h1]
        · by_cases h2 : goHasSuffix "/dns-query" p1 = true
          · simp [h1, h2] at h; subst h
            simp [kindOf, h1, Agd.Serve.pathDoH, goHasSuffix] at h2 ⊢; simp [h2]
          · by_cases h3 : goHasSuffix "/resolve" p1 = true
            · simp [h1, h2, h3] at h
              simp [goHasSuffix] at h2 h3
              by_cases hc : ct = "application/dns-message"
              · simp [hc] at h; subst h; simp [kindOf, h1, Agd.Serve.pathDoH, Agd.Serve.pathJSON, h2, h3, hc]
              · simp [hc] at h; subst h; simp [kindOf, h1, Agd.Serve.pathDoH, Agd.Serve.pathJSON, h2, h3, hc]
            · simp [h1, h2, h3] at h; subst h
              simp [goHasSuffix] at h2 h3
              simp [kindOf, h1, Agd.Serve.pathDoH, Agd.Serve.pathJSON, h2, h3]
    · simp only [hs, goIndex?] at h
      simp [hp0] at h
      by_cases h2 : goHasSuffix "/dns-query" p0 = true
      · simp [h2] at h; subst h
        simp [kindOf, hp0, Agd.Serve.pathDoH, goHasSuffix] at h2 ⊢; simp [h2]
      · by_cases h3 : goHasSuffix "/resolve" p0 = true
        · simp [h2, h3] at h
          simp [goHasSuffix] at h2 h3
          by_cases hc : ct = "application/dns-message"
          · simp [hc] at h; subst h; simp [kindOf, hp0, Agd.Serve.pathDoH, Agd.Serve.pathJSON, h2, h3, hc]
          · simp [hc] at h; subst h; simp [kindOf, hp0, Agd.Serve.pathDoH, Agd.Serve.pathJSON, h2, h3, hc]
        · simp [h2, h3] at h; subst h
          simp [goHasSuffix] at h2 h3
          simp [kindOf, hp0, Agd.Serve.pathDoH, Agd.Serve.pathJSON, h2, h3]

/-- `httpRequestToMsg`: the JSON API whatever the method; otherwise GET → the `dns` parameter, POST → the
body, any other method → an error (HTTP 400) — `Agd.Serve.dohFront`. -/
theorem httpRequestToMsg_tr (d : Bool × Bool × String) (j g p : List Int × Option String) (meth : String) :
    let r := httpRequestToMsg d j meth g p
    (d.2.1 = true → (r.1, r.2.1) = j) ∧
    (d.2.1 = false → meth = "GET" → (r.1, r.2.1) = g) ∧
    (d.2.1 = false → meth = "POST" → (r.1, r.2.1) = p) ∧
    (d.2.1 = false → meth ≠ "GET" → meth ≠ "POST" → r.2.1 ≠ none) := by
  unfold httpRequestToMsg
  cases hj : d.2.1 <;> simp [hj]
  by_cases hg : meth = "GET"
  · simp [hg]
  · by_cases hp : meth = "POST"
    · simp [hp]
    · simp [hg, hp]

/-- `httpRequestToMsgGet`: an error unless the `dns` parameter is present exactly once; then the decoder's
result, nothing else. -/
theorem httpRequestToMsgGet_tr (q : AbsPtr) (vals : List String) (ok : Bool) (dec : List Int × Option String) :
    let r := httpRequestToMsgGet q (vals, ok) dec
    ((ok = false ∨ vals.length ≠ 1) → r.2.1 ≠ none ∧ r.1 = []) ∧
    (ok = true → vals.length = 1 → (r.1, r.2.1) = dec) := by
  unfold httpRequestToMsgGet
  cases ok <;> simp
  by_cases h1 : (vals.length : Int) = 1
  · have : vals.length = 1 := by omega
    simp [this]
  · have : vals.length ≠ 1 := by omega
    simp [h1, this]

/-- The boolean parameters of the JSON API: exactly the six documented spellings, the default for an
absent one, an error otherwise (`Agd.Serve.BoolParam`). -/
theorem urlQueryParameterToBoolean_tr (name v : String) (dflt : Bool) :
    let r := urlQueryParameterToBoolean name dflt v
    ((v = "1" ∨ v = "true" ∨ v = "True") → r = (true, none)) ∧
    ((v = "0" ∨ v = "false" ∨ v = "False") → r = (false, none)) ∧
    (v = "" → r = (dflt, none)) ∧
    (v ≠ "1" → v ≠ "true" → v ≠ "True" → v ≠ "0" → v ≠ "false" → v ≠ "False" → v ≠ "" → r.2 ≠ none) := by
  unfold urlQueryParameterToBoolean
  refine ⟨?_, ?_, ?_, ?_⟩
  · rintro (h | h | h) <;> subst h <;> simp
  · rintro (h | h | h) <;> subst h <;> simp
  · intro h; subst h; simp
  · intro a b c d e f g; simp [a, b, c, d, e, f, g]

/-- `serveDoH` in every run: a request that does not convert gets HTTP 400 and nothing else happens — no
address parsing, no `serveDNS`; otherwise the client's address is parsed before `serveDNS` is called
exactly once; nothing written ⇒ HTTP 500; the response is released only after `writeResponse`. -/
theorem serveDoH_tr (h : S_dnsserver_httpHandler) (conv : List Int × Option String) (ra la : AbsPtr)
    (nw : Option S_dnsserver_NonWriterResponseWriter) (ri : AbsPtr) (written : Bool) (msg req : AbsPtr) (wr : Option String) :
    let tr := names (serveDoH h conv ra la nw ri written msg req wr)
    (conv.2 ≠ none → serveDoH h conv ra la nw ri written msg req wr =
        [("httpRequestToMsg", ["_"]), ("OnInvalidMsg", ["_"]), ("Error", ["_", "_", "400"])]) ∧
    (conv.2 = none → tr.take 5 = ["httpRequestToMsg", "remoteAddr", "NewNonWriterResponseWriter", "addRequestInfo", "serveDNS"] ∧
        tr.count "serveDNS" = 1 ∧
        (written = false → (serveDoH h conv ra la nw ri written msg req wr).getLast? = some ("Error", ["_", "No response", "500"])) ∧
        (written = true → wr = none → tr.drop 5 = ["Msg", "writeResponse", "Dispose"]) ∧
        (written = true → wr ≠ none → tr.count "Dispose" = 0)) := by
  unfold serveDoH names
  cases hc : conv.2 <;> cases written <;> cases wr <;> simp [hc] <;> decide

example (s : S_dnsserver_ServerBase) : acceptMsg s false 0 1 0 0 = 0 ∧ acceptMsg s false 5 1 0 0 = 3 ∧
    acceptMsg s true 5 0 9 9 = 2 ∧ acceptMsg s false 4 1 2 0 = 1 := by
  simp [acceptMsg]

/-! ## `httpHandler.remoteAddr` (round 3c): from `r.RemoteAddr` to the address handed to the handlers -/

/-- The data flow of `remoteAddr`, for every result of the library calls: the host part of
`SplitHostPort(r.RemoteAddr)` goes to `strings.Cut(·, "%")`; `ParseIP` receives the part *before* the
separator (never the zone); the address that is built (`net.UDPAddr` over HTTP/3, `net.TCPAddr`
otherwise) gets the parsed IP, the port of `SplitHostPort` and, as `Zone`, the part *after* the separator. -/
theorem remoteAddr_flow (h : S_dnsserver_httpHandler) (host : String) (port : Int) (raddr : String)
    (cut : String × String × Bool) (ip : List Int) (net : String) :
    remoteAddr h (host, port, none) raddr cut (ip, none) net =
      some (true, [("SplitHostPort", [raddr]), ("Cut", [host, "%"]), ("ParseIP", [cut.1]), ("NetworkFromAddr", ["_"]),
        (if net = "udp" then "new net.UDPAddr" else "new net.TCPAddr",
          ["IP=_", "Port=" ++ toString port, "Zone=" ++ cut.2.1])]) := by
  unfold remoteAddr
  by_cases hn : net = "udp" <;> simp [hn]

/-- The exact panic guard: `SplitHostPort` or `ParseIP` failed — nothing else. -/
theorem remoteAddr_panics_iff (h : S_dnsserver_httpHandler) (sp : String × Int × Option String) (raddr : String)
    (cut : String × String × Bool) (pi : List Int × Option String) (net : String) :
    remoteAddr h sp raddr cut pi net = none ↔ sp.2.2.isSome ∨ pi.2.isSome := by
  unfold remoteAddr
  cases h1 : sp.2.2 <;> cases h2 : pi.2 <;> by_cases hn : net = "udp" <;> simp [h1, h2, hn]

/-- `strings.Cut(s, sep)` (on valid UTF-8 text). -/
def goCut (s sep : String) : String × String × Bool :=
  match cutList sep.toList s.toList with
  | none => (s, "", false)
  | some (a, b) => (String.ofList a, String.ofList b, true)

theorem cutList_percent (a b : List Char) (ha : '%' ∉ a) : cutList ['%'] (a ++ '%' :: b) = some (a, b) := by
  induction a with
  | nil => simp [cutList]
  | cons c cs ih =>
    have hc : ¬ '%' = c := fun e => ha (List.mem_cons.2 (Or.inl e))
    have hcs : '%' ∉ cs := fun e => ha (List.mem_cons.2 (Or.inr e))
    simp [cutList, hc, ih hcs]

theorem cutList_none (a : List Char) (ha : '%' ∉ a) : cutList ['%'] a = none := by
  induction a with
  | nil => simp [cutList]
  | cons c cs ih =>
    have hc : ¬ '%' = c := fun e => ha (List.mem_cons.2 (Or.inl e))
    have hcs : '%' ∉ cs := fun e => ha (List.mem_cons.2 (Or.inr e))
    simp [cutList, hc, ih hcs]

/-- **A zoned link-local client** (`[fe80::1%eth0]:443`): with `strings.Cut` as specified, `ParseIP` is
given exactly the address text before the first `%` and the zone ends up in the `Zone` field. -/
theorem remoteAddr_zone (h : S_dnsserver_httpHandler) (addr zone : List Char) (ha : '%' ∉ addr) (port : Int)
    (raddr : String) (ip : List Int) (net : String) :
    remoteAddr h (String.ofList (addr ++ '%' :: zone), port, none) raddr
        (goCut (String.ofList (addr ++ '%' :: zone)) "%") (ip, none) net =
      some (true, [("SplitHostPort", [raddr]), ("Cut", [String.ofList (addr ++ '%' :: zone), "%"]),
        ("ParseIP", [String.ofList addr]), ("NetworkFromAddr", ["_"]),
        (if net = "udp" then "new net.UDPAddr" else "new net.TCPAddr",
          ["IP=_", "Port=" ++ toString port, "Zone=" ++ String.ofList zone])]) := by
  rw [remoteAddr_flow]
  have e : goCut (String.ofList (addr ++ '%' :: zone)) "%" = (String.ofList addr, String.ofList zone, true) := by
    unfold goCut
    have : ("%" : String).toList = ['%'] := by decide
    rw [this, String.toList_ofList, cutList_percent addr zone ha]
  rw [e]

/-- … and an address without a zone is parsed whole, with an empty `Zone`. -/
theorem remoteAddr_nozone (h : S_dnsserver_httpHandler) (addr : List Char) (ha : '%' ∉ addr) (port : Int)
    (raddr : String) (ip : List Int) (net : String) :
    remoteAddr h (String.ofList addr, port, none) raddr (goCut (String.ofList addr) "%") (ip, none) net =
      some (true, [("SplitHostPort", [raddr]), ("Cut", [String.ofList addr, "%"]),
        ("ParseIP", [String.ofList addr]), ("NetworkFromAddr", ["_"]),
        (if net = "udp" then "new net.UDPAddr" else "new net.TCPAddr", ["IP=_", "Port=" ++ toString port, "Zone="])]) := by
  rw [remoteAddr_flow]
  have e : goCut (String.ofList addr) "%" = (String.ofList addr, "", false) := by
    unfold goCut
    have : ("%" : String).toList = ['%'] := by decide
    rw [this, String.toList_ofList, cutList_none addr ha]
  rw [e]; simp

example : goCut "fe80::1%eth0" "%" = ("fe80::1", "eth0", true) := by decide


/-! ## The life cycle of a TCP/DoT connection (`Agd.Serve.cStep`), as translated from the source

`serveTCPConn`, `acceptTCPMsg` (and the task closure it submits) and `serveTCPMessage` of
`internal/dnsserver/serverdnstcp.go` are translated with every library object (connection, wait groups,
worker pool, semaphore) as traced opaque calls; the `for s.isStarted() { … }` loop is a `goFor` loop, so the
theorems hold for every iteration bound and every sequence of `isStarted` / `acceptTCPMsg` results.  They are
the three facts the model's transition system rests on: the frame is counted in the connection's wait group
by the *reader*, before the worker is submitted (`recv`); the worker signals the wait group *last*, after the
response was written or — if nothing was written — after it closed the connection (`finish`); and on every
way out of the read loop the clean-up *waits for the workers before it closes the connection*
(`cSettle true`). -/

def cnt (n : String) (tr : List (String × List String)) : Nat := (names tr).count n

/-- `a` occurs, and the first `b` comes after the first `a`. -/
def before (a b : String) (tr : List (String × List String)) : Prop :=
  a ∈ names tr ∧ (names tr).idxOf a < (names tr).idxOf b

/-- Names of the calls `serveTCPConn` makes before it leaves. -/
def connBody : List String := ["NewChanSemaphore", "handshake", "isStarted", "acceptTCPMsg", "logReadErr"]

/-- What `serveTCPConn` does on every way out: recover, wait for the connection's in-flight messages,
close the connection, forget it (under the lock), tell the server's wait group. -/
def connExit : List String := ["handlePanicAndRecover", "Wait", "OnCloserError", "Lock", "delete", "Unlock", "Done"]

def connOk (tr : List (String × List String)) : Prop :=
  ∃ pre, names tr = pre ++ connExit ∧ ∀ n ∈ pre, n ∈ connBody

private theorem names_append (a b : List (String × List String)) : names (a ++ b) = names a ++ names b := by
  simp [names]

private theorem connOk_exit (tr : List (String × List String)) (h : ∀ n ∈ names tr, n ∈ connBody) :
    connOk (tr ++ [("handlePanicAndRecover", ["_"])] ++ [("Wait", [])] ++ [("OnCloserError", ["_", toString (3 : Int)])] ++
      [("Lock", [])] ++ [("delete", ["_", "_"])] ++ [("Unlock", [])] ++ [("Done", [])]) := by
  refine ⟨names tr, ?_, h⟩
  simp [names, connExit]

private theorem body_snoc (tr : List (String × List String)) (e : String × List String)
    (h : ∀ n ∈ names tr, n ∈ connBody) (he : e.1 ∈ connBody) : ∀ n ∈ names (tr ++ [e]), n ∈ connBody := by
  intro n hn
  simp only [names, List.map_append, List.map_cons, List.map_nil, List.mem_append, List.mem_singleton] at hn
  rcases hn with hn | hn
  · exact h n hn
  · rw [hn]; exact he

/-- Discharges "only calls of the serving loop so far" / "… followed by the exit sequence" goals. -/
local macro "conn_tac" : tactic =>
  `(tactic| repeat' (first | assumption | (simp [connBody, names]; done) | apply connOk_exit | apply body_snoc))

/-- The loop invariant / exit condition of the serving loop. -/
private def connQ : (Option String × Int × List (String × List String)) ⊕ List (String × List String) → Prop
  | .inl st => ∀ n ∈ names st.2.2, n ∈ connBody
  | .inr r => connOk r

/-- **Every way out of `serveTCPConn` closes the connection exactly once**, after waiting for the
messages still being processed, and releases the server's wait group last — for every configuration,
every handshake result, every iteration bound and every sequence of `isStarted` / `acceptTCPMsg`
results: the trace is calls of the serving loop followed by the exit sequence `connExit`. -/
theorem serveTCPConn_exit (s : S_dnsserver_ServerDNS) (sem : AbsPtr) (hs : Option String) (fuel : Nat)
    (started : Nat → Bool) (acc : Nat → Option String) (tr : List (String × List String))
    (h : serveTCPConn s sem hs fuel started acc = some tr) : connOk tr := by
  unfold serveTCPConn at h
  dsimp only at h
  split at h <;> split at h
  · cases h
    conn_tac
  · split at h
    · cases h
    · rename_i r heq
      cases h
      refine goFor_inv _ (fun _ st => ∀ n ∈ names st.2.2, n ∈ connBody) connQ fuel _ (by conn_tac) ?_ _ heq
      intro i st hp
      obtain ⟨e, t, tr1⟩ := st
      dsimp only
      by_cases h1 : started i = true <;> by_cases h2 : (acc i).isSome = true <;>
        simp only [h1, h2, ↓reduceIte, connQ] <;> conn_tac
    · rename_i st heq
      obtain ⟨e, t, tr1⟩ := st
      cases h
      have hq : connQ (.inl (e, t, tr1)) := by
        refine goFor_inv _ (fun _ st => ∀ n ∈ names st.2.2, n ∈ connBody) connQ fuel _ (by conn_tac) ?_ _ heq
        intro i st hp
        obtain ⟨e, t, tr1⟩ := st
        dsimp only
        by_cases h1 : started i = true <;> by_cases h2 : (acc i).isSome = true <;>
          simp only [h1, h2, ↓reduceIte, connQ] <;> conn_tac
      have hq' : ∀ n ∈ names tr1, n ∈ connBody := hq
      conn_tac
  · cases h
    conn_tac
  · split at h
    · cases h
    · rename_i r heq
      cases h
      refine goFor_inv _ (fun _ st => ∀ n ∈ names st.2.2, n ∈ connBody) connQ fuel _ (by conn_tac) ?_ _ heq
      intro i st hp
      obtain ⟨e, t, tr1⟩ := st
      dsimp only
      by_cases h1 : started i = true <;> by_cases h2 : (acc i).isSome = true <;>
        simp only [h1, h2, ↓reduceIte, connQ] <;> conn_tac
    · rename_i st heq
      obtain ⟨e, t, tr1⟩ := st
      cases h
      have hq : connQ (.inl (e, t, tr1)) := by
        refine goFor_inv _ (fun _ st => ∀ n ∈ names st.2.2, n ∈ connBody) connQ fuel _ (by conn_tac) ?_ _ heq
        intro i st hp
        obtain ⟨e, t, tr1⟩ := st
        dsimp only
        by_cases h1 : started i = true <;> by_cases h2 : (acc i).isSome = true <;>
          simp only [h1, h2, ↓reduceIte, connQ] <;> conn_tac
      have hq' : ∀ n ∈ names tr1, n ∈ connBody := hq
      conn_tac

private theorem count_body (n : String) (hn : n ∉ connBody) : ∀ pre : List String, (∀ m ∈ pre, m ∈ connBody) → pre.count n = 0
  | [], _ => rfl
  | m :: pre, h => by
    have hm : m ∈ connBody := h m (by simp)
    have : m ≠ n := fun e => hn (e ▸ hm)
    rw [List.count_cons_of_ne (by simpa using this)]
    exact count_body n hn pre (fun k hk => h k (by simp [hk]))

/-- Closed exactly once, after exactly one `Wait`; one `Done`, and it is the last call. -/
theorem serveTCPConn_closes_once (s : S_dnsserver_ServerDNS) (sem : AbsPtr) (hs : Option String) (fuel : Nat)
    (started : Nat → Bool) (acc : Nat → Option String) (tr : List (String × List String))
    (h : serveTCPConn s sem hs fuel started acc = some tr) :
    cnt "OnCloserError" tr = 1 ∧ cnt "Wait" tr = 1 ∧ cnt "Done" tr = 1 ∧ cnt "delete" tr = 1 ∧
      (names tr).getLast? = some "Done" ∧
      ∃ pre, names tr = pre ++ "Wait" :: "OnCloserError" :: ["Lock", "delete", "Unlock", "Done"] := by
  obtain ⟨pre, hpre, hbody⟩ := serveTCPConn_exit s sem hs fuel started acc tr h
  have c1 := count_body "OnCloserError" (by decide) pre hbody
  have c2 := count_body "Wait" (by decide) pre hbody
  have c3 := count_body "Done" (by decide) pre hbody
  have c4 := count_body "delete" (by decide) pre hbody
  unfold cnt
  rw [hpre]
  refine ⟨?_, ?_, ?_, ?_, ?_, pre ++ ["handlePanicAndRecover"], ?_⟩
  · rw [List.count_append, c1]; decide
  · rw [List.count_append, c2]; decide
  · rw [List.count_append, c3]; decide
  · rw [List.count_append, c4]; decide
  · simp [connExit]
  · simp [connExit]

/-- **The order the model's `cSettle true` assumes**: on every way out of `serveTCPConn` the one `Close`
(`log.OnCloserError(conn, …)`) comes directly after the one `wg.Wait()`; neither occurs before. -/
theorem serveTCPConn_waits_before_close (s : S_dnsserver_ServerDNS) (sem : AbsPtr) (hs : Option String) (fuel : Nat)
    (started : Nat → Bool) (acc : Nat → Option String) (tr : List (String × List String))
    (h : serveTCPConn s sem hs fuel started acc = some tr) :
    ∃ pre, names tr = pre ++ ["Wait", "OnCloserError", "Lock", "delete", "Unlock", "Done"] ∧
      "Wait" ∉ pre ∧ "OnCloserError" ∉ pre := by
  obtain ⟨pre, hpre, hbody⟩ := serveTCPConn_exit s sem hs fuel started acc tr h
  refine ⟨pre ++ ["handlePanicAndRecover"], by simp [hpre, connExit], ?_, ?_⟩
  · intro hm
    simp only [List.mem_append, List.mem_singleton] at hm
    rcases hm with hm | hm
    · exact absurd (hbody _ hm) (by decide)
    · exact absurd hm (by decide)
  · intro hm
    simp only [List.mem_append, List.mem_singleton] at hm
    rcases hm with hm | hm
    · exact absurd (hbody _ hm) (by decide)
    · exact absurd hm (by decide)

/-- **`recv`**: `acceptTCPMsg` never panics; when it hands a frame to a worker (`Submit`) it has counted the
frame in the connection's wait group just before (`wg.Add(1)` in the reader, after the semaphore), and when the
read or the semaphore fails nothing is counted and nothing submitted. -/
theorem acceptTCPMsg_counts_before_submit (s : S_dnsserver_ServerDNS) (timeout : Int) (rd : AbsPtr × Option String)
    (cs : AbsPtr × Bool) (sni : String) (rc : AbsPtr × AbsPtr) (cx : AbsPtr) (acq sub : Option String) :
    ∃ e tr, acceptTCPMsg s timeout rd cs sni rc cx acq sub = some (e, tr) ∧
      ((rd.2.isSome ∨ acq.isSome) → "Add" ∉ names tr ∧ "Submit" ∉ names tr ∧ e.isSome) ∧
      ((rd.2.isNone ∧ acq.isNone) → e = sub ∧
        names tr = ["readTCPMsg", "requestContext", "ContextWithRequestInfo", "Acquire", "Add", "Submit"]) := by
  unfold acceptTCPMsg
  obtain ⟨p, re⟩ := rd
  obtain ⟨c, ok⟩ := cs
  cases re <;> cases ok <;> cases acq <;> refine ⟨_, _, rfl, ?_, ?_⟩ <;> simp [names]

/-- **`finish`**: the worker of a frame serves it, closes the connection iff nothing was written, and tells
the connection's wait group last — so `wg.Wait()` returns only after the response went out. -/
theorem serveTCPMessage_done_last (s : S_dnsserver_ServerDNS) (buf : List Int) (written : Bool) :
    names (serveTCPMessage s buf written) =
      "serveDNS" :: (if written then [] else ["OnCloserError"]) ++ ["handlePanicAndRecover", "Done"] := by
  cases written <;> simp [serveTCPMessage, names]

/-- The task the reader submits runs the worker and releases the semaphore token after it. -/
theorem acceptTCPMsg_task_order (s : S_dnsserver_ServerDNS) (timeout : Int) :
    names (acceptTCPMsg_task s timeout) = ["serveTCPMessage", "Put", "Release", "reqCancel"] := by
  simp [acceptTCPMsg_task, names]

def srvC : S_dnsserver_ServerDNS where
  ServerBase := none
  conf := {
    ConfigBase := { Network := "", Name := "c", Addr := "" }
    ReadTimeout := 2
    WriteTimeout := 2
    TCPIdleTimeout := 30
    MaxPipelineCount := 100
    UDPSize := 512
    TCPSize := 512
    MaxUDPRespSize := 0
    MaxPipelineEnabled := true }

-- Non-vacuity: two frames, then the client half-closes (the third read fails with EOF).
example : ∃ tr, serveTCPConn srvC true none 5 (fun _ => true) (fun i => if i < 2 then none else some "EOF") = some tr ∧
    names tr = ["NewChanSemaphore", "handshake", "isStarted", "acceptTCPMsg", "isStarted", "acceptTCPMsg", "isStarted",
      "acceptTCPMsg", "logReadErr", "handlePanicAndRecover", "Wait", "OnCloserError", "Lock", "delete", "Unlock", "Done"] :=
  ⟨_, rfl, by decide⟩

end Agd.Tie.TrC01

#print axioms Agd.Tie.TrC01.translation_complete
#print axioms Agd.Tie.TrC01.acceptMsg_tr
#print axioms Agd.Tie.TrC01.at_most_one_server_write
#print axioms Agd.Tie.TrC01.ignored_gets_nothing
#print axioms Agd.Tie.TrC01.rejected_never_reaches_handler
#print axioms Agd.Tie.TrC01.accepted_served_by_handler
#print axioms Agd.Tie.TrC01.dispose_is_last
#print axioms Agd.Tie.TrC01.undecodable_dropped
#print axioms Agd.Tie.TrC01.isDoH_tr
#print axioms Agd.Tie.TrC01.httpRequestToMsg_tr
#print axioms Agd.Tie.TrC01.httpRequestToMsgGet_tr
#print axioms Agd.Tie.TrC01.urlQueryParameterToBoolean_tr
#print axioms Agd.Tie.TrC01.serveDoH_tr
#print axioms Agd.Tie.TrC01.remoteAddr_flow
#print axioms Agd.Tie.TrC01.remoteAddr_panics_iff
#print axioms Agd.Tie.TrC01.cutList_percent
#print axioms Agd.Tie.TrC01.cutList_none
#print axioms Agd.Tie.TrC01.remoteAddr_zone
#print axioms Agd.Tie.TrC01.remoteAddr_nozone
