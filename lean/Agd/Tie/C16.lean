import Agd.Gen.C16
/-! Tie theorems for C16: the source facts the billing-statistics model was written against
still hold in the repository's working tree. -/
namespace Agd.Tie.C16
open Agd.Gen.C16

/-- `Refresh` takes `refreshMu` (serialised refreshes: `stepSer`), cuts the batch with
`resetRecords`, remerges in the deferred function and calls `Upload` in between. -/
theorem refresh_calls_src :
    refresh_calls = "refreshMu.Lock,refreshMu.Unlock,resetRecords,remergeRecords,Upload" := by decide
/-- The remerge happens exactly when the upload returned an error. -/
theorem refresh_conds_src : refresh_conds = "!isSuccess | err != nil" := by decide
theorem refresh_is_success_src : refresh_is_success = "err == nil" := by decide
/-- `resetRecords` swaps the pending map for an empty one (`Op.begin`). -/
theorem reset_swap_src : reset_swap = "r.records, Records{}" := by decide
/-- `remergeRecords`: absent ⇒ put the old record back, present ⇒ add the counts (`remerge`). -/
theorem remerge_conds_src : remerge_conds = "!ok" := by decide
theorem remerge_lookup_src : remerge_lookup = "r.records[devID]" := by decide
theorem remerge_put_back_src : remerge_put_back = "prev" := by decide
theorem remerge_add_src : remerge_add = "prev.Queries" := by decide
/-- `Record`: absent ⇒ new record with `Queries: 1`, present ⇒ overwrite the meta (`record`). -/
theorem record_conds_src : record_conds = "rec == nil" := by decide
theorem record_lookup_src : record_lookup = "r.records[id]" := by decide
def recordNewExpected : String :=
  "&Record{ Time: start, Country: ctry, ASN: asn, Queries: 1, Proto: proto, }"
theorem record_new_src : record_new = recordNewExpected := by decide
theorem record_time_src : record_time = "start" := by decide
theorem record_country_src : record_country = "ctry" := by decide
theorem record_asn_src : record_asn = "asn" := by decide
theorem record_proto_src : record_proto = "proto" := by decide
/-- Each of the three critical sections runs under `r.mu` (one `Op` per critical section). -/
theorem record_locks_src : record_locks = "mu.Lock,mu.Unlock" := by decide
theorem reset_locks_src : reset_locks = "mu.Lock,mu.Unlock" := by decide
theorem remerge_locks_src : remerge_locks = "mu.Lock,mu.Unlock" := by decide
/-- The uploader reports the record's own time, country, protocol, ASN and count. -/
def toProtobufExpected : String :=
  "&DeviceBillingStat{ LastActivityTime: timestamppb.New(r.Time), DeviceId: string(devID), ClientCountry: string(r.Country), Proto: uint32(r.Proto), Asn: uint32(r.ASN), Queries: uint32(r.Queries), }"
theorem to_protobuf_src : to_protobuf = toProtobufExpected := rfl

/-- `Upload`: an empty batch returns at once; errors of opening, of a `Send`, and of
`CloseAndRecv` other than `io.EOF` are returned (`Agd.BillStat.upload`). -/
def uploadCondsExpected : String :=
  "len(records) == 0 | err != nil | record == nil | sendErr != nil | err != nil && !errors.Is(err, io.EOF)"
theorem upload_conds_src : upload_conds = uploadCondsExpected := rfl
/-- Every record of the batch goes through `recordToProtobuf` (`toWire`). -/
theorem upload_send_arg_src : upload_send_arg = "recordToProtobuf(record, deviceID)" := by decide
/-- `mu` and `refreshMu` are two mutexes, and the recorder starts with an empty table. -/
def newRecorderExpected : String :=
  "&RuntimeRecorder{ logger: c.Logger, refreshMu: &sync.Mutex{}, mu: &sync.Mutex{}, records: Records{}, uploader: c.Uploader, errColl: c.ErrColl, metrics: c.Metrics, }"
theorem new_recorder_src : new_recorder = newRecorderExpected := rfl

/-! `mainmw.recordQueryInfo`, the only caller of `Record` (`Agd.BillStat.billOf`). -/

/-- One call of `Record`: device id, client country, client ASN, start time, protocol. -/
theorem bill_args_src : bill_args = "ctx, devID, reqCtry, reqASN, start, ri.Proto" := by decide
theorem bill_call_count_src : bill_call_count = "1" := by decide
/-- The id is the device's, the time is the request's start time, country and ASN are those of
the client's location. -/
theorem bill_dev_id_src : bill_dev_id = "dev.ID" := by decide
theorem bill_start_src : bill_start = "reqInfo.StartTime" := by decide
theorem bill_location_src : bill_location = "g.Country, g.ASN" := by decide
theorem bill_prof_dev_src : bill_prof_dev = "ri.DeviceData()" := by decide
/-- No profile ⇒ return before billing; the location is optional; the query-log switch is
looked at after the billing call (`bill_calls`: `Record` precedes `queryLog.Write`). -/
def billCondsExpected : String :=
  "prof == nil | g != nil | !prof.QueryLogEnabled | blocked | prof.IPLogEnabled | err != nil"
theorem bill_conds_src : bill_conds = billCondsExpected := rfl
theorem bill_calls_src : bill_calls = "ri.DeviceData,billStat.Record,queryLog.Write" := by decide

/-! ### Production wiring (round 4): `internal/cmd` builds one recorder and hands the same one to
the DNS service, the refresh worker and the debug API; the uploader gets the billing URL and key;
the worker refreshes on shutdown and is registered in the signal handler before the DNS service
(the handler shuts down in reverse order, so the DNS service stops first). -/

def wireRecorderExpected : String :=
  "&billstat.RuntimeRecorderConfig{ Logger: b.baseLogger.With(slogutil.KeyPrefix, \"billstat\"), ErrColl: b.errColl, Uploader: upl, Metrics: mtrc, }"
theorem wire_recorder_conf_src : wire_recorder_conf = wireRecorderExpected := rfl
/-- exactly one recorder is built -/
theorem wire_recorder_count_src : wire_recorder_count = "1" := by decide
def wireWorkerExpected : String :=
  "&agdservice.RefreshWorkerConfig{ Context: newCtxWithTimeoutCons(timeout), Refresher: billStat, Logger: b.baseLogger.With(slogutil.KeyPrefix, \"billstat_refresh\"), Interval: refrIvl, RefreshOnShutdown: true, RandomizeStart: false, }"
theorem wire_worker_conf_src : wire_worker_conf = wireWorkerExpected := rfl
theorem wire_dns_recorder_off_src : wire_dns_recorder_off = "billstat.EmptyRecorder{}" := by decide
theorem wire_dns_recorder_src : wire_dns_recorder = "billStat" := by decide
theorem wire_debug_refresher_src : wire_debug_refresher = "billStat" := by decide
theorem wire_sighdlr_src : wire_sighdlr = "refr" := by decide
theorem wire_conds_src : wire_conds = "!b.profilesEnabled | err != nil | err != nil | err != nil" := by decide
def wireUploaderExpected : String :=
  "&backendpb.BillStatConfig{ Logger: b.baseLogger.With(slogutil.KeyPrefix, \"billstat_uploader\"), ErrColl: b.errColl, GRPCMetrics: b.backendGRPCMtrc, Endpoint: apiURL, APIKey: b.env.BillStatAPIKey, }"
theorem wire_uploader_conf_src : wire_uploader_conf = wireUploaderExpected := rfl
theorem wire_uploader_url_src : wire_uploader_url = "netutil.CloneURL(&b.env.BillStatURL.URL)" := by decide
/-- `mustStartDNS` registers the DNS service; `Main` calls it after `initBillStat`. -/
theorem wire_dns_started_src : wire_dns_started = "b.dnsSvc" := by decide
theorem wire_main_order_src : wire_main_order = "initBillStat,initDNS,mustStartDNS,handleSignals" := by decide
/-- `RefreshWorker.Shutdown` refreshes (iff `refrOnShutdown`) before it stops the loop; the
periodic refresh takes its context from the constructor the builder passed. -/
theorem wire_worker_shutdown_src : wire_worker_shutdown = "refr.Refresh,close" := by decide
theorem wire_worker_shutdown_conds_src : wire_worker_shutdown_conds = "w.refrOnShutdown | err != nil" := by decide
theorem wire_worker_refresh_ctx_src : wire_worker_refresh_ctx = "w.context()" := by decide
/-- `initDNS` hands `b.billStat` to the handlers: `BillStat: b.billStat` (the whole literal is compared;
a new field of `HandlersConfig` needs this expectation to follow). -/
def wireHandlersExpected : String :=
  "&dnssvc.HandlersConfig{ BaseLogger: b.baseLogger, Cache: b.conf.Cache.toInternal(), Cloner: b.cloner, HumanIDParser: agd.NewHumanIDParser(), Messages: b.messages, PluginRegistry: b.plugins, StructuredErrors: b.sdeConf, AccessManager: b.access, BillStat: b.billStat, CacheManager: b.cacheManager, DNSCheck: b.dnsCheck, DNSDB: b.dnsDB, ErrColl: b.errColl, FilterStorage: b.filterStorage, GeoIP: b.geoIP, Handler: b.fwdHandler, HashMatcher: b.hashMatcher, ProfileDB: b.profileDB, PrometheusRegisterer: b.promRegisterer, QueryLog: b.queryLog(), RateLimit: b.rateLimit, RuleStat: b.ruleStat, MetricsNamespace: b.mtrcNamespace, FilteringGroups: b.filteringGroups, ServerGroups: b.serverGroups, EDEEnabled: b.conf.Filters.EDEEnabled, }"
theorem wire_handlers_conf_src : wire_handlers_conf = wireHandlersExpected := rfl

end Agd.Tie.C16
