import Agd.Gen.TrC13
import Agd.Model.Refresh
/-!
# C13: the download-and-replace path of a refreshable list, as translated from the source

`Agd.Gen.TrC13.*` are regenerated on every run (`extract/tr.go`) from
`internal/filter/internal/refreshable/refreshable.go`.  The HTTP client, the temporary file
(`renameio`), `io.Copy` and the file system are opaque: their results are parameters and the calls
form the returned trace.  Deferred closures are run inline at every exit, so the order "close the
body, then clean up or atomically replace" is part of the translated meaning.
-/
namespace Agd.Tie.TrC13
open Agd.Gen.TrC13 Agd.TrPrelude

theorem translation_complete : translationFailures = [] := by decide

def names (tr : List (String × List String)) : List String := tr.map (·.1)

/-- `withDeferredTmpCleanup`: with an error the temporary file is discarded (`Cleanup`) and the cache
file is never replaced; without one the temporary file atomically replaces the cache file
(`CloseAtomicallyReplace`) and only then are its times set.  The error is never lost. -/
theorem cleanup_or_replace (f : S_refreshable_Refreshable) (returned c r t : Option String) :
    let out := withDeferredTmpCleanup f returned c r t
    (returned ≠ none → names out.2 = ["Cleanup"] ∧ out.1 = returned) ∧
    (returned = none → (names out.2).head? = some "CloseAtomicallyReplace" ∧ "Cleanup" ∉ names out.2 ∧
      (r ≠ none → out.1 = r ∧ "Chtimes" ∉ names out.2) ∧ (r = none → out.1 = t)) := by
  cases returned <;> cases r <;> cases t <;> simp [withDeferredTmpCleanup, names]

/-- What `refreshFromURL` passes to `withDeferredTmpCleanup` — "err" or "nil" — in a given run. -/
def cleanupArg (tr : List (String × List String)) : Option String :=
  (tr.find? (·.1 = "withDeferredTmpCleanup")).bind (·.2[0]?)

/-- The download path.  If no temporary file can be created nothing else happens.  Otherwise, in every
run, the response body is closed (when there is one) before the temporary file is dealt with, and the
temporary file is handed to `withDeferredTmpCleanup` exactly once, as the last effect, with a nil error
ONLY if the request succeeded, the status was 200, the whole body was copied without error (the size
limiter's error included), the text is non-empty and closing the body succeeded.  In every other
case it receives an error — so, by `cleanup_or_replace`, the cache file keeps its previous complete
content. -/
theorem replace_only_after_complete_download (f : S_refreshable_Refreshable) (dir : String)
    (tf get : AbsPtr × Option String) (cl st bc : Option String) (mw : AbsPtr) (cp : Int × Option String)
    (len : Int) (txt : String) :
    let out := refreshFromURL f dir tf get cl st bc mw cp len txt
    (tf.2 ≠ none → "Get" ∉ names out.2.2 ∧ "withDeferredTmpCleanup" ∉ names out.2.2 ∧ out.2.1 ≠ none) ∧
    (tf.2 = none →
      (names out.2.2).getLast? = some "withDeferredTmpCleanup" ∧
      (names out.2.2).count "withDeferredTmpCleanup" = 1 ∧
      (cleanupArg out.2.2 = some "nil" ↔
        (get.2 = none ∧ st = none ∧ cp.2 = none ∧ len ≠ 0 ∧ bc = none)) ∧
      (get.2 = none → (names out.2.2).count "Close" = 1)) := by
  cases h1 : tf.2 <;> cases h2 : get.2 <;> cases h3 : st <;> cases h4 : cp.2 <;> cases h5 : bc <;>
    by_cases h6 : len = 0 <;> simp [refreshFromURL, names, cleanupArg, h1, h2, h3, h4, h5, h6]

/-- An empty body is an error (and therefore never replaces the cache file). -/
theorem empty_body_rejected (f : S_refreshable_Refreshable) (dir : String) (tf get : AbsPtr) (cl bc : Option String)
    (mw : AbsPtr) (n : Int) (txt : String) :
    cleanupArg (refreshFromURL f dir (tf, none) (get, none) cl none bc mw (n, none) 0 txt).2.2 = some "err" := by
  cases bc <;> simp [refreshFromURL, cleanupArg]

/-- The URL is consulted only when the cache file yields no (fresh) text, and a failed download is an
error of the refresh, never an empty success. -/
theorem url_only_when_cache_is_stale (f : S_refreshable_Refreshable) (stale : Bool) (u : Unit)
    (file url : String × Option String) (ru : AbsPtr) :
    let out := useCachedOrRefreshFromURL f stale u file ru url
    ("refreshFromURL" ∈ names out.2.2 ↔ (file.2 = none ∧ file.1 = "")) ∧
    (file.2 = none → file.1 = "" → url.2 ≠ none → out.2.1 ≠ none ∧ out.1 = "") ∧
    (file.2 = none → file.1 ≠ "" → out.1 = file.1 ∧ out.2.1 = none) := by
  cases h1 : file.2 <;> cases h2 : url.2 <;> by_cases h3 : file.1 = "" <;>
    simp [useCachedOrRefreshFromURL, names, h1, h2, h3]

example (f : S_refreshable_Refreshable) :
    cleanupArg (refreshFromURL f "d" (true, none) (true, none) none none none true (10, none) 10 "rules").2.2 = some "nil" := by
  simp [refreshFromURL, cleanupArg]

/-! ## Round 6: the cache-file path (`refreshFromFile`), the `file://` path and the dispatch in `Refresh` -/

theorem file_missing_is_empty_success (f : S_refreshable_Refreshable) (stale : Bool) (p : String)
    (op st : AbsPtr × Option String) (cl : Option String) (u : Unit) (after : Bool) (cp : Int × Option String) (s : String) :
    let out := refreshFromFile f stale p op true st cl u after cp s
    out.1 = "" ∧ out.2.1 = none ∧ names out.2.2 = ["Open", "Is"] := by
  simp [refreshFromFile, names]

theorem file_closed_exactly_once (f : S_refreshable_Refreshable) (stale : Bool) (p : String)
    (op st : AbsPtr × Option String) (cl : Option String) (u : Unit) (isNE after : Bool) (cp : Int × Option String) (s : String) :
    let out := refreshFromFile f stale p op isNE st cl u after cp s
    ((isNE = true ∨ op.2 ≠ none) → "Close" ∉ names out.2.2 ∧ "Copy" ∉ names out.2.2 ∧ "Stat" ∉ names out.2.2 ∧ out.1 = "") ∧
    ((isNE = false ∧ op.2 = none) → (names out.2.2).getLast? = some "Close" ∧ (names out.2.2).count "Close" = 1 ∧
       (cl ≠ none → out.2.1 ≠ none)) := by
  cases isNE <;> cases h1 : op.2 <;> cases stale <;> cases h2 : st.2 <;> cases after <;> cases h3 : cp.2 <;> cases cl <;>
    simp [refreshFromFile, names, h1, h2, h3]

theorem file_text_only_from_complete_fresh_read (f : S_refreshable_Refreshable) (stale : Bool) (p : String)
    (op st : AbsPtr × Option String) (cl : Option String) (u : Unit) (isNE after : Bool) (cp : Int × Option String) (s : String) :
    let out := refreshFromFile f stale p op isNE st cl u after cp s
    (out.1 ≠ "" → out.1 = s ∧ isNE = false ∧ op.2 = none ∧ cp.2 = none ∧ (stale = true ∨ (st.2 = none ∧ after = true))) ∧
    ("Copy" ∈ names out.2.2 ↔ (isNE = false ∧ op.2 = none ∧ (stale = true ∨ (st.2 = none ∧ after = true)))) ∧
    (stale = true → "Stat" ∉ names out.2.2) ∧
    ((isNE = false ∧ (op.2 ≠ none ∨ (stale = false ∧ st.2 ≠ none) ∨
        ((stale = true ∨ (st.2 = none ∧ after = true)) ∧ cp.2 ≠ none))) → out.2.1 ≠ none ∧ out.1 = "") := by
  cases isNE <;> cases h1 : op.2 <;> cases stale <;> cases h2 : st.2 <;> cases after <;> cases h3 : cp.2 <;> cases cl <;>
    simp [refreshFromFile, names, h1, h2, h3]

theorem stale_cache_not_read (f : S_refreshable_Refreshable) (p : String)
    (op st : AbsPtr) (cl : Option String) (u : Unit) (cp : Int × Option String) (s : String) :
    let out := refreshFromFile f false p (op, none) false (st, none) cl u false cp s
    out.1 = "" ∧ out.2.1 = cl ∧ names out.2.2 = ["Open", "Is", "Stat", "ModTime", "After", "Close"] := by
  cases cl <;> simp [refreshFromFile, names]

theorem refresh_dispatch (f : S_refreshable_Refreshable) (stale isFile : Bool) (sch : String)
    (a b : String × Option String) :
    let out := Refresh f stale isFile sch a b
    (isFile = true → out.1 = a.1 ∧ out.2.1 = a.2 ∧ names out.2.2 = ["EqualFold", "refreshFromFileOnly"]) ∧
    (isFile = false → out.1 = b.1 ∧ out.2.1 = b.2 ∧ names out.2.2 = ["EqualFold", "useCachedOrRefreshFromURL"]) ∧
    out.2.2.head? = some ("EqualFold", [sch, "file"]) := by
  cases isFile <;> simp [Refresh, names]

example (f : S_refreshable_Refreshable) :
    (refreshFromFile f false "p" (true, none) false (true, none) none () true (5, none) "rules").1 = "rules" := by
  simp [refreshFromFile]

/-- A `file://` source: the file named by the URL is read whatever its age (`acceptStale` is the
constant `true`), nothing else is consulted, and an error of the read is an error of the refresh with
no text. -/
theorem file_url_reads_only_that_file (f : S_refreshable_Refreshable) (path : String) (rf : String × Option String) :
    let out := refreshFromFileOnly f path rf
    out.2.2 = [("refreshFromFile", [toString true, path, "_"])] ∧
    (rf.2 ≠ none → out.1 = "" ∧ out.2.1 ≠ none) ∧ (rf.2 = none → out.1 = rf.1 ∧ out.2.1 = none) := by
  cases h : rf.2 <;> simp [refreshFromFileOnly, h]

/-- The cache file is opened with the caller's `acceptStale` and the cache path, before anything else. -/
theorem cache_read_first_with_callers_staleness (f : S_refreshable_Refreshable) (stale : Bool) (u : Unit)
    (file url : String × Option String) (ru : AbsPtr) :
    (useCachedOrRefreshFromURL f stale u file ru url).2.2[1]? =
      some ("refreshFromFile", [toString stale, f.cachePath, "_"]) := by
  cases h1 : file.2 <;> by_cases h3 : file.1 = "" <;> cases h2 : url.2 <;>
    simp [useCachedOrRefreshFromURL, h1, h2, h3]

/-- Composition of the two translated functions: a cache file that exists but is older than the
staleness bound is not read, and the list is then fetched from its URL; a fresh, readable, non-empty
cache file is used as it is and the URL is never contacted. -/
theorem stale_cache_goes_to_url (f : S_refreshable_Refreshable) (p : String) (op st : AbsPtr) (u : Unit)
    (cp : Int × Option String) (s : String) (ru : AbsPtr) (url : String × Option String) :
    let rf := refreshFromFile f false p (op, none) false (st, none) none u false cp s
    let out := useCachedOrRefreshFromURL f false u (rf.1, rf.2.1) ru url
    "refreshFromURL" ∈ names out.2.2 ∧ "Copy" ∉ names rf.2.2 ∧ (url.2 = none → out.1 = url.1 ∧ out.2.1 = none) := by
  cases h : url.2 <;> simp [refreshFromFile, useCachedOrRefreshFromURL, names, h]

theorem fresh_cache_never_downloads (f : S_refreshable_Refreshable) (stale : Bool) (p : String) (op st : AbsPtr) (u : Unit)
    (n : Int) (s : String) (hs : s ≠ "") (ru : AbsPtr) (url : String × Option String) :
    let rf := refreshFromFile f stale p (op, none) false (st, none) none u true (n, none) s
    let out := useCachedOrRefreshFromURL f stale u (rf.1, rf.2.1) ru url
    "refreshFromURL" ∉ names out.2.2 ∧ out.1 = s ∧ out.2.1 = none := by
  cases stale <;> simp [refreshFromFile, useCachedOrRefreshFromURL, names, hs]

/-- An unreadable cache file (open, stat, read or close error) fails the refresh: the URL is not
tried and no text is returned, so the caller keeps what it had. -/
theorem cache_error_stops_refresh (f : S_refreshable_Refreshable) (stale : Bool) (u : Unit)
    (t : String) (e : String) (ru : AbsPtr) (url : String × Option String) :
    let out := useCachedOrRefreshFromURL f stale u (t, some e) ru url
    out.1 = "" ∧ out.2.1 ≠ none ∧ "refreshFromURL" ∉ names out.2.2 := by
  simp [useCachedOrRefreshFromURL, names]

/-! ## Round 6: the hand model's `fromFile` (Model/Refresh.lean) equals the translated `refreshFromFile` -/

/-- What the file system hands to `refreshFromFile` for a cache file whose complete content is `disk`
(`none` = no file) when no file-system call fails. -/
def diskText (txt : Nat → String) : Option Nat → String
  | some c => txt c
  | none => ""

/-- **The hand model's `fromFile` is the translated `refreshFromFile`** on a healthy file system, for every
content, every rendering of contents as text that maps exactly the empty documents to `""`, and every
staleness setting: same text (or none), and no error. -/
theorem fromFile_tr (E : Agd.Refresh.Env) (txt : Nat → String) (htxt : ∀ c, txt c = "" ↔ E.len c = 0)
    (f : S_refreshable_Refreshable) (stale fresh : Bool) (p : String) (op st : AbsPtr) (u : Unit) (n : Int)
    (disk : Option Nat) :
    let out := refreshFromFile f stale p (op, none) disk.isNone (st, none) none u fresh (n, none) (diskText txt disk)
    out.2.1 = none ∧ out.1 = diskText txt (Agd.Refresh.fromFile E stale fresh disk) := by
  cases disk with
  | none => simp [refreshFromFile, Agd.Refresh.fromFile, diskText]
  | some c =>
    have h := htxt c
    cases stale <;> cases fresh <;> by_cases hl : E.len c = 0 <;>
      simp [refreshFromFile, Agd.Refresh.fromFile, diskText, hl, h.mpr] <;> simp_all

/-- … and the URL is contacted exactly when the model's `fromFile` has nothing to offer (the first
`match` of the model's `refresh`). -/
theorem url_consulted_iff_model_cache_miss (E : Agd.Refresh.Env) (txt : Nat → String)
    (htxt : ∀ c, txt c = "" ↔ E.len c = 0)
    (f : S_refreshable_Refreshable) (stale fresh : Bool) (p : String) (op st : AbsPtr) (u : Unit) (n : Int)
    (disk : Option Nat) (ru : AbsPtr) (url : String × Option String) :
    let rf := refreshFromFile f stale p (op, none) disk.isNone (st, none) none u fresh (n, none) (diskText txt disk)
    ("refreshFromURL" ∈ names (useCachedOrRefreshFromURL f stale u (rf.1, rf.2.1) ru url).2.2 ↔
      Agd.Refresh.fromFile E stale fresh disk = none) := by
  have h := fromFile_tr E txt htxt f stale fresh p op st u n disk
  simp only at h
  intro rf
  have h1 : rf.2.1 = none := h.1
  have h2 : rf.1 = diskText txt (Agd.Refresh.fromFile E stale fresh disk) := h.2
  rw [h1, h2]
  cases hm : Agd.Refresh.fromFile E stale fresh disk with
  | none => cases hu : url.2 <;> simp [useCachedOrRefreshFromURL, names, diskText, hu]
  | some c =>
    have hc : txt c ≠ "" := by
      cases disk with
      | none => simp [Agd.Refresh.fromFile] at hm
      | some d =>
        simp [Agd.Refresh.fromFile] at hm
        obtain ⟨⟨_, hd⟩, rfl⟩ := hm
        exact fun e => hd ((htxt _).mp e)
    simp [useCachedOrRefreshFromURL, names, diskText, hc]

/-! ## Round 6: the hand model's `fromURL` equals the translated `refreshFromURL` -/

section
open Agd.Refresh
/-- How a server behaviour `r` of the hand model appears at the opaque calls of `refreshFromURL`
(healthy file system, body closes without error): `Get` fails for `getErr`; `CheckStatus` fails for a
status other than 200; `io.Copy` through the limit reader fails when the transfer is cut or the limit
is hit; `b.Len()` is the length of the content. -/
def getOf : Resp → Option String
  | .getErr => some "get"
  | _ => none
def statusOf : Resp → Option String
  | .resp status _ _ _ => if status ≠ 200 then some "status" else none
  | _ => none
def copyOf (E : Env) (max : Nat) : Resp → Option String
  | .resp _ c cut eofLast => if cut || limitHit max (E.len c) eofLast then some "copy" else none
  | _ => none
def lenOf (E : Env) : Resp → Int
  | .resp _ c _ _ => (E.len c : Int)
  | _ => 0

/-- **The hand model's `fromURL` is the translated `refreshFromURL`**: for every server behaviour the
temporary file is handed to `withDeferredTmpCleanup` with a nil error — that is, by
`cleanup_or_replace`, atomically replaces the cache file — exactly when the model's `fromURL`
returns a content; in every other case it is handed over with an error and removed. -/
theorem fromURL_tr (E : Env) (max : Nat) (r : Resp) (f : S_refreshable_Refreshable) (dir : String)
    (tf get mw : AbsPtr) (cl : Option String) (n : Int) (txt : String) :
    let out := refreshFromURL f dir (tf, none) (get, getOf r) cl (statusOf r) none mw (n, copyOf E max r) (lenOf E r) txt
    (cleanupArg out.2.2 = some "nil" ↔ (fromURL E max r).isSome) ∧
    (cleanupArg out.2.2 = some "err" ↔ fromURL E max r = none) ∧
    ((fromURL E max r).isSome → out.1 = txt) ∧ (fromURL E max r = none → out.1 = "") := by
  cases r with
  | getErr => simp [refreshFromURL, cleanupArg, getOf, fromURL]
  | resp status c cut eofLast =>
    generalize hl : E.len c = l
    by_cases h4 : l = 0
    · subst h4
      by_cases h1 : status = 200 <;> cases cut <;> cases h3 : limitHit max 0 eofLast <;>
        simp [refreshFromURL, cleanupArg, getOf, statusOf, copyOf, lenOf, fromURL, h1, h3, hl]
    · by_cases h1 : status = 200 <;> cases cut <;> cases h3 : limitHit max l eofLast <;>
        simp [refreshFromURL, cleanupArg, getOf, statusOf, copyOf, lenOf, fromURL, h1, h3, h4, hl]

example : (fromURL { len := fun c => c, idx := fun _ => none, svc := fun _ => none, hashOk := fun _ => true } 10
    (.resp 200 5 false false)).isSome := by decide
end

end Agd.Tie.TrC13

#print axioms Agd.Tie.TrC13.translation_complete
#print axioms Agd.Tie.TrC13.cleanup_or_replace
#print axioms Agd.Tie.TrC13.replace_only_after_complete_download
#print axioms Agd.Tie.TrC13.empty_body_rejected
#print axioms Agd.Tie.TrC13.url_only_when_cache_is_stale
#print axioms Agd.Tie.TrC13.file_missing_is_empty_success
#print axioms Agd.Tie.TrC13.file_closed_exactly_once
#print axioms Agd.Tie.TrC13.file_text_only_from_complete_fresh_read
#print axioms Agd.Tie.TrC13.stale_cache_not_read
#print axioms Agd.Tie.TrC13.refresh_dispatch
#print axioms Agd.Tie.TrC13.file_url_reads_only_that_file
#print axioms Agd.Tie.TrC13.cache_read_first_with_callers_staleness
#print axioms Agd.Tie.TrC13.stale_cache_goes_to_url
#print axioms Agd.Tie.TrC13.fresh_cache_never_downloads
#print axioms Agd.Tie.TrC13.cache_error_stops_refresh
#print axioms Agd.Tie.TrC13.fromFile_tr
#print axioms Agd.Tie.TrC13.url_consulted_iff_model_cache_miss
#print axioms Agd.Tie.TrC13.fromURL_tr
