import Agd.Gen.TrC13
/-!
# C13: the download-and-replace path of a refreshable list, as translated from the source

`Agd.Gen.TrC13.*` are regenerated on every run (`extract/tr.go`) from
`internal/filter/internal/refreshable/refreshable.go`.  The HTTP client, the temporary file
(`renameio`), `io.Copy` and the file system are opaque: their results are parameters and the calls
form the returned trace.  Deferred closures are run inline at every exit, so the order "close the
body, then clean up or atomically replace" is part of the translated meaning.
-/
namespace Agd.Tie.TrC13
open Agd.Gen.TrC13 Agd.TrPrelude

theorem translation_complete : translationFailures = [] := by decide

def names (tr : List (String × List String)) : List String := tr.map (·.1)

/-- `withDeferredTmpCleanup`: with an error the temporary file is discarded (`Cleanup`) and the cache
file is never replaced; without one the temporary file atomically replaces the cache file
(`CloseAtomicallyReplace`) and only then are its times set.  The error is never lost. -/
theorem cleanup_or_replace (f : S_refreshable_Refreshable) (returned c r t : Option String) :
    let out := withDeferredTmpCleanup f returned c r t
    (returned ≠ none → names out.2 = ["Cleanup"] ∧ out.1 = returned) ∧
    (returned = none → (names out.2).head? = some "CloseAtomicallyReplace" ∧ "Cleanup" ∉ names out.2 ∧
      (r ≠ none → out.1 = r ∧ "Chtimes" ∉ names out.2) ∧ (r = none → out.1 = t)) := by
  cases returned <;> cases r <;> cases t <;> simp [withDeferredTmpCleanup, names]

/-- What `refreshFromURL` passes to `withDeferredTmpCleanup` — "err" or "nil" — in a given run. -/
def cleanupArg (tr : List (String × List String)) : Option String :=
  (tr.find? (·.1 = "withDeferredTmpCleanup")).bind (·.2[0]?)

/-- The download path.  If no temporary file can be created nothing else happens.  Otherwise, in every
run, the response body is closed (when there is one) before the temporary file is dealt with, and the
temporary file is handed to `withDeferredTmpCleanup` exactly once, as the last effect, with a nil error
ONLY if the request succeeded, the status was 200, the whole body was copied without error (the size
limiter's error included), the text is non-empty and closing the body succeeded.  In every other
case it receives an error — so, by `cleanup_or_replace`, the cache file keeps its previous complete
content. -/
theorem replace_only_after_complete_download (f : S_refreshable_Refreshable) (dir : String)
    (tf get : AbsPtr × Option String) (cl st bc : Option String) (mw : AbsPtr) (cp : Int × Option String)
    (len : Int) (txt : String) :
    let out := refreshFromURL f dir tf get cl st bc mw cp len txt
    (tf.2 ≠ none → "Get" ∉ names out.2.2 ∧ "withDeferredTmpCleanup" ∉ names out.2.2 ∧ out.2.1 ≠ none) ∧
    (tf.2 = none →
      (names out.2.2).getLast? = some "withDeferredTmpCleanup" ∧
      (names out.2.2).count "withDeferredTmpCleanup" = 1 ∧
      (cleanupArg out.2.2 = some "nil" ↔
        (get.2 = none ∧ st = none ∧ cp.2 = none ∧ len ≠ 0 ∧ bc = none)) ∧
      (get.2 = none → (names out.2.2).count "Close" = 1)) := by
  cases h1 : tf.2 <;> cases h2 : get.2 <;> cases h3 : st <;> cases h4 : cp.2 <;> cases h5 : bc <;>
    by_cases h6 : len = 0 <;> simp [refreshFromURL, names, cleanupArg, h1, h2, h3, h4, h5, h6]

/-- An empty body is an error (and therefore never replaces the cache file). -/
theorem empty_body_rejected (f : S_refreshable_Refreshable) (dir : String) (tf get : AbsPtr) (cl bc : Option String)
    (mw : AbsPtr) (n : Int) (txt : String) :
    cleanupArg (refreshFromURL f dir (tf, none) (get, none) cl none bc mw (n, none) 0 txt).2.2 = some "err" := by
  cases bc <;> simp [refreshFromURL, cleanupArg]

/-- The URL is consulted only when the cache file yields no (fresh) text, and a failed download is an
error of the refresh, never an empty success. -/
theorem url_only_when_cache_is_stale (f : S_refreshable_Refreshable) (stale : Bool) (u : Unit)
    (file url : String × Option String) (ru : AbsPtr) :
    let out := useCachedOrRefreshFromURL f stale u file ru url
    ("refreshFromURL" ∈ names out.2.2 ↔ (file.2 = none ∧ file.1 = "")) ∧
    (file.2 = none → file.1 = "" → url.2 ≠ none → out.2.1 ≠ none ∧ out.1 = "") ∧
    (file.2 = none → file.1 ≠ "" → out.1 = file.1 ∧ out.2.1 = none) := by
  cases h1 : file.2 <;> cases h2 : url.2 <;> by_cases h3 : file.1 = "" <;>
    simp [useCachedOrRefreshFromURL, names, h1, h2, h3]

example (f : S_refreshable_Refreshable) :
    cleanupArg (refreshFromURL f "d" (true, none) (true, none) none none none true (10, none) 10 "rules").2.2 = some "nil" := by
  simp [refreshFromURL, cleanupArg]

end Agd.Tie.TrC13

#print axioms Agd.Tie.TrC13.translation_complete
#print axioms Agd.Tie.TrC13.cleanup_or_replace
#print axioms Agd.Tie.TrC13.replace_only_after_complete_download
#print axioms Agd.Tie.TrC13.empty_body_rejected
#print axioms Agd.Tie.TrC13.url_only_when_cache_is_stale
