import Agd.Gen.TrC18
import Agd.Model.ConnLimit
/-!
# C18: the counter of the hand-written model *is* the translated source

`Agd.Gen.TrC18.counter_increment` / `counter_decrement` are regenerated from
`internal/connlimiter/counter.go` on every run (`extract/tr.go`).  The theorems below show that they
coincide with `Agd.ConnLimit.Counter.increment` / `decrement`, the definitions every C18 theorem
is about, on every model state (all `uint64` values of the three numeric fields, wrap-around of
`current++` / `current--` included).  A semantic change of the two Go methods changes the generated
definitions and these proofs stop checking.
-/
namespace Agd.Tie.TrC18
open Agd.Gen.TrC18 Agd.TrPrelude Agd.ConnLimit

/-- No function of the translation list was skipped. -/
theorem translation_complete : translationFailures = [] := by decide

/-- A model state as a state of the translated code. -/
def fromModel (m : Counter) : S_connlimiter_counter :=
  { current := m.current, stop := m.stop, resume := m.resume, isAccepting := m.accepting }

theorem increment_tr (m : Counter) :
    counter_increment (fromModel m) = (fromModel (m.increment).1, (m.increment).2) := by
  unfold counter_increment Counter.increment fromModel goWrapU
  cases hacc : m.accepting
  · simp [hacc]
  · simp only [Bool.not_true, Bool.false_eq_true, ↓reduceIte]
    unfold two64 at *
    have e : ((m.current : Int) + 1) % 18446744073709551616 =
        (((m.current + 1) % 18446744073709551616 : Nat) : Int) := by omega
    simp only [e]
    congr 2
    simp only [decide_eq_decide]
    omega

theorem decrement_tr (m : Counter) (h : m.current < two64) :
    counter_decrement (fromModel m) = fromModel m.decrement := by
  have e : ((m.current : Int) - 1) % 18446744073709551616 =
      (((m.current + two64 - 1) % two64 : Nat) : Int) := by unfold two64 at *; omega
  unfold counter_decrement Counter.decrement fromModel goWrapU
  simp only []
  rw [e, S_connlimiter_counter.mk.injEq]
  refine ⟨Eq.refl _, Eq.refl _, Eq.refl _, ?_⟩
  have : (decide ((((m.current + two64 - 1) % two64 : Nat) : Int) ≤ (m.resume : Int))) =
      decide ((m.current + two64 - 1) % two64 ≤ m.resume) := by
    simp only [decide_eq_decide]; omega
  rw [this]

/-- Non-vacuity: both sides on a concrete counter (2 of 3 slots in use; then a release at 0). -/
example : counter_increment (fromModel ⟨2, 3, 1, true⟩) = (fromModel ⟨3, 3, 1, false⟩, true) := by
  simp [counter_increment, fromModel, goWrapU]

end Agd.Tie.TrC18

#print axioms Agd.Tie.TrC18.translation_complete
#print axioms Agd.Tie.TrC18.increment_tr
#print axioms Agd.Tie.TrC18.decrement_tr
