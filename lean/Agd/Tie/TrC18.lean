import Agd.Gen.TrC18
import Agd.Model.ConnLimit
/-!
# C18: the counter of the hand-written model *is* the translated source

`Agd.Gen.TrC18.counter_increment` / `counter_decrement` are regenerated from
`internal/connlimiter/counter.go` on every run (`extract/tr.go`).  The theorems below show that they
coincide with `Agd.ConnLimit.Counter.increment` / `decrement`, the definitions every C18 theorem
is about, on every model state (all `uint64` values of the three numeric fields, wrap-around of
`current++` / `current--` included).  A semantic change of the two Go methods changes the generated
definitions and these proofs stop checking.
-/
set_option linter.unusedSimpArgs false
namespace Agd.Tie.TrC18
open Agd.Gen.TrC18 Agd.TrPrelude Agd.ConnLimit

/-- No function of the translation list was skipped. -/
theorem translation_complete : translationFailures = [] := by decide

/-- A model state as a state of the translated code. -/
def fromModel (m : Counter) : S_connlimiter_counter :=
  { current := m.current, stop := m.stop, resume := m.resume, isAccepting := m.accepting }

theorem increment_tr (m : Counter) :
    counter_increment (fromModel m) = (fromModel (m.increment).1, (m.increment).2) := by
  unfold counter_increment Counter.increment fromModel goWrapU
  cases hacc : m.accepting
  · simp [hacc]
  · simp only [Bool.not_true, Bool.false_eq_true, ↓reduceIte]
    unfold two64 at *
    have e : ((m.current : Int) + 1) % 18446744073709551616 =
        (((m.current + 1) % 18446744073709551616 : Nat) : Int) := by omega
    simp only [e]
    congr 2
    simp only [decide_eq_decide]
    omega

theorem decrement_tr (m : Counter) (h : m.current < two64) :
    counter_decrement (fromModel m) = fromModel m.decrement := by
  have e : ((m.current : Int) - 1) % 18446744073709551616 =
      (((m.current + two64 - 1) % two64 : Nat) : Int) := by unfold two64 at *; omega
  unfold counter_decrement Counter.decrement fromModel goWrapU
  simp only []
  rw [e, S_connlimiter_counter.mk.injEq]
  refine ⟨Eq.refl _, Eq.refl _, Eq.refl _, ?_⟩
  have : (decide ((((m.current + two64 - 1) % two64 : Nat) : Int) ≤ (m.resume : Int))) =
      decide ((m.current + two64 - 1) % two64 ≤ m.resume) := by
    simp only [decide_eq_decide]; omega
  rw [this]

/-- Non-vacuity: both sides on a concrete counter (2 of 3 slots in use; then a release at 0). -/
example : counter_increment (fromModel ⟨2, 3, 1, true⟩) = (fromModel ⟨3, 3, 1, false⟩, true) := by
  simp [counter_increment, fromModel, goWrapU]

/-! ## The listener and connection wrappers (decision / effect structure)

`limitListener.decrement`, `Close`, `Accept` and `limitConn.Close` are translated with the mutex, the
condition variable, the gauges, the underlying listener / connection and the shared counter as opaque
calls whose order is the returned trace. -/

def names (tr : List (String × List String)) : List String := tr.map (·.1)

/-- Releasing a slot: under the lock, the counter is decremented and then *all* waiters are woken
(`Broadcast`, not `Signal`), and the lock is released last. -/
theorem decrement_broadcasts (l : S_connlimiter_limitListener) :
    names (listener_decrement l) = ["Lock", "Dec", "decrement", "Broadcast", "Unlock"] := by
  simp [listener_decrement, names]

/-- Closing a listener: a second close is refused without touching anything; the first one closes the
underlying listener, marks the listener closed and wakes every waiter, all under the lock. -/
theorem listener_close_releases_waiters (l : S_connlimiter_limitListener) (e : Option String) :
    (l.isClosed = true → listener_Close l e = (l, some "net.ErrClosed", [("Lock", []), ("Unlock", [])])) ∧
    (l.isClosed = false → (listener_Close l e).1.isClosed = true ∧ (listener_Close l e).2.1 = e ∧
      names (listener_Close l e).2.2 = ["Lock", "Close", "Broadcast", "Unlock"]) := by
  constructor <;> intro h <;> simp [listener_Close, h, names]

/-- `Accept`: a closed listener returns `net.ErrClosed` without accepting; otherwise a failed
underlying accept gives its slot back (one `decrement`), a successful one keeps it and hands out a
connection. -/
theorem accept_slot_accounting (l : S_connlimiter_limitListener) (u : Unit) (cx : AbsPtr) (closed : Bool)
    (a : AbsPtr × Option String) :
    let r := listener_Accept l u cx closed a
    (closed = true → r.1 = false ∧ r.2.1 = some "net.ErrClosed" ∧ "Accept" ∉ names r.2.2 ∧ "decrement" ∉ names r.2.2) ∧
    (closed = false → a.2 ≠ none → r.1 = false ∧ r.2.1 = a.2 ∧ (names r.2.2).count "decrement" = 1) ∧
    (closed = false → a.2 = none → r.1 = true ∧ r.2.1 = none ∧ "decrement" ∉ names r.2.2) := by
  cases closed <;> cases h : a.2 <;> simp [listener_Accept, h, names]

/-- A connection is released exactly once however often it is closed: the slot is given back iff this
call won the atomic `CompareAndSwap(false, true)`; every other call returns `net.ErrClosed` and touches
neither the connection nor the counter. -/
theorem conn_released_once (c : S_connlimiter_limitConn) (won : Bool) (e : Option String) (cx : AbsPtr) (life : Int) :
    let r := conn_Close c won e cx life
    (names r.2).head? = some "CompareAndSwap" ∧
    (won = false → r.1 = some "net.ErrClosed" ∧ "decrement" ∉ names r.2 ∧ "Close" ∉ names r.2) ∧
    (won = true → r.1 = e ∧ (names r.2).count "decrement" = 1 ∧ (names r.2).count "Close" = 1) := by
  cases won <;> simp [conn_Close, names]


/-! ## The TCP serving path of `dnsserver.ServerDNS` (translator round 3)

`serveTCP`, `acceptTCPConn`, `serveTCPConn`, `acceptTCPMsg` (and the task closure it submits) and
`serveTCPMessage` are translated with every library object (listener, connection, wait groups, worker
pool, semaphore) as traced opaque calls.  The two `for s.isStarted() { … }` loops are `goFor` loops: the
theorems hold for every iteration bound `fuel` and for every *sequence* of results of the calls made in
the loop (`started i`, `acc i` are the results in iteration `i`). -/

def cnt (n : String) (tr : List (String × List String)) : Nat := (names tr).count n

/-- `a` occurs, and the first `b` comes after the first `a`. -/
def before (a b : String) (tr : List (String × List String)) : Prop :=
  a ∈ names tr ∧ (names tr).idxOf a < (names tr).idxOf b

/-- Names of the calls `serveTCPConn` makes before it leaves. -/
def connBody : List String := ["NewChanSemaphore", "handshake", "isStarted", "acceptTCPMsg", "logReadErr"]

/-- What `serveTCPConn` does on every way out: recover, wait for the connection's in-flight messages,
close the connection, forget it (under the lock), tell the server's wait group. -/
def connExit : List String := ["handlePanicAndRecover", "Wait", "OnCloserError", "Lock", "delete", "Unlock", "Done"]

def connOk (tr : List (String × List String)) : Prop :=
  ∃ pre, names tr = pre ++ connExit ∧ ∀ n ∈ pre, n ∈ connBody

private theorem names_append (a b : List (String × List String)) : names (a ++ b) = names a ++ names b := by
  simp [names]

private theorem connOk_exit (tr : List (String × List String)) (h : ∀ n ∈ names tr, n ∈ connBody) :
    connOk (tr ++ [("handlePanicAndRecover", ["_"])] ++ [("Wait", [])] ++ [("OnCloserError", ["_", toString (3 : Int)])] ++
      [("Lock", [])] ++ [("delete", ["_", "_"])] ++ [("Unlock", [])] ++ [("Done", [])]) := by
  refine ⟨names tr, ?_, h⟩
  simp [names, connExit]

private theorem body_snoc (tr : List (String × List String)) (e : String × List String)
    (h : ∀ n ∈ names tr, n ∈ connBody) (he : e.1 ∈ connBody) : ∀ n ∈ names (tr ++ [e]), n ∈ connBody := by
  intro n hn
  simp only [names, List.map_append, List.map_cons, List.map_nil, List.mem_append, List.mem_singleton] at hn
  rcases hn with hn | hn
  · exact h n hn
  · rw [hn]; exact he

/-- Discharges "only calls of the serving loop so far" / "… followed by the exit sequence" goals. -/
local macro "conn_tac" : tactic =>
  `(tactic| repeat' (first | assumption | (simp [connBody, names]; done) | apply connOk_exit | apply body_snoc))

/-- The loop invariant / exit condition of the serving loop. -/
private def connQ : (Option String × Int × List (String × List String)) ⊕ List (String × List String) → Prop
  | .inl st => ∀ n ∈ names st.2.2, n ∈ connBody
  | .inr r => connOk r

/-- **Every way out of `serveTCPConn` closes the connection exactly once**, after waiting for the
messages still being processed, and releases the server's wait group last — for every configuration,
every handshake result, every iteration bound and every sequence of `isStarted` / `acceptTCPMsg`
results: the trace is calls of the serving loop followed by the exit sequence `connExit`. -/
theorem serveTCPConn_exit (s : S_dnsserver_ServerDNS) (sem : AbsPtr) (hs : Option String) (fuel : Nat)
    (started : Nat → Bool) (acc : Nat → Option String) (tr : List (String × List String))
    (h : serveTCPConn s sem hs fuel started acc = some tr) : connOk tr := by
  unfold serveTCPConn at h
  dsimp only at h
  split at h <;> split at h
  · cases h
    conn_tac
  · split at h
    · cases h
    · rename_i r heq
      cases h
      refine goFor_inv _ (fun _ st => ∀ n ∈ names st.2.2, n ∈ connBody) connQ fuel _ (by conn_tac) ?_ _ heq
      intro i st hp
      obtain ⟨e, t, tr1⟩ := st
      dsimp only
      by_cases h1 : started i = true <;> by_cases h2 : (acc i).isSome = true <;>
        simp only [h1, h2, ↓reduceIte, connQ] <;> conn_tac
    · rename_i st heq
      obtain ⟨e, t, tr1⟩ := st
      cases h
      have hq : connQ (.inl (e, t, tr1)) := by
        refine goFor_inv _ (fun _ st => ∀ n ∈ names st.2.2, n ∈ connBody) connQ fuel _ (by conn_tac) ?_ _ heq
        intro i st hp
        obtain ⟨e, t, tr1⟩ := st
        dsimp only
        by_cases h1 : started i = true <;> by_cases h2 : (acc i).isSome = true <;>
          simp only [h1, h2, ↓reduceIte, connQ] <;> conn_tac
      have hq' : ∀ n ∈ names tr1, n ∈ connBody := hq
      conn_tac
  · cases h
    conn_tac
  · split at h
    · cases h
    · rename_i r heq
      cases h
      refine goFor_inv _ (fun _ st => ∀ n ∈ names st.2.2, n ∈ connBody) connQ fuel _ (by conn_tac) ?_ _ heq
      intro i st hp
      obtain ⟨e, t, tr1⟩ := st
      dsimp only
      by_cases h1 : started i = true <;> by_cases h2 : (acc i).isSome = true <;>
        simp only [h1, h2, ↓reduceIte, connQ] <;> conn_tac
    · rename_i st heq
      obtain ⟨e, t, tr1⟩ := st
      cases h
      have hq : connQ (.inl (e, t, tr1)) := by
        refine goFor_inv _ (fun _ st => ∀ n ∈ names st.2.2, n ∈ connBody) connQ fuel _ (by conn_tac) ?_ _ heq
        intro i st hp
        obtain ⟨e, t, tr1⟩ := st
        dsimp only
        by_cases h1 : started i = true <;> by_cases h2 : (acc i).isSome = true <;>
          simp only [h1, h2, ↓reduceIte, connQ] <;> conn_tac
      have hq' : ∀ n ∈ names tr1, n ∈ connBody := hq
      conn_tac

private theorem count_body (n : String) (hn : n ∉ connBody) : ∀ pre : List String, (∀ m ∈ pre, m ∈ connBody) → pre.count n = 0
  | [], _ => rfl
  | m :: pre, h => by
    have hm : m ∈ connBody := h m (by simp)
    have : m ≠ n := fun e => hn (e ▸ hm)
    rw [List.count_cons_of_ne (by simpa using this)]
    exact count_body n hn pre (fun k hk => h k (by simp [hk]))

/-- Closed exactly once, after exactly one `Wait`; one `Done`, and it is the last call. -/
theorem serveTCPConn_closes_once (s : S_dnsserver_ServerDNS) (sem : AbsPtr) (hs : Option String) (fuel : Nat)
    (started : Nat → Bool) (acc : Nat → Option String) (tr : List (String × List String))
    (h : serveTCPConn s sem hs fuel started acc = some tr) :
    cnt "OnCloserError" tr = 1 ∧ cnt "Wait" tr = 1 ∧ cnt "Done" tr = 1 ∧ cnt "delete" tr = 1 ∧
      (names tr).getLast? = some "Done" ∧
      ∃ pre, names tr = pre ++ "Wait" :: "OnCloserError" :: ["Lock", "delete", "Unlock", "Done"] := by
  obtain ⟨pre, hpre, hbody⟩ := serveTCPConn_exit s sem hs fuel started acc tr h
  have c1 := count_body "OnCloserError" (by decide) pre hbody
  have c2 := count_body "Wait" (by decide) pre hbody
  have c3 := count_body "Done" (by decide) pre hbody
  have c4 := count_body "delete" (by decide) pre hbody
  unfold cnt
  rw [hpre]
  refine ⟨?_, ?_, ?_, ?_, ?_, pre ++ ["handlePanicAndRecover"], ?_⟩
  · rw [List.count_append, c1]; decide
  · rw [List.count_append, c2]; decide
  · rw [List.count_append, c3]; decide
  · rw [List.count_append, c4]; decide
  · simp [connExit]
  · simp [connExit]

/-- The serving loop ends — the result is not `none`, in particular nothing panics — as soon as the bound
exceeds the number of an iteration in which the server is no longer started. -/
theorem serveTCPConn_terminates (s : S_dnsserver_ServerDNS) (sem : AbsPtr) (hs : Option String) (fuel k : Nat)
    (started : Nat → Bool) (acc : Nat → Option String) (hk : k < fuel) (hstop : started k = false) :
    serveTCPConn s sem hs fuel started acc ≠ none := by
  unfold serveTCPConn
  dsimp only
  split <;> split
  · simp
  · have := goForFrom_terminates (σ := (Option String × Int × List (String × List String))) (ρ := List (String × List String))
    split
    · rename_i heq
      exact absurd heq (by
        unfold goFor
        apply goForFrom_terminates _ k fuel 0 _ hk
        intro a b
        simp [hstop])
    · simp
    · simp
  · simp
  · split
    · rename_i heq
      exact absurd heq (by
        unfold goFor
        apply goForFrom_terminates _ k fuel 0 _ hk
        intro a b
        simp [hstop])
    · simp
    · simp

private def preQ (tr0 : List (String × List String)) :
    (Option String × Int × List (String × List String)) ⊕ List (String × List String) → Prop
  | .inl st => ∃ suf, st.2.2 = tr0 ++ suf
  | .inr r => ∃ suf, r = tr0 ++ suf

/-- The per-connection semaphore: when the pipeline limit is enabled the first thing `serveTCPConn` does is
make a semaphore of exactly `MaxPipelineCount` tokens, then the handshake under the read timeout; when it is
disabled the handshake comes first (no semaphore is made before serving starts). -/
theorem serveTCPConn_semaphore (s : S_dnsserver_ServerDNS) (sem : AbsPtr) (hs : Option String) (fuel : Nat)
    (started : Nat → Bool) (acc : Nat → Option String) (tr : List (String × List String))
    (h : serveTCPConn s sem hs fuel started acc = some tr) :
    (s.conf.MaxPipelineEnabled = true → ∃ suf, tr = ("NewChanSemaphore", [toString s.conf.MaxPipelineCount]) ::
        ("handshake", ["_", toString s.conf.ReadTimeout]) :: suf) ∧
    (s.conf.MaxPipelineEnabled = false → ∃ suf, tr = ("handshake", ["_", toString s.conf.ReadTimeout]) :: suf) := by
  unfold serveTCPConn at h
  dsimp only at h
  have step : ∀ (tr0 : List (String × List String)) (f : Nat → (Option String × Int × List (String × List String)) →
      Step (Option String × Int × List (String × List String)) (List (String × List String))) (e0 : Option String) (t0 : Int) r,
      (∀ i st, (∃ suf, st.2.2 = tr0 ++ suf) → preQ tr0 (match f i st with | .next s' => .inl s' | .brk s' => .inl s' | .ret r => .inr r)) →
      goFor fuel (e0, t0, tr0) f = some r → preQ tr0 r := by
    intro tr0 f e0 t0 r hf hg
    refine goFor_inv f (fun _ st => ∃ suf, st.2.2 = tr0 ++ suf) (preQ tr0) fuel _ ⟨[], by simp⟩ ?_ r hg
    intro i st hp
    have := hf i st hp
    cases hfi : f i st <;> rw [hfi] at this <;> exact this
  have body : ∀ (tr0 : List (String × List String)) (i : Nat) (st : Option String × Int × List (String × List String)),
      (∃ suf, st.2.2 = tr0 ++ suf) → ∀ l : List (String × List String), ∃ suf, st.2.2 ++ l = tr0 ++ suf := by
    intro tr0 i st ⟨suf, hs⟩ l
    exact ⟨suf ++ l, by rw [hs, List.append_assoc]⟩
  split at h <;> split at h
  · cases h
    refine ⟨fun _ => ⟨_, by simp only [List.nil_append, List.append_assoc, List.cons_append]; rfl⟩, fun hc => ?_⟩
    simp_all
  · rename_i hen _
    refine ⟨fun _ => ?_, fun hc => by simp_all⟩
    split at h
    · cases h
    · rename_i r heq
      cases h
      have := step _ _ _ _ _ (by
        intro i st hp
        by_cases h1 : started i = true <;> by_cases h2 : (acc i).isSome = true <;>
          simp only [h1, h2, ↓reduceIte, preQ, List.append_assoc] <;> exact body _ i st hp _) heq
      obtain ⟨suf, hsuf⟩ := this
      exact ⟨suf, by rw [hsuf]; rfl⟩
    · rename_i st heq
      cases h
      have := step _ _ _ _ _ (by
        intro i st hp
        by_cases h1 : started i = true <;> by_cases h2 : (acc i).isSome = true <;>
          simp only [h1, h2, ↓reduceIte, preQ, List.append_assoc] <;> exact body _ i st hp _) heq
      obtain ⟨suf, hsuf⟩ := this
      exact ⟨suf ++ _, by rw [hsuf]; simp only [List.nil_append, List.append_assoc, List.cons_append]; rfl⟩
  · cases h
    refine ⟨fun hc => by simp_all, fun _ => ⟨_, by simp only [List.nil_append, List.append_assoc, List.cons_append]; rfl⟩⟩
  · rename_i hen _
    refine ⟨fun hc => by simp_all, fun _ => ?_⟩
    split at h
    · cases h
    · rename_i r heq
      cases h
      have := step _ _ _ _ _ (by
        intro i st hp
        by_cases h1 : started i = true <;> by_cases h2 : (acc i).isSome = true <;>
          simp only [h1, h2, ↓reduceIte, preQ, List.append_assoc] <;> exact body _ i st hp _) heq
      obtain ⟨suf, hsuf⟩ := this
      exact ⟨suf, by rw [hsuf]; rfl⟩
    · rename_i st heq
      cases h
      have := step _ _ _ _ _ (by
        intro i st hp
        by_cases h1 : started i = true <;> by_cases h2 : (acc i).isSome = true <;>
          simp only [h1, h2, ↓reduceIte, preQ, List.append_assoc] <;> exact body _ i st hp _) heq
      obtain ⟨suf, hsuf⟩ := this
      exact ⟨suf ++ _, by rw [hsuf]; simp only [List.nil_append, List.append_assoc, List.cons_append]; rfl⟩

/-- A server with a pipeline limit of 4, read timeout 2 s and idle timeout 30 s (fields the functions read). -/
def srv4 : S_dnsserver_ServerDNS where
  ServerBase := none
  conf := {
    ConfigBase := { Network := "", Name := "t", Addr := "" }
    ReadTimeout := 2
    WriteTimeout := 2
    TCPIdleTimeout := 30
    MaxPipelineCount := 4
    UDPSize := 0
    TCPSize := 0
    MaxUDPRespSize := 0
    MaxPipelineEnabled := true }

/-- Non-vacuity: a connection that delivers two messages and then fails to read (EOF): three reads (the
first with the read timeout, then the idle timeout), one close. -/
example : ∃ tr, serveTCPConn srv4 true none 5 (fun _ => true) (fun i => if i < 2 then none else some "EOF") = some tr ∧
    cnt "acceptTCPMsg" tr = 3 ∧ cnt "OnCloserError" tr = 1 ∧
    tr.filter (·.1 == "acceptTCPMsg") = [("acceptTCPMsg", ["_", "_", "_", "2", "_"]), ("acceptTCPMsg", ["_", "_", "_", "30", "_"]),
      ("acceptTCPMsg", ["_", "_", "_", "30", "_"])] := ⟨_, rfl, by decide, by decide, by decide⟩

/-- … and a bound that is too small for that run gives `none`. -/
example : serveTCPConn srv4 true none 2 (fun _ => true) (fun i => if i < 2 then none else some "EOF") = none := by decide

/-! ### One message: `acceptTCPMsg`, the task it submits, `serveTCPMessage` -/

/-- `acceptTCPMsg` never panics, and takes a semaphore token before the message is handed to the worker
pool: a failed read returns that error without touching semaphore, wait group or pool; a failed `Acquire`
returns an error and neither counts the message in the wait group nor submits it; otherwise exactly one
`Acquire`, then `wg.Add(1)`, then exactly one `Submit`, whose error is returned. -/
theorem acceptTCPMsg_acquire_then_submit (s : S_dnsserver_ServerDNS) (timeout : Int) (rd : AbsPtr × Option String)
    (cs : AbsPtr × Bool) (sni : String) (rc : AbsPtr × AbsPtr) (cx : AbsPtr) (acq sub : Option String) :
    ∃ e tr, acceptTCPMsg s timeout rd cs sni rc cx acq sub = some (e, tr) ∧
      (tr.head? = some ("readTCPMsg", ["_", toString timeout])) ∧
      (rd.2 ≠ none → e = rd.2 ∧ cnt "Acquire" tr = 0 ∧ cnt "Add" tr = 0 ∧ cnt "Submit" tr = 0) ∧
      (rd.2 = none → acq ≠ none → e ≠ none ∧ cnt "Acquire" tr = 1 ∧ cnt "Add" tr = 0 ∧ cnt "Submit" tr = 0) ∧
      (rd.2 = none → acq = none → e = sub ∧ cnt "Acquire" tr = 1 ∧ cnt "Add" tr = 1 ∧ cnt "Submit" tr = 1 ∧
        before "Acquire" "Add" tr ∧ before "Add" "Submit" tr) := by
  obtain ⟨p, rde⟩ := rd
  obtain ⟨c, ok⟩ := cs
  cases rde <;> cases acq <;> cases ok <;> exact ⟨_, _, rfl, by simp [cnt, names, before] <;> decide⟩

/-- The submitted task: the message is served exactly once and the token is given back exactly once,
after serving; the request context is cancelled. -/
theorem acceptTCPMsg_task_releases_once (s : S_dnsserver_ServerDNS) (timeout : Int) :
    let tr := acceptTCPMsg_task s timeout
    cnt "serveTCPMessage" tr = 1 ∧ cnt "Release" tr = 1 ∧ cnt "reqCancel" tr = 1 ∧ before "serveTCPMessage" "Release" tr := by
  simp [acceptTCPMsg_task, cnt, names, before] <;> decide

/-- `serveTCPMessage`: the connection is closed by the worker iff nothing was written (and then once);
the connection's wait group is released exactly once, last, on both paths. -/
theorem serveTCPMessage_close_iff_unwritten (s : S_dnsserver_ServerDNS) (buf : List Int) (written : Bool) :
    let tr := serveTCPMessage s buf written
    cnt "OnCloserError" tr = (if written then 0 else 1) ∧ cnt "serveDNS" tr = 1 ∧ cnt "Done" tr = 1 ∧
      (names tr).getLast? = some "Done" ∧ before "serveDNS" "Done" tr := by
  cases written <;> simp [serveTCPMessage, cnt, names, before] <;> decide

/-! ### The listener side: `acceptTCPConn`, `serveTCP` -/

/-- The store into the map of tracked connections under one name, whatever the key variable is called. -/
def trk (tr : List (String × List String)) : List (String × List String) :=
  tr.map fun e => (if goHasPrefix e.1 "set s.tcpConns[" then "track" else e.1, e.2)

/-- A connection taken from the listener is recorded (under the lock), counted in the server's wait group
and submitted exactly once, in that order, and the pool's error is returned; a failed `Accept` does none of
these (a non-critical error is swallowed, any other is returned). -/
theorem acceptTCPConn_hands_over_once (s : S_dnsserver_ServerDNS) (a : AbsPtr × Option String) (nonCrit : Bool)
    (sub : Option String) :
    let r := acceptTCPConn s a nonCrit sub
    (a.2 ≠ none → r.1 = (if nonCrit then none else a.2) ∧ cnt "Submit" r.2 = 0 ∧ cnt "Add" r.2 = 0 ∧
      cnt "track" (trk r.2) = 0) ∧
    (a.2 = none → r.1 = sub ∧ cnt "Submit" r.2 = 1 ∧ cnt "Add" r.2 = 1 ∧ cnt "track" (trk r.2) = 1 ∧
      before "Lock" "track" (trk r.2) ∧ before "track" "Unlock" (trk r.2) ∧
      before "Unlock" "Add" r.2 ∧ before "Add" "Submit" r.2) := by
  obtain ⟨c, e⟩ := a
  cases e <;> cases nonCrit <;> simp [acceptTCPConn, cnt, names, before, trk, goHasPrefix] <;> decide

def lsnBody : List String := ["isStarted", "acceptTCPConn"]

private theorem lsn_snoc (tr : List (String × List String)) (e : String × List String)
    (h : ∀ n ∈ names tr, n ∈ lsnBody) (he : e.1 ∈ lsnBody) : ∀ n ∈ names (tr ++ [e]), n ∈ lsnBody := by
  intro n hn
  simp only [names, List.map_append, List.map_cons, List.map_nil, List.mem_append, List.mem_singleton] at hn
  rcases hn with hn | hn
  · exact h n hn
  · rw [hn]; exact he

/-- only accept-loop calls, then the deferred close of the listener -/
def lsnOk (tr : List (String × List String)) : Prop :=
  ∃ pre, names tr = pre ++ ["OnCloserError"] ∧ ∀ n ∈ pre, n ∈ lsnBody

private theorem lsnOk_exit (tr : List (String × List String)) (a : List String) (h : ∀ n ∈ names tr, n ∈ lsnBody) :
    lsnOk (tr ++ [("OnCloserError", a)]) := ⟨names tr, by simp [names], h⟩

private def lsnQ : (Option String × List (String × List String)) ⊕ (Option String × List (String × List String)) → Prop
  | .inl st => ∀ n ∈ names st.2, n ∈ lsnBody
  | .inr r => lsnOk r.2

local macro "lsn_tac" : tactic =>
  `(tactic| repeat' (first | assumption | (simp [lsnBody, names]; done) | apply lsnOk_exit | apply lsn_snoc))

/-- The accept loop `serveTCP` closes its listener exactly once, as its last action, on every way out —
for every bound and every sequence of `isStarted` / `acceptTCPConn` results — and touches nothing but
`isStarted` and `acceptTCPConn` before. -/
theorem serveTCP_closes_listener_once (s : S_dnsserver_ServerDNS) (fuel : Nat) (started : Nat → Bool)
    (acc : Nat → Option String) (started' : Nat → Bool) (e : Option String) (tr : List (String × List String))
    (h : serveTCP s fuel started acc started' = some (e, tr)) : lsnOk tr := by
  unfold serveTCP at h
  dsimp only at h
  split at h
  · cases h
  · rename_i r heq
    cases h
    refine goFor_inv _ (fun _ st => ∀ n ∈ names st.2, n ∈ lsnBody) lsnQ fuel _ (by lsn_tac) ?_ _ heq
    intro i st hp
    obtain ⟨e1, tr1⟩ := st
    dsimp only
    by_cases h1 : started i = true <;> by_cases h2 : (acc i).isSome = true <;> by_cases h3 : started' i = true <;>
      simp only [h1, h2, h3, ↓reduceIte, lsnQ, Bool.not_true, Bool.not_false, Bool.false_eq_true] <;> lsn_tac
  · rename_i st heq
    obtain ⟨e1, tr1⟩ := st
    cases h
    have hq : lsnQ (.inl (e1, tr1)) := by
      refine goFor_inv _ (fun _ st => ∀ n ∈ names st.2, n ∈ lsnBody) lsnQ fuel _ (by lsn_tac) ?_ _ heq
      intro i st hp
      obtain ⟨e1, tr1⟩ := st
      dsimp only
      by_cases h1 : started i = true <;> by_cases h2 : (acc i).isSome = true <;> by_cases h3 : started' i = true <;>
        simp only [h1, h2, h3, ↓reduceIte, lsnQ, Bool.not_true, Bool.not_false, Bool.false_eq_true] <;> lsn_tac
    have hq' : ∀ n ∈ names tr1, n ∈ lsnBody := hq
    lsn_tac

end Agd.Tie.TrC18

#print axioms Agd.Tie.TrC18.translation_complete
#print axioms Agd.Tie.TrC18.increment_tr
#print axioms Agd.Tie.TrC18.decrement_tr
#print axioms Agd.Tie.TrC18.decrement_broadcasts
#print axioms Agd.Tie.TrC18.listener_close_releases_waiters
#print axioms Agd.Tie.TrC18.accept_slot_accounting
#print axioms Agd.Tie.TrC18.conn_released_once
