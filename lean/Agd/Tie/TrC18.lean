import Agd.Gen.TrC18
import Agd.Model.ConnLimit
/-!
# C18: the counter of the hand-written model *is* the translated source

`Agd.Gen.TrC18.counter_increment` / `counter_decrement` are regenerated from
`internal/connlimiter/counter.go` on every run (`extract/tr.go`).  The theorems below show that they
coincide with `Agd.ConnLimit.Counter.increment` / `decrement`, the definitions every C18 theorem
is about, on every model state (all `uint64` values of the three numeric fields, wrap-around of
`current++` / `current--` included).  A semantic change of the two Go methods changes the generated
definitions and these proofs stop checking.
-/
namespace Agd.Tie.TrC18
open Agd.Gen.TrC18 Agd.TrPrelude Agd.ConnLimit

/-- No function of the translation list was skipped. -/
theorem translation_complete : translationFailures = [] := by decide

/-- A model state as a state of the translated code. -/
def fromModel (m : Counter) : S_connlimiter_counter :=
  { current := m.current, stop := m.stop, resume := m.resume, isAccepting := m.accepting }

theorem increment_tr (m : Counter) :
    counter_increment (fromModel m) = (fromModel (m.increment).1, (m.increment).2) := by
  unfold counter_increment Counter.increment fromModel goWrapU
  cases hacc : m.accepting
  · simp [hacc]
  · simp only [Bool.not_true, Bool.false_eq_true, ↓reduceIte]
    unfold two64 at *
    have e : ((m.current : Int) + 1) % 18446744073709551616 =
        (((m.current + 1) % 18446744073709551616 : Nat) : Int) := by omega
    simp only [e]
    congr 2
    simp only [decide_eq_decide]
    omega

theorem decrement_tr (m : Counter) (h : m.current < two64) :
    counter_decrement (fromModel m) = fromModel m.decrement := by
  have e : ((m.current : Int) - 1) % 18446744073709551616 =
      (((m.current + two64 - 1) % two64 : Nat) : Int) := by unfold two64 at *; omega
  unfold counter_decrement Counter.decrement fromModel goWrapU
  simp only []
  rw [e, S_connlimiter_counter.mk.injEq]
  refine ⟨Eq.refl _, Eq.refl _, Eq.refl _, ?_⟩
  have : (decide ((((m.current + two64 - 1) % two64 : Nat) : Int) ≤ (m.resume : Int))) =
      decide ((m.current + two64 - 1) % two64 ≤ m.resume) := by
    simp only [decide_eq_decide]; omega
  rw [this]

/-- Non-vacuity: both sides on a concrete counter (2 of 3 slots in use; then a release at 0). -/
example : counter_increment (fromModel ⟨2, 3, 1, true⟩) = (fromModel ⟨3, 3, 1, false⟩, true) := by
  simp [counter_increment, fromModel, goWrapU]

/-! ## The listener and connection wrappers (decision / effect structure)

`limitListener.decrement`, `Close`, `Accept` and `limitConn.Close` are translated with the mutex, the
condition variable, the gauges, the underlying listener / connection and the shared counter as opaque
calls whose order is the returned trace. -/

def names (tr : List (String × List String)) : List String := tr.map (·.1)

/-- Releasing a slot: under the lock, the counter is decremented and then *all* waiters are woken
(`Broadcast`, not `Signal`), and the lock is released last. -/
theorem decrement_broadcasts (l : S_connlimiter_limitListener) :
    names (listener_decrement l) = ["Lock", "Dec", "decrement", "Broadcast", "Unlock"] := by
  simp [listener_decrement, names]

/-- Closing a listener: a second close is refused without touching anything; the first one closes the
underlying listener, marks the listener closed and wakes every waiter, all under the lock. -/
theorem listener_close_releases_waiters (l : S_connlimiter_limitListener) (e : Option String) :
    (l.isClosed = true → listener_Close l e = (l, some "net.ErrClosed", [("Lock", []), ("Unlock", [])])) ∧
    (l.isClosed = false → (listener_Close l e).1.isClosed = true ∧ (listener_Close l e).2.1 = e ∧
      names (listener_Close l e).2.2 = ["Lock", "Close", "Broadcast", "Unlock"]) := by
  constructor <;> intro h <;> simp [listener_Close, h, names]

/-- `Accept`: a closed listener returns `net.ErrClosed` without accepting; otherwise a failed
underlying accept gives its slot back (one `decrement`), a successful one keeps it and hands out a
connection. -/
theorem accept_slot_accounting (l : S_connlimiter_limitListener) (u : Unit) (cx : AbsPtr) (closed : Bool)
    (a : AbsPtr × Option String) :
    let r := listener_Accept l u cx closed a
    (closed = true → r.1 = false ∧ r.2.1 = some "net.ErrClosed" ∧ "Accept" ∉ names r.2.2 ∧ "decrement" ∉ names r.2.2) ∧
    (closed = false → a.2 ≠ none → r.1 = false ∧ r.2.1 = a.2 ∧ (names r.2.2).count "decrement" = 1) ∧
    (closed = false → a.2 = none → r.1 = true ∧ r.2.1 = none ∧ "decrement" ∉ names r.2.2) := by
  cases closed <;> cases h : a.2 <;> simp [listener_Accept, h, names]

/-- A connection is released exactly once however often it is closed: the slot is given back iff this
call won the atomic `CompareAndSwap(false, true)`; every other call returns `net.ErrClosed` and touches
neither the connection nor the counter. -/
theorem conn_released_once (c : S_connlimiter_limitConn) (won : Bool) (e : Option String) (cx : AbsPtr) (life : Int) :
    let r := conn_Close c won e cx life
    (names r.2).head? = some "CompareAndSwap" ∧
    (won = false → r.1 = some "net.ErrClosed" ∧ "decrement" ∉ names r.2 ∧ "Close" ∉ names r.2) ∧
    (won = true → r.1 = e ∧ (names r.2).count "decrement" = 1 ∧ (names r.2).count "Close" = 1) := by
  cases won <;> simp [conn_Close, names]

end Agd.Tie.TrC18

#print axioms Agd.Tie.TrC18.translation_complete
#print axioms Agd.Tie.TrC18.increment_tr
#print axioms Agd.Tie.TrC18.decrement_tr
#print axioms Agd.Tie.TrC18.decrement_broadcasts
#print axioms Agd.Tie.TrC18.listener_close_releases_waiters
#print axioms Agd.Tie.TrC18.accept_slot_accounting
#print axioms Agd.Tie.TrC18.conn_released_once
