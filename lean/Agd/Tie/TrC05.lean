import Agd.Gen.TrC05
import Agd.Model.ECS
/-!
# C05: the ECS cache path as translated from the source

`Agd.Gen.TrC05.*` are regenerated from `internal/ecscache/{ecscache,cache,msg}.go`,
`internal/dnsmsg/dnsmsg.go` and `internal/dnssvc/internal/ratelimitmw/{requestinfo,ratelimitmw}.go`
on every run (`extract/tr.go`, symbolic mode).  Values of library types (`netip.Prefix`, `netip.Addr`,
`*dns.Msg`, caches, GeoIP) are *tokens* (`String`, `Option String` for nilable types); the results of
library calls are parameters; every definition returns the trace of the calls it makes, in order, with
their arguments.  The theorems quantify over all tokens and all call results.
-/
set_option linter.unusedSimpArgs false
set_option linter.unusedVariables false
namespace Agd.Tie.TrC05
open Agd.Gen.TrC05 Agd.TrPrelude

theorem translation_complete : translationFailures = [] := by decide

abbrev Trace := List (String × List String)

/-- Names of the calls in a trace. -/
def names (tr : Trace) : List String := tr.map (·.1)

/-- Argument lists of the calls named `n`, in order. -/
def callsOf (n : String) (tr : Trace) : List (List String) := (tr.filter (·.1 == n)).map (·.2)

/-- `a` occurs, and some `b` occurs after its first occurrence. -/
def before (a b : String) (l : List String) : Bool := ((l.dropWhile (· != a)).drop 1).contains b

/-! ## `respIsECSDependent` -/

/-- The translated function is the hand model's `respIsECSDependent` (all scopes, all hosts, all
`FakeECSFQDNs` sets). -/
theorem respIsECSDependent_tr (env : Agd.ECS.Env) (scope host : Nat) (fqdn : String) :
    (respIsECSDependent (scope : Int) fqdn (env.fake host)).1 = Agd.ECS.respIsECSDependent env scope host := by
  unfold respIsECSDependent Agd.ECS.respIsECSDependent
  by_cases h : scope = 0
  · simp [h]
  · have : ¬ ((scope : Int) = 0) := by omega
    simp [h, this]

/-- Scope zero is never ECS-dependent, and the fake-ECS list is not even consulted. -/
theorem scope_zero_independent (fqdn : String) (has : Bool) :
    respIsECSDependent 0 fqdn has = (false, []) := by
  simp [respIsECSDependent]

example : (respIsECSDependent 24 "example.org." false).1 = true := by decide

/-! ## `locFromReq` -/

/-- Reading of a translated `geoip.Location` as the hand model's `Loc`, for encodings of the
country / subdivision strings as numbers. -/
def toLoc (cn sn : String → Nat) (l : S_geoip_Location) : Agd.ECS.Loc := ⟨cn l.Country, sn l.TopSubdivision, l.ASN.toNat⟩

/-- `locFromReq` is the hand model's `locFromReq`, for every request information and every encoding
of countries that maps exactly the empty string (`geoip.CountryNone`) to `0`. -/
theorem locFromReq_tr (cn sn : String → Nat) (hcn : ∀ s, cn s = 0 ↔ s = "") (hsn : sn "" = 0)
    (ri : S_agd_RequestInfo) :
    (locFromReq (some ri)).map (·.map (toLoc cn sn)) =
      some (some (Agd.ECS.locFromReq (ri.Location.map (toLoc cn sn))
        ((ri.ECS.bind (·.Location)).map (toLoc cn sn)))) := by
  have h0 : cn "" = 0 := (hcn "").2 rfl
  unfold locFromReq Agd.ECS.locFromReq toLoc
  cases hE : ri.ECS with
  | none =>
    cases hL : ri.Location with
    | none => simp [hE, hL, h0, hsn]
    | some l =>
      simp [hE, hL, h0, hsn]
  | some e =>
    cases hEL : e.Location with
    | none =>
      cases hL : ri.Location with
      | none => simp [hE, hL, hEL, h0, hsn]
      | some l => simp [hE, hL, hEL, h0, hsn]
    | some el =>
      cases hL : ri.Location with
      | none =>
        by_cases hc : el.Country = "" <;> simp [hE, hL, hEL, h0, hsn, hc, hcn]
      | some l =>
        by_cases hc : el.Country = "" <;> simp [hE, hL, hEL, h0, hsn, hc, hcn]

/-- `locFromReq` never panics on a non-nil request information and always returns a location. -/
theorem locFromReq_total (ri : S_agd_RequestInfo) : ∃ l, locFromReq (some ri) = some (some l) := by
  unfold locFromReq
  cases hE : ri.ECS with
  | none => cases hL : ri.Location <;> simp [hE, hL]
  | some e =>
    cases hEL : e.Location with
    | none => cases hL : ri.Location <;> simp [hE, hL, hEL]
    | some el =>
      cases hL : ri.Location <;> by_cases hc : el.Country = "" <;> simp [hE, hL, hEL, hc]


/-! ## `ecsFamFromReq` -/

/-- The family follows the address of the ECS option when there is one (`Is4` is asked about the
result of `ecs.Subnet.Addr()`), otherwise the remote address; `1` (IPv4) iff `Is4` says so. -/
theorem ecsFam_source (ri : S_agd_RequestInfo) (addr : String) (is4 : Bool) :
    ecsFamFromReq (some ri) addr is4 =
      some (if is4 then 1 else 2,
        match ri.ECS with
        | some e => [("Addr", [e.Subnet]), ("Is4", [addr])]
        | none => [("Is4", [ri.RemoteIP])]) := by
  unfold ecsFamFromReq
  cases hE : ri.ECS <;> cases is4 <;> simp [hE]

theorem ecsFam_total (ri : S_agd_RequestInfo) (addr : String) (is4 : Bool) :
    ecsFamFromReq (some ri) addr is4 ≠ none := by
  rw [ecsFam_source]; simp

/-! ## `dnsmsg.ecsData`: validation of one ECS option -/

/-- An option is accepted iff its family is 1 or 2, `netutil.IPToAddr` accepts the address, the
prefix is valid for the address and masking changes nothing; then the prefix built by
`netip.PrefixFrom` and the option's own scope are returned.  Otherwise an error and the zero prefix. -/
theorem ecsData_accepts (esn : Option String) (fam mask scope : Int) (ipr : String × Option String)
    (pfx masked : String) (valid : Bool) :
    let r := ecsData esn fam ipr mask pfx valid masked scope
    (r.2.2 = none ↔ ((fam = 1 ∨ fam = 2) ∧ ipr.2 = none ∧ valid = true ∧ masked = pfx)) ∧
    (r.2.2 = none → r.1 = pfx ∧ r.2.1 = scope) ∧
    (r.2.2 ≠ none → r.1 = "" ∧ r.2.1 = 0) := by
  unfold ecsData
  by_cases h1 : fam = 1 <;> by_cases h2 : fam = 2 <;> cases hi : ipr.2 <;> cases valid <;>
    by_cases hm : masked = pfx <;> simp [h1, h2, hi, hm]

example : (ecsData none 1 ("1.2.3.0", none) 24 "1.2.3.0/24" true "1.2.3.0/24" 0) = ("1.2.3.0/24", 0, none) := by decide
example : (ecsData none 1 ("1.2.3.4", none) 24 "1.2.3.4/24" true "1.2.3.0/24" 0).2.2 ≠ none := by decide

/-! ## `ratelimitmw.location`, `locationData`, `processLocationErr` -/

/-- `locationData` asks GeoIP about exactly the address it was given and returns that answer whether
or not GeoIP reported an error. -/
theorem locationData_lookup (mw : S_ratelimitmw_Middleware) (ctx : Option String) (ip typ : String)
    (d : Option S_geoip_Location × Option String) :
    Middleware_locationData mw ctx ip typ d = (d.1, [("Data", [toString mw.geoIP, "", ip])]) := by
  unfold Middleware_locationData
  cases h1 : d.2 <;> cases h2 : d.1 <;> simp [h1, h2]

/-- A malformed option: the error is returned with the client's own location and *no* ECS data; the
option's address is not looked up. -/
theorem location_malformed (mw : S_ratelimitmw_Middleware) (ctx req : Option String) (rip : String)
    (l1 l2 : Option S_geoip_Location) (sub : String) (sc : Int) (e : String) :
    let r := Middleware_location mw ctx req rip l1 (sub, sc, some e) l2
    r.1 = l1 ∧ r.2.1 = none ∧ r.2.2.1 ≠ none ∧
      callsOf "locationData" r.2.2.2 = [[toString ctx, rip, "client"]] := by
  simp [Middleware_location, callsOf]

/-- No option (the zero prefix): no ECS data; a valid option: its prefix and scope, with the location
of *the option's* address (`subnet.Addr()`), the client's location being that of the remote address. -/
theorem location_wellformed (mw : S_ratelimitmw_Middleware) (ctx req : Option String) (rip : String)
    (l1 l2 : Option S_geoip_Location) (sub : String) (sc : Int) :
    let r := Middleware_location mw ctx req rip l1 (sub, sc, none) l2
    r.1 = l1 ∧ r.2.2.1 = none ∧
    (sub = "" → r.2.1 = none ∧ callsOf "locationData" r.2.2.2 = [[toString ctx, rip, "client"]]) ∧
    (sub ≠ "" → r.2.1 = some ⟨l2, sub, sc⟩ ∧
      callsOf "locationData" r.2.2.2 = [[toString ctx, rip, "client"], [toString ctx, sub ++ ".Addr" ++ "(" ++ ")", "ecs"]]) := by
  by_cases h : sub = "" <;> simp [Middleware_location, callsOf, h]

/-- A `BadECSError` is answered with FORMERR (rcode 1) written to the client; any other error is
returned untouched and nothing is written. -/
theorem formerr_on_bad_ecs (mw : S_ratelimitmw_Middleware) (ctx rw req orig : Option String) (isBad : Bool)
    (resp werr ann wd : Option String) :
    let r := Middleware_processLocationErr mw ctx rw req orig isBad resp werr ann wd
    (isBad = true → callsOf "NewRespRCode" r.2 = [[toString req, toString (1 : Int)]] ∧
        callsOf "WriteMsg" r.2 = [[toString rw, toString ctx, toString req, toString resp]] ∧
        before "NewRespRCode" "WriteMsg" (names r.2) = true) ∧
    (isBad = false → r.1 = orig ∧ "WriteMsg" ∉ names r.2 ∧ "NewRespRCode" ∉ names r.2) := by
  cases isBad <;> simp [Middleware_processLocationErr, callsOf, names, before]

end Agd.Tie.TrC05
